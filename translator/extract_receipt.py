#!/usr/bin/env python3
"""
Translator for Port::handle_announce_receipt_timer (statime/src/port/mod.rs) ->
Generated/ReceiptTimer.lean: the early returns, the condition of the final if/else
(atoms: port state, instance slave_only, port master_only; !, &&, ||; top-level
`let x = <cond>;` bindings are substituted), and per branch the forced state and the
timer actions, as RcptGen.Table data.  Interpreter: Lemmas/ReceiptGen.lean; theorem:
Props/C08.lean (generated_receipt_timer_is_model).  Unrecognised -> none + DEGRADED.
"""
import re
from extract_cmp import strip_comments, fn_body, block_at

ST = {"Faulty": "faulty", "Listening": "listening", "Master": "master", "Passive": "passive"}
ATOMS = {"self.instance_state.with_ref(|state|state.default_ds.slave_only)": ".slaveOnly",
         "self.config.master_only": ".masterOnly"}
ACTS = {"PortAction::ResetAnnounceReceiptTimer{duration}": ".receiptRand",
        "PortAction::ResetAnnounceTimer{duration:core::time::Duration::from_secs(0)}": ".announceZero",
        "PortAction::ResetSyncTimer{duration:core::time::Duration::from_secs(0)}": ".syncZero"}
RAND = "letduration=self.config.announce_duration(&mutself.rng);"


def split_top(s, op):
    out, depth, cur, i = [], 0, "", 0
    while i < len(s):
        ch = s[i]
        if ch in "({[": depth += 1
        elif ch in ")}]": depth -= 1
        if depth == 0 and s.startswith(op, i):
            out.append(cur); cur = ""; i += len(op); continue
        cur += ch; i += 1
    out.append(cur)
    return out


def cond(e, env):
    e = e.strip()
    parts = split_top(e, "||")
    if len(parts) > 1:
        cs = [cond(p, env) for p in parts]
        if any(c is None for c in cs): return None
        r = cs[0]
        for c in cs[1:]: r = f"(.or {r} {c})"
        return r
    parts = split_top(e, "&&")
    if len(parts) > 1:
        cs = [cond(p, env) for p in parts]
        if any(c is None for c in cs): return None
        r = cs[0]
        for c in cs[1:]: r = f"(.and {r} {c})"
        return r
    m = re.fullmatch(r"matches!\(self\.port_state,PortState::(\w+)\)", e)
    if m and m.group(1) in ST: return f"(.stateIs .{ST[m.group(1)]})"
    if e.startswith("!"):
        c = cond(e[1:], env)
        return f"(.not {c})" if c else None
    if e.startswith("(") and e.endswith(")") and len(split_top(e[1:-1], "\0")) == 1 and block_at("{" + e[1:-1] + "}", 0) is not None:
        return cond(e[1:-1], env)
    if e in ATOMS: return ATOMS[e]
    if e in env: return env[e]
    return None


def branch(b):
    """squashed branch body -> RcptGen.Branch or None"""
    force = "none"
    m = re.match(r"if!matches!\(self\.port_state,PortState::(\w+)\)\{self\.set_forced_port_state\(PortState::(\w+)\);\}", b)
    if not m:
        m = re.match(r"matchself\.port_state\{PortState::(\w+)=>\(\),_=>self\.set_forced_port_state\(PortState::(\w+)\),\}", b)
    if m:
        if m.group(1) != m.group(2) or m.group(1) not in ST: return None
        force = f"(some .{ST[m.group(1)]})"; b = b[m.end():]
    has_rand = False
    if b.startswith(RAND):
        has_rand = True; b = b[len(RAND):]
    m = re.fullmatch(r"(?:return)?actions!\[(.*)\];?", b)
    if not m: return None
    acts = []
    for a in split_top(m.group(1), ","):
        if a == "": continue
        if a not in ACTS: return None
        if ACTS[a] == ".receiptRand" and not has_rand: return None
        acts.append(ACTS[a])
    return "{ force := " + force + ", acts := [" + ", ".join(acts) + "] }"


def translate(src):
    b = re.sub(r"\s+", "", fn_body(src, "handle_announce_receipt_timer"))
    env, early = {}, []
    while True:
        m = re.match(r"let(\w+)=", b)
        if m and not b.startswith(RAND):
            parts = split_top(b[m.end():], ";")
            c = cond(parts[0], env)
            if c is None: return None
            env[m.group(1)] = c; b = b[m.end() + len(parts[0]) + 1:]
            continue
        m = re.match(r"if(.*?)\{", b)
        if not m: return None
        # condition text up to the brace that opens the block (conditions contain no braces except closures' none)
        i = m.end() - 1
        body = block_at(b, i)
        if body is None: return None
        after = b[i + len(body) + 2:]
        c = cond(m.group(1), env)
        if c is None: return None
        if after.startswith("else{"):
            eb = block_at(after, len("else"))
            if eb is None or after[len("else") + len(eb) + 2:] != "": return None
            tb, fb = branch(body), branch(eb)
            if tb is None or fb is None or "return" in body or "return" in eb: return None
            return ("{\n    early := [" + ", ".join(f"({c0}, {b0})" for c0, b0 in early) + "],\n    cond := " + c +
                    ",\n    thenB := " + tb + ",\n    elseB := " + fb + " }")
        if "returnactions!" not in body: return None
        br = branch(body)
        if br is None: return None
        early.append((c, br)); b = after


def run(read, write, degraded):
    src = strip_comments(read("statime/src/port/mod.rs")).split("#[cfg(test)]")[0]
    try:
        t = translate(src)
    except Exception:
        t = None
    if t is None: degraded.append("receipt-timer-handler")
    L = ["/- GENERATED by translator/extract_receipt.py from /repo — do not edit -/",
         "import StatimeModel.Lemmas.ReceiptGen", "namespace Statime.Generated", "open Statime Statime.RcptGen", "",
         "def receiptTimerTable : Option Table := " + ("none" if t is None else "some " + t),
         "", "end Statime.Generated", ""]
    write("ReceiptTimer.lean", "\n".join(L))
