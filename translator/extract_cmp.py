#!/usr/bin/env python3
"""
Translator for statime/src/bmc/dataset_comparison.rs -> Generated/DatasetComparison.lean.

The data set comparison is small and regular enough to be translated as a whole:
the `then_with` chain of compare_different_identity, every arm of the match in
compare_same_identity, the dispatch in compare, the table of as_ordering and the
field assignments of from_announce_message / from_own_data become Lean *data*
(Statime.CmpGen.Field / Arm / Body / Src), whose interpreter lives in
Lemmas/CmpGen.lean.  Props/C05.lean proves that the interpretation of what was
extracted on this run equals the hand-written model for all inputs.

A construct the parser does not recognise yields `none` for that item and a
DEGRADED line (the correspondence streams still cover it); it is never guessed.
"""
import re

FIELDS = {
    "gm_priority_1": "gmP1", "clock_class": "gmClass", "clock_accuracy": "gmAcc",
    "offset_scaled_log_variance": "gmVar", "gm_priority_2": "gmP2", "gm_identity": "gmId",
    "steps_removed": "steps", "identity_of_senders": "sender",
    "identity_of_receiver.clock_identity": "recvClock", "identity_of_receiver.port_number": "recvPort",
}
DORD = {"Better": "better", "BetterByTopology": "betterTopo", "Error1": "error1", "Error2": "error2",
        "WorseByTopology": "worseTopo", "Worse": "worse"}
ANNF = {"grandmaster_priority_1": "p1", "grandmaster_identity": "gm", "grandmaster_clock_quality.clock_class": "clockClass",
        "grandmaster_clock_quality.clock_accuracy": "accuracy", "grandmaster_clock_quality.offset_scaled_log_variance": "variance",
        "grandmaster_priority_2": "p2", "steps_removed": "steps"}
OWNF = {"priority_1": "p1", "priority_2": "p2", "clock_identity": "clockIdentity", "clock_quality.clock_class": "clockClass",
        "clock_quality.clock_accuracy": "accuracy", "clock_quality.offset_scaled_log_variance": "variance"}
ORD = {"Less": "lt", "Equal": "eq", "Greater": "gt"}


def strip_comments(s):
    return re.sub(r"//[^\n]*", "", s)


def fn_body(src, name):
    m = re.search(r"fn\s+" + name + r"\s*\(", src)
    if not m:
        return None
    i = src.find("{", m.end())
    return block_at(src, i)


def block_at(src, i):
    """text between the brace at i and its partner"""
    depth = 0
    for j in range(i, len(src)):
        if src[j] == "{":
            depth += 1
        elif src[j] == "}":
            depth -= 1
            if depth == 0:
                return src[i + 1:j]
    return None


def split_arms(body):
    """top-level `pat => expr,` arms of a match body"""
    arms, depth, cur = [], 0, ""
    for ch in body:
        if ch in "{(":
            depth += 1
        elif ch in "})":
            depth -= 1
        if ch == "," and depth == 0:
            if cur.strip():
                arms.append(cur.strip())
            cur = ""
        else:
            cur += ch
            if ch == "}" and depth == 0 and "=>" in cur:
                arms.append(cur.strip()); cur = ""
    if cur.strip():
        arms.append(cur.strip())
    out = []
    for a in arms:
        if "=>" not in a:
            return None
        p, e = a.split("=>", 1)
        out.append((p.strip(), e.strip()))
    return out


def ord_arms(body):
    """{Ordering::Less => DatasetOrdering::X, ...} -> dict lt/eq/gt -> dord"""
    arms = split_arms(body)
    if arms is None:
        return None
    res = {}
    for p, e in arms:
        mp = re.fullmatch(r"Ordering::(\w+)", p)
        me = re.fullmatch(r"DatasetOrdering::(\w+)", e)
        if not mp or mp.group(1) not in ORD:
            return None
        if me and me.group(1) in DORD:
            res[ORD[mp.group(1)]] = DORD[me.group(1)]
        elif e.startswith("unreachable!"):
            res[ORD[mp.group(1)]] = None
        else:
            return None
    return res


def operand(txt):
    """&self.identity_of_receiver.clock_identity -> (side, Field)"""
    m = re.fullmatch(r"&?\s*(self|other)\.([\w.]+)", txt.strip())
    if not m or m.group(2) not in FIELDS:
        return None
    return (m.group(1), FIELDS[m.group(2)])


def parse_body(expr):
    expr = expr.strip()
    m = re.fullmatch(r"DatasetOrdering::(\w+)", expr)
    if m and m.group(1) in DORD:
        return f".const .{DORD[m.group(1)]}"
    m = re.match(r"match\s+Ord::cmp\(\s*([^,]+),\s*([^,)]+),?\s*\)\s*\{", expr, re.S)
    if m:
        l, r = operand(m.group(1)), operand(m.group(2))
        res = ord_arms(block_at(expr, m.end() - 1))
        if not l or not r or not res or any(res.get(k) is None for k in ("lt", "eq", "gt")):
            return None
        return f".cmp .{l[0]} .{l[1]} .{r[0]} .{r[1]} .{res['lt']} .{res['eq']} .{res['gt']}"
    if expr.startswith("{"):
        inner = block_at(expr, 0)
        lets = {}
        for lm in re.finditer(r"let\s+(\w+)\s*=\s*(.*?);", inner, re.S):
            rhs = re.sub(r"\s+", " ", lm.group(2)).strip()
            k = re.fullmatch(r"self\.([\w.]+)\.cmp\(&other\.([\w.]+)\)", rhs) or \
                re.fullmatch(r"Ord::cmp\( ?&self\.([\w.]+), ?&other\.([\w.]+),? ?\)", rhs)
            if not k or k.group(1) != k.group(2) or k.group(1) not in FIELDS:
                return None
            lets[lm.group(1)] = FIELDS[k.group(1)]
        mm = re.search(r"match\s+(\w+)((?:\.then\(\w+\))*)\s*\{", inner)
        if not mm:
            return None
        names = [mm.group(1)] + re.findall(r"\.then\((\w+)\)", mm.group(2))
        if any(n not in lets for n in names):
            return None
        res = ord_arms(block_at(inner, mm.end() - 1))
        if not res or any(res.get(k) is None for k in ("lt", "eq", "gt")):
            return None
        keys = ", ".join("." + lets[n] for n in names)
        return f".lex [{keys}] .{res['lt']} .{res['eq']} .{res['gt']}"
    return None


def bound(t):
    t = t.strip()
    if t in ("i32::MIN", "i32::MAX"):
        return "none"
    if re.fullmatch(r"-?\d+", t):
        return f"some ({t})"
    return None


def parse_pattern(p):
    if p == "_":
        return ("none", "none")
    m = re.fullmatch(r"(.+?)\.\.=(.+)", p)
    if m:
        lo, hi = bound(m.group(1)), bound(m.group(2))
        return (lo, hi) if lo and hi else None
    b = bound(p)
    return (b, b) if b and b != "none" else None


def run(read, write, degraded):
    src = strip_comments(read("statime/src/bmc/dataset_comparison.rs"))
    # cut the test module: only shipped code is translated
    src = src.split("#[cfg(test)]")[0]
    L = ["/- GENERATED by translator/extract_cmp.py from /repo — do not edit -/",
         "import StatimeModel.Lemmas.CmpGen", "namespace Statime.Generated", "open Statime Statime.CmpGen", ""]

    # --- compare: dispatch
    b = fn_body(src, "compare")
    disp = None
    if b:
        m = re.search(r"if\s+self\.(\w+)\s*==\s*other\.(\w+)\s*\{\s*Self::compare_same_identity\(self,\s*other\)\s*\}"
                      r"\s*else\s*\{\s*Self::compare_different_identity\(self,\s*other\)\s*\}", b)
        if m and m.group(1) == m.group(2) and m.group(1) in FIELDS:
            disp = FIELDS[m.group(1)]
    if not disp: degraded.append("cmp-dispatch")
    L.append("def cmpDispatch : Option Field := " + (f"some .{disp}" if disp else "none"))

    # --- compare_different_identity: chain and result arms
    b = fn_body(src, "compare_different_identity")
    chain = None; res = None
    if b:
        alias = dict((m.group(1), m.group(2)) for m in re.finditer(r"let\s+(\w+)\s*=\s*(self|other)\.gm_clock_quality\s*;", b))
        m = re.search(r"let\s+ordering\s*=\s*(.*?);\s*match\s+ordering\s*\{", b, re.S)
        if m:
            expr = m.group(1)
            links = re.findall(r"(\w+)\.(\w+)\.(cmp_numeric|cmp)\(\s*&(\w+)\.(\w+)\s*\)", expr)
            n_links = len(re.findall(r"\.cmp(?:_numeric)?\(", expr))
            ok = len(links) == n_links and n_links == expr.count("then_with") + 1
            chain = []
            for (lo, lf, _, ro, rf) in links:
                ls = alias.get(lo, lo); rs = alias.get(ro, ro)
                if ls != "self" or rs != "other" or lf != rf or lf not in FIELDS:
                    ok = False
                chain.append(FIELDS.get(lf, "?"))
            if not ok: chain = None
            res = ord_arms(block_at(b, m.end() - 1))
            if res is None or res.get("lt") is None or res.get("gt") is None or res.get("eq", 0) is not None:
                res = None
    if chain is None or res is None: degraded.append("cmp-figure34")
    L.append("def figure34Chain : Option (List Field) := " + ("none" if chain is None else "some [" + ", ".join("." + f for f in chain) + "]"))
    L.append("def figure34Arms : Option (DOrd × DOrd) := " + ("none" if res is None else f"some (.{res['lt']}, .{res['gt']})"))
    # clock accuracy is compared by its octet
    acc = strip_comments(read("statime/src/datastructures/common/clock_accuracy.rs"))
    ab = fn_body(acc, "cmp_numeric")
    abq = re.sub(r"\s+", "", ab or "")
    numeric = {"self.to_primitive().cmp(&other.to_primitive())": "some true",
               "other.to_primitive().cmp(&self.to_primitive())": "some false"}.get(abq, "none")
    if numeric == "none": degraded.append("cmp-accuracy-numeric")
    L.append("def accuracyComparedByOctet : Option Bool := " + numeric)

    # --- compare_same_identity
    b = fn_body(src, "compare_same_identity")
    arms = None
    if b:
        md = re.search(r"let\s+steps_removed_difference\s*=\s*self\.steps_removed\s+as\s+i32\s*-\s*other\.steps_removed\s+as\s+i32\s*;", b)
        mm = re.search(r"match\s+steps_removed_difference\s*\{", b)
        if md and mm:
            parsed = split_arms(block_at(b, mm.end() - 1))
            if parsed is not None:
                arms = []
                for p, e in parsed:
                    pr, bd = parse_pattern(p), parse_body(e)
                    if pr is None or bd is None:
                        arms = None; break
                    arms.append(f"⟨{pr[0]}, {pr[1]}, {bd}⟩")
    if arms is None: degraded.append("cmp-figure35")
    L.append("def figure35Arms : Option (List Arm) := " + ("none" if arms is None else "some [\n    " + ",\n    ".join(arms) + "]"))

    # --- as_ordering
    b = fn_body(src, "as_ordering")
    tbl = None
    if b:
        mm = re.search(r"match\s+self\s*\{", b)
        parsed = split_arms(block_at(b, mm.end() - 1)) if mm else None
        if parsed is not None:
            tbl = []
            for p, e in parsed:
                me = re.fullmatch(r"Ordering::(\w+)", e)
                alts = [re.fullmatch(r"DatasetOrdering::(\w+)", a.strip()) for a in p.split("|")]
                if not me or me.group(1) not in ORD or any(a is None or a.group(1) not in DORD for a in alts):
                    tbl = None; break
                tbl += [f"(.{DORD[a.group(1)]}, .{ORD[me.group(1)]})" for a in alts]
    if tbl is None: degraded.append("cmp-as-ordering")
    L.append("def asOrderingTable : Option (List (DOrd × Ordering)) := " + ("none" if tbl is None else "some [" + ", ".join(tbl) + "]"))

    # --- constructors
    def ctor(fn, conv):
        b = fn_body(src, fn)
        if not b: return None
        m = re.search(r"Self\s*\{", b)
        if not m: return None
        inner = block_at(b, m.end() - 1)
        out = []
        flat = re.sub(r"\s+", " ", inner)
        # nested PortIdentity { clock_identity: X, port_number: Y, }
        nm = re.search(r"identity_of_receiver: PortIdentity \{ clock_identity: ([\w.]+), port_number: ([\w.]+),? \}", flat)
        if nm:
            flat = flat.replace(nm.group(0), "")
            for f, v in (("recvClock", nm.group(1)), ("recvPort", nm.group(2))):
                s = conv(v)
                if s is None: return None
                out.append(f"(.{f}, {s})")
        for fm in re.finditer(r"(\w+): ([^,]+),", flat):
            name, v = fm.group(1), fm.group(2).strip()
            if name == "identity_of_receiver" and v == "*port_receiver_identity":
                out += ["(.recvClock, .receiverClock)", "(.recvPort, .receiverPort)"]; continue
            if name == "gm_clock_quality":
                base = conv(v, quality=True)
                if base is None: return None
                out += [f"(.{FIELDS[q]}, {base(q)})" for q in ("clock_class", "clock_accuracy", "offset_scaled_log_variance")]
                continue
            if name not in FIELDS: return None
            s = conv(v)
            if s is None: return None
            out.append(f"(.{FIELDS[name]}, {s})")
        return out

    def conv_ann(v, quality=False):
        if quality:
            m = re.fullmatch(r"message\.(\w+)", v)
            return (lambda q: ".annBody ." + ANNF[f"{m.group(1)}.{q}"]) if m and f"{m.group(1)}.clock_class" in ANNF else None
        if v == "message.header.source_port_identity.clock_identity": return ".annSender"
        m = re.fullmatch(r"message\.(\w+)", v)
        return ".annBody ." + ANNF[m.group(1)] if m and m.group(1) in ANNF else None

    def conv_own(v, quality=False):
        if quality:
            return (lambda q: ".own ." + OWNF["clock_quality." + q]) if v == "data.clock_quality" else None
        if v == "0": return ".zero"
        m = re.fullmatch(r"data\.(\w+)", v)
        return ".own ." + OWNF[m.group(1)] if m and m.group(1) in OWNF else None

    for nm, fn, conv in (("ofAnnounceTable", "from_announce_message", conv_ann), ("ofOwnTable", "from_own_data", conv_own)):
        t = ctor(fn, conv)
        if t is None: degraded.append("cmp-" + fn)
        L.append(f"def {nm} : Option (List (Field × Src)) := " + ("none" if t is None else "some [" + ", ".join(t) + "]"))

    L += ["", "end Statime.Generated", ""]
    write("DatasetComparison.lean", "\n".join(L))
