#!/usr/bin/env python3
"""
Translator for Port<InBmca>::set_recommended_port_state (statime/src/port/bmca.rs) ->
Generated/PortMove.lean: per decision code group (S1 / M1,M2,M3 / P1,P2) and per current
port state, whether the port moves, where to, and which timer actions become pending, as
MoveGen.Table data.  Interpreter: Lemmas/PortMoveGen.lean; theorem: Props/C05.lean
(generated_port_move_is_model).  Unrecognised shapes -> none + DEGRADED.
"""
import re
from extract_cmp import strip_comments, fn_body, block_at, split_arms

SK = {"Faulty": "faulty", "Listening": "listening", "Master": "master", "Passive": "passive", "Slave": "slave"}
TGT = {"Listening": "listening", "Master": "master", "Passive": "passive"}
RAND = "self.config.announce_duration(&mutself.rng)"
ZEROS = ("core::time::Duration::from_secs(0)", "core::time::Duration::ZERO")
TIMERS = {"ResetAnnounceReceiptTimer": "receipt", "ResetAnnounceTimer": "announce", "ResetSyncTimer": "sync",
          "ResetDelayRequestTimer": "delay"}
ACT = {("receipt", "rand"): ".receiptRand", ("announce", "zero"): ".announceZero", ("sync", "zero"): ".syncZero",
       ("delay", "zero"): ".delayZero"}


def pats(p):
    out = []
    for a in p.split("|"):
        m = re.fullmatch(r"PortState::(\w+)(?:\(\w+\))?", a)
        if not m or m.group(1) not in SK: return None
        out.append(SK[m.group(1)])
    return out


def stmts(b):
    out, depth, cur = [], 0, ""
    for ch in b:
        if ch in "({[": depth += 1
        elif ch in ")}]": depth -= 1
        if ch == ";" and depth == 0:
            out.append(cur); cur = ""
        else:
            cur += ch
    if cur: out.append(cur)
    return out


def action(expr, env):
    m = re.fullmatch(r"PortAction::(\w+)\{duration(?::([^}]*?))?,?\}", expr)
    if not m or m.group(1) not in TIMERS: return None
    d = m.group(2)
    if d is None: dur = env.get("duration")
    elif d == RAND: dur = "rand"
    elif d in ZEROS: dur = "zero"
    else: dur = env.get(d)
    return ACT.get((TIMERS[m.group(1)], dur))


def pending(ss):
    """statements after the forced state -> lean `some [..]` / `none`, or None if unrecognised"""
    env, acts = {}, {}
    pend = "none"
    for s in ss:
        m = re.fullmatch(r"let(\w+)=(.*)", s)
        if m:
            v = m.group(2)
            if v == RAND: env[m.group(1)] = "rand"
            elif v in ZEROS: env[m.group(1)] = "zero"
            else:
                a = action(v, env)
                if a is None: return None
                acts[m.group(1)] = a
            continue
        m = re.fullmatch(r"self\.lifecycle\.pending_action=actions!\[(.*)\]", s)
        if m:
            items = []
            depth, cur = 0, ""
            for ch in m.group(1):
                if ch in "({[": depth += 1
                elif ch in ")}]": depth -= 1
                if ch == "," and depth == 0:
                    items.append(cur); cur = ""
                else: cur += ch
            if cur: items.append(cur)
            res = []
            for it in items:
                a = acts.get(it) or action(it, env)
                if a is None: return None
                res.append(a)
            pend = "(some [" + ", ".join(res) + "])"
            continue
        return None
    return pend


def move(body):
    b = body
    if b in ("{}", "()"): return ".stay"
    if b.startswith("{"): b = block_at(b, 0)
    ss = stmts(b)
    if not ss: return ".stay"
    m = re.fullmatch(r"self\.set_forced_port_state\(PortState::(\w+)\)", ss[0])
    if not m or m.group(1) not in TGT: return None
    pd = pending(ss[1:])
    if pd is None: return None
    return f"(.go .{TGT[m.group(1)]} {pd})"


def state_match(expr):
    """`match self.port_state { ... }` -> list of (sk, move) or None"""
    m = re.fullmatch(r"match&?self\.port_state\{(.*)\}", expr, re.S)
    if not m: return None
    arms = split_arms(m.group(1))
    if arms is None: return None
    out = []
    for p, e in arms:
        ps, mv = pats(p), move(e)
        if ps is None or mv is None: return None
        out += [(k, mv) for k in ps]
    # first matching arm wins (as in Rust); every state must be covered
    return out if set(k for k, _ in out) == set(SK.values()) else None


def lst(arms):
    return "[" + ", ".join(f"(.{k}, {v})" for k, v in arms) + "]"


def translate(src):
    impl = src[src.index("fn set_recommended_port_state"):]
    b = re.sub(r"\s+", "", fn_body(impl, "set_recommended_port_state"))
    m = re.fullmatch(r"matchrecommended_state\{(.*)\}", b, re.S)
    if not m: return None
    arms = split_arms(m.group(1))
    if arms is None or len(arms) != 3: return None
    groups = {}
    for p, e in arms:
        codes = tuple(sorted(re.findall(r"RecommendedState::(\w+)\(", p)))
        groups[codes] = (p, e)
    if set(groups) != {("S1",), ("M1", "M2", "M3"), ("P1", "P2")}: return None
    # --- S1
    p, e = groups[("S1",)]
    v = re.fullmatch(r"RecommendedState::S1\((\w+)\)", p)
    if not v: return None
    m = re.fullmatch(
        r"\{debug_assert!\(!self\.config\.master_only\);letremote_master=" + v.group(1) + r"\.header\.source_port_identity;"
        r"letupdate_state=match&self\.port_state\{(.*?)\};ifupdate_state\{letstate=PortState::Slave\(SlaveState::new\(remote_master\)\);"
        r"self\.set_forced_port_state\(state\);(.*)\}\}", e, re.S)
    if not m: return None
    s1 = []
    ua = split_arms(m.group(1))
    if ua is None: return None
    for pp, ee in ua:
        ps = pats(pp)
        if ps is None: return None
        if ee in ("true", "false"):
            u = ".yes" if ee == "true" else ".no"
        elif re.fullmatch(r"(\w+)\.remote_master\(\)!=remote_master", ee) and ps == ["slave"]:
            u = ".ifOther"
        else:
            return None
        s1 += [(k, u) for k in ps]
    if set(k for k, _ in s1) != set(SK.values()): return None
    pd = pending(stmts(m.group(2)))
    if pd is None or pd == "none": return None
    s1p = pd[len("(some "):-1]
    # --- M1 | M2 | M3
    _, e = groups[("M1", "M2", "M3")]
    m = re.fullmatch(r"\{ifdefault_ds\.slave_only\{(.*)\}elseifself\.multiport_disable\.is_some\(\)\{"
                     r"if!matches!\(self\.port_state,([\w:|]+)\)\{self\.set_forced_port_state\(PortState::(\w+)\);\}\}else\{(.*)\}\}", e, re.S)
    if not m: return None
    so, el = state_match(m.group(1)), state_match(m.group(4))
    stay = pats(m.group(2))
    if so is None or el is None or stay is None or m.group(3) not in TGT: return None
    # --- P1 | P2
    _, e = groups[("P1", "P2")]
    pa = state_match(e)
    if pa is None: return None
    return ("{\n    s1 := " + lst(s1) + ",\n    s1Pending := " + s1p + ",\n    mSlaveOnly := " + lst(so) +
            ",\n    mMultiStay := [" + ", ".join("." + k for k in stay) + "],\n    mMultiTarget := ." + TGT[m.group(3)] +
            ",\n    mElse := " + lst(el) + ",\n    p := " + lst(pa) + " }")


def run(read, write, degraded):
    src = strip_comments(re.sub(r"/\*.*?\*/", "", read("statime/src/port/bmca.rs"), flags=re.S)).split("#[cfg(test)]")[0]
    try:
        t = translate(src)
    except Exception:
        t = None
    if t is None: degraded.append("set-recommended-port-state")
    L = ["/- GENERATED by translator/extract_portmove.py from /repo — do not edit -/",
         "import StatimeModel.Lemmas.PortMoveGen", "namespace Statime.Generated", "open Statime Statime.MoveGen", "",
         "def portMoveTable : Option Table := " + ("none" if t is None else "some " + t),
         "", "end Statime.Generated", ""]
    write("PortMove.lean", "\n".join(L))
