#!/usr/bin/env python3
"""
Translator for Message::announce (statime/src/datastructures/messages/mod.rs) ->
Generated/AnnounceCtor.lean: which data set member every header flag and every body
field of an emitted Announce is taken from, as Lean data (AnnGen.FlagF/FlagSrc,
BodyF/BodySrc).  Interpreter: Lemmas/AnnounceGen.lean; theorem: Props/C11.lean
(generated_announce_is_model).  Unrecognised shapes -> none + DEGRADED.
"""
import re
from extract_cmp import strip_comments, fn_body, block_at

FLAGF = {"alternate_master_flag": "alternateMaster", "two_step_flag": "twoStep", "unicast_flag": "unicast",
         "ptp_profile_specific_1": "profile1", "ptp_profile_specific_2": "profile2", "leap61": "leap61", "leap59": "leap59",
         "current_utc_offset_valid": "utcValid", "ptp_timescale": "ptpTimescale", "time_tracable": "timeTraceable",
         "frequency_tracable": "freqTraceable", "synchronization_uncertain": "syncUncertain"}
FLAGSRC = {"time_properties_ds.leap_indicator==LeapIndicator::Leap59": ".leapIs59",
           "time_properties_ds.leap_indicator==LeapIndicator::Leap61": ".leapIs61",
           "time_properties_ds.current_utc_offset.is_some()": ".utcIsSome",
           "time_properties_ds.ptp_timescale": ".tpPtpTimescale", "time_properties_ds.time_traceable": ".tpTimeTraceable",
           "time_properties_ds.frequency_traceable": ".tpFreqTraceable", "true": "(.lit true)", "false": "(.lit false)"}
BODYF = {"origin_timestamp": "origin", "current_utc_offset": "utcOffset", "grandmaster_priority_1": "p1",
         "grandmaster_clock_quality": "quality", "grandmaster_priority_2": "p2", "grandmaster_identity": "gm",
         "steps_removed": "steps", "time_source": "timeSource"}
BODYSRC = {"Default::default()": ".dflt", "time_properties_ds.current_utc_offset.unwrap_or_default()": ".utcOrDefault",
           "global.parent_ds.grandmaster_priority_1": ".parentP1", "global.parent_ds.grandmaster_clock_quality": ".parentQuality",
           "global.parent_ds.grandmaster_priority_2": ".parentP2", "global.parent_ds.grandmaster_identity": ".parentGm",
           "global.current_ds.steps_removed": ".currentSteps", "time_properties_ds.time_source": ".tpTimeSource"}


def assigns(inner):
    """squashed `a:expr,b:expr,` (no nested braces) -> list of (name, expr)"""
    out, depth, cur = [], 0, ""
    for ch in inner:
        if ch in "({": depth += 1
        elif ch in ")}": depth -= 1
        if ch == "," and depth == 0:
            if cur: out.append(cur)
            cur = ""
        else:
            cur += ch
    if cur: out.append(cur)
    res = []
    for a in out:
        if a.startswith(".."):
            res.append(("..", a[2:])); continue
        if ":" not in a:
            res.append((a, a)); continue
        n, e = a.split(":", 1)
        res.append((n, e))
    return res


def run(read, write, degraded):
    src = strip_comments(read("statime/src/datastructures/messages/mod.rs")).split("#[cfg(test)]")[0]
    flags = body = None
    base_ok = False
    try:
        b = re.sub(r"\s+", "", fn_body(src, "announce"))
        ok = "lettime_properties_ds=&global.time_properties_ds;" in b
        mh = re.search(r"letheader=Header\{", b)
        mb = re.search(r"letbody=MessageBody::Announce\(AnnounceMessage\{", b)
        tail = re.search(r"Message\{header,body,suffix:TlvSet::default\(\),?\}$", b)
        if ok and mh and mb and tail:
            fl = []
            for n, e in assigns(block_at(b, mh.end() - 1)):
                if n == "..":
                    base_ok = e == "base_header(&global.default_ds,port_identity,sequence_id,minor_ptp_version,)" or \
                              e == "base_header(&global.default_ds,port_identity,sequence_id,minor_ptp_version)"
                    continue
                if n not in FLAGF or e not in FLAGSRC:
                    fl = None; break
                fl.append(f"(.{FLAGF[n]}, {FLAGSRC[e]})")
            flags = fl
            bd = []
            for n, e in assigns(block_at(b, mb.end() - 1)):
                if n == "header" and e == "header":
                    continue
                if n not in BODYF or e not in BODYSRC:
                    bd = None; break
                bd.append(f"(.{BODYF[n]}, {BODYSRC[e]})")
            body = bd
        # base_header itself: sdo, domain, identity, sequence id from its arguments, the rest from Header::new(minor)
        bh = re.sub(r"\s+", "", fn_body(src, "base_header"))
        base_ok = base_ok and bh == ("Header{sdo_id:default_ds.sdo_id,domain_number:default_ds.domain_number,"
                                     "source_port_identity:port_identity,sequence_id,..Header::new(minor_ptp_version)}")
    except Exception:
        flags = body = None
    if flags is None or body is None: degraded.append("announce-ctor")
    if not base_ok: degraded.append("announce-base-header")
    # --- receiving side: AnnounceMessage::time_properties
    tp = None
    try:
        asrc = strip_comments(read("statime/src/datastructures/messages/announce.rs")).split("#[cfg(test)]")[0]
        t = re.sub(r"\s+", "", fn_body(asrc, "time_properties"))
        LEAP = {"NoLeap": ".none", "Leap59": ".leap59", "Leap61": ".leap61"}
        m = re.fullmatch(
            r"letleap_indicator=((?:(?:else)?ifself\.header\.\w+\{LeapIndicator::\w+\})+)else\{LeapIndicator::(\w+)\};"
            r"letcurrent_utc_offset=self\.header\.(\w+)\.then_some\(self\.(\w+)\);"
            r"TimePropertiesDS\{(.*)\}", t)
        if m:
            chain = re.findall(r"ifself\.header\.(\w+)\{LeapIndicator::(\w+)\}", m.group(1))
            fields = dict(assigns(m.group(5)))
            want = {"current_utc_offset": "current_utc_offset", "leap_indicator": "leap_indicator"}
            ok = all(f in FLAGF for f, _ in chain) and all(l in LEAP for _, l in chain) and m.group(2) in LEAP \
                and m.group(3) in FLAGF and set(fields) == {"current_utc_offset", "leap_indicator", "time_traceable",
                                                           "frequency_traceable", "ptp_timescale", "time_source"} \
                and all(fields[k] == v for k, v in want.items())
            hf = {}
            for k in ("time_traceable", "frequency_traceable", "ptp_timescale"):
                mm = re.fullmatch(r"self\.header\.(\w+)", fields.get(k, ""))
                if not mm or mm.group(1) not in FLAGF: ok = False
                else: hf[k] = FLAGF[mm.group(1)]
            if ok:
                tp = ("{ leapChain := [" + ", ".join(f"(.{FLAGF[f]}, {LEAP[l]})" for f, l in chain) + "], leapElse := " + LEAP[m.group(2)] +
                      f", utcGuard := .{FLAGF[m.group(3)]}, utcFromBody := " + ("true" if m.group(4) == "current_utc_offset" else "false") +
                      f", timeTraceable := .{hf['time_traceable']}, freqTraceable := .{hf['frequency_traceable']}, ptpTimescale := .{hf['ptp_timescale']}"
                      ", timeSourceFromBody := " + ("true" if fields["time_source"] == "self.time_source" else "false") + " }")
    except Exception:
        tp = None
    if tp is None: degraded.append("announce-time-properties")
    L = ["/- GENERATED by translator/extract_announce.py from /repo — do not edit -/",
         "import StatimeModel.Lemmas.AnnounceGen", "namespace Statime.Generated", "open Statime Statime.AnnGen", "",
         "def announceFlagTable : Option (List (FlagF × FlagSrc)) := " + ("none" if flags is None else "some [" + ", ".join(flags) + "]"),
         "def announceBodyTable : Option (List (BodyF × BodySrc)) := " + ("none" if body is None else "some [" + ", ".join(body) + "]"),
         "def announceBaseHeaderAsModelled : Option Bool := " + ("some true" if base_ok else "none"),
         "def timePropertiesTable : Option TpTable := " + ("none" if tp is None else "some " + tp),
         "", "end Statime.Generated", ""]
    write("AnnounceCtor.lean", "\n".join(L))
