#!/usr/bin/env python3
"""
selftest.py — mutation self-test of the two whole-function translators
(extract_cmp.py: dataset_comparison.rs, extract_bmca.py: the state decision of bmca.rs).

For each mutant of the *source text* (never of /repo: the files are read, changed in memory
and translated into a scratch Lean file under a temporary directory) the `Translated`
section of Props/C05.lean is re-checked against the mutant's tables.
  - breaking mutants must make a theorem fail (or, if the parser does not recognise the
    new shape, degrade to `none`, which `generated_*_complete` then rejects);
  - meaning-preserving rewrites must still prove.
Exit 0 iff every mutant behaves as expected.  Not part of any registered check: it
validates the translators themselves (run by hand; results quoted in DESIGN.md 12.5).
"""
import os, re, subprocess, sys, tempfile, shutil
HERE = os.path.dirname(os.path.abspath(__file__))
sys.path.insert(0, HERE)
import extract_cmp, extract_bmca, extract_announce, extract_msgs, extract_receipt, extract_portmove, extract_qualified
REPO = os.environ.get("VERIF_REPO", "/repo")
LEAN = os.path.join(HERE, "..", "lean")
CMP = "statime/src/bmc/dataset_comparison.rs"
BMCA = "statime/src/bmc/bmca.rs"
MSG = "statime/src/datastructures/messages/mod.rs"
PORT = "statime/src/port/mod.rs"
PBMCA = "statime/src/port/bmca.rs"
FML = "statime/src/bmc/foreign_master.rs"

# (name, file, old, new, expect) — expect: "break" or "hold"
MUTANTS = [
    ("unchanged", CMP, "", "", "hold"),
    ("nothing recognised (every source file empty): every table degrades, every theorem still proves", "*", "", "", "degrade"),
    ("chain: priority2 before variance", CMP,
     ".then_with(|| self_quality.offset_scaled_log_variance.cmp(&other_quality.offset_scaled_log_variance))\n            .then_with(|| self.gm_priority_2.cmp(&other.gm_priority_2))",
     ".then_with(|| self.gm_priority_2.cmp(&other.gm_priority_2))\n            .then_with(|| self_quality.offset_scaled_log_variance.cmp(&other_quality.offset_scaled_log_variance))", "break"),
    ("chain: class dropped", CMP, "            .then_with(|| self_quality.clock_class.cmp(&other_quality.clock_class))\n", "", "break"),
    ("figure 34: Greater is Better", CMP, "Ordering::Greater => DatasetOrdering::Worse,\n            Ordering::Less => DatasetOrdering::Better,",
     "Ordering::Greater => DatasetOrdering::Better,\n            Ordering::Less => DatasetOrdering::Worse,", "break"),
    ("figure 35: range starts at 1", CMP, "2..=i32::MAX => DatasetOrdering::Worse", "1..=i32::MAX => DatasetOrdering::Worse", "break"),
    ("figure 35: -1 arm looks at self", CMP, "&other.identity_of_receiver.clock_identity,\n                &other.identity_of_senders,",
     "&self.identity_of_receiver.clock_identity,\n                &other.identity_of_senders,", "break"),
    ("figure 35: Less/Greater swapped in +1 arm", CMP, "Ordering::Less => DatasetOrdering::Worse,\n                Ordering::Equal => DatasetOrdering::Error1,\n                Ordering::Greater => DatasetOrdering::WorseByTopology,",
     "Ordering::Less => DatasetOrdering::WorseByTopology,\n                Ordering::Equal => DatasetOrdering::Error1,\n                Ordering::Greater => DatasetOrdering::Worse,", "break"),
    ("figure 35: receivers not consulted", CMP, "match senders.then(receivers) {", "match senders {", "break"),
    ("figure 35: arms re-ordered (same meaning)", CMP, "            2..=i32::MAX => DatasetOrdering::Worse,\n            i32::MIN..=-2 => DatasetOrdering::Better,",
     "            i32::MIN..=-2 => DatasetOrdering::Better,\n            2..=i32::MAX => DatasetOrdering::Worse,", "hold"),
    ("compare dispatches on priority1", CMP, "if self.gm_identity == other.gm_identity {", "if self.gm_priority_1 == other.gm_priority_1 {", "break"),
    ("as_ordering: Error1 is Less", CMP, "DatasetOrdering::Error1 | DatasetOrdering::Error2 => Ordering::Equal,\n            DatasetOrdering::WorseByTopology | DatasetOrdering::Worse => Ordering::Less,",
     "DatasetOrdering::Error2 => Ordering::Equal,\n            DatasetOrdering::Error1 | DatasetOrdering::WorseByTopology | DatasetOrdering::Worse => Ordering::Less,", "break"),
    ("from_announce: priority2 from priority1", CMP, "gm_priority_2: message.grandmaster_priority_2,", "gm_priority_2: message.grandmaster_priority_1,", "break"),
    ("from_own: stepsRemoved from priority", CMP, "steps_removed: 0,", "steps_removed: data.priority_2,", "break"),
    ("decision: class range 1..127", BMCA, "(1..=127).contains", "(1..127).contains", "break"),
    ("decision: class range 1..128 (same meaning)", BMCA, "(1..=127).contains", "(1..128).contains", "hold"),
    ("decision: low class looks at Ebest", BMCA, "Some(Self::calculate_recommended_state_low_class(\n                own_data,\n                best_port_announce_message,",
     "Some(Self::calculate_recommended_state_low_class(\n                own_data,\n                best_global_announce_message,", "break"),
    ("decision: Same gives P1", BMCA, "MessageComparison::Same => RecommendedState::M1(*own_data),\n            MessageComparison::Worse(port) => RecommendedState::P1(port.message),",
     "MessageComparison::Same => RecommendedState::M2(*own_data),\n            MessageComparison::Worse(port) => RecommendedState::P1(port.message),", "break"),
    ("decision: P2 and M3 swapped", BMCA, "RecommendedState::P2(port_message.message)\n            } else {\n                RecommendedState::M3(global_message.message)",
     "RecommendedState::M3(global_message.message)\n            } else {\n                RecommendedState::P2(port_message.message)", "break"),
    ("decision: any Better passivates", BMCA, "DatasetOrdering::BetterByTopology) {", "DatasetOrdering::Better) {", "break"),
    ("decision: erbest compared with ebest", BMCA, "if matches!(ebest.compare(&erbest)", "if matches!(erbest.compare(&ebest)", "break"),
    ("decision: S1 names the port message (same meaning)", BMCA, "RecommendedState::S1(global_message.message)", "RecommendedState::S1(port_message.message)", "hold"),
    ("decision: M3 carries Erbest", BMCA, "None => RecommendedState::M3(global_message.message),\n                Some(port_message) => Self::compare_global_and_port(global_message, port_message),",
     "None => RecommendedState::M3(global_message.message),\n                Some(port_message) => Self::compare_global_and_port(port_message, global_message),", "break"),
    ("d0: Equal counts as Worse", BMCA, "Ordering::Equal => MessageComparison::Same,", "Ordering::Equal => MessageComparison::Worse(best),", "break"),
    ("d0: Less and Greater swapped", BMCA, "Ordering::Less => MessageComparison::Worse(best),\n                    Ordering::Equal => MessageComparison::Same,\n                    Ordering::Greater => MessageComparison::Better,",
     "Ordering::Greater => MessageComparison::Worse(best),\n                    Ordering::Equal => MessageComparison::Same,\n                    Ordering::Less => MessageComparison::Better,", "break"),
    ("best: tie-break prefers the older message", BMCA, "let tie_break = other.age.cmp(&self.age);", "let tie_break = self.age.cmp(&other.age);", "break"),
    ("best: compare_dataset operands swapped", BMCA, "data1.compare(&data2)", "data2.compare(&data1)", "break"),
    ("best: tie-break consulted first", BMCA, "self.compare_dataset(other).as_ordering().then(tie_break)", "tie_break.then(self.compare_dataset(other).as_ordering())", "break"),
    ("best: minimum instead of maximum", BMCA, ".max_by(BestAnnounceMessage::compare)", ".min_by(BestAnnounceMessage::compare)", "break"),
    ("sync: one-step flag", MSG, "            two_step_flag: true,\n            ..base_header(default_ds, port_identity, sequence_id, minor_ptp_version)\n        };\n\n        Message {\n            header,\n            body: MessageBody::Sync(",
     "            two_step_flag: false,\n            ..base_header(default_ds, port_identity, sequence_id, minor_ptp_version)\n        };\n\n        Message {\n            header,\n            body: MessageBody::Sync(", "break"),
    ("follow_up: correction left zero", MSG, "            correction_field: timestamp.subnano(),\n            ..base_header(default_ds, port_identity, sequence_id, minor_ptp_version)", "            ..base_header(default_ds, port_identity, sequence_id, minor_ptp_version)", "break"),
    ("delay_req: log interval 0", MSG, "log_message_interval: 0x7f,", "log_message_interval: 0,", "break"),
    ("delay_resp: requester identity is our own", MSG, "requesting_port_identity: request_header.source_port_identity,\n        });\n\n        Message {\n            header,\n            body,\n            suffix: TlvSet::default(),\n        }\n    }\n\n    pub(crate) fn pdelay_req(",
     "requesting_port_identity: port_identity,\n        });\n\n        Message {\n            header,\n            body,\n            suffix: TlvSet::default(),\n        }\n    }\n\n    pub(crate) fn pdelay_req(", "break"),
    ("delay_resp: source identity not replaced", MSG, "            two_step_flag: false,\n            source_port_identity: port_identity,\n", "            two_step_flag: false,\n", "break"),
    ("delay_resp: request correction dropped", MSG, "correction_field: TimeInterval(\n                request_header\n                    .correction_field\n                    .0\n                    .saturating_add(timestamp.subnano().0),\n            ),",
     "correction_field: timestamp.subnano(),", "break"),
    ("delay_resp: header fields re-ordered (same meaning)", MSG, "            two_step_flag: false,\n            source_port_identity: port_identity,\n", "            source_port_identity: port_identity,\n            two_step_flag: false,\n", "hold"),
    ("pdelay_resp: sequence number is our own counter", MSG, "                    request_header.sequence_id,\n                    minor_ptp_version,", "                    0,\n                    minor_ptp_version,", "degrade"),
    ("pdelay_resp: request correction not copied", MSG, "                correction_field: request_header.correction_field,\n", "", "break"),
    ("pdelay_resp: one-step flag", MSG, "                two_step_flag: true,\n                correction_field: request_header.correction_field,", "                two_step_flag: false,\n                correction_field: request_header.correction_field,", "break"),
    ("receipt timeout: Faulty port no longer re-arms (seed C12-8)", PORT, "            let duration = self.config.announce_duration(&mut self.rng);\n            return actions![PortAction::ResetAnnounceReceiptTimer { duration }];\n        }\n\n        if self\n            .instance_state",
     "            return actions![];\n        }\n\n        if self\n            .instance_state", "break"),
    ("receipt timeout: master-only port of a slave-only instance becomes Master (seed C08-8)", PORT, "        if self\n            .instance_state\n            .with_ref(|state| state.default_ds.slave_only)\n        {\n            // We didn't hear messages from the master anymore",
     "        let slave_only = self\n            .instance_state\n            .with_ref(|state| state.default_ds.slave_only);\n        if slave_only && !self.config.master_only {\n            // We didn't hear messages from the master anymore", "break"),
    ("receipt timeout: Faulty test dropped", PORT, "        if matches!(self.port_state, PortState::Faulty) {\n            // A port disabled by a peer delay fault stays disabled until a clean\n            // peer delay exchange; keep the timer running for when it recovers.\n            let duration = self.config.announce_duration(&mut self.rng);\n            return actions![PortAction::ResetAnnounceReceiptTimer { duration }];\n        }\n", "", "break"),
    ("receipt timeout: sync timer not started", PORT, "                PortAction::ResetAnnounceTimer {\n                    duration: core::time::Duration::from_secs(0)\n                },\n                PortAction::ResetSyncTimer {\n                    duration: core::time::Duration::from_secs(0)\n                }\n            ]\n        }\n    }\n\n    /// Handle the filter update timer",
     "                PortAction::ResetAnnounceTimer {\n                    duration: core::time::Duration::from_secs(0)\n                }\n            ]\n        }\n    }\n\n    /// Handle the filter update timer", "break"),
    ("receipt timeout: slave-only port forced to Passive", PORT, "            if !matches!(self.port_state, PortState::Listening) {\n                self.set_forced_port_state(PortState::Listening);", "            if !matches!(self.port_state, PortState::Passive) {\n                self.set_forced_port_state(PortState::Passive);", "break"),
    ("receipt timeout: slave-only bound to a name first (same meaning)", PORT, "        if self\n            .instance_state\n            .with_ref(|state| state.default_ds.slave_only)\n        {\n            // We didn't hear messages from the master anymore",
     "        let slave_only = self\n            .instance_state\n            .with_ref(|state| state.default_ds.slave_only);\n        if slave_only {\n            // We didn't hear messages from the master anymore", "hold"),
    ("port move: Faulty port promoted by M1/M2/M3 (seed C14-8)", PBMCA, "                        PortState::Listening | PortState::Slave(_) | PortState::Passive => {\n                            self.set_forced_port_state(PortState::Master);",
     "                        PortState::Listening | PortState::Slave(_) | PortState::Passive | PortState::Faulty => {\n                            self.set_forced_port_state(PortState::Master);", "break"),
    ("port move: Faulty port made Slave by S1", PBMCA, "                    PortState::Faulty => false,\n                    PortState::Listening | PortState::Master | PortState::Passive => true,", "                    PortState::Faulty | PortState::Listening | PortState::Master | PortState::Passive => true,", "break"),
    ("port move: S1 on the same master re-creates the Slave state", PBMCA, "PortState::Slave(old_state) => old_state.remote_master() != remote_master,", "PortState::Slave(_) => true,", "break"),
    ("port move: new Slave does not start its delay timer", PBMCA, "self.lifecycle.pending_action = actions![reset_announce, reset_delay];", "self.lifecycle.pending_action = actions![reset_announce];", "break"),
    ("port move: disabled sibling port leaves Faulty", PBMCA, "if !matches!(self.port_state, PortState::Passive | PortState::Faulty) {", "if !matches!(self.port_state, PortState::Passive) {", "break"),
    ("port move: P1 moves a Passive port again (same meaning? no: it demobilises)", PBMCA, "                PortState::Listening | PortState::Slave(_) | PortState::Master => {\n                    self.set_forced_port_state(PortState::Passive)\n                }\n                PortState::Passive | PortState::Faulty => {}",
     "                PortState::Listening | PortState::Slave(_) | PortState::Master | PortState::Passive => {\n                    self.set_forced_port_state(PortState::Passive)\n                }\n                PortState::Faulty => {}", "break"),
    ("port move: slave-only Master keeps running", PBMCA, "                        PortState::Listening | PortState::Faulty => { /* do nothing */ }\n                        PortState::Slave(_) | PortState::Passive | PortState::Master => {",
     "                        PortState::Listening | PortState::Faulty | PortState::Master => { /* do nothing */ }\n                        PortState::Slave(_) | PortState::Passive => {", "break"),
    ("qualified: cut-off through a named constant and '>' (seed C06-8)", FML, "        if announce_message.steps_removed >= 255 {", "        if announce_message.steps_removed > MAX_ANNOUNCE_MESSAGES as u16 {", "degrade"),
    ("qualified: stepsRemoved 255 accepted", FML, "        if announce_message.steps_removed >= 255 {", "        if announce_message.steps_removed > 255 {", "break"),
    ("qualified: cut-off at 256", FML, "        if announce_message.steps_removed >= 255 {", "        if announce_message.steps_removed >= 256 {", "break"),
    ("qualified: duplicate sequence number rejected only beyond half range + 1", FML, "wrapping_sub(last_sequence_id) >= u16::MAX / 2 {", "wrapping_sub(last_sequence_id) > u16::MAX / 2 {", "break"),
    ("qualified: own-clock rule dropped", FML, "        if source_identity.clock_identity == self.own_port_identity.clock_identity {\n            return false;\n        }\n", "", "break"),
    ("announce: leap flags crossed", MSG, "leap59: time_properties_ds.leap_indicator == LeapIndicator::Leap59,\n            leap61: time_properties_ds.leap_indicator == LeapIndicator::Leap61,",
     "leap59: time_properties_ds.leap_indicator == LeapIndicator::Leap61,\n            leap61: time_properties_ds.leap_indicator == LeapIndicator::Leap59,", "break"),
    ("announce: traceable flags crossed", MSG, "time_tracable: time_properties_ds.time_traceable,\n            frequency_tracable: time_properties_ds.frequency_traceable,",
     "time_tracable: time_properties_ds.frequency_traceable,\n            frequency_tracable: time_properties_ds.time_traceable,", "break"),
    ("announce: priority2 from priority1", MSG, "grandmaster_priority_2: global.parent_ds.grandmaster_priority_2,", "grandmaster_priority_2: global.parent_ds.grandmaster_priority_1,", "break"),
    ("announce: utc valid flag dropped", MSG, "            current_utc_offset_valid: time_properties_ds.current_utc_offset.is_some(),\n", "", "break"),
    ("announce: always two-step", MSG, "            ptp_timescale: time_properties_ds.ptp_timescale,\n            time_tracable",
     "            ptp_timescale: time_properties_ds.ptp_timescale,\n            two_step_flag: true,\n            time_tracable", "break"),
    ("announce: body fields re-ordered (same meaning)", MSG, "            grandmaster_priority_2: global.parent_ds.grandmaster_priority_2,\n            grandmaster_identity: global.parent_ds.grandmaster_identity,",
     "            grandmaster_identity: global.parent_ds.grandmaster_identity,\n            grandmaster_priority_2: global.parent_ds.grandmaster_priority_2,", "hold"),
    ("time_properties: leap flags crossed", "statime/src/datastructures/messages/announce.rs", "let leap_indicator = if self.header.leap59 {\n            LeapIndicator::Leap59\n        } else if self.header.leap61 {\n            LeapIndicator::Leap61",
     "let leap_indicator = if self.header.leap59 {\n            LeapIndicator::Leap61\n        } else if self.header.leap61 {\n            LeapIndicator::Leap59", "break"),
    ("time_properties: leap61 tested first (differs when both flags are set)", "statime/src/datastructures/messages/announce.rs", "let leap_indicator = if self.header.leap59 {\n            LeapIndicator::Leap59\n        } else if self.header.leap61 {\n            LeapIndicator::Leap61",
     "let leap_indicator = if self.header.leap61 {\n            LeapIndicator::Leap61\n        } else if self.header.leap59 {\n            LeapIndicator::Leap59", "break"),
    ("time_properties: utc offset guarded by the timescale flag", "statime/src/datastructures/messages/announce.rs", "            .current_utc_offset_valid\n", "            .ptp_timescale\n", "break"),
    ("time_properties: traceable flags crossed", "statime/src/datastructures/messages/announce.rs", "time_traceable: self.header.time_tracable,\n            frequency_traceable: self.header.frequency_tracable,",
     "time_traceable: self.header.frequency_tracable,\n            frequency_traceable: self.header.time_tracable,", "break"),
    ("base_header: domain from sdo id (not recognised: degrades, left to the streams)", MSG, "domain_number: default_ds.domain_number,", "domain_number: default_ds.sdo_id.0 as u8,", "degrade"),
]


# on the unchanged tree every item is recognised: none of the translated theorems is vacuous
COMPLETE = """
open Statime in
example : Generated.cmpDispatch.isSome ∧ Generated.figure35Arms.isSome ∧ Generated.figure34Chain.isSome ∧
    Generated.figure34Arms.isSome ∧ Generated.asOrderingTable.isSome ∧ Generated.ofAnnounceTable.isSome ∧
    Generated.ofOwnTable.isSome ∧ Generated.accuracyComparedByOctet = some true ∧ Generated.decisionTable.isSome ∧ Generated.bestCompareTable.isSome ∧ Generated.findBestIsMaxBy = some true ∧
    Generated.announceFlagTable.isSome ∧ Generated.announceBodyTable.isSome ∧ Generated.timePropertiesTable.isSome ∧ Generated.syncCtor.isSome ∧ Generated.followUpCtor.isSome ∧
    Generated.delayReqCtor.isSome ∧ Generated.delayRespCtor.isSome ∧ Generated.pdelayReqCtor.isSome ∧ Generated.pdelayRespCtor.isSome ∧ Generated.pdelayRespFuCtor.isSome ∧ Generated.receiptTimerTable.isSome ∧ Generated.portMoveTable.isSome ∧ Generated.qualificationRules.isSome ∧
    Generated.announceBaseHeaderAsModelled = some true := by decide
"""


def section(pid="C05"):
    s = open(os.path.join(LEAN, f"StatimeModel/Props/{pid}.lean")).read()
    a = s.index("section Translated"); b = s.index("end Translated") + len("end Translated")
    return s[a:b]


def body(text):
    return "\n".join(l for l in text.split("\n") if not l.startswith("import "))


def main():
    tmp = tempfile.mkdtemp(prefix="xlate-selftest-")
    sec = section()
    sec11 = section("C11")
    sec10 = section("C10")
    sec08 = section("C08")
    sec06 = section("C06")
    bad = 0
    try:
        for i, (name, rel, old, new, expect) in enumerate(MUTANTS):
            def read(r, rel=rel, old=old, new=new):
                if rel == "*":
                    return ""
                try:
                    t = open(os.path.join(REPO, r)).read()
                except FileNotFoundError:
                    return ""
                if r == rel and old:
                    if old not in t:
                        raise SystemExit(f"mutant '{name}': pattern not in source (source changed?)")
                    t = t.replace(old, new, 1)
                return t
            out, deg = {}, []
            w = lambda n, t: out.__setitem__(n, t)
            extract_cmp.run(read, w, deg); extract_bmca.run(read, w, deg); extract_announce.run(read, w, deg); extract_msgs.run(read, w, deg); extract_receipt.run(read, w, deg); extract_portmove.run(read, w, deg); extract_qualified.run(read, w, deg)
            lean = ("import StatimeModel.Lemmas.CmpGen\nimport StatimeModel.Lemmas.DecisionGen\nimport StatimeModel.Lemmas.AnnounceGen\nimport StatimeModel.Lemmas.MsgGen\nimport StatimeModel.Lemmas.ReceiptGen\nimport StatimeModel.Lemmas.PortMoveGen\nimport StatimeModel.Lemmas.QualGen\n" +
                    body(out["DatasetComparison.lean"]) + body(out["StateDecision.lean"]) + body(out["AnnounceCtor.lean"]) + body(out["MsgCtors.lean"]) + body(out["ReceiptTimer.lean"]) + body(out["PortMove.lean"]) + body(out["Qualification.lean"]) +
                    "\nnamespace Statime.C05\nopen Statime\n" + sec + "\nend Statime.C05\n" +
                    "\nnamespace Statime.C11\nopen Statime\n" + sec11 + "\nend Statime.C11\n" +
                    "\nnamespace Statime.C10\nopen Statime\n" + sec10 + "\nend Statime.C10\n" +
                    "\nnamespace Statime.C08\nopen Statime\n" + sec08 + "\nend Statime.C08\n" +
                    "\nnamespace Statime.C06\nopen Statime\n" + sec06 + "\nend Statime.C06\n" + (COMPLETE if not old and rel != "*" else ""))
            path = os.path.join(tmp, f"m{i}.lean")
            open(path, "w").write(lean)
            r = subprocess.run(["lake", "env", "lean", path], cwd=LEAN, capture_output=True, text=True)
            failed = r.returncode != 0 or "error" in r.stdout
            got = "break" if failed else ("degrade" if deg else "hold")
            first = next((l for l in r.stdout.split("\n") if "error" in l), "")
            thm = ""
            if failed:
                m = re.search(r"m\d+\.lean:(\d+):", first)
                if m:
                    ln = int(m.group(1)); lines = lean.split("\n")
                    for k in range(ln - 1, -1, -1):
                        mm = re.match(r"theorem (\w+)", lines[k])
                        if mm: thm = mm.group(1); break
            ok = got == expect
            bad += 0 if ok else 1
            print(f"{'ok ' if ok else 'BAD'} {name}: expected {expect}, got {got}" + (f" (fails {thm})" if thm else "") + (f" degraded={deg}" if deg else ""))
    finally:
        shutil.rmtree(tmp, ignore_errors=True)
    print(f"{len(MUTANTS) - bad}/{len(MUTANTS)} as expected")
    return 1 if bad else 0


if __name__ == "__main__":
    sys.exit(main())
