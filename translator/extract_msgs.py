#!/usr/bin/env python3
"""
Translator for the event / general message constructors of
statime/src/datastructures/messages/mod.rs (Message::sync, follow_up, delay_req,
delay_resp, pdelay_req, pdelay_resp, pdelay_resp_follow_up) -> Generated/MsgCtors.lean: the header each starts from,
every header field it overrides with the source of the value, and the body, as
MsgGen.Ctor data.  Interpreter: Lemmas/MsgGen.lean; theorems: Props/C10.lean
(generated_sync_is_model ...).  Unrecognised shapes -> none + DEGRADED.
"""
import re
from extract_cmp import strip_comments, fn_body, block_at
from extract_announce import assigns

HF = {"two_step_flag": "twoStep", "correction_field": "correction", "log_message_interval": "logInterval",
      "source_port_identity": "src"}
HSRC = {
    ("twoStep", "true"): "(.litB true)", ("twoStep", "false"): "(.litB false)",
    ("correction", "timestamp.subnano()"): ".tsSubnano",
    ("correction", "request_header.correction_field"): ".reqCorrection",
    ("correction", "TimeInterval(request_header.correction_field.0.saturating_add(timestamp.subnano().0),)"): ".reqCorrPlusSubnanoSat",
    ("correction", "TimeInterval(request_header.correction_field.0.saturating_add(timestamp.subnano().0))"): ".reqCorrPlusSubnanoSat",
    ("logInterval", "min_delay_req_interval.as_log_2()"): ".intervalLog",
    ("src", "port_identity"): ".portIdentity",
}
BASE = {"base_header(default_ds,port_identity,sequence_id,minor_ptp_version)": "(.baseHeader false)",
        "base_header(default_ds,port_identity,sequence_id,minor_ptp_version,)": "(.baseHeader false)",
        "base_header(default_ds,port_identity,request_header.sequence_id,minor_ptp_version)": "(.baseHeader true)",
        "base_header(default_ds,port_identity,request_header.sequence_id,minor_ptp_version,)": "(.baseHeader true)",
        "request_header": ".requestHeader"}
BODY = {
    "MessageBody::Sync(SyncMessage{origin_timestamp:Default::default(),})": ".syncDefault",
    "MessageBody::DelayReq(DelayReqMessage{origin_timestamp:WireTimestamp::default(),})": ".delayReqDefault",
    "MessageBody::PDelayReq(PDelayReqMessage{origin_timestamp:WireTimestamp::default(),})": ".pdelayReqDefault",
    "MessageBody::FollowUp(FollowUpMessage{precise_origin_timestamp:timestamp.into(),})": ".followUpTs",
    "MessageBody::DelayResp(DelayRespMessage{receive_timestamp:timestamp.into(),requesting_port_identity:request_header.source_port_identity,})": ".delayRespTsReqSrc",
    "MessageBody::DelayResp(DelayRespMessage{receive_timestamp:timestamp.into(),requesting_port_identity:port_identity,})": ".delayRespTsOwnPid",
    "MessageBody::PDelayResp(PDelayRespMessage{request_receive_timestamp:timestamp.into(),requesting_port_identity:request_header.source_port_identity,})": ".pdelayRespTsReqSrc",
    "MessageBody::PDelayRespFollowUp(PDelayRespFollowUpMessage{response_origin_timestamp:timestamp.into(),requesting_port_identity:requestor_identity,})": ".pdelayRespFuTsRequestor",
}


def lit_int(e):
    m = re.fullmatch(r"(-?)(0x[0-9a-fA-F]+|\d+)", e)
    return (-1 if m.group(1) else 1) * int(m.group(2), 0) if m else None


def header_expr(expr):
    """squashed header expression -> (base, sets) or None"""
    if expr in BASE:
        return BASE[expr], []
    if not expr.startswith("Header{"):
        return None
    inner = block_at(expr, len("Header"))
    if inner is None or len("Header{") + len(inner) + 1 != len(expr):
        return None
    base, sets = None, []
    for n, e in assigns(inner):
        if n == "..":
            base = BASE.get(e)
            if base is None: return None
            continue
        if n not in HF: return None
        f = HF[n]
        src = HSRC.get((f, e))
        if src is None and f == "logInterval" and lit_int(e) is not None:
            src = f"(.litI ({lit_int(e)}))"
        if src is None: return None
        sets.append(f"(.{f}, {src})")
    return (base, sets) if base else None


def ctor(src, name):
    b = fn_body(src, name)
    if b is None: return None
    b = re.sub(r"\s+", "", b)
    b = b.replace("let_=request;", "")
    lets = {}
    # `let header = <expr>;` and `let body = <expr>;` (top level, in order), then `Message{...}`
    while b.startswith("let"):
        m = re.match(r"let(\w+)=", b)
        if not m: return None
        depth, j = 0, m.end()
        while j < len(b):
            if b[j] in "({": depth += 1
            elif b[j] in ")}": depth -= 1
            elif b[j] == ";" and depth == 0: break
            j += 1
        lets[m.group(1)] = b[m.end():j]
        b = b[j + 1:]
    if not (b.startswith("Message{") and b.endswith("}")): return None
    fields = dict(assigns(b[len("Message{"):-1]))
    if set(fields) != {"header", "body", "suffix"} or fields["suffix"] != "TlvSet::default()": return None
    h = fields["header"]; h = lets.get(h, h) if h == "header" else h
    bd = fields["body"]; bd = lets.get(bd, bd) if bd == "body" else bd
    he = header_expr(h)
    if he is None or bd not in BODY: return None
    return "{ base := " + he[0] + ", sets := [" + ", ".join(he[1]) + "], body := " + BODY[bd] + " }"


def run(read, write, degraded):
    src = strip_comments(read("statime/src/datastructures/messages/mod.rs")).split("#[cfg(test)]")[0]
    L = ["/- GENERATED by translator/extract_msgs.py from /repo — do not edit -/",
         "import StatimeModel.Lemmas.MsgGen", "namespace Statime.Generated", "open Statime Statime.MsgGen", ""]
    for lean, fn in (("syncCtor", "sync"), ("followUpCtor", "follow_up"), ("delayReqCtor", "delay_req"),
                     ("delayRespCtor", "delay_resp"), ("pdelayReqCtor", "pdelay_req"),
                     ("pdelayRespCtor", "pdelay_resp"), ("pdelayRespFuCtor", "pdelay_resp_follow_up")):
        try:
            c = ctor(src, fn)
        except Exception:
            c = None
        if c is None: degraded.append("msg-ctor-" + fn)
        L.append(f"def {lean} : Option Ctor := " + ("none" if c is None else "some " + c))
    L += ["", "end Statime.Generated", ""]
    write("MsgCtors.lean", "\n".join(L))
