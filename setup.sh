#!/bin/sh
# MANIFEST.setup_cmd: build the framework offline from files on disk only.
set -e
cd "$(dirname "$0")"
export CARGO_NET_OFFLINE=true
python3 translator/extract.py
(cd lean && lake build StatimeModel model-driver)
(cd harness && cargo build --offline --bins && cargo build --offline --bins --release)
(cd harness-linux && cargo build --offline --bins && cargo build --offline --bins --release)
echo "setup ok"
