#!/bin/sh
# re-runs every stored seeded change against the quick check of its own property; prints one line per seed
# (never run while another check reads /repo)
cd /verif
for d in seeded/C*/; do
  n=$(basename $d); pid=$(echo $n | cut -c1-3)
  if ! git -C /repo apply --check "/verif/$d/patch.diff" 2>/dev/null; then echo "$n does-not-apply"; continue; fi
  git -C /repo apply "/verif/$d/patch.diff"
  r=$(./check $pid --tier quick 2>&1 | grep -E "^VIOLATION" | head -1 | cut -c1-120)
  git -C /repo checkout -- .
  if [ -z "$r" ]; then echo "$n MISSED"; else echo "$n caught: $r"; fi
done
git -C /repo status --short | head -3
