#!/bin/sh
# usage: seedtest.sh <patch.diff> <property ids...>  — applies a seeded change to /repo, runs the checks, undoes it
patch="$1"; shift
cd /repo || exit 2
git apply "$patch" || { echo "patch does not apply"; exit 2; }
for id in "$@"; do
  echo "== $id with $(basename $(dirname $patch))"
  (cd /verif && ./check "$id" --tier quick 2>&1 | grep -E "^(VIOLATION|KNOWN|\[check\] C)" | cut -c1-240)
done
git -C /repo checkout -- .
git -C /repo status --short | head -3
