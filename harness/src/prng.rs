//! splitmix64: every random choice of a run derives from one state (VERIF_SEED).
//! Interior mutability so that draws can be nested in argument positions.

use std::cell::Cell;

#[derive(Clone, Debug)]
pub struct Prng(pub Cell<u64>);

impl Prng {
    pub fn new(seed: u64) -> Self {
        Prng(Cell::new(seed ^ 0x9E37_79B9_7F4A_7C15))
    }
    pub fn next_u64(&self) -> u64 {
        let s = self.0.get().wrapping_add(0x9E37_79B9_7F4A_7C15);
        self.0.set(s);
        let mut z = s;
        z = (z ^ (z >> 30)).wrapping_mul(0xBF58_476D_1CE4_E5B9);
        z = (z ^ (z >> 27)).wrapping_mul(0x94D0_49BB_1331_11EB);
        z ^ (z >> 31)
    }
    pub fn next_u128(&self) -> u128 {
        ((self.next_u64() as u128) << 64) | self.next_u64() as u128
    }
    /// uniform in 0..n (n > 0)
    pub fn below(&self, n: u64) -> u64 {
        self.next_u64() % n
    }
    pub fn chance(&self, num: u64, den: u64) -> bool {
        self.below(den) < num
    }
    pub fn pick<'a, T>(&self, xs: &'a [T]) -> &'a T {
        &xs[self.below(xs.len() as u64) as usize]
    }
    pub fn bytes(&self, n: usize) -> Vec<u8> {
        (0..n).map(|_| self.next_u64() as u8).collect()
    }
    /// a value with a random bit width up to `bits` (log-uniform magnitudes)
    pub fn log_u128(&self, bits: u32) -> u128 {
        let w = self.below(bits as u64 + 1) as u32;
        if w == 0 {
            0
        } else if w >= 128 {
            self.next_u128()
        } else {
            self.next_u128() & ((1u128 << w) - 1) | (1u128 << (w - 1))
        }
    }
    pub fn fork(&self) -> Prng {
        Prng(Cell::new(self.next_u64()))
    }
}
