//! drive <stream> --seed N --tier quick|thorough --out DIR
//! drive replay <stream> FILE        (re-executes op lines, prints observations)

use std::io::BufRead;
use std::path::PathBuf;

use statime_verif_harness::{out::Out, prng::Prng, streams, streams::Executor};

fn main() {
    // keep panic messages of caught panics off stderr
    statime_verif_harness::out::install_panic_hook();
    let args: Vec<String> = std::env::args().collect();
    if args.len() >= 4 && args[1] == "replay" {
        let stream = args[2].as_str();
        let file = std::fs::File::open(&args[3]).expect("replay file");
        let mut ex: Box<dyn Executor> = match stream {
            "time" => Box::new(streams::time::TimeExec),
            "wire" => Box::new(streams::wire::WireExec),
            "inst" | "bmca" | "port" | "fml" | "c07" | "master" | "swrap" | "view" | "tlv" | "timed" => Box::new(streams::inst::InstExec::new()),
            "cmp" => Box::new(streams::gen_bmca::CmpExec),
            "ovl" => Box::new(streams::ovl::OvlExec::default()),
            "net" => Box::new(streams::net::NetExec::default()),
            "filt" | "loop" => Box::new(streams::filt::FiltExec::default()),
            "portloop" => Box::new(streams::portloop::PortLoopExec),
            "kports" => Box::new(streams::kports::KPortsExec),
            _ => panic!("unknown stream"),
        };
        for line in std::io::BufReader::new(file).lines() {
            let line = line.unwrap();
            if line.starts_with('#') || line.trim().is_empty() {
                continue;
            }
            println!("{}", ex.exec(&line));
        }
        return;
    }
    let stream = args.get(1).expect("stream").clone();
    let mut seed = 1u64;
    let mut tier = "quick".to_string();
    let mut dir = PathBuf::from("/verif/work");
    let mut i = 2;
    while i < args.len() {
        match args[i].as_str() {
            "--seed" => {
                seed = args[i + 1].parse().unwrap();
                i += 2
            }
            "--tier" => {
                tier = args[i + 1].clone();
                i += 2
            }
            "--out" => {
                dir = PathBuf::from(&args[i + 1]);
                i += 2
            }
            _ => panic!("bad arg {}", args[i]),
        }
    }
    let thorough = tier == "thorough";
    let rng = Prng::new(seed);
    let mut out = Out::new(&dir, &stream);
    match stream.as_str() {
        "time" => streams::time::generate(&mut out, &rng, thorough),
        "wire" => streams::wire::generate(&mut out, &rng, thorough),
        "inst" => streams::gen_inst::generate(&mut out, &rng, thorough),
        "master" => streams::gen_inst::generate_master(&mut out, &rng, thorough),
        "swrap" => streams::gen_inst::generate_slave_wrap(&mut out, &rng, thorough),
        "view" => streams::gen_inst::generate_view(&mut out, &rng, thorough),
        "tlv" => streams::gen_inst::generate_tlv(&mut out, &rng, thorough),
        "timed" => streams::gen_inst::generate_timed(&mut out, &rng, thorough),
        "threads" => streams::threads::generate(&mut out, &rng, thorough),
        "ovl" => streams::ovl::generate(&mut out, &rng, thorough),
        "filt" => streams::gen_filt::generate(&mut out, &rng, thorough),
        "loop" => streams::gen_loop::generate(&mut out, &rng, thorough),
        "portloop" => streams::portloop::generate(&mut out, &rng, thorough),
        "kports" => streams::kports::generate(&mut out, &rng, thorough),
        "net" => streams::net::generate(&mut out, &rng, thorough),
        "cmp" => streams::gen_bmca::generate_cmp(&mut out, &rng, thorough),
        "fml" => streams::gen_fml::generate(&mut out, &rng, thorough),
        "c07" => streams::gen_c07::generate(&mut out, &rng, thorough, &dir),
        "bmca" => streams::gen_bmca::generate_bmca(&mut out, &rng, thorough),
        _ => panic!("unknown stream {stream}"),
    }
    out.finish();
}
