//! Independently written IEEE 1588-2019 Clause 13 / 15 field table and reader
//! (the "independently written codec" of property C04). Table-driven; shares no
//! code with statime. Produces the same dump format as `statime::verif::decode_dump`.

/// (name, offset from start of message, width in octets)
pub const HEADER_FIELDS: &[(&str, usize, usize)] = &[
    ("majorSdoId|messageType", 0, 1),
    ("minorVersionPTP|versionPTP", 1, 1),
    ("messageLength", 2, 2),
    ("domainNumber", 4, 1),
    ("minorSdoId", 5, 1),
    ("flagField", 6, 2),
    ("correctionField", 8, 8),
    ("messageTypeSpecific", 16, 4),
    ("sourcePortIdentity.clockIdentity", 20, 8),
    ("sourcePortIdentity.portNumber", 28, 2),
    ("sequenceId", 30, 2),
    ("controlField", 32, 1),
    ("logMessageInterval", 33, 1),
];

/// flagField bits: (name, octet (0|1), bit) — Table 37
pub const FLAG_BITS: &[(&str, usize, u8)] = &[
    ("alternateMasterFlag", 0, 0),
    ("twoStepFlag", 0, 1),
    ("unicastFlag", 0, 2),
    ("PTP profile Specific 1", 0, 5),
    ("PTP profile Specific 2", 0, 6),
    ("leap61", 1, 0),
    ("leap59", 1, 1),
    ("currentUtcOffsetValid", 1, 2),
    ("ptpTimescale", 1, 3),
    ("timeTraceable", 1, 4),
    ("frequencyTraceable", 1, 5),
    ("synchronizationUncertain", 1, 6),
];

/// messageType nibble -> (name, body length, controlField)
pub fn message_type(n: u8) -> Option<(&'static str, usize, u8)> {
    Some(match n {
        0x0 => ("sync", 10, 0),
        0x1 => ("delayreq", 10, 1),
        0x2 => ("pdelayreq", 20, 5),
        0x3 => ("pdelayresp", 20, 5),
        0x8 => ("followup", 10, 2),
        0x9 => ("delayresp", 20, 3),
        0xa => ("pdelayrespfu", 20, 5),
        0xb => ("announce", 30, 5),
        0xc => ("signaling", 10, 5),
        0xd => ("management", 14, 4),
        _ => return None,
    })
}

fn be(b: &[u8], off: usize, w: usize) -> u128 {
    b[off..off + w].iter().fold(0u128, |a, x| (a << 8) | *x as u128)
}
fn hex(b: &[u8]) -> String {
    if b.is_empty() {
        return "-".into();
    }
    b.iter().map(|x| format!("{:02x}", x)).collect()
}
fn ts(b: &[u8], off: usize) -> String {
    format!("{}.{}", be(b, off, 6), be(b, off + 6, 4))
}
fn pid(b: &[u8], off: usize) -> String {
    format!("{}:{}", hex(&b[off..off + 8]), be(b, off + 8, 2))
}
fn dbg_pid(b: &[u8], off: usize) -> String {
    let ids: Vec<String> = b[off..off + 8].iter().map(|x| x.to_string()).collect();
    format!("PortIdentity{{clock_identity:ClockIdentity([{}]),port_number:{}}}", ids.join(","), be(b, off + 8, 2))
}

/// clockAccuracy octets with a defined meaning (Table 5 + profile range); others are reserved
fn accuracy_norm(v: u8) -> u8 {
    if (0x17..=0x31).contains(&v) || (0x80..=0xfe).contains(&v) { v } else { 0 }
}

/// Reads a message per Clause 13 (Clause 15.4 for management).
/// Err kinds: short | enum | invalid (same classes as the library reports)
pub fn spec_dump(b: &[u8]) -> Result<String, &'static str> {
    if b.len() < 34 {
        return Err("short");
    }
    let (name, blen, _cf) = message_type(b[0] & 0x0f).ok_or("enum")?;
    let len = be(b, 2, 2) as usize;
    if len < 34 {
        return Err("invalid");
    }
    if len > b.len() {
        return Err("short");
    }
    let m = &b[..len];
    if len < 34 + blen {
        return Err("short");
    }
    let mut out = Vec::new();
    out.push(format!("sdo={}", (((m[0] >> 4) as u16) << 8) | m[5] as u16));
    out.push(format!("ver=PtpVersion{{major:{},minor:{}}}", m[1] & 0x0f, m[1] >> 4));
    out.push(format!("dom={}", m[4]));
    let mut flags = String::new();
    for (_, octet, bit) in FLAG_BITS {
        flags.push(if m[6 + octet] & (1 << bit) != 0 { '1' } else { '0' });
    }
    out.push(format!("flags={flags}"));
    out.push(format!("corr={}", be(m, 8, 8) as u64 as i64));
    out.push(format!("src={}", pid(m, 20)));
    out.push(format!("seq={}", be(m, 30, 2)));
    out.push(format!("logint={}", m[33] as i8));
    let c = 34;
    out.push(match name {
        "sync" | "delayreq" | "followup" => format!("{name} origin={}", ts(m, c)),
        "pdelayreq" => format!(
            "pdelayreq PDelayReqMessage{{origin_timestamp:WireTimestamp{{seconds:{},nanos:{}}}}}",
            be(m, c, 6),
            be(m, c + 6, 4)
        ),
        "pdelayresp" | "delayresp" => format!("{name} rx={} req={}", ts(m, c), pid(m, c + 10)),
        "pdelayrespfu" => format!("{name} origin={} req={}", ts(m, c), pid(m, c + 10)),
        "announce" => format!(
            "announce origin={} utc={} p1={} class={} acc={} var={} p2={} gm={} steps={} src={}",
            ts(m, c),
            be(m, c + 10, 2) as u16 as i16,
            m[c + 13],
            m[c + 14],
            accuracy_norm(m[c + 15]),
            be(m, c + 16, 2),
            m[c + 18],
            hex(&m[c + 19..c + 27]),
            be(m, c + 27, 2),
            m[c + 29]
        ),
        "signaling" => format!("signaling SignalingMessage{{target_port_identity:{}}}", dbg_pid(m, c)),
        "management" => {
            // 15.4.1: targetPortIdentity 10, startingBoundaryHops 1, boundaryHops 1,
            // reserved(4 bits)|actionField(4 bits) 1, reserved 1
            let action = match m[c + 12] & 0x0f {
                0 => "GET",
                1 => "SET",
                2 => "RESPONSE",
                3 => "COMMAND",
                4 => "ACKNOWLEDGE",
                _ => "Reserved",
            };
            format!(
                "management ManagementMessage{{target_port_identity:{},starting_boundary_hops:{},boundary_hops:{},action:{}}}",
                dbg_pid(m, c),
                m[c + 10],
                m[c + 11],
                action
            )
        }
        _ => unreachable!(),
    });
    // TLVs (14.1): type 2, length 2, value; length even. A suffix that does not parse is an error.
    let mut t = &m[34 + blen..];
    let mut tl = String::new();
    while !t.is_empty() {
        if t.len() < 4 {
            return Err("short");
        }
        let l = be(t, 2, 2) as usize;
        if l % 2 != 0 {
            return Err("invalid");
        }
        if t.len() < 4 + l {
            return Err("short");
        }
        tl.push_str(&format!("[{}:{}]", be(t, 0, 2), hex(&t[4..4 + l])));
        t = &t[4 + l..];
    }
    out.push(format!("tlvs={}", if tl.is_empty() { "-".to_string() } else { tl }));
    Ok(out.join(" "))
}

/// octet mask of bits IEEE 1588 defines (1 = defined) for a message of the given type,
/// over header + body (TLVs are fully defined). Reserved: header octet 0 nothing, octet 6 bits 3,4,7,
/// octet 7 bit 7, octets 16..20 (messageTypeSpecific), per-body reserved octets.
pub fn defined_mask(ty: u8, total_len: usize) -> Vec<u8> {
    let mut m = vec![0xffu8; total_len];
    if total_len >= 34 {
        m[6] = 0b0110_0111;
        m[7] = 0b0111_1111;
        for x in m.iter_mut().take(20).skip(16) {
            *x = 0;
        }
        // controlField (octet 32) is deprecated in 2019: receivers ignore it
        m[32] = 0;
    }
    match ty {
        0x2 => {
            for i in 44..54.min(total_len) {
                m[i] = 0;
            }
        }
        0xb => {
            if total_len > 46 {
                m[46] = 0;
            }
        }
        0xd => {
            if total_len > 47 {
                m[46] = 0x0f;
                m[47] = 0;
            }
        }
        _ => {}
    }
    m
}
