//! Verification harness for statime: drives the real code in-process, writes
//! op lines (for the Lean model driver) and the implementation's canonical
//! observations, and evaluates property oracles on the implementation.

pub mod prng;
pub mod out;
pub mod frames;
pub mod spec13;
pub mod streams;
