//! C11 (and the data-set half of C15) oracle on the implementation alone: what Announces say versus what the
//! data set getters say, and how the data sets follow the parent / the BMCA decisions.

use crate::out::{hex, unhex, Out};

fn be(b: &[u8], off: usize, w: usize) -> u128 {
    b[off..off + w].iter().fold(0u128, |a, x| (a << 8) | *x as u128)
}

fn part<'a>(obs: &'a str, prefix: &str) -> Option<&'a str> {
    obs.split(" | ").find(|p| p.starts_with(prefix)).map(|p| &p[prefix.len()..])
}

/// "steps parentPort gm class acc var p1 p2" and "utc leap ptp tt ft ts" of an Announce frame, in the
/// text form of the D and T parts of an observation
fn announce_view(b: &[u8], steps_plus: u128) -> (String, String) {
    let utc_valid = b[7] & 0x04 != 0;
    let leap = if b[7] & 0x02 != 0 { "59" } else if b[7] & 0x01 != 0 { "61" } else { "0" };
    // the accuracy enumeration of the data set holds only the defined values (IEEE 1588-2019 table 5); others read as "unknown"
    let acc = if (0x17..=0x31).contains(&b[49]) || (0x80..=0xfe).contains(&b[49]) { b[49] } else { 0 };
    let d = format!(
        "{} {} {} {} {} {} {}",
        (be(b, 61, 2) + steps_plus).min(65535),
        hex(&b[53..61]),
        b[48],
        acc,
        be(b, 50, 2),
        b[47],
        b[52]
    );
    let t = format!(
        "{} {} {} {} {} {}",
        if utc_valid { (be(b, 44, 2) as u16 as i16).to_string() } else { "-".to_string() },
        leap,
        (b[7] >> 4) & 1,
        (b[7] >> 5) & 1,
        (b[7] >> 3) & 1,
        b[63]
    );
    (d, t)
}

/// D part without the parent port identity: "steps gm class acc var p1 p2"
fn d_fields(d: &str) -> (String, String) {
    let f: Vec<&str> = d.split_whitespace().collect();
    if f.len() < 8 {
        return (String::new(), String::new());
    }
    (f[1].to_string(), format!("{} {} {} {} {} {} {}", f[0], f[2], f[3], f[4], f[5], f[6], f[7]))
}

#[derive(Default)]
pub struct ViewOracle {
    own_clock: String,
    own_p1: String,
    own_p2: String,
    own_sdo: u16,
    own_domain: u8,
    configured_tp: String,
    prev: Option<String>,
    pub announces_checked: u64,
}

impl ViewOracle {
    pub fn check(&mut self, out: &mut Out, before: &[String], line: &str, obs: &str) {
        let w: Vec<&str> = line.split_whitespace().filter(|t| !t.starts_with('#')).collect();
        if w.is_empty() {
            return;
        }
        if w[0] == "INIT" {
            let n = self.announces_checked;
            *self = ViewOracle::default();
            self.announces_checked = n;
            self.own_clock = w.get(1).unwrap_or(&"").to_string();
            self.own_p1 = w.get(2).unwrap_or(&"").to_string();
            self.own_p2 = w.get(3).unwrap_or(&"").to_string();
            self.own_domain = w.get(4).and_then(|x| x.parse().ok()).unwrap_or(0);
            self.own_sdo = w.get(5).and_then(|x| x.parse().ok()).unwrap_or(0);
            self.configured_tp = part(obs, "T ").unwrap_or("").to_string();
            self.prev = Some(obs.to_string());
            return;
        }
        if obs.contains("R panic") || part(obs, "D ").is_none() {
            return;
        }
        let prev = self.prev.clone().unwrap_or_default();
        let (pd, pt) = (part(&prev, "D ").unwrap_or(""), part(&prev, "T ").unwrap_or(""));
        let (prev_parent, prev_d) = d_fields(pd);
        // 1. every emitted Announce says what the data sets held when the call was made
        for s in super::oracle_frames::sent_items(obs) {
            let b = &s.bytes;
            if b.len() >= 64 && b[0] & 0x0f == 0xb {
                self.announces_checked += 1;
                let (d, t) = announce_view(b, 0);
                if d != prev_d || t != pt {
                    out.oracle("C11", "announce-not-datasets", &format!("{line} -> port {} announces [{d} | {t}] while the data sets hold [{prev_d} | {pt}]", s.port));
                }
            }
        }
        let (now_parent, now_d) = d_fields(part(obs, "D ").unwrap_or(""));
        let now_t = part(obs, "T ").unwrap_or("");
        // 2. an Announce of the parent on the Slave port is applied (table 33)
        if w.len() >= 3 && w[0].starts_with('P') && w[0] != "PORT" && w[1] == "GEN" {
            if let (Ok(k), Some(b)) = (w[0][1..].parse::<usize>(), unhex(w[2])) {
                let st = before.get(k.wrapping_sub(1)).map(|s| s.as_str()).unwrap_or("");
                let valid = b.len() >= 64 && b[0] & 0x0f == 0xb && b[1] & 0x0f == 2 && statime::verif::decode_dump(&b).is_ok();
                if valid && st == "Slave" {
                    let sdo = (((b[0] >> 4) as u16) << 8) | b[5] as u16;
                    let src = format!("{}:{}", hex(&b[20..28]), be(&b, 28, 2));
                    if b[4] == self.own_domain && sdo == self.own_sdo && src == prev_parent {
                        // path trace loop?
                        let pt_on = part(&prev, "PT ").map(|x| x.starts_with('1')).unwrap_or(false);
                        let len = be(&b, 2, 2) as usize;
                        let mut looped = false;
                        let mut off = 64;
                        while pt_on && off + 4 <= len.min(b.len()) {
                            let ty = be(&b, off, 2);
                            let l = be(&b, off + 2, 2) as usize;
                            if off + 4 + l > b.len() {
                                break;
                            }
                            if ty == 0x0008 {
                                looped = b[off + 4..off + 4 + l].chunks_exact(8).any(|c| hex(c) == self.own_clock);
                                break;
                            }
                            off += 4 + l;
                        }
                        let (d, t) = announce_view(&b, 1);
                        if looped {
                            out.count("c15.looping-parent-announce");
                            if now_d != prev_d || now_t != pt {
                                out.oracle("C15", "looping-announce-updates-datasets", &format!("{line} -> an Announce of the parent whose path trace contains the own identity (to be discarded) changed the data sets from [{prev_d} | {pt}] to [{now_d} | {now_t}]"));
                            }
                        } else {
                            out.count("c11.parent-announce");
                            if now_d != d || now_t != t || now_parent != src {
                                out.oracle("C11", "parent-announce-not-applied", &format!("{line} -> the parent announced [{d} | {t}], the data sets now hold [{now_d} | {now_t}] parent {now_parent}"));
                            }
                        }
                    }
                }
            }
        }
        // 3. grandmaster: every port Master after a BMCA run, parent = own clock
        if w[0] == "BMCA" {
            let after: Vec<&str> = part(obs, "S ").map(|s| s.split(',').collect()).unwrap_or_default();
            let me = format!("{}:0", self.own_clock);
            if !after.is_empty() && after.iter().all(|s| *s == "Master") && now_parent == me {
                out.count("c11.grandmaster-bmca");
                let df: Vec<&str> = part(obs, "DF ").unwrap_or("").split_whitespace().collect();
                if df.len() >= 3 {
                    let own = format!("0 {} {} {} {} {} {}", self.own_clock, df[0], df[1], df[2], self.own_p1, self.own_p2);
                    if now_d != own {
                        out.oracle("C11", "gm-datasets-not-own", &format!("{line} -> grandmaster with data sets [{now_d}], own attributes [{own}]"));
                    }
                }
                if now_t != self.configured_tp {
                    out.oracle("C11", "gm-time-properties-reset", &format!("{line} -> grandmaster advertises time properties [{now_t}], the instance was constructed with [{}]", self.configured_tp));
                }
            }
        }
        self.prev = Some(obs.to_string());
    }
}
