//! Generator and oracle for the `filt` stream (C13, and the filter part of C03).
//!
//! Scenarios: a servo configuration, then a measurement history of one of several shapes (steady
//! link with or without jitter, equal / backwards / jumping event times, extreme and alternating
//! offsets, mixed kinds incl. peer delay, failing clock), with `upd` calls in between and usually a
//! `demob` at the end.

use super::{
    filt::{fhex, Cmd, Filt, FiltExec},
    Executor,
};
use crate::{out::Out, prng::Prng};
use statime::time::Duration;

const F32: i128 = 1 << 32;
const NS: i128 = F32;
const US: i128 = 1_000 * NS;
const MS: i128 = 1_000_000 * NS;
const SEC: i128 = 1_000_000_000 * NS;

#[derive(Clone, Debug)]
pub struct KCfg {
    pub thr: i128,
    pub dz: f64,
    pub st: i128,
    pub ms: f64,
    pub mf: f64,
    pub ifu: f64,
    pub iw: f64,
    pub dw: f64,
    pub plo: f64,
    pub phi: f64,
    pub hyst: u8,
    pub et: i128,
    pub deb: usize,
    pub seb: usize,
    pub pdf: f64,
}

impl KCfg {
    pub fn default_cfg() -> KCfg {
        KCfg {
            thr: MS,
            dz: 0.0,
            st: 2 * SEC,
            ms: 200.0,
            mf: 400.0,
            ifu: 100e-6,
            iw: 1e-16,
            dw: 1e-4 / 3600.0,
            plo: 1.0 / 3.0,
            phi: 2.0 / 3.0,
            hyst: 16,
            et: 200 * MS,
            deb: 4,
            seb: 8,
            pdf: 2.0,
        }
    }
    pub fn line(&self) -> String {
        format!(
            "FLT knew {} {} {} {} {} {} {} {} {} {} {} {} {} {} {}",
            self.thr,
            fhex(self.dz),
            self.st,
            fhex(self.ms),
            fhex(self.mf),
            fhex(self.ifu),
            fhex(self.iw),
            fhex(self.dw),
            fhex(self.plo),
            fhex(self.phi),
            self.hyst,
            self.et,
            self.deb,
            self.seb,
            fhex(self.pdf)
        )
    }
}

fn random_cfg(rng: &Prng) -> KCfg {
    let mut c = KCfg::default_cfg();
    if rng.chance(1, 3) {
        return c;
    }
    c.thr = *rng.pick(&[NS, US, 100 * US, MS, 10 * MS, SEC, 37 * SEC, 1_000_000 * SEC]);
    if rng.chance(1, 4) {
        c.thr = 1 + (rng.log_u128(80) as i128);
    }
    c.dz = *rng.pick(&[0.0, 0.0, 0.5, 1.0, 3.0]);
    c.st = *rng.pick(&[SEC / 8, SEC, 2 * SEC, 16 * SEC, 1000 * SEC, MS]);
    c.ms = *rng.pick(&[200.0, 1.0, 1e-3, 1e4, 500.0]);
    c.mf = *rng.pick(&[400.0, 10.0, 0.1, 1e-3, 500.0, 1e5, 123.456, 16383.815029922871]);
    if rng.chance(1, 4) {
        c.mf = (rng.below(1 << 40) as f64 + 1.0) / 1048576.0;
    }
    c.ifu = *rng.pick(&[100e-6, 1e-9, 1e-3, 1.0]);
    c.iw = *rng.pick(&[1e-16, 1e-8, 1e-30, 1.0]);
    c.hyst = *rng.pick(&[16u8, 0, 1, 127, 200, 255]);
    c.et = *rng.pick(&[200 * MS, MS, 10 * SEC, NS]);
    // 0 samples "needed to start estimation" is not a meaningful setting (KalmanFilter::new indexes an empty sample set)
    c.deb = *rng.pick(&[4usize, 1, 2, 3, 8, 32]);
    c.seb = *rng.pick(&[8usize, 2, 4, 16, 32, 1]);
    c.pdf = *rng.pick(&[2.0, 1.0, 10.0]);
    c
}

pub struct FGen<'a> {
    pub ex: FiltExec,
    pub out: &'a mut Out,
    pub cfg: Option<KCfg>,
    pub dead: bool,
    pub ops: usize,
    pub last_line: String,
}

fn opt(x: Option<i128>) -> String {
    x.map(|v| v.to_string()).unwrap_or("-".into())
}

impl<'a> FGen<'a> {
    pub fn emit(&mut self, line: String) -> String {
        let o = self.ex.exec(&line);
        self.last_line = line.clone();
        self.check(&line, &o);
        self.out.op(&line, &o);
        self.ops += 1;
        if o.starts_with("R panic") || o == "dead" {
            self.dead = true;
        }
        o
    }

    /// the oracle: looks only at what the implementation did
    fn check(&mut self, line: &str, obs: &str) {
        let w: Vec<&str> = line.split_whitespace().collect();
        let kind = w.get(1).copied().unwrap_or("");
        if obs.starts_with("R panic") {
            // the panic site; numbers in the message (fixed's "<value> overflows") are not part of the signature
            let at_raw = obs.split(" at=").nth(1).unwrap_or("?");
            let mut at = String::new();
            let mut digits = 0;
            for ch in at_raw.chars() {
                if ch.is_ascii_digit() {
                    digits += 1;
                    if digits == 5 {
                        at.truncate(at.len() - 4);
                        at.push('N');
                    }
                    if digits < 5 {
                        at.push(ch);
                    }
                } else {
                    digits = 0;
                    at.push(ch);
                }
            }
            let at = at.as_str();
            let what = if matches!(self.ex.f, Filt::None) && self.cfg.is_some() { "kalman" } else { "basic" };
            self.out.count(&format!("filt.panic.{what}"));
            self.out.oracle("C03", &format!("filter-panic@{at}"), &format!("{line} -> {obs}"));
            if at.contains("NaN") {
                // fixed's conversion refused a NaN: a command (or the estimate behind it) was not a number
                self.out.oracle("C13", &format!("{what}-command-not-a-number"), &format!("{line} -> {obs}: the servo was about to turn NaN into a clock command"));
            }
        }
        let cmds = self.ex.last_cmds.clone();
        if kind == "knew" || kind == "bnew" {
            return;
        }
        for c in &cmds {
            match (c, &self.cfg) {
                (Cmd::Freq(f, _), Some(cfg)) => {
                    self.out.count("filt.kalman.freq-commands");
                    if !f.is_finite() {
                        self.out.oracle("C13", "kalman-frequency-not-finite", &format!("{line} -> set_frequency({f})"));
                    } else if f.abs() > cfg.mf {
                        self.out.oracle("C13", "kalman-frequency-exceeds-bound", &format!("{line} -> set_frequency({f:?}) with max_freq_offset {:?}", cfg.mf));
                    } else if f.abs() == cfg.mf {
                        self.out.count("filt.kalman.freq-at-bound");
                    }
                }
                (Cmd::Step(b, _), Some(cfg)) => {
                    self.out.count("filt.kalman.step-commands");
                    // the threshold as the servo compares it (seconds as f64), passed through the same f64 -> Duration conversion as the step
                    let thr = Duration::from_fixed_nanos(fixed::types::I96F32::from_bits(cfg.thr));
                    let thr_q = Duration::from_seconds(thr.seconds()).nanos().to_bits();
                    if b.abs() < thr_q {
                        self.out.oracle("C13", "kalman-step-below-threshold", &format!("{line} -> step_clock({b}·2^-32 ns) below the threshold {thr_q}·2^-32 ns"));
                    }
                }
                (Cmd::Freq(f, _), None) => {
                    self.out.count("filt.basic.freq-commands");
                    if !f.is_finite() {
                        self.out.oracle("C13", "basic-frequency-not-finite", &format!("{line} -> set_frequency({f})"));
                    }
                }
                (Cmd::Step(_, _), None) => {
                    self.out.count("filt.basic.step-commands");
                }
            }
        }
        if kind == "demob" {
            self.out.count("filt.demobilize");
            let ok = match cmds.as_slice() {
                [] => true,
                [Cmd::Freq(_, _)] => true,
                _ => false,
            };
            if !ok {
                self.out.oracle("C13", "demobilize-more-than-one-command", &format!("{line} -> {} commands", cmds.len()));
            }
        }
    }
}

/// signed value with log-uniform magnitude up to `bits` bits
fn slog(rng: &Prng, bits: u32) -> i128 {
    let v = rng.log_u128(bits) as i128;
    if rng.chance(1, 2) {
        -v
    } else {
        v
    }
}

pub fn scenario(g: &mut FGen, rng: &Prng, max_len: usize) {
    g.dead = false;
    g.ops = 0;
    let kalman = rng.chance(5, 6);
    if kalman {
        let cfg = random_cfg(rng);
        let l = cfg.line();
        g.cfg = Some(cfg);
        g.emit(l);
    } else {
        g.cfg = None;
        let gain = *rng.pick(&[0.25f64, 0.1, 0.5, 1.0, 0.01, 1e-9]);
        g.emit(format!("FLT bnew {}", fhex(gain)));
    }
    if g.dead {
        return;
    }
    let shape = rng.below(8);
    let len = 1 + rng.below(max_len as u64) as usize;
    // a steady link
    let interval = *rng.pick(&[SEC / 8, SEC, 2 * SEC, SEC / 128, 16 * SEC]);
    let delay = *rng.pick(&[0, US, 100 * US, 400 * US, 10 * MS]);
    let jitter = *rng.pick(&[0i128, 0, NS, US, 20 * US, MS]);
    let mut offset: i128 = match rng.below(6) {
        0 => 0,
        1 => slog(rng, 30) * NS,
        2 => slog(rng, 34) * NS,
        3 => 10 * SEC,
        4 => -1_000_000_000 * SEC,
        _ => slog(rng, 62) * NS,
    };
    let drift = if rng.chance(1, 2) { 0 } else { slog(rng, 18) }; // ns·2^-32 … per interval: ppm-scale
    let mut t: u128 = match rng.below(4) {
        0 => 0,
        1 => (1_700_000_000 * SEC) as u128,
        2 => rng.log_u128(90),
        _ => (SEC * 1000) as u128,
    };
    let fail_rate = *rng.pick(&[0u64, 0, 0, 1, 3]);
    let p2p = rng.chance(1, 5);
    let mut t_max = t;
    for i in 0..len {
        if g.dead {
            return;
        }
        let fail = if fail_rate > 0 && rng.chance(fail_rate, 8) { 1 + rng.below(3) as u8 } else { 0 };
        // event time
        match shape {
            0 | 1 | 2 => t += interval as u128,
            3 => {
                // equal and repeated event times
                if rng.chance(1, 3) {
                    t += interval as u128
                }
            }
            4 => {
                // backwards / jumping
                match rng.below(4) {
                    0 => t = t.saturating_sub(rng.log_u128(70)),
                    1 => t += rng.log_u128(80),
                    2 => {}
                    _ => t += interval as u128,
                }
            }
            _ => match rng.below(6) {
                0 => {}
                1 => t = t.saturating_sub(rng.log_u128(40)),
                _ => t += interval as u128,
            },
        }
        t_max = t_max.max(t);
        // offsets
        let j = |rng: &Prng| if jitter == 0 { 0 } else { (rng.below(2 * jitter as u64 + 1) as i128) - jitter };
        match shape {
            2 | 6 => {
                // extreme and alternating offsets
                offset = match rng.below(8) {
                    0 => 1_000_000_000 * SEC,
                    1 => -1_000_000_000 * SEC,
                    2 => 0,
                    3 => -offset,
                    4 => slog(rng, 94),
                    5 => g.cfg.as_ref().map(|c| c.thr).unwrap_or(SEC) + slog(rng, 3),
                    6 => -(g.cfg.as_ref().map(|c| c.thr).unwrap_or(SEC)) + slog(rng, 3),
                    _ => offset,
                }
            }
            7 => {
                // hovering just inside the step threshold, jumping sign (mispredicted all the time)
                let thr = g.cfg.as_ref().map(|c| c.thr).unwrap_or(SEC);
                offset = if i % 2 == 0 { thr / 2 - 1 } else { -(thr / 2) + 1 };
            }
            _ => offset += drift * (interval / SEC).max(1),
        }
        // kind
        let kind = if p2p { rng.below(4) } else { rng.below(3) };
        let (off, dly, peer, rs, rd): (Option<i128>, Option<i128>, Option<i128>, Option<i128>, Option<i128>) = match kind {
            0 | 1 => {
                let raw = offset + delay + j(rng);
                (Some(raw - delay), None, None, Some(raw), None)
            }
            2 => {
                let raw = offset - delay + j(rng);
                (None, Some(delay + j(rng) / 2), None, None, Some(raw))
            }
            _ => (None, None, Some(delay + j(rng)), None, None),
        };
        // the clock reads a little after the newest event it timestamped, and never runs backwards by itself
        t_max += rng.below(1 << 20) as u128;
        g.emit(format!("FLT m {} {} {} {} {} {} {} {}", t, opt(off), opt(dly), opt(peer), opt(rs), opt(rd), t_max, fail));
        if g.dead {
            return;
        }
        // a step that the clock accepted moves the clock, and with it every later timestamp
        let shift: i128 = g.ex.last_cmds.iter().map(|c| if let Cmd::Step(b, true) = c { *b } else { 0 }).sum();
        if shift != 0 {
            g.out.count("filt.clock-stepped");
            t = (t as i128 + shift).max(0) as u128;
            t_max = (t_max as i128 + shift).max(0) as u128;
            if shape != 2 && shape != 6 && shape != 7 {
                offset += shift;
            }
        }
        if rng.chance(1, 10) {
            t_max += rng.below(1 << 34) as u128;
            g.emit(format!("FLT upd {} {}", t_max, fail));
        }
    }
    if !g.dead && rng.chance(3, 4) {
        let fail = if fail_rate > 0 && rng.chance(fail_rate, 8) { 1 } else { 0 };
        g.emit(format!("FLT demob {} {}", t_max + 1000, fail));
    }
}

/// zero-variance sample sets, directed: a peer delay (or a Sync / Delay pair) that reads exactly the same value many
/// times under a step threshold that is not round in binary; after a score of repetitions the covariance in that
/// direction is subnormal and its inverse overflows (the gain must not turn into NaN)
pub fn scenario_constant_samples(g: &mut FGen, rng: &Prng) {
    g.dead = false;
    g.ops = 0;
    let mut cfg = KCfg::default_cfg();
    cfg.thr = (50 + rng.below(4951) as i128) * US + rng.below(1000) as i128 * NS;
    let l = cfg.line();
    g.cfg = Some(cfg);
    g.emit(l);
    if g.dead {
        return;
    }
    let interval = *rng.pick(&[SEC / 8, SEC, 2 * SEC]);
    let v: i128 = *rng.pick(&[0i128, 0, 100 * US, 1]);
    let peer = rng.chance(2, 3);
    let mut t: u128 = (1_700_000_000 * SEC) as u128;
    let n = 25 + rng.below(40);
    for _ in 0..n {
        if g.dead {
            return;
        }
        t += interval as u128;
        let clk = t + rng.below(1 << 20) as u128;
        if peer {
            g.emit(format!("FLT m {t} - - {v} - - {clk} 0"));
        } else {
            // a Sync and a Delay measurement with identical raw offsets: the pair's noise sample is exactly zero
            g.emit(format!("FLT m {t} {} - - {v} - {clk} 0", 0));
            if g.dead {
                return;
            }
            g.emit(format!("FLT m {} - {} - - {v} {} 0", t + 1000, 0, clk + 2000));
        }
    }
    for _ in 0..3 {
        if g.dead {
            return;
        }
        t += interval as u128;
        g.emit(format!("FLT m {t} {} - - {} - {} 0", 1000 * NS, 1000 * NS + v, t + 5000));
    }
    if !g.dead {
        g.emit(format!("FLT demob {} 0", t + 10_000));
    }
    g.out.count("filt.constant-sample-scenarios");
}

pub fn generate(out: &mut Out, rng: &Prng, thorough: bool) {
    let scenarios = if thorough { 20_000 } else { 1_500 };
    let mut g = FGen { ex: FiltExec::default(), out, cfg: None, dead: false, ops: 0, last_line: String::new() };
    for i in 0..scenarios {
        if i % 6 == 5 {
            scenario_constant_samples(&mut g, rng);
        } else {
            scenario(&mut g, rng, if thorough { 400 } else { 120 });
        }
    }
}
