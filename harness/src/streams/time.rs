//! C16: `TIME <op> <operands…>` — the operator table of `Time`, `Duration`,
//! `Interval`, `TimeInterval`, `WireTimestamp` on bit patterns.

use fixed::types::{I96F32, U96F32};
use statime::time::{Duration, Interval, Time};
use statime::verif as hook;

use super::Executor;
use crate::{
    out::{guarded, Out},
    prng::Prng,
};

pub struct TimeExec;

fn t(bits: u128) -> Time {
    Time::from_fixed_nanos(U96F32::from_bits(bits))
}
fn d(bits: i128) -> Duration {
    Duration::from_fixed_nanos(I96F32::from_bits(bits))
}
fn tb(x: Time) -> u128 {
    x.nanos().to_bits()
}
fn db(x: Duration) -> i128 {
    x.nanos().to_bits()
}

fn show<T: std::fmt::Display>(r: Result<T, String>) -> String {
    match r {
        Ok(v) => format!("ok {v}"),
        Err(_) => "ovf".to_string(),
    }
}

pub fn exec_time(ws: &[&str]) -> String {
    let p = |i: usize| -> Option<i128> { ws.get(i).and_then(|s| s.parse::<i128>().ok()) };
    let pu = |i: usize| -> Option<u128> { ws.get(i).and_then(|s| s.parse::<u128>().ok()) };
    let op = ws.first().copied().unwrap_or("");
    match op {
        "add_dur" => {
            let (a, b) = (pu(1).unwrap(), p(2).unwrap());
            show(guarded(|| tb(t(a) + d(b))))
        }
        "sub_dur" => {
            let (a, b) = (pu(1).unwrap(), p(2).unwrap());
            show(guarded(|| tb(t(a) - d(b))))
        }
        "time_sub" => {
            let (a, b) = (pu(1).unwrap(), pu(2).unwrap());
            show(guarded(|| db(t(a) - t(b))))
        }
        "dur_add" => {
            let (a, b) = (p(1).unwrap(), p(2).unwrap());
            show(guarded(|| db(d(a) + d(b))))
        }
        "dur_sub" => {
            let (a, b) = (p(1).unwrap(), p(2).unwrap());
            show(guarded(|| db(d(a) - d(b))))
        }
        "dur_neg" => {
            let a = p(1).unwrap();
            show(guarded(|| db(-d(a))))
        }
        "dur_abs" => {
            let a = p(1).unwrap();
            show(guarded(|| db(d(a).abs())))
        }
        "dur_half" => {
            let a = p(1).unwrap();
            show(guarded(|| db(d(a) / 2)))
        }
        "dur_mul_int" => {
            let (a, k) = (p(1).unwrap(), p(2).unwrap());
            show(guarded(|| db(d(a) * k)))
        }
        "dur_div_int" => {
            let (a, k) = (p(1).unwrap(), p(2).unwrap());
            show(guarded(|| db(d(a) / k)))
        }
        "dur_secs" => {
            let a = p(1).unwrap();
            show(guarded(|| d(a).secs()))
        }
        "dur_from_secs" => {
            let a = p(1).unwrap();
            match i64::try_from(a) {
                Ok(a) => show(guarded(|| db(Duration::from_secs(a)))),
                Err(_) => "bad-op".into(),
            }
        }
        "dur_from_nanos" => {
            let a = p(1).unwrap();
            match i64::try_from(a) {
                Ok(a) => show(guarded(|| db(Duration::from_nanos(a)))),
                Err(_) => "bad-op".into(),
            }
        }
        "dur_nanos_rounded" => {
            let a = p(1).unwrap();
            show(guarded(|| d(a).nanos_rounded()))
        }
        "to_wire" => {
            let a = pu(1).unwrap();
            match guarded(|| hook::time_to_wire(t(a))) {
                Ok((s, n)) => format!("ok {s} {n}"),
                Err(_) => "ovf".into(),
            }
        }
        "from_wire" => {
            let (s, n) = (pu(1).unwrap(), pu(2).unwrap());
            match (u64::try_from(s), u32::try_from(n)) {
                (Ok(s), Ok(n)) => show(guarded(|| tb(hook::wire_to_time(s, n)))),
                _ => "bad-op".into(),
            }
        }
        "subnano" => {
            let a = pu(1).unwrap();
            show(guarded(|| hook::time_subnano_bits(t(a))))
        }
        "secs" => {
            let a = pu(1).unwrap();
            show(guarded(|| t(a).secs()))
        }
        "subsec_nanos" => {
            let a = pu(1).unwrap();
            show(guarded(|| t(a).subsec_nanos()))
        }
        "from_nanos_subnanos" => {
            let (n, s) = (pu(1).unwrap(), pu(2).unwrap());
            match (u64::try_from(n), u32::try_from(s)) {
                (Ok(n), Ok(s)) => show(guarded(|| tb(Time::from_nanos_subnanos(n, s)))),
                _ => "bad-op".into(),
            }
        }
        "tiv_to_dur" => {
            let a = p(1).unwrap();
            match i64::try_from(a) {
                Ok(a) => show(guarded(|| db(hook::time_interval_bits_to_duration(a)))),
                Err(_) => "bad-op".into(),
            }
        }
        "dur_to_tiv" => {
            let a = p(1).unwrap();
            show(guarded(|| hook::duration_to_time_interval_bits(d(a))))
        }
        "tiv_add" => {
            let (a, b) = (p(1).unwrap(), p(2).unwrap());
            match (i64::try_from(a), i64::try_from(b)) {
                (Ok(a), Ok(b)) => show(guarded(|| hook::time_interval_add_bits(a, b))),
                _ => "bad-op".into(),
            }
        }
        "log_interval" => {
            let a = p(1).unwrap();
            match i8::try_from(a) {
                Ok(a) => show(guarded(|| db(Duration::from_log_interval(a)))),
                Err(_) => "bad-op".into(),
            }
        }
        "interval_dur" => {
            // Interval::as_duration goes through Duration::from_interval
            let a = p(1).unwrap();
            match i8::try_from(a) {
                Ok(a) => show(guarded(|| db(Interval::from_log_2(a).as_duration()))),
                Err(_) => "bad-op".into(),
            }
        }
        _ => "bad-op".into(),
    }
}

impl Executor for TimeExec {
    fn exec(&mut self, line: &str) -> String {
        let ws: Vec<&str> = line.split_whitespace().collect();
        if ws.first() != Some(&"TIME") {
            return "bad-op".into();
        }
        exec_time(&ws[1..])
    }
}

const F32: u128 = 1 << 32;
const SEC: u128 = 1_000_000_000 * F32;

/// boundary lattice for times (U96F32 bit patterns)
fn time_lattice() -> Vec<u128> {
    let mut v: Vec<u128> = vec![0, 1, 2, 0xffff, 0x10000, 0x10001, F32 - 1, F32, F32 + 1];
    for k in [1u128, 2, 59, 60, 3600, 86400, 1 << 31, (1 << 32) - 1, 1 << 32, (1 << 47), (1 << 48) - 1, 1 << 48] {
        for delta in [-(F32 as i128) - 1, -(F32 as i128), -65536, -1, 0, 1, 65535, 65536, F32 as i128, 999_999_999 * F32 as i128] {
            let x = (k * SEC) as i128 + delta;
            if x >= 0 {
                v.push(x as u128);
            }
        }
    }
    for sh in [63u32, 64, 79, 80, 94, 95, 96, 126, 127] {
        let b = 1u128 << sh;
        v.extend_from_slice(&[b - 1, b, b + 1]);
    }
    v.push(u128::MAX);
    v.push(u128::MAX - 1);
    v.sort();
    v.dedup();
    v
}

fn dur_lattice() -> Vec<i128> {
    let mut v: Vec<i128> = vec![0];
    let mags: Vec<i128> = {
        let mut m = vec![1i128, 2, 3, 0xffff, 0x10000, 0x10001, F32 as i128 - 1, F32 as i128, F32 as i128 + 1, SEC as i128 - 1, SEC as i128, SEC as i128 + 1];
        for sh in [47u32, 48, 62, 63, 64, 78, 79, 80, 94, 95, 96, 110, 111, 126] {
            let b = 1i128 << sh;
            m.extend_from_slice(&[b - 1, b, b + 1]);
        }
        m.push(i128::MAX);
        m
    };
    for m in mags {
        v.push(m);
        v.push(-m);
    }
    v.push(i128::MIN);
    v.sort();
    v.dedup();
    v
}

fn tiv_lattice() -> Vec<i64> {
    let mut v = vec![0i64, 1, -1, 2, -2, 0x7fff, 0x8000, 0xffff, 0x10000, -0x10000, -0xffff, i64::MAX, i64::MIN, i64::MAX - 1, i64::MIN + 1];
    for sh in [15u32, 16, 17, 31, 32, 33, 46, 47, 48, 62] {
        let b = 1i64 << sh;
        v.extend_from_slice(&[b - 1, b, b + 1, -b, -b - 1, -b + 1]);
    }
    v.sort();
    v.dedup();
    v
}

/// Property oracle evaluated on the implementation alone (no model involved).
/// Domains are the property's: times in [0, 2^48 s), durations within ±2^63 ns.
struct Oracle<'a> {
    out: &'a mut Out,
}

const T_MAX: u128 = (1u128 << 48) * SEC; // exclusive
const D_MAX: i128 = (1i128 << 63) * F32 as i128; // ±2^63 ns

impl Oracle<'_> {
    fn wire_roundtrip(&mut self, a: u128) {
        if a >= T_MAX {
            return;
        }
        self.out.count("oracle.wire_roundtrip");
        let r = guarded(|| {
            let (s, n) = hook::time_to_wire(t(a));
            let back = tb(hook::wire_to_time(s, n));
            let sub = hook::time_subnano_bits(t(a));
            (s, n, back, sub)
        });
        match r {
            Ok((s, n, back, sub)) => {
                let recon = back as i128 + (sub as i128) * 65536;
                let diff = a as i128 - recon;
                if !(s < (1 << 48) && n < 1_000_000_000 && (0..65536).contains(&diff)) {
                    self.out.oracle("C16", "wire-roundtrip", &format!("TIME to_wire {a} -> secs={s} nanos={n} subnano={sub} reconstructed={recon} diff={diff}"));
                }
            }
            Err(m) => self.out.oracle("C16", "wire-roundtrip-panic", &format!("TIME to_wire {a} panicked: {m}")),
        }
    }

    fn add_sub(&mut self, a: u128, b: i128) {
        if a >= T_MAX || b.unsigned_abs() > D_MAX as u128 {
            return;
        }
        let sum = a as i128 + b;
        if sum < 0 {
            return; // before the epoch: not a PTP time
        }
        self.out.count("oracle.add_sub_cancel");
        match guarded(|| {
            let s = t(a) + d(b);
            let back = s - d(b);
            let diff = s - t(a);
            (tb(s), tb(back), db(diff))
        }) {
            Ok((s, back, diff)) => {
                if s as i128 != sum || back != a || diff != b {
                    self.out.oracle("C16", "add-sub-cancel", &format!("TIME add_dur {a} {b} -> {s}, back {back}, diff {diff}"));
                }
            }
            Err(m) => self.out.oracle("C16", "add-sub-panic", &format!("TIME add_dur {a} {b} panicked: {m}")),
        }
    }

    fn time_sub(&mut self, a: u128, b: u128) {
        if a >= T_MAX || b >= T_MAX {
            return;
        }
        self.out.count("oracle.time_sub_exact");
        match guarded(|| db(t(a) - t(b))) {
            Ok(r) => {
                if r != a as i128 - b as i128 {
                    self.out.oracle("C16", "time-sub", &format!("TIME time_sub {a} {b} -> {r}"));
                }
            }
            Err(m) => self.out.oracle("C16", "time-sub-panic", &format!("TIME time_sub {a} {b} panicked: {m}")),
        }
    }

    fn tiv_roundtrip(&mut self, x: i64) {
        self.out.count("oracle.tiv_roundtrip");
        match guarded(|| {
            let dd = hook::time_interval_bits_to_duration(x);
            (db(dd), hook::duration_to_time_interval_bits(dd))
        }) {
            Ok((dd, back)) => {
                if dd != (x as i128) << 16 || back != x {
                    self.out.oracle("C16", "tiv-roundtrip", &format!("TIME tiv_to_dur {x} -> {dd} -> {back}"));
                }
            }
            Err(m) => self.out.oracle("C16", "tiv-roundtrip-panic", &format!("TIME tiv_to_dur {x} panicked: {m}")),
        }
    }

    /// Duration -> TimeInterval must be floor to 2^-16 ns and must not wrap
    /// silently for durations within ±2^63 ns
    fn dur_to_tiv(&mut self, b: i128) {
        if b.unsigned_abs() > D_MAX as u128 {
            return;
        }
        self.out.count("oracle.dur_to_tiv");
        match guarded(|| hook::duration_to_time_interval_bits(d(b))) {
            Ok(x) => {
                let fl = b >> 16;
                let representable = fl >= i64::MIN as i128 && fl <= i64::MAX as i128;
                if representable {
                    if x as i128 != fl {
                        self.out.oracle("C16", "dur-to-tiv-floor", &format!("TIME dur_to_tiv {b} -> {x}, floor is {fl}"));
                    }
                } else {
                    // not representable: anything but saturation is a silent wrap
                    let sat = if fl > 0 { i64::MAX } else { i64::MIN };
                    if x != sat {
                        self.out.oracle("C16", "dur-to-tiv-wrap", &format!("TIME dur_to_tiv {b} -> {x}: silently wrapped (|d| >= 2^47 ns)"));
                    }
                }
            }
            Err(m) => self.out.oracle("C16", "dur-to-tiv-panic", &format!("TIME dur_to_tiv {b} panicked: {m}")),
        }
    }

    fn log_interval(&mut self, n: i8) {
        self.out.count("oracle.log_interval");
        let e = n as i32 + 32;
        // exact value of 2^n s in 2^-32 ns units, when it is an integer that fits
        let exact: Option<i128> = if e >= 0 {
            if e <= 97 {
                Some(1_000_000_000i128 << e)
            } else {
                None
            }
        } else if e >= -9 {
            Some(1_000_000_000i128 >> (-e))
        } else {
            None
        };
        match (guarded(|| db(Duration::from_log_interval(n))), exact) {
            (Ok(r), Some(x)) => {
                if r != x {
                    self.out.oracle("C16", "log-interval-inexact", &format!("TIME log_interval {n} -> {r}, exact is {x}"));
                }
            }
            (Ok(r), None) if e < 0 => {
                // below resolution: must be within one ulp of the true value
                let sh = (-e) as u32;
                let lo = if sh < 127 { 1_000_000_000i128 >> sh } else { 0 };
                if !(r == lo || r == lo + 1) {
                    self.out.oracle("C16", "log-interval-nearest", &format!("TIME log_interval {n} -> {r}, expected {lo} or {}", lo + 1));
                }
            }
            (Ok(r), None) => {
                self.out.oracle("C16", "log-interval-wrap", &format!("TIME log_interval {n} -> {r}: 2^{n} s is not representable but no error was raised"));
            }
            (Err(m), Some(_)) => self.out.oracle("C16", "log-interval-panic", &format!("TIME log_interval {n} panicked: {m}")),
            (Err(_), None) => {
                // not representable and refused loudly: not a *silent* wrap. Reported under C03 (config range).
                self.out.count("oracle.log_interval.unrepresentable_panics");
            }
        }
    }
}

pub fn generate(out: &mut Out, rng: &Prng, thorough: bool) {
    let mut ex = TimeExec;
    let mut emit = |out: &mut Out, line: String| {
        let obs = ex.exec(&line);
        let kind = line.split_whitespace().nth(1).unwrap_or("?").to_string();
        out.count(&format!("op.{kind}"));
        if obs == "ovf" {
            out.count(&format!("ovf.{kind}"));
        }
        out.op(&line, &obs);
    };

    let tl = time_lattice();
    let dl = dur_lattice();
    let vl = tiv_lattice();

    // exhaustive: all i8 log intervals
    for n in i8::MIN..=i8::MAX {
        emit(out, format!("TIME log_interval {n}"));
        emit(out, format!("TIME interval_dur {n}"));
        Oracle { out }.log_interval(n);
    }
    // lattice: unary time ops
    for &a in &tl {
        for op in ["to_wire", "subnano", "secs", "subsec_nanos"] {
            emit(out, format!("TIME {op} {a}"));
        }
        Oracle { out }.wire_roundtrip(a);
    }
    // lattice x lattice: time with duration, time with time
    for &a in &tl {
        for &b in &dl {
            emit(out, format!("TIME add_dur {a} {b}"));
            emit(out, format!("TIME sub_dur {a} {b}"));
            Oracle { out }.add_sub(a, b);
        }
        for &b in &tl {
            emit(out, format!("TIME time_sub {a} {b}"));
            Oracle { out }.time_sub(a, b);
        }
    }
    for &a in &dl {
        for op in ["dur_neg", "dur_abs", "dur_half", "dur_secs", "dur_to_tiv", "dur_nanos_rounded"] {
            emit(out, format!("TIME {op} {a}"));
        }
        Oracle { out }.dur_to_tiv(a);
        for &b in &dl {
            emit(out, format!("TIME dur_add {a} {b}"));
            emit(out, format!("TIME dur_sub {a} {b}"));
        }
        for k in [-3i128, -2, -1, 0, 1, 2, 3, 4, 7, 1000, 1 << 31, -(1 << 31), i64::MAX as i128, i64::MIN as i128] {
            emit(out, format!("TIME dur_mul_int {a} {k}"));
            emit(out, format!("TIME dur_div_int {a} {k}"));
        }
    }
    for &x in &vl {
        emit(out, format!("TIME tiv_to_dur {x}"));
        Oracle { out }.tiv_roundtrip(x);
        for &y in &vl {
            emit(out, format!("TIME tiv_add {x} {y}"));
        }
    }
    for s in [0u64, 1, 59, (1 << 32) - 1, 1 << 32, (1 << 48) - 1, 1 << 48, u64::MAX] {
        for n in [0u32, 1, 999_999_999, 1_000_000_000, u32::MAX] {
            emit(out, format!("TIME from_wire {s} {n}"));
        }
    }
    for s in [0i64, 1, -1, 1 << 31, i64::MAX, i64::MIN, (1 << 33), -(1 << 33)] {
        emit(out, format!("TIME dur_from_secs {s}"));
        emit(out, format!("TIME dur_from_nanos {s}"));
    }

    // random operands, log-uniform magnitudes within and beyond the PTP range
    let n = if thorough { 400_000 } else { 20_000 };
    for _ in 0..n {
        let a = if rng.chance(3, 4) { rng.log_u128(112) % T_MAX } else { rng.log_u128(128) };
        let bw = if rng.chance(3, 4) { 95 } else { 127 };
        let mut b = (rng.log_u128(bw) as i128).abs();
        if rng.chance(1, 2) {
            b = -b;
        }
        let a2 = if rng.chance(1, 2) {
            // close to a: small differences
            let delta = rng.log_u128(70) as i128;
            let x = if rng.chance(1, 2) { a as i128 + delta } else { a as i128 - delta };
            if x >= 0 { x as u128 } else { 0 }
        } else {
            rng.log_u128(112) % T_MAX
        };
        let x = rng.next_u64() as i64 >> rng.below(64);
        match rng.below(10) {
            0 => {
                emit(out, format!("TIME add_dur {a} {b}"));
                Oracle { out }.add_sub(a, b);
            }
            1 => emit(out, format!("TIME sub_dur {a} {b}")),
            2 => {
                emit(out, format!("TIME time_sub {a} {a2}"));
                Oracle { out }.time_sub(a, a2);
            }
            3 => {
                emit(out, format!("TIME to_wire {a}"));
                emit(out, format!("TIME subnano {a}"));
                Oracle { out }.wire_roundtrip(a);
            }
            4 => {
                emit(out, format!("TIME tiv_to_dur {x}"));
                Oracle { out }.tiv_roundtrip(x);
            }
            5 => {
                emit(out, format!("TIME dur_to_tiv {b}"));
                Oracle { out }.dur_to_tiv(b);
            }
            6 => emit(out, format!("TIME dur_half {b}")),
            7 => {
                let s = rng.next_u64() & ((1 << 48) - 1);
                let nn = rng.below(1_000_000_000);
                emit(out, format!("TIME from_wire {s} {nn}"));
            }
            8 => {
                let c = (rng.log_u128(96) as i128) * if rng.chance(1, 2) { -1 } else { 1 };
                emit(out, format!("TIME dur_add {b} {c}"));
                emit(out, format!("TIME dur_sub {b} {c}"));
            }
            _ => {
                let k = (rng.log_u128(40) as i128) * if rng.chance(1, 2) { -1 } else { 1 };
                emit(out, format!("TIME dur_mul_int {b} {k}"));
                emit(out, format!("TIME dur_div_int {b} {k}"));
            }
        }
    }
}
