//! C10 / C15 oracle on the implementation alone: every frame a port emits is read with an independent
//! Clause 13 reader and judged against the op that caused it (transmit timestamps, requests) and against
//! the frames the same port emitted before (sequence numbers).

use crate::out::{hex, unhex, Out};
use std::collections::HashMap;

pub const MAX_FRAME: usize = 1024; // statime::datastructures::messages::MAX_DATA_LEN

fn be(b: &[u8], off: usize, w: usize) -> u128 {
    b[off..off + w].iter().fold(0u128, |a, x| (a << 8) | *x as u128)
}

fn pid(b: &[u8], off: usize) -> String {
    format!("{}:{}", hex(&b[off..off + 8]), be(b, off + 8, 2))
}

/// (seconds*1e9 + nanoseconds) of a wire timestamp
fn wire_ns(b: &[u8], off: usize) -> u128 {
    be(b, off, 6) * 1_000_000_000 + be(b, off + 6, 4)
}

fn corr16(b: &[u8]) -> i128 {
    be(b, 8, 8) as u64 as i64 as i128
}

#[derive(Default)]
pub struct FrameOracle {
    own_clock: String,
    own_sdo: u16,
    own_domain: u8,
    /// (port, type nibble) -> last sequence number emitted
    last_seq: HashMap<(usize, u8), u16>,
    pub frames_checked: u64,
}

pub struct Sent {
    pub port: usize,
    pub event: bool,
    pub ctx: String,
    pub bytes: Vec<u8>,
}

pub fn sent_items(obs: &str) -> Vec<Sent> {
    let mut v = Vec::new();
    let first = obs.split(" | ").next().unwrap_or("");
    for item in first.split(" ; ") {
        let Some((pk, rest)) = item.split_once(':') else { continue };
        let Ok(k) = pk.trim_start_matches('P').parse::<usize>() else { continue };
        let Some(r) = rest.strip_prefix("send ") else { continue };
        let f: Vec<&str> = r.split_whitespace().collect();
        // the frame is the one token without '=' after the interface name (a trailing `q=<n>` may follow)
        let Some(bytes) = f.iter().skip(1).find(|t| !t.contains('=')).and_then(|h| unhex(h)) else { continue };
        let ctx = f.iter().find(|x| x.starts_with("ctx=")).map(|x| x[4..].to_string()).unwrap_or_default();
        v.push(Sent { port: k, event: f.first() == Some(&"evt"), ctx, bytes });
    }
    v
}

impl FrameOracle {
    /// `before`: port states before the op
    pub fn check(&mut self, out: &mut Out, before: &[String], line: &str, obs: &str) {
        let w: Vec<&str> = line.split_whitespace().filter(|t| !t.starts_with('#')).collect();
        if w.is_empty() {
            return;
        }
        if w[0] == "INIT" {
            *self = FrameOracle { frames_checked: self.frames_checked, ..Default::default() };
            self.own_clock = w.get(1).unwrap_or(&"").to_string();
            self.own_sdo = w.get(5).and_then(|x| x.parse().ok()).unwrap_or(0);
            self.own_domain = w.get(4).and_then(|x| x.parse().ok()).unwrap_or(0);
            return;
        }
        let sent = sent_items(obs);
        // per port: at most one event send in one set of actions
        let mut ev_per_port: HashMap<usize, usize> = HashMap::new();
        for s in &sent {
            if s.event {
                *ev_per_port.entry(s.port).or_default() += 1;
            }
        }
        for (k, n) in ev_per_port {
            if n > 1 {
                out.oracle("C10", "two-event-sends", &format!("{line} -> port {k} returned {n} event sends in one set of actions"));
            }
        }
        for s in &sent {
            self.frames_checked += 1;
            let b = &s.bytes;
            let k = s.port;
            if b.len() > MAX_FRAME {
                out.oracle("C10", "frame-too-long", &format!("{line} -> port {k} emitted {} octets", b.len()));
            }
            if b.len() < 34 {
                out.oracle("C10", "frame-too-short", &format!("{line} -> port {k} emitted {} octets", b.len()));
                continue;
            }
            if let Err(e) = statime::verif::decode_dump(b) {
                out.oracle("C10", "frame-undecodable", &format!("{line} -> port {k} emitted a frame its own parser rejects ({e}): {}", hex(b)));
            }
            let ty = b[0] & 0x0f;
            if be(b, 2, 2) as usize != b.len() {
                out.oracle("C10", "length-field", &format!("{line} -> port {k} type {ty:x}: messageLength {} but {} octets handed to the host", be(b, 2, 2), b.len()));
            }
            let me = format!("{}:{}", self.own_clock, k);
            if pid(b, 20) != me {
                out.oracle("C10", "source-identity", &format!("{line} -> port {k} type {ty:x} bears sourcePortIdentity {} (port is {me})", pid(b, 20)));
            }
            let sdo = (((b[0] >> 4) as u16) << 8) | b[5] as u16;
            if b[4] != self.own_domain || sdo != self.own_sdo {
                out.oracle("C10", "domain-sdoid", &format!("{line} -> port {k} type {ty:x} bears domain {} sdoId {sdo:#x} (instance: {} {:#x})", b[4], self.own_domain, self.own_sdo));
            }
            if b[1] & 0x0f != 2 {
                out.oracle("C10", "version", &format!("{line} -> port {k} type {ty:x} bears versionPTP {}", b[1] & 0x0f));
            }
            if s.event != (ty < 4) {
                out.oracle("C10", "wrong-interface", &format!("{line} -> port {k} type {ty:x} sent on the {} interface", if s.event { "event" } else { "general" }));
            }
            // numbered types: Sync 0, Delay_Req 1, Pdelay_Req 2, Announce b
            if matches!(ty, 0x0 | 0x1 | 0x2 | 0xb) {
                let seq = be(b, 30, 2) as u16;
                if let Some(prev) = self.last_seq.get(&(k, ty)) {
                    if seq != prev.wrapping_add(1) {
                        out.oracle("C10", "sequence-gap", &format!("{line} -> port {k} type {ty:x} numbered {seq} after {prev}"));
                    }
                    if *prev == 65535 {
                        out.count("c10.seq-wrap");
                    }
                }
                self.last_seq.insert((k, ty), seq);
            }
        }
        // op-specific expectations
        if !w[0].starts_with('P') || w[0] == "PORT" || w.len() < 3 {
            return;
        }
        let Ok(k) = w[0][1..].parse::<usize>() else { return };
        let st = before.get(k.wrapping_sub(1)).map(|s| s.as_str()).unwrap_or("");
        let mine: Vec<&Sent> = sent.iter().filter(|s| s.port == k).collect();
        let of_type = |t: u8| -> Vec<&&Sent> { mine.iter().filter(|s| s.bytes.len() >= 44 && s.bytes[0] & 0x0f == t).collect() };
        if obs.contains("R panic") {
            return;
        }
        match w[1] {
            "TXTS" if w.len() >= 5 => {
                let id: u16 = w[3].parse().unwrap_or(0);
                let ts: u128 = w[w.len() - 1].parse().unwrap_or(0);
                match w[2] {
                    "sync" => {
                        let fus = of_type(0x8);
                        if st == "Master" {
                            out.count("c10.followup-expected");
                            if fus.len() != 1 {
                                out.oracle("C10", "follow-up-count", &format!("{line} -> Master port {k} emitted {} Follow_Ups for the transmit timestamp of Sync {id}", fus.len()));
                            }
                        }
                        for f in fus {
                            let b = &f.bytes;
                            if be(b, 30, 2) as u16 != id {
                                out.oracle("C10", "follow-up-sequence", &format!("{line} -> Follow_Up numbered {} for Sync {id}", be(b, 30, 2)));
                            }
                            let got = ((wire_ns(b, 34) as i128) << 16) + corr16(b);
                            if got != (ts >> 16) as i128 {
                                out.oracle("C10", "follow-up-time", &format!("{line} -> Follow_Up origin+correction = {got} (2^-16 ns), transmit timestamp = {}", ts >> 16));
                            }
                        }
                    }
                    "pdresp" if w.len() >= 6 => {
                        let fus = of_type(0xa);
                        out.count("c10.pdelay-fu-expected");
                        if fus.len() != 1 {
                            out.oracle("C10", "pdelay-follow-up-count", &format!("{line} -> port {k} emitted {} Pdelay_Resp_Follow_Ups", fus.len()));
                        }
                        for f in fus {
                            let b = &f.bytes;
                            if b.len() < 54 {
                                continue;
                            }
                            if be(b, 30, 2) as u16 != id || pid(b, 44) != w[4] {
                                out.oracle("C10", "pdelay-follow-up-echo", &format!("{line} -> follow-up numbered {} for requester {}", be(b, 30, 2), pid(b, 44)));
                            }
                            if wire_ns(b, 34) != ts >> 32 {
                                out.oracle("C10", "pdelay-follow-up-time", &format!("{line} -> responseOriginTimestamp {} ns, transmit timestamp {} ns", wire_ns(b, 34), ts >> 32));
                            }
                        }
                    }
                    _ => {}
                }
            }
            "EVT" if w.len() >= 4 => {
                let Some(req) = unhex(w[2]) else { return };
                let ts: u128 = w[3].parse().unwrap_or(0);
                if req.len() < 44 || statime::verif::decode_dump(&req).is_err() || req[1] & 0x0f != 2 {
                    return;
                }
                let rsdo = (((req[0] >> 4) as u16) << 8) | req[5] as u16;
                if req[4] != self.own_domain || rsdo != self.own_sdo {
                    return;
                }
                let rty = req[0] & 0x0f;
                if rty == 0x1 {
                    let rs = of_type(0x9);
                    if st == "Master" {
                        out.count("c10.delay-resp-expected");
                        if rs.len() != 1 {
                            out.oracle("C10", "delay-resp-count", &format!("{line} -> Master port {k} answered a Delay_Req with {} Delay_Resps", rs.len()));
                        }
                    }
                    for r in rs {
                        let b = &r.bytes;
                        if b.len() < 54 {
                            continue;
                        }
                        if be(b, 30, 2) != be(&req, 30, 2) || pid(b, 44) != pid(&req, 20) {
                            out.oracle("C10", "delay-resp-echo", &format!("{line} -> Delay_Resp numbered {} for requester {}", be(b, 30, 2), pid(b, 44)));
                        }
                        let got = ((wire_ns(b, 34) as i128) << 16) + corr16(b);
                        let mut want = (ts >> 16) as i128 + corr16(&req);
                        // the correction field is 64 bits wide: a sum that does not fit saturates
                        let exact_corr = corr16(&req) + ((ts >> 16) & 0xffff) as i128;
                        if exact_corr > i64::MAX as i128 || exact_corr < i64::MIN as i128 {
                            let sat = if exact_corr > 0 { i64::MAX as i128 } else { i64::MIN as i128 };
                            want = ((wire_ns(b, 34) as i128) << 16) + sat;
                            out.count("c10.delay-resp-correction-saturated");
                        }
                        if got != want {
                            out.oracle("C10", "delay-resp-time", &format!("{line} -> Delay_Resp receive+correction = {got}, receive time + request correction = {want} (2^-16 ns)"));
                        }
                    }
                }
                if rty == 0x2 && req.len() >= 54 {
                    let rs = of_type(0x3);
                    out.count("c10.pdelay-resp-expected");
                    if rs.len() != 1 {
                        out.oracle("C10", "pdelay-resp-count", &format!("{line} -> port {k} answered a Pdelay_Req with {} Pdelay_Resps", rs.len()));
                    }
                    for r in rs {
                        let b = &r.bytes;
                        if b.len() < 54 {
                            continue;
                        }
                        if be(b, 30, 2) != be(&req, 30, 2) || pid(b, 44) != pid(&req, 20) {
                            out.oracle("C10", "pdelay-resp-echo", &format!("{line} -> Pdelay_Resp numbered {} for requester {}", be(b, 30, 2), pid(b, 44)));
                        }
                        if wire_ns(b, 34) != ts >> 32 {
                            out.oracle("C10", "pdelay-resp-time", &format!("{line} -> requestReceiptTimestamp {} ns, receive time {} ns", wire_ns(b, 34), ts >> 32));
                        }
                        let want_ctx = format!("pdresp:{}:{}", be(&req, 30, 2), pid(&req, 20));
                        if r.ctx != want_ctx {
                            out.oracle("C10", "pdelay-resp-context", &format!("{line} -> timestamp context {} (expected {want_ctx})", r.ctx));
                        }
                    }
                }
            }
            _ => {}
        }
    }
}
