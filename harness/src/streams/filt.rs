//! C13 / C03 / C02: the real `KalmanFilter` and `BasicFilter` driven measurement by measurement with a
//! recording clock.
//!
//! FLT knew <thr> <dz> <st> <ms> <mf> <ifu> <iw> <dw> <plo> <phi> <hyst> <et> <deb> <seb> <pdf>
//!     durations (thr, st, et) as I96F32 nanosecond bit patterns (decimal), floats as 16 hex digits
//! FLT bnew <gain hex>
//! FLT m <event_time bits> <offset|-> <delay|-> <peer|-> <rawsync|-> <rawdelay|-> <clock bits> <fail>
//! FLT upd <clock bits> <fail> | FLT demob <clock bits> <fail>
//!     fail: bit 0 = set_frequency fails, bit 1 = step_clock fails (during this call)
//! Observation: `ok cmds=<F:hex:ok|S:bits:err|…|-> upd=<1|-> md=<bits|-> est=<bits>,<bits> | <state>`

use fixed::types::{I96F32, U96F32};
use statime::{
    config::TimePropertiesDS,
    filters::{BasicFilter, Filter, FilterUpdate, KalmanConfiguration, KalmanFilter},
    port::Measurement,
    time::{Duration, Time},
    Clock,
};

use super::Executor;
use crate::out::{guarded, last_panic};

#[derive(Clone, Debug, PartialEq)]
pub enum Cmd {
    Freq(f64, bool),
    Step(i128, bool),
}

pub struct RecClock {
    pub now: u128,
    pub fail: u8,
    pub log: Vec<Cmd>,
}

impl Clock for RecClock {
    type Error = ();
    fn now(&self) -> Time {
        Time::from_fixed_nanos(U96F32::from_bits(self.now))
    }
    fn step_clock(&mut self, o: Duration) -> Result<Time, ()> {
        let ok = self.fail & 2 == 0;
        self.log.push(Cmd::Step(o.nanos().to_bits(), ok));
        if ok {
            Ok(self.now())
        } else {
            Err(())
        }
    }
    fn set_frequency(&mut self, p: f64) -> Result<Time, ()> {
        let ok = self.fail & 1 == 0;
        self.log.push(Cmd::Freq(p, ok));
        if ok {
            Ok(self.now())
        } else {
            Err(())
        }
    }
    fn set_properties(&mut self, _t: &TimePropertiesDS) -> Result<(), ()> {
        Ok(())
    }
}

pub enum Filt {
    None,
    Kalman(KalmanFilter),
    Basic(BasicFilter),
}

pub struct FiltExec {
    pub f: Filt,
    pub clock: RecClock,
    /// commands of the last call (also after a panic: what was issued before it)
    pub last_cmds: Vec<Cmd>,
}

impl Default for FiltExec {
    fn default() -> Self {
        FiltExec { f: Filt::None, clock: RecClock { now: 0, fail: 0, log: vec![] }, last_cmds: vec![] }
    }
}

pub fn fhex(x: f64) -> String {
    format!("{:016x}", x.to_bits())
}
fn unf(s: &str) -> Option<f64> {
    u64::from_str_radix(s, 16).ok().map(f64::from_bits)
}
fn dur(s: &str) -> Option<Option<Duration>> {
    if s == "-" {
        Some(None)
    } else {
        s.parse::<i128>().ok().map(|b| Some(Duration::from_fixed_nanos(I96F32::from_bits(b))))
    }
}

fn cmds_str(c: &[Cmd]) -> String {
    if c.is_empty() {
        return "-".into();
    }
    c.iter()
        .map(|c| match c {
            Cmd::Freq(f, ok) => format!("F:{}:{}", fhex(*f), if *ok { "ok" } else { "err" }),
            Cmd::Step(b, ok) => format!("S:{}:{}", b, if *ok { "ok" } else { "err" }),
        })
        .collect::<Vec<_>>()
        .join(",")
}

impl FiltExec {
    fn state(&self) -> String {
        match &self.f {
            Filt::None => "none".into(),
            Filt::Kalman(k) => k.verif_state(),
            Filt::Basic(b) => b.verif_state(),
        }
    }
    fn finish(&mut self, r: Result<Option<FilterUpdate>, String>) -> String {
        self.last_cmds = std::mem::take(&mut self.clock.log);
        match r {
            Ok(u) => {
                let (upd, md) = match u {
                    Some(u) => (
                        u.next_update.map(|_| "1".to_string()).unwrap_or("-".into()),
                        u.mean_delay.map(|d| d.nanos().to_bits().to_string()).unwrap_or("-".into()),
                    ),
                    None => ("-".into(), "-".into()),
                };
                let est = match &self.f {
                    Filt::None => "-".to_string(),
                    Filt::Kalman(k) => match guarded(|| k.current_estimates()) {
                        Ok(e) => format!("{},{}", e.offset_from_master.nanos().to_bits(), e.mean_delay.nanos().to_bits()),
                        Err(_) => "panic".into(),
                    },
                    Filt::Basic(k) => {
                        let e = k.current_estimates();
                        format!("{},{}", e.offset_from_master.nanos().to_bits(), e.mean_delay.nanos().to_bits())
                    }
                };
                format!("ok cmds={} upd={} md={} est={} | {}", cmds_str(&self.last_cmds), upd, md, est, self.state())
            }
            Err(_) => {
                self.f = Filt::None;
                format!("R panic cmds={} at={}", cmds_str(&self.last_cmds), last_panic())
            }
        }
    }
}

impl Executor for FiltExec {
    fn exec(&mut self, line: &str) -> String {
        let w: Vec<&str> = line.split_whitespace().filter(|t| !t.starts_with('#')).collect();
        if w.len() < 2 || w[0] != "FLT" {
            return "bad-op".into();
        }
        match w[1] {
            "knew" => {
                if w.len() != 17 {
                    return "bad-op".into();
                }
                let d = |i: usize| dur(w[i]).flatten();
                let f = |i: usize| unf(w[i]);
                let (Some(thr), Some(dz), Some(st), Some(ms), Some(mf), Some(ifu), Some(iw), Some(dw), Some(plo), Some(phi), Ok(hyst), Some(et), Ok(deb), Ok(seb), Some(pdf)) = (
                    d(2), f(3), d(4), f(5), f(6), f(7), f(8), f(9), f(10), f(11), w[12].parse::<u8>(), d(13), w[14].parse::<usize>(), w[15].parse::<usize>(), f(16),
                ) else {
                    return "bad-op".into();
                };
                let cfg = KalmanConfiguration {
                    step_threshold: thr,
                    deadzone: dz,
                    steer_time: st,
                    max_steer: ms,
                    max_freq_offset: mf,
                    initial_frequency_uncertainty: ifu,
                    initial_wander: iw,
                    delay_wander: dw,
                    precision_low_probability: plo,
                    precision_high_probability: phi,
                    precision_hysteresis: hyst,
                    estimate_threshold: et,
                    difference_estimation_boundary: deb,
                    statistical_estimation_boundary: seb,
                    peer_delay_factor: pdf,
                };
                match guarded(|| KalmanFilter::new(cfg)) {
                    Ok(k) => {
                        self.f = Filt::Kalman(k);
                        self.clock.log.clear();
                        format!("ok new | {}", self.state())
                    }
                    Err(_) => {
                        self.f = Filt::None;
                        format!("R panic cmds=- at={}", last_panic())
                    }
                }
            }
            "bnew" => {
                let Some(g) = w.get(2).and_then(|x| unf(x)) else { return "bad-op".into() };
                self.f = Filt::Basic(BasicFilter::new(g));
                self.clock.log.clear();
                format!("ok new | {}", self.state())
            }
            "m" => {
                if w.len() != 10 {
                    return "bad-op".into();
                }
                let (Ok(et), Some(off), Some(delay), Some(peer), Some(rs), Some(rd), Ok(clk), Ok(fail)) =
                    (w[2].parse::<u128>(), dur(w[3]), dur(w[4]), dur(w[5]), dur(w[6]), dur(w[7]), w[8].parse::<u128>(), w[9].parse::<u8>())
                else {
                    return "bad-op".into();
                };
                let m = Measurement {
                    event_time: Time::from_fixed_nanos(U96F32::from_bits(et)),
                    offset: off,
                    delay,
                    peer_delay: peer,
                    raw_sync_offset: rs,
                    raw_delay_offset: rd,
                };
                self.clock.now = clk;
                self.clock.fail = fail;
                self.clock.log.clear();
                let clock = &mut self.clock;
                let r = match &mut self.f {
                    Filt::None => return "dead".into(),
                    Filt::Kalman(k) => guarded(|| Some(k.measurement(m, clock))),
                    Filt::Basic(k) => guarded(|| Some(k.measurement(m, clock))),
                };
                self.finish(r)
            }
            "upd" | "demob" => {
                let (Some(Ok(clk)), Some(Ok(fail))) = (w.get(2).map(|x| x.parse::<u128>()), w.get(3).map(|x| x.parse::<u8>())) else {
                    return "bad-op".into();
                };
                self.clock.now = clk;
                self.clock.fail = fail;
                self.clock.log.clear();
                let clock = &mut self.clock;
                if w[1] == "upd" {
                    let r = match &mut self.f {
                        Filt::None => return "dead".into(),
                        Filt::Kalman(k) => guarded(|| Some(k.update(clock))),
                        Filt::Basic(k) => guarded(|| Some(k.update(clock))),
                    };
                    self.finish(r)
                } else {
                    let r = match std::mem::replace(&mut self.f, Filt::None) {
                        Filt::None => return "dead".into(),
                        Filt::Kalman(k) => guarded(|| {
                            k.demobilize(clock);
                            None
                        }),
                        Filt::Basic(k) => guarded(|| {
                            k.demobilize(clock);
                            None
                        }),
                    };
                    self.finish(r)
                }
            }
            _ => "bad-op".into(),
        }
    }
}
