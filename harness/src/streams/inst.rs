//! Instance / port executor: runs the host-call alphabet of Appendix C of DESIGN.md
//! against real `PtpInstance` / `Port` objects and prints canonical observations.

use std::cell::RefCell;

use statime::{
    config::{
        ClockIdentity, ClockQuality, DelayMechanism, InstanceConfig, LeapIndicator, PortConfig, PtpMinorVersion, SdoId,
        TimePropertiesDS,
    },
    filters::{Filter, FilterEstimate, FilterUpdate},
    port::{
        ForwardedTLV, ForwardedTLVProvider, InBmca, Measurement, Port, PortAction, PortActionIterator, Running,
        TimestampContext,
    },
    time::{Duration, Interval, Time},
    verif as hook, Clock, PtpInstance, PtpInstanceState, PtpInstanceStateMutex,
};

use super::Executor;
use crate::out::{guarded, hex, unhex};

// ---------------------------------------------------------------------------------------------
// shared event log (filter / clock / lock events happen inside library calls)

thread_local! {
    static EVENTS: RefCell<Vec<(usize, String)>> = const { RefCell::new(Vec::new()) };
    static LOCKS: RefCell<LockLog> = const { RefCell::new(LockLog { depth: 0, max_depth: 0, trace: String::new(), nested: 0 }) };
}

pub struct LockLog {
    pub depth: u32,
    pub max_depth: u32,
    pub trace: String,
    pub nested: u64,
}

fn event(port: usize, s: String) {
    EVENTS.with(|e| e.borrow_mut().push((port, s)));
}

fn drain_events() -> Vec<(usize, String)> {
    EVENTS.with(|e| std::mem::take(&mut *e.borrow_mut()))
}

/// `PtpInstanceStateMutex` that records every acquisition and its nesting depth (C17).
/// It never panics on nesting by itself (`RefCell` inside would) — nested *write* or read-under-write
/// is reported through the lock log, and the inner `RefCell` is only borrowed at depth 0.
pub struct RecMutex {
    inner: RefCell<PtpInstanceState>,
}

impl PtpInstanceStateMutex for RecMutex {
    fn new(state: PtpInstanceState) -> Self {
        RecMutex { inner: RefCell::new(state) }
    }
    fn with_ref<R, F: FnOnce(&PtpInstanceState) -> R>(&self, f: F) -> R {
        LOCKS.with(|l| {
            let mut l = l.borrow_mut();
            l.depth += 1;
            if l.depth > 1 {
                l.nested += 1;
            }
            l.max_depth = l.max_depth.max(l.depth);
            l.trace.push('r');
        });
        let r = f(&self.inner.borrow());
        LOCKS.with(|l| {
            let mut l = l.borrow_mut();
            l.depth -= 1;
            l.trace.push('.');
        });
        r
    }
    fn with_mut<R, F: FnOnce(&mut PtpInstanceState) -> R>(&self, f: F) -> R {
        LOCKS.with(|l| {
            let mut l = l.borrow_mut();
            l.depth += 1;
            if l.depth > 1 {
                l.nested += 1;
            }
            l.max_depth = l.max_depth.max(l.depth);
            l.trace.push('w');
        });
        let r = f(&mut self.inner.borrow_mut());
        LOCKS.with(|l| {
            let mut l = l.borrow_mut();
            l.depth -= 1;
            l.trace.push('.');
        });
        r
    }
}

pub fn take_lock_trace() -> (String, u32, u64) {
    LOCKS.with(|l| {
        let mut l = l.borrow_mut();
        let t = std::mem::take(&mut l.trace);
        let m = l.max_depth;
        let n = l.nested;
        l.max_depth = 0;
        l.nested = 0;
        l.depth = 0;
        (t, m, n)
    })
}

/// The recording filter: never touches the clock; mean_delay := delay <|> peer_delay.
pub struct RecFilter {
    port: usize,
}

fn od(d: Option<Duration>) -> String {
    match d {
        Some(d) => d.nanos().to_bits().to_string(),
        None => "-".into(),
    }
}

impl Filter for RecFilter {
    type Config = usize;
    fn new(config: usize) -> Self {
        RecFilter { port: config }
    }
    fn measurement<C: Clock>(&mut self, m: Measurement, _clock: &mut C) -> FilterUpdate {
        event(
            self.port,
            format!(
                "meas {} {} {} {} {} {}",
                m.event_time.nanos().to_bits(),
                od(m.offset),
                od(m.delay),
                od(m.peer_delay),
                od(m.raw_sync_offset),
                od(m.raw_delay_offset)
            ),
        );
        FilterUpdate { next_update: None, mean_delay: m.delay.or(m.peer_delay) }
    }
    fn update<C: Clock>(&mut self, _clock: &mut C) -> FilterUpdate {
        FilterUpdate::default()
    }
    fn demobilize<C: Clock>(self, _clock: &mut C) {
        event(self.port, "demob".into());
    }
    fn current_estimates(&self) -> FilterEstimate {
        // constants that name the port (the observable current data set takes them from the Slave port only)
        FilterEstimate {
            offset_from_master: Duration::from_fixed_nanos(fixed::types::I96F32::from_bits(est_offset_bits(self.port))),
            mean_delay: Duration::from_fixed_nanos(fixed::types::I96F32::from_bits(est_delay_bits(self.port))),
        }
    }
}

/// what the recording filter of port `k` reports as its estimates (see `current_estimates`)
pub fn est_offset_bits(k: usize) -> i128 {
    -((1000 + k as i128) << 32) - 7
}
pub fn est_delay_bits(k: usize) -> i128 {
    // negative on odd-numbered ports: a filter's delay estimate can be below zero (noise, asymmetry)
    let v = ((2000 + k as i128) << 32) + 9;
    if k % 2 == 1 {
        -v
    } else {
        v
    }
}

pub fn tp_str(t: &TimePropertiesDS) -> String {
    let leap = match t.leap_indicator {
        LeapIndicator::NoLeap => "0",
        LeapIndicator::Leap61 => "61",
        LeapIndicator::Leap59 => "59",
    };
    format!(
        "{} {} {} {} {} {}",
        t.current_utc_offset.map(|x| x.to_string()).unwrap_or("-".into()),
        leap,
        t.time_traceable as u8,
        t.frequency_traceable as u8,
        t.ptp_timescale as u8,
        t.time_source.to_primitive()
    )
}

pub struct RecClock {
    port: usize,
}

impl Clock for RecClock {
    type Error = ();
    fn now(&self) -> Time {
        Time::from_secs(0)
    }
    fn step_clock(&mut self, offset: Duration) -> Result<Time, ()> {
        event(self.port, format!("clock-step {}", offset.nanos().to_bits()));
        Ok(Time::from_secs(0))
    }
    fn set_frequency(&mut self, ppm: f64) -> Result<Time, ()> {
        event(self.port, format!("clock-freq {:016x}", ppm.to_bits()));
        Ok(Time::from_secs(0))
    }
    fn set_properties(&mut self, t: &TimePropertiesDS) -> Result<(), ()> {
        event(self.port, format!("props {}", tp_str(t)));
        // the host's clock may refuse (`SET clock_props_fail 1`): the library logs the error and carries on
        if PROPS_FAIL.with(|f| f.get()) {
            Err(())
        } else {
            Ok(())
        }
    }
}

/// constant RNG (`Open01` samples become a constant); RNG-scaled durations are compared by kind only
pub struct ConstRng;
impl rand::RngCore for ConstRng {
    fn next_u32(&mut self) -> u32 {
        0x8000_0000
    }
    fn next_u64(&mut self) -> u64 {
        0x8000_0000_0000_0000
    }
    fn fill_bytes(&mut self, dest: &mut [u8]) {
        dest.fill(0x80)
    }
    fn try_fill_bytes(&mut self, dest: &mut [u8]) -> Result<(), rand::Error> {
        dest.fill(0x80);
        Ok(())
    }
}

/// the ports' random source: a fixed sequence per port (splitmix64 from the port number), so that every random
/// timer duration is reproducible and *which* draw a duration comes from is observable (a call that consumes a
/// draw it should not shifts every later duration)
pub struct SeqRng(pub u64);
impl SeqRng {
    fn next(&mut self) -> u64 {
        self.0 = self.0.wrapping_add(0x9e37_79b9_7f4a_7c15);
        let mut z = self.0;
        z = (z ^ (z >> 30)).wrapping_mul(0xbf58_476d_1ce4_e5b9);
        z = (z ^ (z >> 27)).wrapping_mul(0x94d0_49bb_1331_11eb);
        z ^ (z >> 31)
    }
}
impl rand::RngCore for SeqRng {
    fn next_u32(&mut self) -> u32 {
        (self.next() >> 32) as u32
    }
    fn next_u64(&mut self) -> u64 {
        self.next()
    }
    fn fill_bytes(&mut self, dest: &mut [u8]) {
        for b in dest.iter_mut() {
            *b = self.next() as u8;
        }
    }
    fn try_fill_bytes(&mut self, dest: &mut [u8]) -> Result<(), rand::Error> {
        self.fill_bytes(dest);
        Ok(())
    }
}

thread_local! {
    /// whether the ports' clocks refuse `set_properties`
    static PROPS_FAIL: std::cell::Cell<bool> = const { std::cell::Cell::new(false) };
}

thread_local! {
    /// exact durations of the timer actions of the call in progress: (port, kind, nanoseconds)
    static RAW_TIMERS: RefCell<Vec<(usize, &'static str, u128)>> = const { RefCell::new(Vec::new()) };
    /// ... and of the last completed `exec`
    static LAST_RAW_TIMERS: RefCell<Vec<(usize, &'static str, u128)>> = const { RefCell::new(Vec::new()) };
}

/// the exact timer durations the last executed op asked for (the observation prints randomised ones as `rand`)
pub fn last_raw_timers() -> Vec<(usize, &'static str, u128)> {
    LAST_RAW_TIMERS.with(|l| l.borrow().clone())
}

type Acc = Option<Vec<ClockIdentity>>;
type RPort = Port<'static, Running, Acc, SeqRng, RecClock, RecFilter, RecMutex>;
type BPort = Port<'static, InBmca, Acc, SeqRng, RecClock, RecFilter, RecMutex>;

enum Slot {
    Running(RPort),
    InBmca(BPort),
    Taken,
}

/// the host's forwarded-TLV queue handed to `handle_announce_timer`
pub struct Queue {
    pub items: std::collections::VecDeque<ForwardedTLV<'static>>,
    pub loose: bool,
}

impl ForwardedTLVProvider for Queue {
    fn next_if_smaller(&mut self, max_size: usize) -> Option<ForwardedTLV<'_>> {
        let sz = self.items.front()?.size();
        if sz < max_size || (self.loose && sz == max_size) {
            self.items.pop_front()
        } else {
            None
        }
    }
}

pub struct InstExec {
    inst: Option<&'static PtpInstance<RecFilter, RecMutex>>,
    ports: Vec<Slot>,
    cfgs: Vec<PortCfgLite>,
    /// ForwardTLV actions seen, kept so that FWD items can be rebuilt from text (sender, type, value)
    pub lock_depth_max: u32,
    pub lock_nested: u64,
    pub last_lock_trace: String,
    /// the same scenario run without the lock log etc. is not needed; `emit_locks` adds ` | L <trace>` to every line
    pub emit_locks: bool,
}

#[derive(Clone, Copy)]
pub struct PortCfgLite {
    pub p2p: bool,
    pub master_only: bool,
}

fn pid_str(clock: &[u8; 8], port: u16) -> String {
    format!("{}:{}", hex(clock), port)
}

fn dur_str(d: core::time::Duration, exact: bool) -> String {
    if exact {
        d.as_nanos().to_string()
    } else {
        "rand".into()
    }
}

/// masks octets the serializer leaves untouched in the port's reused packet buffer
fn canon_frame(data: &[u8]) -> Vec<u8> {
    let mut v = data.to_vec();
    if v.len() > 46 && v[0] & 0x0f == 0xb {
        v[46] = 0;
    }
    v
}

fn action_str(a: PortAction<'_>) -> String {
    match a {
        PortAction::SendEvent { context, data, link_local } => {
            format!("send evt ll={} ctx={} {}", link_local as u8, hook::timestamp_context_dump(&context), hex(&canon_frame(data)))
        }
        PortAction::SendGeneral { data, link_local } => format!("send gen ll={} {}", link_local as u8, hex(&canon_frame(data))),
        PortAction::ResetAnnounceTimer { duration } => format!("reset ann {}", dur_str(duration, true)),
        PortAction::ResetSyncTimer { duration } => format!("reset sync {}", dur_str(duration, true)),
        PortAction::ResetDelayRequestTimer { duration } => {
            // exact only when zero (S1 decision); otherwise RNG-scaled
            format!("reset delay {}", dur_str(duration, duration.is_zero()))
        }
        PortAction::ResetAnnounceReceiptTimer { duration } => format!("reset rcpt {}", dur_str(duration, false)),
        PortAction::ResetFilterUpdateTimer { duration } => format!("reset filt {}", dur_str(duration, true)),
        PortAction::ForwardTLV { tlv } => {
            // sender / type / value are private: recover them from the Debug form
            let d = format!("{:?}", tlv);
            fwd_from_debug(&d)
        }
    }
}

/// `ForwardedTLV { tlv: Tlv { tlv_type: X, value: [..] }, sender_identity: PortIdentity { clock_identity: ClockIdentity([..]), port_number: n } }`
fn fwd_from_debug(d: &str) -> String {
    fn list_after<'a>(d: &'a str, key: &str) -> Vec<u8> {
        let i = d.find(key).map(|i| i + key.len()).unwrap_or(0);
        let rest = &d[i..];
        let a = rest.find('[').unwrap_or(0);
        let b = rest.find(']').unwrap_or(0);
        rest[a + 1..b].split(',').filter_map(|x| x.trim().parse::<u8>().ok()).collect()
    }
    let value = list_after(d, "value:");
    let clock = list_after(d, "ClockIdentity(");
    let port: u16 = d.rsplit("port_number:").next().and_then(|x| x.trim().trim_end_matches(|c| c == '}' || c == ' ').parse().ok()).unwrap_or(0);
    let ty_s = {
        let i = d.find("tlv_type:").map(|i| i + 9).unwrap_or(0);
        let rest = &d[i..];
        let e = rest.find(", value").unwrap_or(rest.len());
        rest[..e].trim().to_string()
    };
    let ty = tlv_type_from_debug(&ty_s);
    let mut c8 = [0u8; 8];
    for (i, b) in clock.iter().take(8).enumerate() {
        c8[i] = *b;
    }
    format!("fwd {} {} {}", pid_str(&c8, port), ty, hex(&value))
}

fn tlv_type_from_debug(s: &str) -> u16 {
    if let Some(i) = s.find('(') {
        return s[i + 1..s.len() - 1].trim().parse().unwrap_or(0);
    }
    match s {
        "Management" => 1,
        "ManagementErrorStatus" => 2,
        "OrganizationExtension" => 3,
        "RequestUnicastTransmission" => 4,
        "GrantUnicastTransmission" => 5,
        "CancelUnicastTransmission" => 6,
        "AcknowledgeCancelUnicastTransmission" => 7,
        "PathTrace" => 8,
        "AlternateTimeOffsetIndicator" => 9,
        "OrganizationExtensionPropagate" => 0x4000,
        "EnhancedAccuracyMetrics" => 0x4001,
        "OrganizationExtensionDoNotPropagate" => 0x8000,
        "L1Sync" => 0x8001,
        "PortCommunicationAvailability" => 0x8002,
        "ProtocolAddress" => 0x8003,
        "SlaveRxSyncTimingData" => 0x8004,
        "SlaveRxSyncComputedData" => 0x8005,
        "SlaveTxEventTimestamps" => 0x8006,
        "CumulativeRateRatio" => 0x8007,
        "Pad" => 0x8008,
        "Authentication" => 0x8009,
        _ => 0xffff,
    }
}

fn collect(k: usize, it: PortActionIterator<'_>) -> Vec<String> {
    it.map(|a| {
        let raw = match &a {
            PortAction::ResetAnnounceTimer { duration } => Some(("ann", *duration)),
            PortAction::ResetSyncTimer { duration } => Some(("sync", *duration)),
            PortAction::ResetDelayRequestTimer { duration } => Some(("delay", *duration)),
            PortAction::ResetAnnounceReceiptTimer { duration } => Some(("rcpt", *duration)),
            PortAction::ResetFilterUpdateTimer { duration } => Some(("filt", *duration)),
            _ => None,
        };
        if let Some((kind, d)) = raw {
            RAW_TIMERS.with(|r| r.borrow_mut().push((k, kind, d.as_nanos())));
        }
        format!("P{k}:{}", action_str(a))
    })
    .collect()
}

fn clock8(s: &str) -> Option<[u8; 8]> {
    let b = unhex(s)?;
    b.try_into().ok()
}

impl InstExec {
    pub fn new() -> Self {
        InstExec { inst: None, ports: vec![], cfgs: vec![], lock_depth_max: 0, lock_nested: 0, last_lock_trace: String::new(), emit_locks: false }
    }

    pub fn port_cfg(&self, k: usize) -> Option<PortCfgLite> {
        self.cfgs.get(k.wrapping_sub(1)).copied()
    }

    /// `DUMP`: the data sets as the daemon exposes them for observation (`statime-linux/src/main.rs` builds its
    /// `ObservableInstanceState` from exactly these getters after every BMCA run), every field
    fn observable_dump(&self) -> String {
        let inst = self.inst.unwrap();
        let tiv = |t: statime::observability::port::DelayMechanism| -> (String, i8, String) {
            use statime::observability::port::DelayMechanism as D;
            match t {
                D::E2E { log_min_delay_req_interval } => ("E2E".into(), log_min_delay_req_interval, "-".into()),
                D::P2P { log_min_p_delay_req_interval, mean_link_delay } => ("P2P".into(), log_min_p_delay_req_interval, hook::duration_to_time_interval_bits(Duration::from(mean_link_delay)).to_string()),
                other => (format!("{other:?}"), 0, "-".into()),
            }
        };
        let mut contribution = None;
        let mut ports = Vec::new();
        for (i, s) in self.ports.iter().enumerate() {
            let (ds, c) = match s {
                Slot::Running(p) => (p.port_ds(), p.port_current_ds_contribution()),
                Slot::InBmca(p) => (p.port_ds(), p.port_current_ds_contribution()),
                Slot::Taken => unreachable!(),
            };
            if contribution.is_none() {
                contribution = c;
            }
            let (mech, dl, mld) = tiv(ds.delay_mechanism);
            ports.push(format!(
                "P{} {} {:?} {} {} {} {} {} {} {} {} {} {}",
                i + 1,
                pid_str(&ds.port_identity.clock_identity.0, ds.port_identity.port_number),
                ds.port_state,
                ds.log_announce_interval,
                ds.announce_receipt_timeout,
                ds.log_sync_interval,
                mech,
                dl,
                mld,
                ds.version_number,
                ds.minor_version_number,
                hook::duration_to_time_interval_bits(Duration::from(ds.delay_asymmetry)),
                ds.master_only as u8
            ));
        }
        let cur = inst.current_ds(contribution);
        let par = inst.parent_ds();
        let tp = inst.time_properties_ds();
        let pt = inst.path_trace_ds();
        let df = inst.default_ds();
        let path = if pt.list.is_empty() { "-".to_string() } else { pt.list.iter().map(|c| hex(&c.0)).collect::<Vec<_>>().join(",") };
        let mut out = format!(
            "OBSV DF {} {} {} {} {} {} {} {} {} {} | CU {} {} {} | PA {} {} {} {} {} {} {} | TP {} | PT {} {}",
            hex(&df.clock_identity.0),
            df.number_ports,
            df.clock_quality.clock_class,
            df.clock_quality.clock_accuracy.to_primitive(),
            df.clock_quality.offset_scaled_log_variance,
            df.priority_1,
            df.priority_2,
            df.domain_number,
            df.slave_only as u8,
            u16::from(df.sdo_id),
            cur.steps_removed,
            cur.offset_from_master.nanos().to_bits(),
            cur.mean_delay.nanos().to_bits(),
            pid_str(&par.parent_port_identity.clock_identity.0, par.parent_port_identity.port_number),
            hex(&par.grandmaster_identity.0),
            par.grandmaster_clock_quality.clock_class,
            par.grandmaster_clock_quality.clock_accuracy.to_primitive(),
            par.grandmaster_clock_quality.offset_scaled_log_variance,
            par.grandmaster_priority_1,
            par.grandmaster_priority_2,
            tp_str(&tp),
            pt.enable as u8,
            path
        );
        for p in ports {
            out.push_str(" | ");
            out.push_str(&p);
        }
        out
    }

    fn state_line(&self) -> String {
        let inst = self.inst.unwrap();
        let sts: Vec<String> = self
            .ports
            .iter()
            .map(|s| {
                let ds = match s {
                    Slot::Running(p) => p.port_ds(),
                    Slot::InBmca(p) => p.port_ds(),
                    Slot::Taken => unreachable!(),
                };
                format!("{:?}", ds.port_state)
            })
            .collect();
        // the master each Slave port is bound to (verif hook; not part of any observable data set)
        let rms: Vec<String> = self
            .ports
            .iter()
            .map(|s| {
                let rm = match s {
                    Slot::Running(p) => p.verif_remote_master(),
                    Slot::InBmca(p) => p.verif_remote_master(),
                    Slot::Taken => unreachable!(),
                };
                match rm {
                    Some(id) => pid_str(&id.clock_identity.0, id.port_number),
                    None => "-".to_string(),
                }
            })
            .collect();
        let cur = inst.current_ds(None);
        let par = inst.parent_ds();
        let tp = inst.time_properties_ds();
        let pt = inst.path_trace_ds();
        let df = inst.default_ds();
        let path = if pt.list.is_empty() { "-".to_string() } else { pt.list.iter().map(|c| hex(&c.0)).collect::<Vec<_>>().join(",") };
        format!(
            "S {} | D {} {} {} {} {} {} {} {} | T {} | PT {} {} | DF {} {} {} {} {} | RM {}",
            if sts.is_empty() { "-".to_string() } else { sts.join(",") },
            cur.steps_removed,
            pid_str(&par.parent_port_identity.clock_identity.0, par.parent_port_identity.port_number),
            hex(&par.grandmaster_identity.0),
            par.grandmaster_clock_quality.clock_class,
            par.grandmaster_clock_quality.clock_accuracy.to_primitive(),
            par.grandmaster_clock_quality.offset_scaled_log_variance,
            par.grandmaster_priority_1,
            par.grandmaster_priority_2,
            tp_str(&tp),
            pt.enable as u8,
            path,
            df.clock_quality.clock_class,
            df.clock_quality.clock_accuracy.to_primitive(),
            df.clock_quality.offset_scaled_log_variance,
            df.slave_only as u8,
            df.number_ports,
            if rms.is_empty() { "-".to_string() } else { rms.join(",") }
        )
    }

    fn init(&mut self, w: &[&str]) -> Option<String> {
        if w.len() != 16 {
            return None;
        }
        let cfg = InstanceConfig {
            clock_identity: ClockIdentity(clock8(w[0])?),
            priority_1: w[1].parse().ok()?,
            priority_2: w[2].parse().ok()?,
            domain_number: w[3].parse().ok()?,
            sdo_id: SdoId::try_from(w[4].parse::<u16>().ok()?).ok()?,
            slave_only: w[5] == "1",
            path_trace: w[6] == "1",
            clock_quality: ClockQuality {
                clock_class: w[7].parse().ok()?,
                clock_accuracy: hook::clock_accuracy_from_primitive(w[8].parse().ok()?),
                offset_scaled_log_variance: w[9].parse().ok()?,
            },
        };
        let tp = TimePropertiesDS {
            current_utc_offset: if w[10] == "-" { None } else { Some(w[10].parse().ok()?) },
            leap_indicator: match w[11] {
                "0" => LeapIndicator::NoLeap,
                "61" => LeapIndicator::Leap61,
                "59" => LeapIndicator::Leap59,
                _ => return None,
            },
            time_traceable: w[12] == "1",
            frequency_traceable: w[13] == "1",
            ptp_timescale: w[14] == "1",
            time_source: hook::time_source_from_primitive(w[15].parse().ok()?),
        };
        self.ports.clear();
        self.cfgs.clear();
        let inst: &'static PtpInstance<RecFilter, RecMutex> = Box::leak(Box::new(PtpInstance::new(cfg, tp)));
        self.inst = Some(inst);
        Some(format!("- | R ok | {}", self.state_line()))
    }

    fn add_port(&mut self, w: &[&str]) -> Option<Result<Vec<String>, String>> {
        if w.len() != 9 {
            return None;
        }
        let acc: Acc = match w[0] {
            "-" => None,
            "none" => Some(vec![]),
            l => Some(l.split(',').map(|c| clock8(c).map(ClockIdentity)).collect::<Option<Vec<_>>>()?),
        };
        let p2p = w[1] == "1";
        let dl: i8 = w[2].parse().ok()?;
        let cfg = PortConfig {
            acceptable_master_list: acc,
            delay_mechanism: if p2p { DelayMechanism::P2P { interval: Interval::from_log_2(dl) } } else { DelayMechanism::E2E { interval: Interval::from_log_2(dl) } },
            announce_interval: Interval::from_log_2(w[3].parse().ok()?),
            announce_receipt_timeout: w[4].parse().ok()?,
            sync_interval: Interval::from_log_2(w[5].parse().ok()?),
            master_only: w[6] == "1",
            delay_asymmetry: Duration::from_fixed_nanos(fixed::types::I96F32::from_bits(w[7].parse().ok()?)),
            minor_ptp_version: PtpMinorVersion::try_from(w[8].parse::<u8>().ok()?).ok()?,
        };
        let inst = self.inst?;
        let k = self.ports.len() + 1;
        self.cfgs.push(PortCfgLite { p2p, master_only: w[6] == "1" });
        let r = guarded(|| {
            let port = inst.add_port(cfg, k, RecClock { port: k }, SeqRng(k as u64));
            let (running, actions) = port.end_bmca();
            let a = collect(k, actions);
            (running, a)
        });
        Some(match r {
            Ok((running, a)) => {
                self.ports.push(Slot::Running(running));
                Ok(a)
            }
            Err(m) => Err(m),
        })
    }

    fn with_port<T>(&mut self, k: usize, f: impl FnOnce(&mut RPort) -> T) -> Option<T> {
        match self.ports.get_mut(k.wrapping_sub(1))? {
            Slot::Running(p) => Some(f(p)),
            _ => None,
        }
    }

    fn bmca(&mut self, order: &[usize]) -> Result<Vec<String>, String> {
        let inst = self.inst.unwrap();
        // start_bmca on every port
        let n = self.ports.len();
        for i in 0..n {
            let s = std::mem::replace(&mut self.ports[i], Slot::Taken);
            self.ports[i] = match s {
                Slot::Running(p) => Slot::InBmca(p.start_bmca()),
                other => other,
            };
        }
        let ports = &mut self.ports;
        let r = guarded(|| {
            // build the slice in the requested order
            let mut refs: Vec<Option<&mut BPort>> = ports
                .iter_mut()
                .map(|s| match s {
                    Slot::InBmca(p) => Some(p),
                    _ => None,
                })
                .collect();
            let mut slice: Vec<&mut BPort> = Vec::new();
            for &k in order {
                if let Some(slot) = refs.get_mut(k.wrapping_sub(1)) {
                    if let Some(p) = slot.take() {
                        slice.push(p);
                    }
                }
            }
            inst.bmca(&mut slice);
        });
        let mut out: Vec<String> = drain_events().into_iter().map(|(k, s)| format!("P{k}:{s}")).collect();
        match r {
            Err(m) => return Err(m),
            Ok(()) => {}
        }
        for i in 0..n {
            let s = std::mem::replace(&mut self.ports[i], Slot::Taken);
            self.ports[i] = match s {
                Slot::InBmca(p) => {
                    let (running, actions) = p.end_bmca();
                    out.extend(collect(i + 1, actions));
                    Slot::Running(running)
                }
                other => other,
            };
        }
        Ok(out)
    }

    /// executes one op; `Err` = the library panicked (scenario is dead afterwards)
    fn run(&mut self, w: &[&str]) -> Option<Result<(Vec<String>, String), String>> {
        let head = *w.first()?;
        let mut extra = String::new();
        let res: Result<Vec<String>, String> = match head {
            "PORT" => self.add_port(&w[1..])?,
            "SET" => {
                let inst = self.inst?;
                match w.get(1).copied()? {
                    "slave_only" => {
                        let b = *w.get(2)? == "1";
                        guarded(|| inst.set_slave_only(b)).map(|_| vec![])
                    }
                    "quality" => {
                        let q = ClockQuality {
                            clock_class: w.get(2)?.parse().ok()?,
                            clock_accuracy: hook::clock_accuracy_from_primitive(w.get(3)?.parse().ok()?),
                            offset_scaled_log_variance: w.get(4)?.parse().ok()?,
                        };
                        guarded(|| inst.set_clock_quality(q)).map(|_| vec![])
                    }
                    _ => return None,
                }
            }
            "BMCA" => {
                self.inst?;
                let order: Vec<usize> = match w.get(1) {
                    Some(s) => s.split(',').map(|x| x.parse().ok()).collect::<Option<Vec<_>>>()?,
                    None => vec![],
                };
                self.bmca(&order)
            }
            pk if pk.starts_with('P') => {
                let k: usize = pk[1..].parse().ok()?;
                self.inst?;
                match w.get(1).copied()? {
                    "GEN" => {
                        let data = unhex(w.get(2)?)?;
                        match self.with_port(k, |p| guarded(|| collect(k, p.handle_general_receive(&data)))) {
                            Some(r) => r,
                            None => Ok(vec![]),
                        }
                    }
                    "EVT" => {
                        let data = unhex(w.get(2)?)?;
                        let t: u128 = w.get(3)?.parse().ok()?;
                        let t = Time::from_fixed_nanos(fixed::types::U96F32::from_bits(t));
                        match self.with_port(k, |p| guarded(|| collect(k, p.handle_event_receive(&data, t)))) {
                            Some(r) => r,
                            None => Ok(vec![]),
                        }
                    }
                    "TMR" => match w.get(2).copied()? {
                        "ann" => {
                            let loose = *w.get(3)? == "1";
                            let mut q = Queue { items: Default::default(), loose };
                            for item in &w[4..] {
                                q.items.push_back(fwd_from_text(item)?);
                            }
                            let r = match self.with_port(k, |p| guarded(|| collect(k, p.handle_announce_timer(&mut q)))) {
                                Some(r) => r,
                                None => Ok(vec![]),
                            };
                            extra = format!(" q={}", q.items.len());
                            r
                        }
                        "sync" => self.with_port(k, |p| guarded(|| collect(k, p.handle_sync_timer()))).unwrap_or(Ok(vec![])),
                        "delay" => self.with_port(k, |p| guarded(|| collect(k, p.handle_delay_request_timer()))).unwrap_or(Ok(vec![])),
                        "rcpt" => self.with_port(k, |p| guarded(|| collect(k, p.handle_announce_receipt_timer()))).unwrap_or(Ok(vec![])),
                        "filt" => self.with_port(k, |p| guarded(|| collect(k, p.handle_filter_update_timer()))).unwrap_or(Ok(vec![])),
                        _ => return None,
                    },
                    "TXTS" => {
                        let kind = w.get(2).copied()?;
                        let id: u16 = w.get(3)?.parse().ok()?;
                        let (ctx, ts): (TimestampContext, &str) = match kind {
                            "sync" => (hook::timestamp_context(0, id, [0; 8], 0), w.get(4)?),
                            "dreq" => (hook::timestamp_context(1, id, [0; 8], 0), w.get(4)?),
                            "pdreq" => (hook::timestamp_context(2, id, [0; 8], 0), w.get(4)?),
                            "pdresp" => {
                                let mut it = w.get(4)?.split(':');
                                let c = clock8(it.next()?)?;
                                let p: u16 = it.next()?.parse().ok()?;
                                (hook::timestamp_context(3, id, c, p), w.get(5)?)
                            }
                            _ => return None,
                        };
                        let t: u128 = ts.parse().ok()?;
                        let t = Time::from_fixed_nanos(fixed::types::U96F32::from_bits(t));
                        match self.with_port(k, |p| guarded(|| collect(k, p.handle_send_timestamp(ctx, t)))) {
                            Some(r) => r,
                            None => Ok(vec![]),
                        }
                    }
                    _ => return None,
                }
            }
            _ => return None,
        };
        // events that happened inside the call come first (BMCA drains its own)
        let ev: Vec<String> = drain_events().into_iter().map(|(k, s)| format!("P{k}:{s}")).collect();
        Some(res.map(|mut items| {
            let mut all = ev;
            all.append(&mut items);
            (all, extra)
        }))
    }
}

impl Default for InstExec {
    fn default() -> Self {
        Self::new()
    }
}


/// `ACC <kind> <list> <identity>`: every implementation of `AcceptableMasterList` the library ships, asked whether it
/// accepts `identity` (`list`: `-` = empty, else comma separated clock identities)
pub fn acc_line(w: &[&str]) -> String {
    use statime::config::{AcceptAnyMaster, AcceptableMasterList};
    if w.len() != 3 {
        return "bad-op".into();
    }
    let list: Option<Vec<ClockIdentity>> = if w[1] == "-" { Some(vec![]) } else { w[1].split(',').map(|c| clock8(c).map(ClockIdentity)).collect() };
    let (Some(list), Some(id)) = (list, clock8(w[2]).map(ClockIdentity)) else { return "bad-op".into() };
    let r = match w[0] {
        "any" => AcceptAnyMaster.is_acceptable(id),
        "slice" => (&list[..]).is_acceptable(id),
        "arrayvec" => {
            let mut a: arrayvec::ArrayVec<ClockIdentity, 16> = arrayvec::ArrayVec::new();
            for c in list.iter().take(16) {
                a.push(*c);
            }
            if list.len() > 16 {
                return "bad-op".into();
            }
            a.is_acceptable(id)
        }
        "vec" => list.is_acceptable(id),
        "btree" => list.iter().copied().collect::<std::collections::BTreeSet<_>>().is_acceptable(id),
        "hash" => list.iter().copied().collect::<std::collections::HashSet<_>>().is_acceptable(id),
        "some-vec" => Some(list).is_acceptable(id),
        "some-slice" => Some(&list[..]).is_acceptable(id),
        "none" => None::<Vec<ClockIdentity>>.is_acceptable(id),
        _ => return "bad-op".into(),
    };
    format!("acc {}", r as u8)
}

/// `<clock16>:<port>:<type>:<valuehex>` -> ForwardedTLV, built by letting a scratch port parse an Announce
/// that carries the TLV (the only public way to obtain a `ForwardedTLV`)
pub fn fwd_from_text(item: &str) -> Option<ForwardedTLV<'static>> {
    let parts: Vec<&str> = item.split(':').collect();
    if parts.len() != 4 {
        return None;
    }
    let clock = clock8(parts[0])?;
    let port: u16 = parts[1].parse().ok()?;
    let ty: u16 = parts[2].parse().ok()?;
    let value = unhex(parts[3])?;
    thread_local! {
        static SCRATCH: RefCell<Option<RPort>> = const { RefCell::new(None) };
    }
    // an Announce from (clock, port) with this single TLV, received by a scratch listening port
    let mut frame = crate::frames::Frame::announce(clock, port, 0).bytes();
    let mut t = vec![(ty >> 8) as u8, ty as u8, (value.len() >> 8) as u8, value.len() as u8];
    t.extend_from_slice(&value);
    // a zero-length TLV cannot be last (TlvSet::deserialize rejects it): append a non-propagating pad TLV
    frame.extend_from_slice(&t);
    if value.len() % 2 == 0 {
        frame.extend_from_slice(&[0x80, 0x08, 0x00, 0x02, 0, 0]);
    } else {
        // a TLV with an odd number of value octets is never forwarded by a port (the suffix holding it is refused), so
        // a queue cannot hold one; should a port hand one out after all, it is re-created here next to a second odd one
        frame.extend_from_slice(&[0x80, 0x08, 0x00, 0x01, 0]);
    }
    let total = frame.len();
    frame[2] = (total >> 8) as u8;
    frame[3] = total as u8;
    thread_local! {
        static SCRATCH_USES: std::cell::Cell<u32> = const { std::cell::Cell::new(0) };
    }
    SCRATCH.with(|s| {
        let mut s = s.borrow_mut();
        // a fresh scratch port every few frames: its foreign master list must never fill up (senders differ)
        let uses = SCRATCH_USES.with(|u| {
            u.set(u.get() + 1);
            u.get()
        });
        if uses % 6 == 0 {
            *s = None;
        }
        if s.is_none() {
            let inst: &'static PtpInstance<RecFilter, RecMutex> = Box::leak(Box::new(PtpInstance::new(
                InstanceConfig {
                    clock_identity: ClockIdentity([0xfe; 8]),
                    priority_1: 255,
                    priority_2: 255,
                    domain_number: 0,
                    sdo_id: SdoId::try_from(0).unwrap(),
                    slave_only: false,
                    path_trace: false,
                    clock_quality: ClockQuality::default(),
                },
                TimePropertiesDS::new_arbitrary_time(false, false, hook::time_source_from_primitive(0xa0)),
            )));
            let cfg = PortConfig {
                acceptable_master_list: None,
                delay_mechanism: DelayMechanism::E2E { interval: Interval::from_log_2(0) },
                announce_interval: Interval::from_log_2(0),
                announce_receipt_timeout: 3,
                sync_interval: Interval::from_log_2(0),
                master_only: false,
                delay_asymmetry: Duration::ZERO,
                minor_ptp_version: PtpMinorVersion::One,
            };
            let (p, _) = inst.add_port(cfg, 0usize, RecClock { port: 0 }, SeqRng(0)).end_bmca();
            *s = Some(p);
        }
        let p = s.as_mut().unwrap();
        let mut found = None;
        for a in p.handle_general_receive(&frame) {
            if let PortAction::ForwardTLV { tlv } = a {
                found = Some(tlv.into_owned());
                break;
            }
        }
        drain_events();
        take_lock_trace();
        found
    })
}

impl Executor for InstExec {
    fn exec(&mut self, line: &str) -> String {
        RAW_TIMERS.with(|r| r.borrow_mut().clear());
        let obs = self.exec_inner(line);
        let raw = RAW_TIMERS.with(|r| std::mem::take(&mut *r.borrow_mut()));
        LAST_RAW_TIMERS.with(|l| *l.borrow_mut() = raw);
        obs
    }
}

impl InstExec {
    fn exec_inner(&mut self, line: &str) -> String {
        // tokens starting with '#' are annotations for the checker (e.g. `#ins:<class>`)
        let w: Vec<&str> = line.split_whitespace().filter(|t| !t.starts_with('#')).collect();
        if w.first() == Some(&"ACC") {
            return acc_line(&w[1..]);
        }
        if w.first() == Some(&"INIT") {
            PROPS_FAIL.with(|f| f.set(false));
            drain_events();
            take_lock_trace();
            return match self.init(&w[1..]) {
                Some(s) => {
                    take_lock_trace();
                    s
                }
                None => {
                    self.inst = None;
                    "bad-op".into()
                }
            };
        }
        if self.inst.is_none() {
            return "dead".into();
        }
        if w.len() == 3 && w[0] == "SET" && w[1] == "clock_props_fail" {
            PROPS_FAIL.with(|f| f.set(w[2] == "1"));
            let st = self.state_line();
            take_lock_trace(); // the getters behind the state line are not part of any library call under test
            return format!("- | R ok | {st} | L -");
        }
        if w.first() == Some(&"DUMP") && w.len() == 1 {
            let r = guarded(|| self.observable_dump());
            take_lock_trace();
            return match r {
                Ok(s) => s,
                Err(_) => {
                    self.inst = None;
                    self.ports.clear();
                    "R panic".into()
                }
            };
        }
        match self.run(&w) {
            None => "bad-op".into(),
            Some(Err(_m)) => {
                self.inst = None;
                self.ports.clear();
                drain_events();
                let (_, d, n) = take_lock_trace();
                self.lock_depth_max = self.lock_depth_max.max(d);
                self.lock_nested += n;
                "R panic".into()
            }
            Some(Ok((items, extra))) => {
                let (trace, d, n) = take_lock_trace();
                self.lock_depth_max = self.lock_depth_max.max(d);
                self.lock_nested += n;
                self.last_lock_trace = trace;
                let st = self.state_line();
                take_lock_trace();
                let body = if items.is_empty() { "-".to_string() } else { items.join(" ; ") };
                let lt = if self.last_lock_trace.is_empty() { "-".to_string() } else { self.last_lock_trace.clone() };
                format!("{body}{extra} | R ok | {st} | L {lt}")
            }
        }
    }
}
