//! C05 streams: (1) `CMP` — the data set comparison on explicit data sets, exhaustive over a small
//! domain, against the model and against an independent transcription of Figures 34/35;
//! (2) BMCA scenarios through real ports: up to three masters on up to three ports, every prior
//! port state reachable by a first round, all port / announce orders (order-independence oracle).

use statime::verif as hook;

use super::{inst::InstExec, Executor};
use crate::{
    frames::{AnnounceFields, Frame},
    out::{hex, Out},
    prng::Prng,
};

#[derive(Clone, Copy, Debug, PartialEq, Eq)]
pub struct Ds {
    pub p1: u8,
    pub class: u8,
    pub acc: u8,
    pub var: u16,
    pub p2: u8,
    pub gm: [u8; 8],
    pub steps: u16,
    pub sender: [u8; 8],
    pub rclock: [u8; 8],
    pub rport: u16,
}

fn id(n: u8) -> [u8; 8] {
    [0, 0, 0, 0, 0, 0, 0, n]
}

impl Ds {
    fn text(&self) -> String {
        format!("{} {} {} {} {} {} {} {} {}:{}", self.p1, self.class, self.acc, self.var, self.p2, hex(&self.gm), self.steps, hex(&self.sender), hex(&self.rclock), self.rport)
    }
    fn input(&self) -> hook::CmpInput {
        hook::CmpInput {
            gm_priority_1: self.p1,
            gm_identity: self.gm,
            gm_clock_class: self.class,
            gm_clock_accuracy: self.acc,
            gm_variance: self.var,
            gm_priority_2: self.p2,
            steps_removed: self.steps,
            sender: self.sender,
            receiver_clock: self.rclock,
            receiver_port: self.rport,
        }
    }
}

/// Independent transcription of IEEE 1588-2019 Figures 34 and 35 (returns the statime variant names)
pub fn ieee_compare(a: &Ds, b: &Ds) -> &'static str {
    if a.gm != b.gm {
        // Figure 34: priority1, class, accuracy, variance, priority2, identity — lower is better
        let ka = (a.p1, a.class, a.acc, a.var, a.p2, a.gm);
        let kb = (b.p1, b.class, b.acc, b.var, b.p2, b.gm);
        return if ka < kb { "Better" } else { "Worse" };
    }
    // Figure 35
    let (sa, sb) = (a.steps as i32, b.steps as i32);
    if sa > sb + 1 {
        return "Worse";
    }
    if sa + 1 < sb {
        return "Better";
    }
    if sa > sb {
        // A is one step further away: compare receiver of A with sender of A
        return if a.rclock < a.sender { "Worse" } else if a.rclock > a.sender { "WorseByTopology" } else { "Error1" };
    }
    if sa < sb {
        return if b.rclock < b.sender { "Better" } else if b.rclock > b.sender { "BetterByTopology" } else { "Error1" };
    }
    if a.sender > b.sender {
        return "WorseByTopology";
    }
    if a.sender < b.sender {
        return "BetterByTopology";
    }
    if a.rport > b.rport {
        return "WorseByTopology";
    }
    if a.rport < b.rport {
        return "BetterByTopology";
    }
    "Error2"
}

fn flip(s: &str) -> &'static str {
    match s {
        "Better" => "Worse",
        "Worse" => "Better",
        "BetterByTopology" => "WorseByTopology",
        "WorseByTopology" => "BetterByTopology",
        "Error1" => "Error1",
        _ => "Error2",
    }
}

pub fn exec_cmp(a: &Ds, b: &Ds) -> String {
    match crate::out::guarded(|| hook::compare_datasets(a.input(), b.input())) {
        Ok(s) => s,
        Err(_) => "panic".into(),
    }
}

fn parse_ds(w: &[&str]) -> Option<Ds> {
    let c8 = |s: &str| -> Option<[u8; 8]> { crate::out::unhex(s)?.try_into().ok() };
    let (rc, rp) = w[8].split_once(':')?;
    Some(Ds { p1: w[0].parse().ok()?, class: w[1].parse().ok()?, acc: w[2].parse().ok()?, var: w[3].parse().ok()?, p2: w[4].parse().ok()?, gm: c8(w[5])?, steps: w[6].parse().ok()?, sender: c8(w[7])?, rclock: c8(rc)?, rport: rp.parse().ok()? })
}

pub struct CmpExec;
impl Executor for CmpExec {
    fn exec(&mut self, line: &str) -> String {
        let w: Vec<&str> = line.split_whitespace().collect();
        if w.len() != 19 || w[0] != "CMP" {
            return "bad-op".into();
        }
        match (parse_ds(&w[1..10]), parse_ds(&w[10..19])) {
            (Some(a), Some(b)) => exec_cmp(&a, &b),
            _ => "bad-op".into(),
        }
    }
}

pub fn generate_cmp(out: &mut Out, rng: &Prng, thorough: bool) {
    // small domain, exhaustive over pairs
    let mut dom = Vec::new();
    let accs: &[u8] = if thorough { &[0x20, 0x21] } else { &[0x20] };
    for &p1 in &[1u8, 2] {
        for &p2 in &[1u8, 2] {
            for &acc in accs {
                for &gm in &[id(1), id(2)] {
                    for &steps in &[0u16, 1, 2, 3, 254] {
                        for &sender in &[id(1), id(2), id(3)] {
                            for &rclock in &[id(1), id(4)] {
                                for &rport in &[1u16, 2] {
                                    dom.push(Ds { p1, class: 6, acc, var: 7, p2, gm, steps, sender, rclock, rport });
                                }
                            }
                        }
                    }
                }
            }
        }
    }
    out.add("cmp.domain", dom.len() as u64);
    let mut check = |out: &mut Out, a: &Ds, b: &Ds| {
        let line = format!("CMP {} {}", a.text(), b.text());
        let r = exec_cmp(a, b);
        out.count(&format!("cmp.{r}"));
        out.op(&line, &r);
        let spec = ieee_compare(a, b);
        if r != spec {
            out.oracle("C05", "compare-differs-from-figure-34-35", &format!("{line} -> {r}, IEEE: {spec}"));
        }
        let back = exec_cmp(b, a);
        if back != flip(&r) {
            out.oracle("C05", "compare-not-antisymmetric", &format!("{line} -> {r} but swapped operands give {back}"));
        }
    };
    for a in &dom {
        for b in &dom {
            check(out, a, b);
        }
    }
    // random data sets over the full field ranges
    let n = if thorough { 300_000 } else { 20_000 };
    let ids = [id(1), id(2), id(3), [0xff; 8], [0; 8], [0, 1, 2, 3, 4, 5, 6, 7]];
    let rnd = |rng: &Prng| Ds {
        p1: *rng.pick(&[0u8, 1, 127, 128, 255]),
        class: *rng.pick(&[0u8, 6, 7, 127, 128, 248, 255]),
        acc: *rng.pick(&[0x17u8, 0x20, 0x31, 0xfe, 0x80, 0]),
        var: *rng.pick(&[0u16, 1, 0x8000, 0xffff]),
        p2: *rng.pick(&[0u8, 128, 255]),
        gm: *rng.pick(&ids),
        steps: *rng.pick(&[0u16, 1, 2, 3, 254, 255, 65534, 65535]),
        sender: *rng.pick(&ids),
        rclock: *rng.pick(&ids),
        rport: *rng.pick(&[0u16, 1, 2, 65535]),
    };
    for _ in 0..n {
        let a = rnd(rng);
        let mut b = rnd(rng);
        if rng.chance(1, 2) {
            b.gm = a.gm;
        }
        if rng.chance(1, 3) {
            b.steps = a.steps.wrapping_add(rng.below(3) as u16).wrapping_sub(1);
        }
        check(out, &a, &b);
    }
}

// ---------------------------------------------------------------------------------------------
// BMCA through real ports

#[derive(Clone, Debug)]
struct M {
    clock: [u8; 8],
    port: u16,
    a: AnnounceFields,
}

fn ann_frame(m: &M, seq: u16) -> Vec<u8> {
    let mut f = Frame::announce(m.clock, m.port, seq);
    f.set_announce(&m.a);
    f.flags[1] = 0x08;
    f.bytes()
}

fn final_state(obs: &str) -> String {
    // everything after "R ok | " (port states and data sets)
    obs.split(" | R ok | ").nth(1).unwrap_or(obs).to_string()
}

pub fn generate_bmca(out: &mut Out, rng: &Prng, thorough: bool) {
    let scenarios = if thorough { 20_000 } else { 1_500 };
    for _ in 0..scenarios {
        // own attributes over a small domain
        let own_class = *rng.pick(&[6u8, 127, 128, 248]);
        let own_p1 = *rng.pick(&[1u8, 2, 128]);
        let own_clock = id(*rng.pick(&[2u8, 5]));
        let slave_only = rng.chance(1, 10);
        let init = format!("INIT {} {} 128 0 0 {} 0 {} 32 7 - 0 0 0 1 160", hex(&own_clock), own_p1, slave_only as u8, own_class);
        let np = 1 + rng.below(3) as usize;
        let mut ports = Vec::new();
        for _ in 0..np {
            let master_only = rng.chance(1, 8);
            ports.push(format!("PORT - 0 0 0 3 0 {} 0 1", master_only as u8));
        }
        // masters: GM attributes from a small domain; GM-consistent unless deliberately not
        let gms = [id(1), id(3), id(7)];
        let inconsistent = rng.chance(1, 12);
        let mut gm_attr: Vec<(u8, u8, u8)> = gms.iter().map(|_| (*rng.pick(&[1u8, 2, 128]), *rng.pick(&[6u8, 248]), *rng.pick(&[1u8, 2]))).collect();
        let nm = 1 + rng.below(3) as usize;
        let mut masters = Vec::new();
        for i in 0..nm {
            let g = rng.below(3) as usize;
            if inconsistent {
                gm_attr[g].0 = *rng.pick(&[1u8, 2, 128]);
            }
            let clock = id(*rng.pick(&[1u8, 3, 4, 7, 9]));
            let steps = *rng.pick(&[0u16, 1, 2, 3, 254]);
            masters.push(M { clock, port: 1 + i as u16, a: AnnounceFields { utc: 0, p1: gm_attr[g].0, class: gm_attr[g].1, acc: 0x20, var: 7, p2: gm_attr[g].2, gm: gms[g], steps, time_source: 0xa0 } });
        }
        // which master is heard on which port
        let mut heard: Vec<(usize, usize)> = Vec::new(); // (master, port)
        for mi in 0..nm {
            for k in 1..=np {
                if rng.chance(1, 2) {
                    heard.push((mi, k));
                }
            }
        }
        if heard.is_empty() {
            heard.push((0, 1));
        }
        // a first round to vary the prior port states
        let prior: Vec<String> = match rng.below(4) {
            0 => vec![],
            1 => (1..=np).map(|k| format!("P{k} TMR rcpt")).collect(),
            _ => {
                let m = M { clock: id(8), port: 1, a: AnnounceFields { utc: 0, p1: *rng.pick(&[0u8, 255]), class: 6, acc: 0x20, var: 7, p2: 1, gm: id(8), steps: 0, time_source: 0xa0 } };
                let k = 1 + rng.below(np as u64) as usize;
                vec![format!("P{k} GEN {}", hex(&ann_frame(&m, 1))), format!("P{k} GEN {}", hex(&ann_frame(&m, 2))), format!("BMCA {}", (1..=np).map(|x| x.to_string()).collect::<Vec<_>>().join(","))]
            }
        };
        // tie detection: two masters heard on one port with the same key (gm tuple, steps, sender clock)
        let mut tie = false;
        for &(m1, k1) in &heard {
            for &(m2, k2) in &heard {
                if m1 < m2 && k1 == k2 {
                    let (a, b) = (&masters[m1], &masters[m2]);
                    if a.a.gm == b.a.gm && a.a.steps == b.a.steps && a.clock == b.clock {
                        tie = true;
                    }
                }
            }
        }
        // GM consistency as the BMCA sees it (same gm id => same attributes)
        let mut gm_cons = true;
        for a in &masters {
            for b in &masters {
                if a.a.gm == b.a.gm && (a.a.p1, a.a.class, a.a.p2) != (b.a.p1, b.a.class, b.a.p2) {
                    gm_cons = false;
                }
            }
        }
        let run = |out: &mut Out, record: bool, heard: &[(usize, usize)], order: &[usize]| -> String {
            let mut ex = InstExec::new();
            let mut last = String::new();
            let mut all = vec![init.clone()];
            all.extend(ports.iter().cloned());
            all.extend(prior.iter().cloned());
            for seq in [10u16, 11] {
                for &(mi, k) in heard {
                    all.push(format!("P{k} GEN {}", hex(&ann_frame(&masters[mi], seq))));
                }
            }
            all.push(format!("BMCA {}", order.iter().map(|x| x.to_string()).collect::<Vec<_>>().join(",")));
            for line in all {
                last = ex.exec(&line);
                if record {
                    out.op(&line, &last);
                }
                if last == "R panic" {
                    break;
                }
            }
            last
        };
        let order0: Vec<usize> = (1..=np).collect();
        out.count("bmca.scenarios");
        let base = run(out, true, &heard, &order0);
        if base == "R panic" {
            out.count("bmca.panic");
            continue;
        }
        for st in final_state(&base).split(" | ").next().unwrap_or("").trim_start_matches("S ").split(',') {
            out.count(&format!("bmca.final.{st}"));
        }
        // order independence on the implementation: permute announce arrival and port order
        for _ in 0..2 {
            let mut h2 = heard.clone();
            for i in (1..h2.len()).rev() {
                h2.swap(i, rng.below(i as u64 + 1) as usize);
            }
            let mut o2 = order0.clone();
            for i in (1..o2.len()).rev() {
                o2.swap(i, rng.below(i as u64 + 1) as usize);
            }
            let other = run(out, false, &h2, &o2);
            out.count("bmca.order_checks");
            if final_state(&other) != final_state(&base) {
                let sig = if !gm_cons { "order-dependent-gm-inconsistent" } else if tie { "order-dependent-exact-tie" } else { "order-dependent" };
                out.oracle(
                    "C05",
                    sig,
                    &format!("{init} ; {} ; heard {:?} order {:?} -> {} ; heard {:?} order {:?} -> {}", ports.join(" ; "), heard, order0, final_state(&base), h2, o2, final_state(&other)),
                );
            }
        }
    }
}
