//! C01: a network of real `PtpInstance`s. Every node is an `InstExec` (the same executor and the same
//! Lean instance model as the single-instance streams); op lines are `N<i> <instance op>`. The network
//! itself — segments, delivery with delay, timers, BMCA phases, faults — is this simulator, which only
//! reacts to what the instances emit (Announce frames, timer actions).
//!
//! Only what the best master clock algorithm needs is driven: Announce timers, announce receipt timers,
//! BMCA runs and the Announce frames. Sync / delay traffic does not influence port states or data sets
//! (C07, C08) and is not generated (its timers are armed but not fired within the horizon).

use std::collections::BTreeSet;

use super::{inst::InstExec, Executor};
use crate::{out::Out, prng::Prng};

const MS: u128 = 1_000_000;
const SEC: u128 = 1_000_000_000;

#[derive(Default)]
pub struct NetExec {
    pub nodes: Vec<InstExec>,
    /// the `D` / `S` parts of each node's latest observation (for `NETX`)
    pub last: Vec<String>,
}

impl Executor for NetExec {
    fn exec(&mut self, line: &str) -> String {
        let line = line.trim();
        if line.starts_with("NETX ") {
            // the state in the line is the implementation's own: it is what it is. The model says whether it is a fixed point.
            return "stable".into();
        }
        let Some((n, rest)) = line.split_once(' ') else { return "bad-op".into() };
        let Some(i) = n.strip_prefix('N').and_then(|x| x.parse::<usize>().ok()) else { return "bad-op".into() };
        if rest.starts_with("INIT") {
            while self.nodes.len() <= i {
                self.nodes.push(InstExec::new());
            }
        }
        match self.nodes.get_mut(i) {
            Some(n) => {
                let o = n.exec(rest);
                while self.last.len() <= i {
                    self.last.push(String::new());
                }
                if o.contains(" | S ") {
                    self.last[i] = o.clone();
                }
                o
            }
            None => "dead".into(),
        }
    }
}

#[derive(Clone, Debug)]
pub struct NodeCfg {
    pub id: [u8; 8],
    pub p1: u8,
    pub p2: u8,
    pub class: u8,
    pub acc: u8,
    pub var: u16,
    pub slave_only: bool,
    /// segment of each port, and whether the port is master-only
    pub ports: Vec<(usize, bool)>,
}

impl NodeCfg {
    /// the IEEE 1588 data set comparison on default data sets: smaller is better
    pub fn rank(&self) -> (u8, u8, u8, u16, u8, [u8; 8]) {
        (self.p1, self.class, self.acc, self.var, self.p2, self.id)
    }
    pub fn may_be_gm(&self) -> bool {
        !self.slave_only
    }
}

#[derive(Clone, Debug)]
pub struct Topo {
    pub nodes: Vec<NodeCfg>,
    pub nsegs: usize,
}

#[derive(Clone, Copy, Debug, PartialEq, Eq, PartialOrd, Ord)]
enum Ev {
    Ann { node: usize, port: usize, gen: u64 },
    Rcpt { node: usize, port: usize, gen: u64 },
    Bmca { node: usize },
    Deliver { node: usize, port: usize, frame: usize },
}

#[derive(Clone, Debug, Default)]
pub struct NodeView {
    pub states: Vec<String>,
    pub steps: u32,
    pub parent: String, // "<clock hex>:<port>"
    pub gm: String,
}

pub struct Sim<'a> {
    pub ex: NetExec,
    pub out: &'a mut Out,
    pub topo: Topo,
    pub now: u128,
    queue: BTreeSet<(u128, u64, Ev)>,
    seq: u64,
    frames: Vec<String>,
    ann_gen: Vec<Vec<u64>>,
    rcpt_gen: Vec<Vec<u64>>,
    /// port attached to its segment?
    pub attached: Vec<Vec<bool>>,
    /// node silenced (powered off): no calls, no frames
    pub silent: Vec<bool>,
    pub view: Vec<NodeView>,
    pub last_change: u128,
    pub dead: bool,
    pub last_line: String,
    pub scenario_ops: usize,
    rng: Prng,
}

fn hexid(b: &[u8; 8]) -> String {
    b.iter().map(|x| format!("{x:02x}")).collect()
}

impl<'a> Sim<'a> {
    pub fn new(out: &'a mut Out, topo: Topo, rng: &Prng) -> Sim<'a> {
        let n = topo.nodes.len();
        Sim {
            ex: NetExec::default(),
            out,
            ann_gen: topo.nodes.iter().map(|c| vec![0; c.ports.len()]).collect(),
            rcpt_gen: topo.nodes.iter().map(|c| vec![0; c.ports.len()]).collect(),
            attached: topo.nodes.iter().map(|c| vec![true; c.ports.len()]).collect(),
            silent: vec![false; n],
            view: vec![NodeView::default(); n],
            topo,
            now: 0,
            queue: Default::default(),
            seq: 0,
            frames: vec![],
            last_change: 0,
            dead: false,
            last_line: String::new(),
            scenario_ops: 0,
            rng: rng.fork(),
        }
    }

    fn push(&mut self, at: u128, ev: Ev) {
        self.seq += 1;
        self.queue.insert((at, self.seq, ev));
    }

    fn call(&mut self, node: usize, op: String) -> String {
        let line = format!("N{node} {op}");
        let o = self.ex.exec(&line);
        self.out.op(&line, &o);
        self.last_line = line;
        self.scenario_ops += 1;
        if o.starts_with("R panic") || o == "dead" || o == "bad-op" {
            self.dead = true;
            return o;
        }
        self.absorb(node, &o);
        o
    }

    /// timer actions, emitted frames and the node's state after a call
    fn absorb(&mut self, node: usize, obs: &str) {
        let mut parts = obs.split(" | ");
        let items = parts.next().unwrap_or("");
        for item in items.split(" ; ") {
            let Some((pk, rest)) = item.split_once(':') else { continue };
            let Ok(k) = pk.trim_start_matches('P').parse::<usize>() else { continue };
            if k == 0 || k > self.topo.nodes[node].ports.len() {
                continue;
            }
            let f: Vec<&str> = rest.split_whitespace().collect();
            match f.as_slice() {
                ["reset", "ann", d, ..] => {
                    let d: u128 = d.parse().unwrap_or(SEC);
                    self.ann_gen[node][k - 1] += 1;
                    let g = self.ann_gen[node][k - 1];
                    self.push(self.now + d.max(1), Ev::Ann { node, port: k, gen: g });
                }
                ["reset", "rcpt", ..] => {
                    // announce receipt timeout x announce interval (1 s everywhere), stretched by up to 100 % by the port's RNG
                    let base = 3 * SEC;
                    let d = base + self.rng.below(base as u64) as u128;
                    self.rcpt_gen[node][k - 1] += 1;
                    let g = self.rcpt_gen[node][k - 1];
                    self.push(self.now + d, Ev::Rcpt { node, port: k, gen: g });
                }
                ["send", "gen", _, hex, ..] => {
                    if hex.starts_with("0b") || hex.starts_with("1b") {
                        // an Announce: to every other attached port of the segment
                        if !self.attached[node][k - 1] {
                            continue;
                        }
                        let seg = self.topo.nodes[node].ports[k - 1].0;
                        self.frames.push(hex.to_string());
                        let fi = self.frames.len() - 1;
                        for (m, cfg) in self.topo.nodes.clone().iter().enumerate() {
                            for (j, (s, _)) in cfg.ports.iter().enumerate() {
                                if *s == seg && !(m == node && j == k - 1) && self.attached[m][j] {
                                    let delay = 10_000 + self.rng.below(900_000) as u128;
                                    self.push(self.now + delay, Ev::Deliver { node: m, port: j + 1, frame: fi });
                                }
                            }
                        }
                    }
                }
                _ => {}
            }
        }
        let mut v = NodeView::default();
        for p in parts {
            if let Some(s) = p.strip_prefix("S ") {
                v.states = s.split(',').map(|x| x.to_string()).collect();
            } else if let Some(d) = p.strip_prefix("D ") {
                let f: Vec<&str> = d.split_whitespace().collect();
                if f.len() >= 3 {
                    v.steps = f[0].parse().unwrap_or(0);
                    v.parent = f[1].to_string();
                    v.gm = f[2].to_string();
                }
            }
        }
        if v.states != self.view[node].states || v.parent != self.view[node].parent || v.gm != self.view[node].gm || v.steps != self.view[node].steps {
            self.last_change = self.now;
            if std::env::var_os("VERIF_NET_TRACE").is_some() {
                eprintln!("CHG t={} N{node} {:?} parent={} gm={} steps={}", self.now / MS, v.states, v.parent, v.gm, v.steps);
            }
        }
        self.view[node] = v;
    }

    pub fn boot(&mut self) {
        for (i, c) in self.topo.nodes.clone().iter().enumerate() {
            self.call(i, format!("INIT {} {} {} 0 0 {} 0 {} {} {} 37 0 1 1 1 32", hexid(&c.id), c.p1, c.p2, c.slave_only as u8, c.class, c.acc, c.var));
            for (_seg, mo) in &c.ports {
                // E2E, delay interval 2^0, announce interval 2^0 s, receipt timeout 3, sync interval 2^0
                self.call(i, format!("PORT - 0 0 0 3 0 {} 0 1", *mo as u8));
            }
            let phase = self.rng.below(SEC as u64) as u128;
            self.push(phase, Ev::Bmca { node: i });
        }
    }

    /// runs the network until simulated time `until`
    pub fn run_until(&mut self, until: u128) {
        while let Some(&(at, _, _)) = self.queue.iter().next() {
            if at > until || self.dead {
                break;
            }
            let (at, _, ev) = self.queue.pop_first().unwrap();
            self.now = at;
            match ev {
                Ev::Ann { node, port, gen } => {
                    if gen == self.ann_gen[node][port - 1] && !self.silent[node] {
                        self.call(node, format!("P{port} TMR ann 0"));
                    }
                }
                Ev::Rcpt { node, port, gen } => {
                    if gen == self.rcpt_gen[node][port - 1] && !self.silent[node] {
                        self.call(node, format!("P{port} TMR rcpt"));
                    }
                }
                Ev::Bmca { node } => {
                    if !self.silent[node] {
                        let n = self.topo.nodes[node].ports.len();
                        let mut order: Vec<usize> = (1..=n).collect();
                        // any presentation order
                        for i in (1..order.len()).rev() {
                            order.swap(i, self.rng.below(i as u64 + 1) as usize);
                        }
                        self.call(node, format!("BMCA {}", order.iter().map(|x| x.to_string()).collect::<Vec<_>>().join(",")));
                    }
                    // the instance's BMCA interval is its smallest announce interval (1 s), host jitter of a few ms
                    let j = self.rng.below(5_000_000) as u128;
                    self.push(at + SEC + j, Ev::Bmca { node });
                }
                Ev::Deliver { node, port, frame } => {
                    if !self.silent[node] && self.attached[node][port - 1] {
                        let f = self.frames[frame].clone();
                        self.call(node, format!("P{port} GEN {f}"));
                    }
                }
            }
        }
        self.now = self.now.max(until);
    }
}

// ---------------------------------------------------------------------------------------------
// the property, read off the network state

#[derive(Debug, Default)]
pub struct Verdict {
    pub findings: Vec<(String, String)>,
}

/// nodes reachable from `from` over attached ports, passing only through nodes for which `relay` holds
fn reach(topo: &Topo, sim_attached: &[Vec<bool>], silent: &[bool], from: usize, relay: &dyn Fn(usize) -> bool) -> Vec<bool> {
    let n = topo.nodes.len();
    let mut seen = vec![false; n];
    let mut stack = vec![from];
    seen[from] = true;
    while let Some(x) = stack.pop() {
        if x != from && !relay(x) {
            continue;
        }
        for (j, (seg, _)) in topo.nodes[x].ports.iter().enumerate() {
            if !sim_attached[x][j] {
                continue;
            }
            for (m, c) in topo.nodes.iter().enumerate() {
                if silent[m] || seen[m] {
                    continue;
                }
                if c.ports.iter().enumerate().any(|(jj, (s, _))| s == seg && sim_attached[m][jj]) {
                    seen[m] = true;
                    stack.push(m);
                }
            }
        }
    }
    seen
}

pub fn judge(sim: &Sim) -> Verdict {
    let topo = &sim.topo;
    let n = topo.nodes.len();
    let mut v = Verdict::default();
    let alive: Vec<usize> = (0..n).filter(|&i| !sim.silent[i]).collect();
    // connected components (plain connectivity)
    let mut comp = vec![usize::MAX; n];
    for &i in &alive {
        if comp[i] != usize::MAX {
            continue;
        }
        let r = reach(topo, &sim.attached, &sim.silent, i, &|_| true);
        for (m, &b) in r.iter().enumerate() {
            if b {
                comp[m] = i;
            }
        }
    }
    let roots: BTreeSet<usize> = alive.iter().map(|&i| comp[i]).collect();
    for &root in &roots {
        let members: Vec<usize> = alive.iter().copied().filter(|&i| comp[i] == root).collect();
        let Some(&best) = members.iter().filter(|&&i| topo.nodes[i].may_be_gm()).min_by_key(|&&i| topo.nodes[i].rank()) else { continue };
        // Can the whole component follow `best`? Only if every other member relays: an instance relays if it can be
        // slave on one port and master on the others (not slave-only, clockClass >= 128), and master-only ports do not
        // listen. Otherwise IEEE 1588 itself leaves the part behind such a node to elect its own grandmaster (a
        // clockClass < 128 instance that is not the best stays master of the segments behind it; decision codes M1 / P1).
        let relays = |x: usize| !topo.nodes[x].slave_only && topo.nodes[x].class >= 128 && !topo.nodes[x].ports.iter().any(|p| p.1);
        let all_relayed = members.iter().all(|&m| m == best || relays(m)) && !topo.nodes[best].ports.iter().any(|p| p.1);
        let tag = if all_relayed { "" } else { "-behind-nonrelaying-node" };
        let desc = || {
            members
                .iter()
                .map(|&m| {
                    let c = &topo.nodes[m];
                    format!(
                        "N{m}[p1={} class={} p2={} id=..{:02x}{}{} segs={:?} | {} steps={} parent={} gm=..{}]",
                        c.p1,
                        c.class,
                        c.p2,
                        c.id[7],
                        if c.slave_only { " slave-only" } else { "" },
                        if c.ports.iter().any(|p| p.1) { " master-only-port" } else { "" },
                        c.ports.iter().map(|p| p.0).collect::<Vec<_>>(),
                        sim.view[m].states.join(","),
                        sim.view[m].steps,
                        &sim.view[m].parent[sim.view[m].parent.len().saturating_sub(6)..],
                        &sim.view[m].gm[sim.view[m].gm.len().saturating_sub(2)..]
                    )
                })
                .collect::<Vec<_>>()
                .join(" ")
        };
        let best_id = hexid(&topo.nodes[best].id);
        // (a) the best instance is the only grandmaster
        for &m in &members {
            let is_gm = sim.view[m].gm == hexid(&topo.nodes[m].id) && !sim.view[m].states.iter().any(|s| s == "Slave");
            let claims = is_gm && sim.view[m].states.iter().any(|s| s == "Master");
            if m == best && sim.view[m].gm != best_id {
                v.findings.push((format!("best-clock-is-not-grandmaster{tag}"), format!("N{best} is ranked best but follows another grandmaster: {}", desc())));
            }
            if m != best && claims {
                v.findings.push((format!("second-grandmaster{tag}"), format!("N{m} acts as grandmaster besides the best clock N{best}: {}", desc())));
            }
        }
        // (b) every other instance that may be a slave has exactly one slave port, and the parent chain reaches the grandmaster
        for &m in &members {
            if m == best {
                continue;
            }
            let c = &topo.nodes[m];
            let may_slave = c.class >= 128 && c.ports.iter().any(|p| !p.1);
            if !may_slave {
                // an instance of clockClass 1..127, or with master-only ports only, is never anybody's slave
                let slaves = sim.view[m].states.iter().filter(|s| *s == "Slave").count();
                if slaves > 0 {
                    v.findings.push(("never-slave-instance-has-a-slave-port".to_string(), format!("N{m} (clockClass {}, master-only ports {:?}) has {slaves} slave port(s): {}", c.class, c.ports.iter().map(|p| p.1).collect::<Vec<_>>(), desc())));
                }
                continue;
            }
            let slaves = sim.view[m].states.iter().filter(|s| *s == "Slave").count();
            if slaves != 1 {
                v.findings.push((format!("not-exactly-one-slave-port{tag}"), format!("N{m} has {slaves} slave ports: {}", desc())));
                continue;
            }
            // follow the parents
            let mut cur = m;
            let mut hops = 0;
            loop {
                if cur == best {
                    break;
                }
                let pid = sim.view[cur].parent.split(':').next().unwrap_or("").to_string();
                let Some(p) = members.iter().copied().find(|&x| hexid(&topo.nodes[x].id) == pid) else {
                    v.findings.push((format!("parent-chain-leaves-the-network{tag}"), format!("N{cur}'s parent {pid} is not a live member: {}", desc())));
                    break;
                };
                if p == cur || sim.view[p].steps >= sim.view[cur].steps {
                    v.findings.push((format!("parent-chain-not-decreasing{tag}"), format!("N{cur} (steps {}) -> N{p} (steps {}): {}", sim.view[cur].steps, sim.view[p].steps, desc())));
                    break;
                }
                cur = p;
                hops += 1;
                if hops > n {
                    v.findings.push((format!("parent-chain-loops{tag}"), desc()));
                    break;
                }
            }
            if sim.view[m].gm != best_id {
                v.findings.push((format!("follows-wrong-grandmaster{tag}"), format!("N{m} follows ..{} instead of the best clock N{best}: {}", &sim.view[m].gm[12..], desc())));
            }
        }
        // (c) every segment with a master-capable instance attached has exactly one master port
        for seg in 0..topo.nsegs {
            let on: Vec<(usize, usize)> = members
                .iter()
                .flat_map(|&m| topo.nodes[m].ports.iter().enumerate().filter(move |(j, p)| p.0 == seg && sim.attached[m][*j]).map(move |(j, _)| (m, j)))
                .collect();
            if on.is_empty() || !on.iter().any(|&(m, _)| !topo.nodes[m].slave_only) {
                continue;
            }
            let masters = on.iter().filter(|&&(m, j)| sim.view[m].states.get(j).map(|s| s == "Master").unwrap_or(false)).count();
            if masters != 1 {
                v.findings.push((format!("segment-has-{masters}-masters{tag}"), format!("segment {seg}: {}", desc())));
            }
        }
    }
    v
}

// ---------------------------------------------------------------------------------------------
// generator

fn random_topo(rng: &Prng, max_nodes: usize, special: bool) -> Topo {
    let n = 2 + rng.below(max_nodes as u64 - 1) as usize;
    let shape = rng.below(7);
    let mut ports: Vec<Vec<(usize, bool)>> = vec![vec![]; n];
    let mut nsegs = 0;
    let mut link = |ports: &mut Vec<Vec<(usize, bool)>>, nsegs: &mut usize, members: &[usize]| {
        for &m in members {
            ports[m].push((*nsegs, false));
        }
        *nsegs += 1;
    };
    match shape {
        0 => {
            // line
            for i in 0..n - 1 {
                link(&mut ports, &mut nsegs, &[i, i + 1]);
            }
        }
        1 => {
            // star around node 0
            for i in 1..n {
                link(&mut ports, &mut nsegs, &[0, i]);
            }
        }
        2 => {
            // ring
            for i in 0..n {
                if n == 2 && i == 1 {
                    break;
                }
                link(&mut ports, &mut nsegs, &[i, (i + 1) % n]);
            }
        }
        3 => {
            // one shared segment
            let all: Vec<usize> = (0..n).collect();
            link(&mut ports, &mut nsegs, &all);
        }
        4 => {
            // shared segment plus a node with two ports on it, and a tail
            let k = (n - 1).max(1);
            let mut m: Vec<usize> = (0..k).collect();
            m.push(0);
            link(&mut ports, &mut nsegs, &m);
            if n > k {
                link(&mut ports, &mut nsegs, &[k - 1, k]);
            }
        }
        6 if n >= 3 => {
            // a boundary clock (node 0) with two ports on a shared segment and an uplink to the last node:
            // when the last node ranks best, node 0 masters the shared segment through two ports of its own
            let k = n - 1;
            let mut m: Vec<usize> = (0..k).collect();
            m.push(0);
            link(&mut ports, &mut nsegs, &m);
            link(&mut ports, &mut nsegs, &[0, k]);
        }
        _ => {
            // random connected: a spanning tree plus extra links
            for i in 1..n {
                let j = rng.below(i as u64) as usize;
                link(&mut ports, &mut nsegs, &[j, i]);
            }
            for _ in 0..rng.below(3) {
                let a = rng.below(n as u64) as usize;
                let b = rng.below(n as u64) as usize;
                if a != b {
                    link(&mut ports, &mut nsegs, &[a, b]);
                }
            }
        }
    }
    let mut ids: Vec<u8> = (1..=n as u8).collect();
    for i in (1..ids.len()).rev() {
        ids.swap(i, rng.below(i as u64 + 1) as usize);
    }
    let nodes = (0..n)
        .map(|i| {
            let mut c = NodeCfg {
                id: [0x00, 0x1b, 0x19, 0xff, 0xfe, 0x00, 0x00, ids[i]],
                p1: *rng.pick(&[128u8, 128, 128, 127, 129]),
                p2: *rng.pick(&[128u8, 128, 127]),
                class: *rng.pick(&[248u8, 248, 187, 135, 255, 128]),
                acc: *rng.pick(&[0xfeu8, 0x21, 0x31]),
                var: *rng.pick(&[0xffffu16, 0x4e5d]),
                slave_only: false,
                ports: ports[i].clone(),
            };
            if special {
                match rng.below(8) {
                    0 => c.class = *rng.pick(&[6u8, 7, 13, 52, 127, 127, 1]),
                    1 => {
                        c.slave_only = true;
                        c.class = 255;
                    }
                    2 => {
                        let k = rng.below(c.ports.len() as u64) as usize;
                        c.ports[k].1 = true;
                    }
                    _ => {}
                }
            }
            c
        })
        .collect::<Vec<NodeCfg>>();
    let mut nodes = nodes;
    if shape == 6 && n >= 3 && rng.below(2) == 0 {
        // the uplink node is the grandmaster
        nodes[n - 1].p1 = 126;
        nodes[n - 1].slave_only = false;
        if nodes[n - 1].class == 255 {
            nodes[n - 1].class = 248;
        }
    }
    Topo { nodes, nsegs }
}

fn diameter_bound(t: &Topo) -> u128 {
    t.nodes.len() as u128
}

/// time allowed for convergence: per hop a receipt timeout (3 … 6 s), two Announces to qualify and a BMCA run or two
fn settle_ns(t: &Topo) -> u128 {
    (8 + 5 * diameter_bound(t)) * SEC
}

pub fn generate(out: &mut Out, rng: &Prng, thorough: bool) {
    let scenarios = if thorough { 400 } else { 40 };
    let max_nodes = if thorough { 8 } else { 5 };
    for s in 0..scenarios {
        let special = s % 3 == 2;
        let topo = random_topo(rng, max_nodes, special);
        let settle = settle_ns(&topo);
        let mut sim = Sim::new(out, topo, rng);
        sim.boot();
        sim.run_until(settle);
        // steady state: nothing may change any more
        let mark = sim.now;
        sim.run_until(mark + 8 * SEC);
        report(&mut sim, mark, "cold-start");
        if sim.dead {
            continue;
        }
        // one fault on the converged network
        let n = sim.topo.nodes.len();
        let fault = sim.rng.below(4);
        let what = match fault {
            0 => {
                // cut one port off its segment
                let m = sim.rng.below(n as u64) as usize;
                let k = sim.rng.below(sim.topo.nodes[m].ports.len() as u64) as usize;
                sim.attached[m][k] = false;
                format!("cut N{m} port {}", k + 1)
            }
            1 => {
                let m = sim.rng.below(n as u64) as usize;
                sim.silent[m] = true;
                format!("silence N{m}")
            }
            2 => {
                // a node's quality changes (it becomes the best, or drops to the worst)
                let m = sim.rng.below(n as u64) as usize;
                let (class, acc, var) = if sim.rng.chance(1, 2) { (135u8, 0x20u8, 1u16) } else { (255u8, 0xfeu8, 0xffffu16) };
                if sim.topo.nodes[m].class >= 128 && !sim.topo.nodes[m].slave_only {
                    sim.call(m, format!("SET quality {class} {acc} {var}"));
                    sim.topo.nodes[m].class = class;
                    sim.topo.nodes[m].acc = acc;
                    sim.topo.nodes[m].var = var;
                }
                format!("quality of N{m} -> class {class}")
            }
            _ => {
                // cut and restore
                let m = sim.rng.below(n as u64) as usize;
                let k = sim.rng.below(sim.topo.nodes[m].ports.len() as u64) as usize;
                sim.attached[m][k] = false;
                let t = sim.now;
                sim.run_until(t + 12 * SEC);
                sim.attached[m][k] = true;
                format!("cut and restore N{m} port {}", k + 1)
            }
        };
        let t = sim.now;
        // stale information has to age out first: up to stepsRemoved counting is not needed on these sizes, but a
        // foreign master record lives for four announce intervals and the receipt timeout up to six
        sim.run_until(t + settle + 12 * SEC);
        let mark = sim.now;
        sim.run_until(mark + 8 * SEC);
        report(&mut sim, mark, &what);
    }
}

/// the topology and the instances' current states as the abstract model reads them
fn netx_line(sim: &Sim) -> String {
    let nodes: Vec<String> = sim
        .topo
        .nodes
        .iter()
        .enumerate()
        .map(|(i, c)| {
            let id = u64::from_be_bytes(c.id);
            let ports: Vec<String> = c.ports.iter().enumerate().map(|(j, (seg, mo))| format!("{}.{}.{}", seg, *mo as u8, sim.attached[i][j] as u8)).collect();
            format!("{},{},{},{},{},{},{},{},{}", id, c.p1, c.class, c.acc, c.var, c.p2, c.slave_only as u8, !sim.silent[i] as u8, ports.join(":"))
        })
        .collect();
    let states: Vec<String> = (0..sim.topo.nodes.len())
        .map(|i| {
            if sim.silent[i] {
                return "off".to_string();
            }
            let obs = sim.ex.last.get(i).cloned().unwrap_or_default();
            let mut st = String::new();
            let mut d = String::new();
            for p in obs.split(" | ") {
                if let Some(x) = p.strip_prefix("S ") {
                    st = x.replace(',', ".");
                } else if let Some(x) = p.strip_prefix("D ") {
                    let f: Vec<&str> = x.split_whitespace().collect();
                    if f.len() >= 8 {
                        let (pc, pp) = f[1].split_once(':').unwrap_or((f[1], "0"));
                        d = format!("{},{},{},{},{},{},{},{},{}", f[0], pc, pp, f[2], f[3], f[4], f[5], f[6], f[7]);
                    }
                }
            }
            format!("{st},{d}")
        })
        .collect();
    format!("NETX {} {}", nodes.join(";"), states.join(";"))
}

fn report(sim: &mut Sim, mark: u128, phase: &str) {
    if sim.dead {
        return;
    }
    // the converged network against the abstract model's fixed point for this topology
    let line = netx_line(sim);
    let o = sim.ex.exec(&line);
    sim.out.op(&line, &o);
    sim.out.count("net.judged");
    let v = judge(sim);
    let line = sim.last_line.clone();
    if v.findings.is_empty() {
        sim.out.count("net.converged");
    }
    for (sig, detail) in v.findings.into_iter().take(2) {
        sim.out.oracle("C01", &sig, &format!("{line} -> after {phase}, at {} s: {detail}", sim.now / SEC));
    }
    if sim.last_change > mark {
        sim.out.oracle("C01", "steady-state-flaps", &format!("{line} -> after {phase}: a port state or data set still changed at {} ms, {} ms into the observation window", sim.last_change / MS, (sim.last_change - mark) / MS));
    }
}
