//! C02: closed loop. A simulated slave clock (oscillator error, programmed frequency, steps) is
//! disciplined by the real KalmanFilter from Sync / Delay measurements over a symmetric path with
//! bounded jitter; the filter's commands change the clock and thereby its own later timestamps.
//!
//! The op lines are ordinary `FLT` lines (same executor and model as the `filt` stream), so every
//! closed-loop history is also compared with the Lean model bit for bit. The oracle looks at the
//! *true* offset of the simulated clock.

use super::{
    filt::{Cmd, FiltExec},
    gen_filt::{FGen, KCfg},
};
use crate::{out::Out, prng::Prng};

const F32: i128 = 1 << 32;
const NS: i128 = F32;
const US: i128 = 1_000 * NS;
const SEC: i128 = 1_000_000_000 * NS;

pub struct Scn {
    pub theta0: i128,  // initial offset slave - master (units of 2^-32 ns)
    pub eps_ppm: f64,  // oscillator error
    pub delay: i128,   // one-way delay
    pub jitter: i128,  // jitter amplitude (uniform in [-j, j])
    pub log_sync: i32, // sync interval 2^k s
    pub log_dreq: i32,
    pub duration_s: i64,
    /// a Delay_Req is in flight when the first Sync that carries an offset arrives (so the clock is stepped between
    /// the request's transmit timestamp and the arrival of its response)
    pub inflight: bool,
    /// peer-to-peer delay mechanism: the link delay comes from Pdelay exchanges (their result is handed to the
    /// filter as `peer_delay`), and every Sync offset is corrected by the filter's own mean delay estimate
    pub p2p: bool,
}

pub struct Outcome {
    /// true time (s) after which |theta| stayed below `bound`
    pub settle_s: Option<f64>,
    pub bound: i128,
    pub worst_after_settle: i128,
    pub steps_after_settle: u32,
    pub final_theta: i128,
    pub max_abs_freq: f64,
    pub measurements: u32,
    pub dead: bool,
    /// (time s, |theta|) of the last excursion above the bound
    pub last_excursion: Option<(f64, i128)>,
}

/// the bound the true offset must come below and stay below: set by the jitter, with a sub-microsecond floor
pub fn bound_for(jitter: i128) -> i128 {
    // 500 ns floor, plus one and a half times the jitter amplitude (observed worst case over 4500 converged
    // scenarios: 0.72 x amplitude over five-minute windows)
    500 * NS + jitter * 3 / 2
}

pub fn run(g: &mut FGen, rng: &Prng, s: &Scn) -> Outcome {
    run_traced(g, rng, s, false)
}

pub fn run_traced(g: &mut FGen, rng: &Prng, s: &Scn, trace: bool) -> Outcome {
    #[derive(Clone, Copy, PartialEq, Eq, PartialOrd, Ord, Debug)]
    enum Ev {
        /// a Sync sent by the master at `t1` reaches the slave
        SyncArrive { t1: i128 },
        /// the slave sends a Delay_Req
        DreqSend { chain: bool },
        /// the Delay_Resp for the request stamped `t3` (slave clock) / `t4` (master clock) reaches the slave
        DrespArrive { t3: i128, t4: i128 },
        /// the filter update timer, armed when the slave clock read `armed`
        Update { gen: u64 },
        /// the Pdelay_Resp (and its follow-up) for the request stamped `t1` (slave clock) reaches the slave; the peer
        /// turned it around in `resid`
        PdRespArrive { t1: i128, resid: i128 },
    }
    g.dead = false;
    g.ops = 0;
    let cfg = KCfg::default_cfg();
    let l = cfg.line();
    g.cfg = Some(cfg);
    g.emit(l);
    let bound = bound_for(s.jitter);
    // true time in units; slave reading = t + theta
    let t0: i128 = 1_700_000_000 * SEC;
    let mut t: i128 = t0;
    let mut theta: i128 = s.theta0;
    let mut f_cmd: f64 = 0.0; // programmed ppm
    let ts: i128 = if s.log_sync >= 0 { SEC << s.log_sync } else { SEC >> (-s.log_sync) };
    let td: i128 = if s.log_dreq >= 0 { SEC << s.log_dreq } else { SEC >> (-s.log_dreq) };
    let end = t + s.duration_s as i128 * SEC;
    let jit = |rng: &Prng| -> i128 { if s.jitter == 0 { 0 } else { (rng.below(2 * s.jitter as u64 + 1) as i128) - s.jitter } };
    let mut queue: std::collections::BTreeSet<(i128, u64, Ev)> = Default::default();
    let mut seq = 0u64;
    let mut push = |queue: &mut std::collections::BTreeSet<(i128, u64, Ev)>, at: i128, ev: Ev| {
        seq += 1;
        queue.insert((at, seq, ev));
    };
    let first_sync = t + (rng.below(ts as u64 / 1024) as i128) * 1024;
    push(&mut queue, first_sync + s.delay + jit(rng).max(-s.delay), Ev::SyncArrive { t1: first_sync });
    push(&mut queue, t + (rng.below(td as u64 / 1024) as i128) * 1024, Ev::DreqSend { chain: true });
    if s.inflight {
        // a request sent half a path delay before the first Sync arrives
        push(&mut queue, first_sync + s.delay - s.delay / 2, Ev::DreqSend { chain: false });
    }
    let mut upd_gen = 0u64;
    let mut last_raw_sync: Option<i128> = None;
    let mut mean_delay: Option<i128> = None;
    let mut out = Outcome { settle_s: None, bound, worst_after_settle: 0, steps_after_settle: 0, final_theta: 0, max_abs_freq: 0.0, measurements: 0, dead: false, last_excursion: None };
    let mut excursions: Vec<(i128, i128)> = vec![];
    let mut step_times: Vec<i128> = vec![];
    if theta.abs() > bound {
        excursions.push((t, theta.abs()));
    }
    while let Some((at, _, ev)) = queue.pop_first() {
        if at >= end || g.dead {
            break;
        }
        // the clock runs at (1 + eps)(1 + f) until the event
        let dt = at - t;
        if dt > 0 {
            let rate = (1.0 + s.eps_ppm * 1e-6) * (1.0 + f_cmd * 1e-6) - 1.0;
            theta += (dt as f64 * rate) as i128;
            t = at;
        }
        let reading = t + theta;
        let clk = (reading + 10 * US).max(0); // the call is made a little after the timestamp was taken
        let mut called = false;
        match ev {
            Ev::SyncArrive { t1 } => {
                let raw = reading - t1;
                last_raw_sync = Some(raw);
                let off = mean_delay.map(|d| raw - d);
                let o = g.emit(format!("FLT m {} {} - - {} - {} 0", reading.max(0), off.map(|x| x.to_string()).unwrap_or("-".into()), raw, clk));
                called = true;
                out.measurements += 1;
                if s.p2p {
                    if let Some(md) = o.split_whitespace().find_map(|w| w.strip_prefix("md=")).and_then(|x| x.parse::<i128>().ok()) {
                        mean_delay = Some(md);
                    }
                }
                if o.contains(" upd=1 ") {
                    upd_gen += 1;
                    push(&mut queue, t + 2 * SEC, Ev::Update { gen: upd_gen });
                }
                let next = t1 + ts;
                let next_sync_arrival = next + s.delay + jit(rng).max(-s.delay);
                push(&mut queue, next_sync_arrival, Ev::SyncArrive { t1: next });
                if s.inflight && t - t0 < 20 * SEC {
                    // while the servo may still step: a request in flight across every Sync arrival
                    push(&mut queue, next_sync_arrival - s.delay / 2, Ev::DreqSend { chain: false });
                }
            }
            Ev::DreqSend { chain } if s.p2p => {
                let t1 = reading;
                let t2 = t + s.delay + jit(rng).max(-s.delay);
                let resid = 100 * US + rng.below(900_001) as i128 * NS;
                push(&mut queue, t2 + resid + s.delay + jit(rng).max(-s.delay), Ev::PdRespArrive { t1, resid });
                if chain {
                    let gap = ((td as f64) * (rng.below(2_000_001) as f64 / 1_000_000.0)) as i128 + 1;
                    push(&mut queue, t + gap, Ev::DreqSend { chain: true });
                }
            }
            Ev::PdRespArrive { t1, resid } => {
                // ((t4 - t1) - (t3 - t2)) / 2, t4 = the slave's reading now
                let pd = ((reading - t1) - resid) / 2;
                let o = g.emit(format!("FLT m {} - - {} - - {} 0", reading.max(0), pd, clk));
                called = true;
                out.measurements += 1;
                // the port keeps the filter's mean delay estimate and corrects the next Sync offsets with it
                if let Some(md) = o.split_whitespace().find_map(|w| w.strip_prefix("md=")).and_then(|x| x.parse::<i128>().ok()) {
                    mean_delay = Some(md);
                }
                if o.contains(" upd=1 ") {
                    upd_gen += 1;
                    push(&mut queue, t + 2 * SEC, Ev::Update { gen: upd_gen });
                }
            }
            Ev::DreqSend { chain } => {
                let t3 = reading;
                let t4 = t + s.delay + jit(rng).max(-s.delay);
                // the response travels back over the same path
                push(&mut queue, t4 + s.delay + jit(rng).max(-s.delay), Ev::DrespArrive { t3, t4 });
                // the port draws every delay request interval uniformly from (0, 2) x the configured interval
                if chain {
                    let gap = ((td as f64) * (rng.below(2_000_001) as f64 / 1_000_000.0)) as i128 + 1;
                    push(&mut queue, t + gap, Ev::DreqSend { chain: true });
                }
            }
            Ev::DrespArrive { t3, t4 } => {
                let raw = t3 - t4;
                let dly = last_raw_sync.map(|rs| (rs - raw) / 2);
                if let Some(d) = dly {
                    mean_delay = Some(d);
                }
                let o = g.emit(format!("FLT m {} - {} - - {} {} 0", t3.max(0), dly.map(|x| x.to_string()).unwrap_or("-".into()), raw, clk));
                called = true;
                out.measurements += 1;
                if o.contains(" upd=1 ") {
                    upd_gen += 1;
                    push(&mut queue, t + 2 * SEC, Ev::Update { gen: upd_gen });
                }
            }
            Ev::Update { gen } => {
                if gen == upd_gen {
                    g.emit(format!("FLT upd {} 0", reading.max(0)));
                    called = true;
                }
            }
        }
        if g.dead {
            break;
        }
        if !called {
            continue;
        }
        // the offset as it was when this call was made
        if theta.abs() > bound {
            excursions.push((t, theta.abs()));
        }
        if trace {
            eprintln!("T {:.4} {:?} theta={:.1}ns f={:.4} cmds={:?}", (t - t0) as f64 / SEC as f64, ev, theta as f64 / NS as f64, f_cmd, g.ex.last_cmds);
        }
        // the commands act on the clock
        for c in g.ex.last_cmds.clone() {
            match c {
                Cmd::Freq(f, true) => {
                    f_cmd = f;
                    if f.abs() > out.max_abs_freq {
                        out.max_abs_freq = f.abs();
                    }
                }
                Cmd::Step(b, true) => {
                    theta += b;
                    step_times.push(t);
                }
                _ => {}
            }
        }
        if theta.abs() > bound {
            excursions.push((t, theta.abs()));
        }
        if t - t0 > (end - t0) / 2 && theta.abs() > out.worst_after_settle {
            out.worst_after_settle = theta.abs();
        }
    }
    out.dead = g.dead;
    out.final_theta = theta;
    // settle time: after the last excursion
    let last_exc = excursions.last().copied();
    let settle_t = last_exc.map(|(te, _)| te).unwrap_or(t0);
    out.last_excursion = last_exc.map(|(te, v)| ((te - t0) as f64 / SEC as f64, v));
    if settle_t < end - 10 * SEC {
        out.settle_s = Some((settle_t - t0) as f64 / SEC as f64);
    }
    out.steps_after_settle = step_times.iter().filter(|&&x| x > settle_t).count() as u32;
    out
}

pub fn random_scn(rng: &Prng, corner: bool) -> Scn {
    let pick_log = |rng: &Prng| -3 + rng.below(5) as i32; // 2^-3 .. 2^1 s
    if corner {
        Scn {
            theta0: *rng.pick(&[10 * SEC, -10 * SEC, 0, 999_999 * NS, -1_000_001 * NS]),
            eps_ppm: *rng.pick(&[150.0, -150.0, 0.0]),
            delay: *rng.pick(&[US, 400 * US]),
            jitter: *rng.pick(&[0, 20 * US, US]),
            log_sync: *rng.pick(&[-3, 1, 0]),
            log_dreq: *rng.pick(&[-3, 1, 0]),
            duration_s: 600,
            inflight: false,
            p2p: false,
        }
    } else {
        Scn {
            theta0: (rng.below(20_000_000_001) as i128 - 10_000_000_000) * NS,
            eps_ppm: (rng.below(300_001) as f64 - 150_000.0) / 1000.0,
            delay: US + rng.below(399_001) as i128 * NS,
            jitter: rng.below(20_001) as i128 * NS,
            log_sync: pick_log(rng),
            log_dreq: pick_log(rng),
            duration_s: 600,
            inflight: false,
            p2p: false,
        }
    }
}

/// time by which the offset must have come (and from then on stay) below the bound. The slower of the two
/// message rates governs: the noise estimator needs Sync / Delay pairs less than 200 ms apart before the filter
/// trusts its measurements, and the port draws its delay request times at random. Observed over 4500 scenarios:
/// at most 18 s at 8 messages/s, 34 s at 2/s, 203 s at 1/s, 391 s at one message every 2 s.
pub fn deadline_s(s: &Scn) -> f64 {
    let interval = 2f64.powi(s.log_sync.max(s.log_dreq));
    60.0 + 350.0 * interval
}

pub fn generate(out: &mut Out, rng: &Prng, thorough: bool) {
    let scenarios = if thorough { 1500 } else { 60 };
    let explore = std::env::var_os("VERIF_LOOP_EXPLORE").is_some();
    let mut g = FGen { ex: FiltExec::default(), out, cfg: None, dead: false, ops: 0, last_line: String::new() };
    for i in 0..scenarios {
        let mut s = random_scn(rng, i % 3 == 0);
        s.duration_s = deadline_s(&s) as i64 + 200;
        s.inflight = i % 4 == 1;
        s.p2p = i % 5 == 2;
        if s.p2p {
            s.inflight = false;
        }
        if let Some(j) = std::env::var("VERIF_LOOP_JITTER_NS").ok().and_then(|x| x.parse::<i128>().ok()) {
            s.jitter = j * NS;
        }
        let trace = std::env::var("VERIF_LOOP_TRACE").ok().and_then(|x| x.parse::<usize>().ok()) == Some(i);
        let r = run_traced(&mut g, rng, &s, trace);
        let desc = format!(
            "theta0={:.6}s eps={}ppm delay={}ns jitter={}ns sync=2^{} dreq=2^{}{}",
            s.theta0 as f64 / SEC as f64,
            s.eps_ppm,
            s.delay / NS,
            s.jitter / NS,
            s.log_sync,
            s.log_dreq,
            if s.inflight { " request-in-flight-at-first-step" } else if s.p2p { " peer-to-peer" } else { "" }
        );
        g.out.count("loop.scenarios");
        if explore {
            eprintln!(
                "#{i} {desc} -> late_worst={}ns settle={:?} bound={}ns last_exc={:?} steps_after={} final={}ns maxf={:.3} n={} dead={}",
                r.worst_after_settle / NS,
                r.settle_s,
                r.bound / NS,
                r.last_excursion.map(|(t, v)| (t, v / NS)),
                r.steps_after_settle,
                r.final_theta / NS,
                r.max_abs_freq,
                r.measurements,
                r.dead
            );
        }
        if r.dead {
            continue; // a panic: reported by the executor's own oracle (C03)
        }
        let dl = deadline_s(&s);
        match r.settle_s {
            Some(ts) if ts <= dl => {
                g.out.count("loop.converged");
                if r.steps_after_settle > 0 {
                    g.out.oracle("C02", "stepped-after-convergence", &format!("{} -> closed loop {desc}: {} step(s) after the offset had come below {} ns at {:.1} s", g.last_line, r.steps_after_settle, r.bound / NS, ts));
                }
            }
            Some(ts) => {
                g.out.oracle("C02", "converges-too-late", &format!("{} -> closed loop {desc}: true offset last exceeded {} ns at {:.1} s (deadline {:.0} s)", g.last_line, r.bound / NS, ts, dl));
            }
            None => {
                g.out.oracle("C02", "does-not-stay-converged", &format!("{} -> closed loop {desc}: true offset still exceeds {} ns in the last 10 s of {} s ({:?}), final offset {} ns", g.last_line, r.bound / NS, s.duration_s, r.last_excursion.map(|(t, v)| (t, v / NS)), r.final_theta / NS));
            }
        }
    }
}
