//! C18: `OVL <op> …` — an OverlayClock over a test clock whose reading the stream controls, reached the way the
//! daemon reaches it: through `SharedClock` handles (two clones, used alternately — they must share one state).
//! new <u0> | adv <du> | freq <ppm bits: ppm·2^32> | step <offset bits> | now | conv <u>
//! Observation: `ok <time bits>`.

use fixed::types::{I96F32, U96F32};
use statime::{
    config::TimePropertiesDS,
    time::{Duration, Time},
    Clock, OverlayClock, SharedClock,
};
use std::{cell::Cell, rc::Rc};

use super::Executor;
use crate::{out::{guarded, Out}, prng::Prng};

#[derive(Clone)]
pub struct TestClock(pub Rc<Cell<u128>>);

impl Clock for TestClock {
    type Error = ();
    fn now(&self) -> Time {
        Time::from_fixed_nanos(U96F32::from_bits(self.0.get()))
    }
    fn step_clock(&mut self, _o: Duration) -> Result<Time, ()> {
        Ok(self.now())
    }
    fn set_frequency(&mut self, _p: f64) -> Result<Time, ()> {
        Ok(self.now())
    }
    fn set_properties(&mut self, _t: &TimePropertiesDS) -> Result<(), ()> {
        Ok(())
    }
}

#[derive(Default)]
pub struct OvlExec {
    under: Option<Rc<Cell<u128>>>,
    clock: Option<[SharedClock<OverlayClock<TestClock>>; 2]>,
    calls: usize,
}

const F32: i128 = 1 << 32;

impl Executor for OvlExec {
    fn exec(&mut self, line: &str) -> String {
        let w: Vec<&str> = line.split_whitespace().filter(|t| !t.starts_with('#')).collect();
        if w.len() < 2 || w[0] != "OVL" {
            return "bad-op".into();
        }
        let arg = |i: usize| -> Option<i128> { w.get(i).and_then(|x| x.parse().ok()) };
        if w[1] == "new" {
            let Some(u0) = arg(2) else { return "bad-op".into() };
            let cell = Rc::new(Cell::new(u0 as u128));
            let a = SharedClock::new(OverlayClock::new(TestClock(cell.clone())));
            let b = a.clone();
            self.clock = Some([a, b]);
            self.under = Some(cell);
            return "ok -".into();
        }
        let (Some(cell), Some(handles)) = (self.under.as_ref(), self.clock.as_mut()) else { return "dead".into() };
        self.calls += 1;
        let clock = &mut handles[self.calls % 2];
        let r = match w[1] {
            "adv" => {
                let Some(du) = arg(2) else { return "bad-op".into() };
                cell.set(cell.get() + du as u128);
                return "ok -".into();
            }
            "freq" => {
                let Some(b) = arg(2) else { return "bad-op".into() };
                let ppm = b as f64 / F32 as f64;
                guarded(|| clock.set_frequency(ppm).unwrap().nanos().to_bits())
            }
            "step" => {
                let Some(b) = arg(2) else { return "bad-op".into() };
                let off = Duration::from_fixed_nanos(I96F32::from_bits(b));
                guarded(|| clock.step_clock(off).unwrap().nanos().to_bits())
            }
            "now" => guarded(|| clock.now().nanos().to_bits()),
            "conv" => {
                let Some(u) = arg(2) else { return "bad-op".into() };
                guarded(|| clock.0.lock().unwrap().time_from_underlying(Time::from_fixed_nanos(U96F32::from_bits(u as u128))).nanos().to_bits())
            }
            _ => return "bad-op".into(),
        };
        match r {
            Ok(v) => format!("ok {v}"),
            Err(_) => {
                self.clock = None;
                "R panic".into()
            }
        }
    }
}

fn val(obs: &str) -> Option<i128> {
    obs.strip_prefix("ok ").and_then(|x| x.parse().ok())
}

pub fn generate(out: &mut Out, rng: &Prng, thorough: bool) {
    let scenarios = if thorough { 60_000 } else { 4_000 };
    let sec: i128 = 1_000_000_000 * F32;
    let mut ex = OvlExec::default();
    for _ in 0..scenarios {
        // underlying clock starting anywhere in the PTP range (leaving room for the advances)
        let u0: i128 = match rng.below(6) {
            0 => 0,
            1 => rng.below(1 << 40) as i128,
            2 => 1_700_000_000 * sec + rng.below(1 << 62) as i128,
            3 => ((1i128 << 48) - 2_000_000) * sec,
            _ => (rng.log_u128(47) as i128 % (1i128 << 47)) * sec + rng.below(1 << 62) as i128,
        };
        let mut emit = |out: &mut Out, ex: &mut OvlExec, line: String| -> String {
            let o = ex.exec(&line);
            out.op(&line, &o);
            o
        };
        if emit(out, &mut ex, format!("OVL new {u0}")) != "ok -" {
            continue;
        }
        let mut u = u0;
        let mut ppm_bits: i128 = 0;
        // (u, reading) of the last `now` in the current segment (no adjustment since)
        let mut seg: Option<(i128, i128)> = None;
        let n = 1 + rng.below(50);
        for _ in 0..n {
            match rng.below(10) {
                0..=2 => {
                    let du = match rng.below(5) {
                        0 => 0,
                        1 => rng.below(1 << 32) as i128,
                        2 => rng.below(10_000) as i128 * sec,
                        3 => 10_000 * sec,
                        _ => rng.log_u128(45) as i128 % (10_000 * sec),
                    };
                    u += du;
                    emit(out, &mut ex, format!("OVL adv {du}"));
                }
                3 | 4 => {
                    // frequency change: must be continuous, and return the reading at that instant
                    let before = emit(out, &mut ex, "OVL now".into());
                    let ppm = match rng.below(6) {
                        0 => 0,
                        1 => 500 * F32,
                        2 => -500 * F32,
                        3 => (rng.below(1001) as i128 - 500) * F32,
                        4 => (rng.below(1_024_001) as i128 - 512_000) * (F32 / 1024),
                        _ => (rng.below(1 << 41) as i128) - (1 << 40),
                    };
                    let r = emit(out, &mut ex, format!("OVL freq {ppm}"));
                    let after = emit(out, &mut ex, "OVL now".into());
                    out.count("c18.freq-changes");
                    if let (Some(b), Some(rv), Some(a)) = (val(&before), val(&r), val(&after)) {
                        if rv != b || a != b {
                            out.oracle("C18", "frequency-change-not-continuous", &format!("OVL freq {ppm} -> reading {b} before, returned {rv}, reading {a} after (underlying time unchanged)"));
                        }
                    }
                    ppm_bits = ppm;
                    seg = val(&after).map(|a| (u, a));
                }
                5 | 6 => {
                    let before = emit(out, &mut ex, "OVL now".into());
                    let off = match rng.below(6) {
                        0 => 0,
                        1 => 10 * sec,
                        2 => -10 * sec,
                        3 => rng.below(1 << 32) as i128,
                        4 => -(rng.below(1 << 32) as i128),
                        _ => (rng.log_u128(66) as i128 % (10 * sec)) * if rng.chance(1, 2) { 1 } else { -1 },
                    };
                    let r = emit(out, &mut ex, format!("OVL step {off}"));
                    let after = emit(out, &mut ex, "OVL now".into());
                    out.count("c18.steps");
                    if let (Some(b), Some(_), Some(_)) = (val(&before), val(&r), val(&after)) {
                        if b + off < 0 {
                            // the overlay time would be negative: not representable (Time is unsigned), outside the property
                            out.count("c18.negative-time-scenarios");
                            break;
                        }
                    }
                    if let (Some(b), Some(rv), Some(a)) = (val(&before), val(&r), val(&after)) {
                        if rv != b + off || a != b + off {
                            out.oracle("C18", "step-not-exact", &format!("OVL step {off} -> reading {b} before, returned {rv}, reading {a} after: jumped by {} instead of {off} (frequency {} ppm·2^32)", a - b, ppm_bits));
                        }
                    }
                    seg = val(&after).map(|a| (u, a));
                }
                7 | 8 => {
                    let o = emit(out, &mut ex, "OVL now".into());
                    out.count("c18.readings");
                    if let (Some((u1, r1)), Some(r2)) = (seg, val(&o)) {
                        // rate: Δreading = Δu·(1 + ppm/10^6), to within 2 units of 2^-32 ns
                        let du = u - u1;
                        let exact_num = du * ppm_bits; // / (2^32·10^6)
                        let den = F32 * 1_000_000;
                        let corr_lo = exact_num.div_euclid(den) - 2;
                        let corr_hi = exact_num.div_euclid(den) + 3;
                        let got = (r2 - r1) - du;
                        out.count("c18.rate-checks");
                        if got < corr_lo || got > corr_hi {
                            out.oracle("C18", "rate", &format!("OVL now -> underlying advanced {du}, reading advanced {}, expected {du} + {du}·ppm/10^6 = {du} + [{corr_lo}, {corr_hi}] (ppm·2^32 = {ppm_bits})", r2 - r1));
                        }
                    }
                    if seg.is_none() {
                        seg = val(&o).map(|a| (u, a));
                    }
                }
                _ => {
                    let a = emit(out, &mut ex, "OVL now".into());
                    let b = emit(out, &mut ex, format!("OVL conv {u}"));
                    out.count("c18.conversions");
                    if a != b {
                        out.oracle("C18", "conversion-differs-from-reading", &format!("OVL conv {u} -> {b}, but the clock read {a} at that underlying time"));
                    }
                }
            }
        }
    }
}
