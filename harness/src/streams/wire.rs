//! C04: `DEC <hex>` — decode, field dump, re-encode (through the `verif` hook).

use statime::verif as hook;

use super::Executor;
use crate::{
    out::{guarded, hex, unhex, Out},
    prng::Prng,
    spec13,
};

pub struct WireExec;

pub fn exec_dec(bytes: &[u8]) -> String {
    match guarded(|| {
        let d = hook::decode_dump(bytes);
        let r = hook::decode_reencode(bytes, 70_000);
        (d, r)
    }) {
        Ok((Ok(d), Ok((re, ws)))) => format!("ok {d} | {} {ws}", hex(&re)),
        Ok((Err(e), _)) => format!("err {e}"),
        Ok((Ok(_), Err(e))) => format!("reencode-err {e}"),
        Err(m) => format!("panic {}", m.replace('\n', " ")),
    }
}

impl Executor for WireExec {
    fn exec(&mut self, line: &str) -> String {
        let ws: Vec<&str> = line.split_whitespace().collect();
        match ws.as_slice() {
            ["DEC", h] => match unhex(h) {
                Some(b) => exec_dec(&b),
                None => "bad-op".into(),
            },
            _ => "bad-op".into(),
        }
    }
}

pub const TYPES: [u8; 10] = [0x0, 0x1, 0x2, 0x3, 0x8, 0x9, 0xa, 0xb, 0xc, 0xd];

pub fn body_len(ty: u8) -> usize {
    spec13::message_type(ty).map(|x| x.1).unwrap_or(0)
}

/// a well-formed frame of the given type with random field values and the given TLV suffix
pub fn valid_frame(rng: &Prng, ty: u8, suffix: &[u8]) -> Vec<u8> {
    let bl = body_len(ty);
    let total = 34 + bl + suffix.len();
    let mut f = rng.bytes(34 + bl);
    f[0] = (f[0] & 0xf0) | ty;
    f[1] = (f[1] & 0xf0) | 2;
    f[2] = (total >> 8) as u8;
    f[3] = total as u8;
    f.extend_from_slice(suffix);
    f
}

pub fn tlv(ty: u16, value: &[u8]) -> Vec<u8> {
    let mut v = vec![(ty >> 8) as u8, ty as u8, (value.len() >> 8) as u8, value.len() as u8];
    v.extend_from_slice(value);
    v
}

const TLV_TYPES: [u16; 16] = [0x0000, 0x0001, 0x0003, 0x0008, 0x0009, 0x000a, 0x2000, 0x2004, 0x3fff, 0x4000, 0x4001, 0x7f00, 0x7fff, 0x8000, 0x8009, 0xffff];

fn random_suffix(rng: &Prng) -> Vec<u8> {
    let mut s = Vec::new();
    let n = rng.below(4);
    for _ in 0..n {
        let ty = *rng.pick(&TLV_TYPES);
        let big = rng.chance(1, 8);
        let len = (rng.below(if big { 200 } else { 12 }) * 2) as usize;
        s.extend(tlv(ty, &rng.bytes(len)));
    }
    s
}

struct Oracle<'a> {
    out: &'a mut Out,
}

impl Oracle<'_> {
    /// all C04 predicates on one input, on the implementation only
    fn check(&mut self, b: &[u8], rng: &Prng) {
        self.out.count("oracle.inputs");
        let h = hex(b);
        let (dump, re) = match guarded(|| (hook::decode_dump(b), hook::decode_reencode(b, 70_000))) {
            Ok(x) => x,
            Err(m) => {
                self.out.oracle("C04", "decode-panic", &format!("DEC {h} panicked: {m}"));
                return;
            }
        };
        // independent codec agrees on acceptance and on every defined field
        let spec = spec13::spec_dump(b);
        match (&dump, &spec) {
            (Ok(d), Ok(s)) => {
                if d != s {
                    let ty = b[0] & 0x0f;
                    self.out.oracle("C04", &format!("field-layout-type-{ty:x}"), &format!("DEC {h} -> library: {d} ; Clause 13 reader: {s}"));
                }
            }
            (Err(_), Err(_)) => {}
            (Ok(d), Err(e)) => {
                // the library accepts something the spec reader rejects
                self.out.oracle("C04", "accepts-malformed", &format!("DEC {h} -> library ok ({d}) ; Clause 13 reader: {e}"));
            }
            (Err(_), Ok(_)) => {
                // rejecting a message the Clause 13 reader accepts is allowed by C04 ("fails with an error
                // or yields a message"); counted, and decided by the correspondence with the model.
                // (known class: zero-length TLV in last position, see C15)
                self.out.count("oracle.rejects_wellformed");
            }
        }
        let Ok(d) = dump else { return };
        self.out.count("oracle.decoded");
        let len = be16(b, 2) as usize;
        // prefix independence: nothing beyond messageLength matters
        let mut junk = b[..len].to_vec();
        let nj = 1 + rng.below(40) as usize;
        junk.extend(rng.bytes(nj));
        for variant in [&b[..len], &junk[..]] {
            match guarded(|| hook::decode_dump(variant)) {
                Ok(Ok(d2)) if d2 == d => {}
                other => self.out.oracle("C04", "reads-past-length", &format!("DEC {h} -> {d} but with different bytes beyond messageLength: {:?}", other)),
            }
        }
        // the encoder owns every octet it reports as written: a buffer that held other data before (the ports reuse
        // one packet buffer for all their messages) must give the same frame as a zeroed one
        if let Ok((rb0, _)) = &re {
            for fill in [0xffu8, 0xa5] {
                let mut dirty = vec![fill; 70_000];
                match guarded(|| hook::decode_reencode_into(b, &mut dirty)) {
                    Ok(Ok((n, _))) => {
                        // octets and bits IEEE 1588 leaves reserved are outside the property ("reserved bits aside")
                        let mask = spec13::defined_mask(b[0] & 0x0f, n);
                        let differs = |i: usize| (dirty[i] ^ rb0[i]) & mask.get(i).copied().unwrap_or(0xff) != 0;
                        if n != rb0.len() || (0..n).any(differs) {
                            let first = (0..n.min(rb0.len())).find(|&i| differs(i)).unwrap_or(0);
                            self.out.oracle("C04", "encoding-depends-on-buffer-contents", &format!("DEC {h} -> re-encoded into a buffer pre-filled with {fill:#04x}: octet {first} is {:#04x}, into a zeroed buffer {:#04x}", dirty[first], rb0.get(first).copied().unwrap_or(0)));
                            break;
                        }
                    }
                    other => {
                        self.out.oracle("C04", "encoding-depends-on-buffer-contents", &format!("DEC {h} -> re-encoding into a pre-filled buffer: {:?}", other.map(|r| r.map(|x| x.0))));
                        break;
                    }
                }
            }
        }
        // re-encoding
        match re {
            Ok((rb, ws)) => {
                if rb.len() != len || ws != len {
                    self.out.oracle("C04", "reencode-length", &format!("DEC {h}: declared {len}, re-encoded {} wire_size {ws}", rb.len()));
                }
                match guarded(|| hook::decode_dump(&rb)) {
                    Ok(Ok(d2)) if d2 == d => {}
                    other => self.out.oracle("C04", "reencode-not-idempotent", &format!("DEC {h} -> {d} ; re-encoded {} decodes to {:?}", hex(&rb), other)),
                }
                // agreement with the input on every defined bit (enum normalisation: reserved accuracy octets)
                if rb.len() == len {
                    let mask = spec13::defined_mask(b[0] & 0x0f, len);
                    for i in 0..len {
                        if (rb[i] ^ b[i]) & mask[i] != 0 {
                            // announce clockAccuracy octet: reserved values are normalised
                            if b[0] & 0x0f == 0xb && i == 49 {
                                continue;
                            }
                            // management actionField: reserved values (5..15) are normalised
                            if b[0] & 0x0f == 0xd && i == 46 && (b[46] & 0x0f) >= 5 && (rb[46] & 0x0f) >= 5 {
                                continue;
                            }
                            self.out.oracle("C04", &format!("reencode-differs-octet-{i}-type-{:x}", b[0] & 0x0f), &format!("DEC {h}: octet {i} in {:02x} out {:02x}", b[i], rb[i]));
                            break;
                        }
                    }
                }
            }
            Err(e) => self.out.oracle("C04", "reencode-fails", &format!("DEC {h}: decoded but serialize failed: {e}")),
        }
    }
}

fn be16(b: &[u8], i: usize) -> u16 {
    ((b[i] as u16) << 8) | b[i + 1] as u16
}

pub fn generate(out: &mut Out, rng: &Prng, thorough: bool) {
    let mut ex = WireExec;
    let orng = rng.fork();
    let mut emit = |out: &mut Out, b: &[u8], class: &str| {
        let line = format!("DEC {}", hex(b));
        let obs = ex.exec(&line);
        out.count(&format!("class.{class}"));
        let kind = obs.split_whitespace().take(2).collect::<Vec<_>>().join(".");
        out.count(&format!("result.{}", if kind.starts_with("ok") { "ok".to_string() } else { kind }));
        if b.len() >= 34 && obs.starts_with("ok") {
            out.count(&format!("decoded.type-{:x}", b[0] & 0xf));
        }
        out.op(&line, &obs);
        Oracle { out }.check(b, &orng);
    };

    // 1. every message type x every flag-field combination (exhaustive 2^16) on a fixed base frame
    for &ty in &TYPES {
        let base = valid_frame(rng, ty, &[]);
        let step = if thorough || ty == 0xb || ty == 0x0 { 1 } else { 97 };
        let mut v = 0u32;
        while v < 65536 {
            let mut f = base.clone();
            f[6] = (v >> 8) as u8;
            f[7] = v as u8;
            emit(out, &f, "flags");
            v += step;
        }
    }
    // 2. every value of each single octet of header and body (exhaustive 256 per position), every type
    for &ty in &TYPES {
        let base = valid_frame(rng, ty, &[]);
        for pos in 0..base.len() {
            if pos == 2 || pos == 3 {
                continue;
            }
            for v in 0..=255u8 {
                let mut f = base.clone();
                f[pos] = v;
                emit(out, &f, "octet-sweep");
            }
        }
    }
    // 3. every messageLength value against a few buffer lengths (exhaustive 2^16 for announce)
    for &ty in &[0xbu8, 0x0] {
        for buflen in [34usize, 44, 64, 70, 100] {
            let mut f = valid_frame(rng, ty, &[]);
            f.resize(buflen, 0);
            let step = if thorough || (ty == 0xb && buflen == 70) { 1 } else { 251 };
            let mut l = 0u32;
            while l < 65536 {
                f[2] = (l >> 8) as u8;
                f[3] = l as u8;
                emit(out, &f, "length-sweep");
                l += step;
            }
            for l in 0..=110u16 {
                f[2] = (l >> 8) as u8;
                f[3] = l as u8;
                emit(out, &f, "length-sweep");
            }
        }
    }
    // 4. every 16-bit value of sequenceId / stepsRemoved / variance / utc offset / portNumber (exhaustive in thorough)
    {
        let base = valid_frame(rng, 0xb, &[]);
        for pos in [30usize, 28, 44, 50, 61] {
            let step = if thorough { 1 } else { 61 };
            let mut v = 0u32;
            while v < 65536 {
                let mut f = base.clone();
                f[pos] = (v >> 8) as u8;
                f[pos + 1] = v as u8;
                emit(out, &f, "u16-sweep");
                v += step;
            }
        }
    }
    // 5. TLV layouts on every type
    for &ty in &TYPES {
        // every TLV type class with lengths 0..=10
        for &t in &TLV_TYPES {
            for len in 0..=10usize {
                let s = tlv(t, &rng.bytes(len));
                emit(out, &valid_frame(rng, ty, &s), if len % 2 == 0 { "tlv-even" } else { "tlv-odd" });
            }
        }
        // truncated value, trailing 1..4 octets, zero-length last, several TLVs
        let t1 = tlv(0x4000, &rng.bytes(8));
        for cut in 1..t1.len() {
            emit(out, &valid_frame(rng, ty, &t1[..cut]), "tlv-truncated");
        }
        for extra in 1..=5usize {
            let mut s = t1.clone();
            s.extend(rng.bytes(extra));
            emit(out, &valid_frame(rng, ty, &s), "tlv-trailing");
        }
        let mut s = t1.clone();
        s.extend(tlv(0x0008, &[]));
        emit(out, &valid_frame(rng, ty, &s), "tlv-zero-length-last");
        let mut s = tlv(0x0008, &[]);
        s.extend(t1.clone());
        emit(out, &valid_frame(rng, ty, &s), "tlv-zero-length-first");
        // declared TLV length larger than what is left / huge
        let mut s = t1.clone();
        s[2] = 0xff;
        s[3] = 0xfe;
        emit(out, &valid_frame(rng, ty, &s), "tlv-length-overrun");
        for _ in 0..(if thorough { 400 } else { 40 }) {
            let s = random_suffix(rng);
            emit(out, &valid_frame(rng, ty, &s), "tlv-random");
        }
    }
    // every TLV type value (exhaustive 2^16) in thorough tier; classes otherwise
    {
        let step = if thorough { 1 } else { 257 };
        let mut t = 0u32;
        while t < 65536 {
            let s = tlv(t as u16, &[1, 2]);
            emit(out, &valid_frame(rng, 0xb, &s), "tlv-type-sweep");
            t += step;
        }
    }
    // 6. random valid frames, boundary values of wide fields
    let n = if thorough { 200_000 } else { 6_000 };
    for _ in 0..n {
        let ty = *rng.pick(&TYPES);
        let s = if rng.chance(1, 2) { random_suffix(rng) } else { vec![] };
        let mut f = valid_frame(rng, ty, &s);
        if rng.chance(1, 3) {
            // boundary patterns in a wide field
            let (pos, w) = *rng.pick(&[(8usize, 8usize), (20, 8), (34, 6), (40, 4), (34, 10)]);
            let pat = *rng.pick(&[0x00u8, 0xff, 0x7f, 0x80]);
            for i in pos..(pos + w).min(f.len()) {
                f[i] = pat;
            }
            if rng.chance(1, 2) && pos + w <= f.len() {
                f[pos + w - 1] ^= 1;
            }
        }
        if rng.chance(1, 4) {
            // padding beyond messageLength
            let extra = rng.below(30) as usize;
            f.extend(rng.bytes(extra));
        }
        emit(out, &f, "random-valid");
    }
    // 7. malformed stream: short buffers, random bytes, mutated frames, bad type nibbles
    for l in 0..=70usize {
        emit(out, &rng.bytes(l), "random-bytes");
        let ty = *rng.pick(&TYPES);
        let mut f = valid_frame(rng, ty, &[]);
        f.truncate(l.min(f.len()));
        emit(out, &f, "truncated-frame");
    }
    let n = if thorough { 100_000 } else { 4_000 };
    for _ in 0..n {
        let ty = *rng.pick(&TYPES);
        let s = if rng.chance(1, 2) { random_suffix(rng) } else { vec![] };
        let mut f = valid_frame(rng, ty, &s);
        for _ in 0..1 + rng.below(3) {
            let i = rng.below(f.len() as u64) as usize;
            match rng.below(3) {
                0 => f[i] = rng.next_u64() as u8,
                1 => f[i] ^= 1 << rng.below(8),
                _ => {
                    if i < f.len() {
                        f.truncate(i.max(1));
                    }
                }
            }
        }
        emit(out, &f, "mutated");
    }
}
