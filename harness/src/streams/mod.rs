pub mod gen_bmca;
pub mod gen_c07;
pub mod filt;
pub mod gen_filt;
pub mod gen_loop;
pub mod gen_fml;
pub mod gen_inst;
pub mod inst;
pub mod net;
pub mod oracle_frames;
pub mod ovl;
pub mod kports;
pub mod portloop;
pub mod oracle_tlv;
pub mod oracle_view;
pub mod threads;
pub mod timed;
pub mod time;
pub mod wire;

/// An executor runs op lines against the real implementation and returns the
/// canonical observation line for each.
pub trait Executor {
    fn exec(&mut self, line: &str) -> String;
}
