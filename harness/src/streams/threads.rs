//! C17 stress: ports of one instance driven from different threads over a blocking lock (std::sync::RwLock, the
//! implementation the library ships), with a concurrent observer. Not a proof: it supports the tie between the
//! lock-trace model and the real library by looking for what the theorems exclude — a snapshot that mixes two
//! updates, a deadlock, a poisoned lock.

use crate::{frames::{AnnounceFields, Frame}, out::Out, prng::Prng};
use statime::{
    config::{AcceptAnyMaster, ClockIdentity, ClockQuality, DelayMechanism, InstanceConfig, LeapIndicator, PortConfig, PtpMinorVersion, SdoId, TimePropertiesDS},
    filters::{Filter, FilterEstimate, FilterUpdate},
    port::{Measurement, NoForwardedTLVs, PortAction},
    time::{Duration, Interval, Time},
    Clock, PtpInstance, PtpInstanceState,
};
use std::sync::{atomic::{AtomicBool, AtomicU64, Ordering}, Arc, RwLock};

struct NullFilter;
impl Filter for NullFilter {
    type Config = ();
    fn new(_: ()) -> Self {
        NullFilter
    }
    fn measurement<C: Clock>(&mut self, _m: Measurement, _c: &mut C) -> FilterUpdate {
        FilterUpdate::default()
    }
    fn update<C: Clock>(&mut self, _c: &mut C) -> FilterUpdate {
        FilterUpdate::default()
    }
    fn demobilize<C: Clock>(self, _c: &mut C) {}
    fn current_estimates(&self) -> FilterEstimate {
        FilterEstimate { offset_from_master: Duration::ZERO, mean_delay: Duration::ZERO }
    }
}

struct NullClock;
impl Clock for NullClock {
    type Error = ();
    fn now(&self) -> Time {
        Time::from_secs(0)
    }
    fn step_clock(&mut self, _o: Duration) -> Result<Time, ()> {
        Ok(Time::from_secs(0))
    }
    fn set_frequency(&mut self, _p: f64) -> Result<Time, ()> {
        Ok(Time::from_secs(0))
    }
    fn set_properties(&mut self, _t: &TimePropertiesDS) -> Result<(), ()> {
        Ok(())
    }
}

/// the two contents the parent alternates between: every field of A differs from the same field of B
fn content(which: u8, clock: [u8; 8]) -> (AnnounceFields, u8) {
    if which == 0 {
        (AnnounceFields { utc: 11, p1: 11, class: 11, acc: 0x21, var: 0x1111, p2: 11, gm: clock, steps: 1, time_source: 0x10 }, 0x04 | 0x08 | 0x10 | 0x01)
    } else {
        let mut gm = clock;
        gm[0] ^= 0xff;
        (AnnounceFields { utc: 22, p1: 22, class: 22, acc: 0x22, var: 0x2222, p2: 22, gm, steps: 2, time_source: 0x20 }, 0x04 | 0x20 | 0x02)
    }
}

pub fn generate(out: &mut Out, rng: &Prng, thorough: bool) {
    let rounds = if thorough { 12 } else { 3 };
    let iters: u64 = if thorough { 8_000_000 } else { 1_000_000 };
    for round in 0..rounds {
        let parent_clock = [0x10, 0, 0, 0, 0, 0, 0, round as u8 + 1];
        let cfg = InstanceConfig {
            clock_identity: ClockIdentity([0x00, 0x11, 0x22, 0xff, 0xfe, 0x33, 0x44, 0x55]),
            priority_1: 200,
            priority_2: 200,
            domain_number: 0,
            sdo_id: SdoId::try_from(0).unwrap(),
            slave_only: false,
            path_trace: rng.chance(1, 2),
            clock_quality: ClockQuality::default(),
        };
        let tp = TimePropertiesDS::new_arbitrary_time(false, false, statime::verif::time_source_from_primitive(0xa0));
        let inst: &'static PtpInstance<NullFilter, RwLock<PtpInstanceState>> = Box::leak(Box::new(PtpInstance::new(cfg, tp)));
        let pcfg = || PortConfig {
            acceptable_master_list: AcceptAnyMaster,
            delay_mechanism: DelayMechanism::E2E { interval: Interval::from_log_2(0) },
            announce_interval: Interval::from_log_2(0),
            announce_receipt_timeout: 3,
            sync_interval: Interval::from_log_2(0),
            master_only: false,
            delay_asymmetry: Duration::ZERO,
            minor_ptp_version: PtpMinorVersion::One,
        };
        let p1 = inst.add_port(pcfg(), (), NullClock, rand::rngs::mock::StepRng::new(2, 1));
        let p2 = inst.add_port(pcfg(), (), NullClock, rand::rngs::mock::StepRng::new(2, 1));
        let (mut p1, _) = p1.end_bmca();
        let (mut p2, _) = p2.end_bmca();
        // port 1 becomes Slave of the parent, port 2 Master
        let mk = move |which: u8, seq: u16| {
            let (a, fl) = content(which, parent_clock);
            let mut f = Frame::announce(parent_clock, 1, seq);
            f.flags[1] = fl;
            f.set_announce(&a);
            f.bytes()
        };
        for s in 0..3u16 {
            for _ in p1.handle_general_receive(&mk(0, s)) {}
        }
        for _ in p2.handle_announce_receipt_timer() {}
        let mut b1 = p1.start_bmca();
        let mut b2 = p2.start_bmca();
        inst.bmca(&mut [&mut b1, &mut b2]);
        let (mut p1, a1) = b1.end_bmca();
        for _ in a1 {}
        let (mut p2, a2) = b2.end_bmca();
        for _ in a2 {}
        let slave_ok = format!("{:?}", p1.port_ds().port_state) == "Slave";
        out.count(if slave_ok { "c17.rounds" } else { "c17.setup-not-slave" });
        if !slave_ok {
            continue;
        }
        let stop = Arc::new(AtomicBool::new(false));
        let done = Arc::new(AtomicU64::new(0));
        let progress = Arc::new(AtomicU64::new(0));
        let mixed: Arc<std::sync::Mutex<Vec<String>>> = Arc::new(std::sync::Mutex::new(Vec::new()));
        // T1: the slave port hears its parent alternate between A and B
        let t1 = {
            let done = done.clone();
            let progress = progress.clone();
            std::thread::spawn(move || {
                for n in 0..iters {
                    let f = mk((n % 2) as u8, 10u16.wrapping_add(n as u16));
                    for _ in p1.handle_general_receive(&f) {}
                    progress.store(n + 1, Ordering::Relaxed);
                }
                done.fetch_add(1, Ordering::SeqCst);
            })
        };
        // T2: the master port announces: the frame must carry all-A or all-B contents
        let t2 = {
            let stop = stop.clone();
            let mixed = mixed.clone();
            std::thread::spawn(move || {
                let mut n = 0u64;
                while !stop.load(Ordering::Relaxed) {
                    let mut frames = Vec::new();
                    for a in p2.handle_announce_timer(&mut NoForwardedTLVs) {
                        if let PortAction::SendGeneral { data, .. } = a {
                            frames.push(data.to_vec());
                        }
                    }
                    for b in frames {
                        if b.len() >= 64 {
                            let a_like = [b[47] == 11, b[48] == 11, b[52] == 11, b[63] == 0x10, b[61] == 0 && b[62] == 2, b[45] == 11];
                            let b_like = [b[47] == 22, b[48] == 22, b[52] == 22, b[63] == 0x20, b[61] == 0 && b[62] == 3, b[45] == 22];
                            if !(a_like.iter().all(|x| *x) || b_like.iter().all(|x| *x)) {
                                mixed.lock().unwrap().push(format!("Announce {}", crate::out::hex(&b)));
                            }
                        }
                    }
                    n += 1;
                    std::thread::yield_now();
                }
                n
            })
        };
        // T3: an observer takes snapshots through the public getters
        let t3 = {
            let stop = stop.clone();
            let mixed = mixed.clone();
            std::thread::spawn(move || {
                let mut n = 0u64;
                while !stop.load(Ordering::Relaxed) {
                    let p = inst.parent_ds();
                    let q = p.grandmaster_clock_quality;
                    let pa = [p.grandmaster_priority_1 == 11, p.grandmaster_priority_2 == 11, q.clock_class == 11, q.offset_scaled_log_variance == 0x1111];
                    let pb = [p.grandmaster_priority_1 == 22, p.grandmaster_priority_2 == 22, q.clock_class == 22, q.offset_scaled_log_variance == 0x2222];
                    if !(pa.iter().all(|x| *x) || pb.iter().all(|x| *x)) {
                        mixed.lock().unwrap().push(format!("parent_ds p1={} p2={} class={} var={:#x}", p.grandmaster_priority_1, p.grandmaster_priority_2, q.clock_class, q.offset_scaled_log_variance));
                    }
                    let t = inst.time_properties_ds();
                    let ta = t.current_utc_offset == Some(11) && t.leap_indicator == LeapIndicator::Leap61 && t.time_traceable && !t.frequency_traceable && t.ptp_timescale;
                    let tb = t.current_utc_offset == Some(22) && t.leap_indicator == LeapIndicator::Leap59 && !t.time_traceable && t.frequency_traceable && !t.ptp_timescale;
                    if !(ta || tb) {
                        mixed.lock().unwrap().push(format!("time_properties_ds {:?}", t));
                    }
                    let c = inst.current_ds(None).steps_removed;
                    if c != 2 && c != 3 {
                        mixed.lock().unwrap().push(format!("current_ds steps {c}"));
                    }
                    n += 1;
                    std::thread::yield_now();
                }
                n
            })
        };
        // watchdog: a nested acquisition of a blocking lock would hang a thread for good. (Slow progress is not a
        // hang: readers can starve the writer of an RwLock for a while.)
        let mut idle = 0;
        let mut last = 0;
        while done.load(Ordering::SeqCst) < 1 && idle < 300 && !t1.is_finished() {
            std::thread::sleep(std::time::Duration::from_millis(100));
            let now = progress.load(Ordering::Relaxed);
            if now == last {
                idle += 1;
            } else {
                idle = 0;
                last = now;
            }
        }
        stop.store(true, Ordering::SeqCst);
        if done.load(Ordering::SeqCst) < 1 && t1.is_finished() {
            let _ = t1.join();
            out.oracle("C17", "thread-panicked", &format!("THREADS round {round} -> the slave port's thread panicked after {last} Announces (poisoned lock or re-borrow)"));
            continue;
        }
        if done.load(Ordering::SeqCst) < 1 {
            out.oracle("C17", "threads-stuck", &format!("THREADS round {round} -> the slave port's thread made no progress for 30 s after {last} of {iters} Announces: a thread is blocked on the instance state lock"));
            continue;
        }
        let r1 = t1.join();
        let n2 = t2.join();
        let n3 = t3.join();
        if r1.is_err() || n2.is_err() || n3.is_err() {
            out.oracle("C17", "thread-panicked", &format!("THREADS round {round} -> a thread panicked (poisoned lock or re-borrow)"));
            continue;
        }
        out.add("c17.announces-handled", iters);
        out.add("c17.announces-sent-concurrently", n2.unwrap_or(0));
        out.add("c17.snapshots", n3.unwrap_or(0));
        for m in mixed.lock().unwrap().iter().take(3) {
            out.oracle("C17", "mixed-snapshot", &format!("THREADS round {round} -> {m}: fields of two different updates of the parent in one snapshot"));
        }
        out.op(&format!("THREADS {round}"), "ok");
    }
}
