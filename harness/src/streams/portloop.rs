//! C02, full stack: a real slave `Port` with the real `KalmanFilter` on a simulated clock, synchronising to a simulated
//! master over a simulated path — Announce / Sync (one- and two-step) / Follow_Up / Delay_Req / Delay_Resp frames,
//! transmit timestamps, the port's own timers (delay request, filter update, announce receipt) and BMCA runs, all
//! through the public host interface. The closed loop of `gen_loop` drives the filter alone; here the port's
//! measurement state machines and timer handling sit in the loop as well.
//!
//! No model runs beside it (the Lean port model is tied to the recording filter): oracle only, the same predicate
//! as the `loop` stream — the true offset comes below the jitter bound in bounded time, stays there, no step after.
use std::{cell::RefCell, collections::BTreeSet, rc::Rc};

use fixed::types::{I96F32, U96F32};
use statime::{
    config::{ClockIdentity, ClockQuality, DelayMechanism, InstanceConfig, PortConfig, PtpMinorVersion, SdoId, TimePropertiesDS, TimeSource},
    filters::{KalmanConfiguration, KalmanFilter},
    port::{InBmca, Port, PortAction, PortActionIterator, Running, TimestampContext},
    time::{Duration, Interval, Time},
    Clock, PtpInstance,
};

use super::gen_loop::{bound_for, deadline_s, random_scn, Scn};
use crate::{
    frames::{split_time, AnnounceFields, Frame},
    out::{guarded, Out},
    prng::Prng,
};

const NS: i128 = 1 << 32;
const US: i128 = 1000 * NS;
const SEC: i128 = 1_000_000_000 * NS;

#[derive(Default)]
struct ClockState {
    /// slave reading = true time + theta
    now_true: i128,
    theta: i128,
    f_cmd: f64,
    steps: Vec<i128>, // true times of steps
    max_abs_freq: f64,
}

#[derive(Clone)]
struct SimClock(Rc<RefCell<ClockState>>);

impl SimClock {
    fn reading(&self) -> i128 {
        let s = self.0.borrow();
        s.now_true + s.theta
    }
}

fn time_of(bits: i128) -> Time {
    Time::from_fixed_nanos(U96F32::from_bits(bits.max(0) as u128))
}

impl Clock for SimClock {
    type Error = core::convert::Infallible;
    fn now(&self) -> Time {
        time_of(self.reading())
    }
    fn step_clock(&mut self, offset: Duration) -> Result<Time, Self::Error> {
        let mut s = self.0.borrow_mut();
        s.theta += offset.nanos().to_bits();
        let t = s.now_true;
        s.steps.push(t);
        drop(s);
        Ok(self.now())
    }
    fn set_frequency(&mut self, ppm: f64) -> Result<Time, Self::Error> {
        let mut s = self.0.borrow_mut();
        s.f_cmd = ppm;
        if ppm.abs() > s.max_abs_freq {
            s.max_abs_freq = ppm.abs();
        }
        drop(s);
        Ok(self.now())
    }
    fn set_properties(&mut self, _t: &TimePropertiesDS) -> Result<(), Self::Error> {
        Ok(())
    }
}

/// the port draws its delay request intervals from this
struct PortRng(Prng);
impl rand::RngCore for PortRng {
    fn next_u32(&mut self) -> u32 {
        self.0.next_u64() as u32
    }
    fn next_u64(&mut self) -> u64 {
        self.0.next_u64()
    }
    fn fill_bytes(&mut self, dest: &mut [u8]) {
        for b in dest.iter_mut() {
            *b = self.0.next_u64() as u8;
        }
    }
    fn try_fill_bytes(&mut self, dest: &mut [u8]) -> Result<(), rand::Error> {
        self.fill_bytes(dest);
        Ok(())
    }
}

type Inst = PtpInstance<KalmanFilter, RefCell<statime::PtpInstanceState>>;
type RPort = Port<'static, Running, Option<Vec<ClockIdentity>>, PortRng, SimClock, KalmanFilter, RefCell<statime::PtpInstanceState>>;
type BPort = Port<'static, InBmca, Option<Vec<ClockIdentity>>, PortRng, SimClock, KalmanFilter, RefCell<statime::PtpInstanceState>>;

#[derive(Clone, Copy, PartialEq, Eq, PartialOrd, Ord, Debug)]
enum Ev {
    MasterAnnounce,
    MasterSync,
    /// frame of the master reaches the slave: 0 = Announce, 1 = Sync, 2 = Follow_Up, 3 = Delay_Resp; `a`, `b` payload
    Arrive { kind: u8, seq: u16, a: i128, b: i128 },
    /// the slave's Delay_Req reaches the master (sent at slave reading `t3`, sequence id `seq`)
    ReqAtMaster { seq: u16, corr: i128 },
    /// the transmit timestamp of the Delay_Req with this context index is reported
    TxTs { ctx: usize, t3: i128 },
    TimerDelay { gen: u64 },
    TimerFilter { gen: u64 },
    TimerReceipt { gen: u64 },
    Bmca,
}

pub struct Outcome {
    pub settle_s: Option<f64>,
    pub steps_after_settle: u32,
    pub final_theta: i128,
    pub panicked: Option<String>,
    pub became_slave: bool,
    pub measurements_hint: u32,
    pub last_excursion: Option<(f64, i128)>,
}

struct Sim<'r> {
    rng: &'r Prng,
    s: Scn,
    clock: SimClock,
    queue: BTreeSet<(i128, u64, Ev)>,
    seq: u64,
    gens: [u64; 3],
    ctxs: Vec<Option<TimestampContext>>,
    master_clock: [u8; 8],
    sync_seq: u16,
    ann_seq: u16,
    two_step: bool,
    late_txts: bool,
}

impl<'r> Sim<'r> {
    fn push(&mut self, at: i128, ev: Ev) {
        self.seq += 1;
        self.queue.insert((at, self.seq, ev));
    }
    fn jit(&self) -> i128 {
        if self.s.jitter == 0 {
            0
        } else {
            (self.rng.below(2 * self.s.jitter as u64 + 1) as i128 - self.s.jitter).max(-self.s.delay)
        }
    }
    fn now(&self) -> i128 {
        self.clock.0.borrow().now_true
    }

    /// what the port asks of its host
    fn absorb(&mut self, actions: PortActionIterator<'_>) {
        let t = self.now();
        for a in actions {
            match a {
                PortAction::SendEvent { context, data, .. } => {
                    // only Delay_Req leaves a slave port as an event message
                    if data.len() >= 34 && data[0] & 0x0f == 1 {
                        let seq = u16::from_be_bytes([data[30], data[31]]);
                        let t3 = self.clock.reading();
                        self.ctxs.push(Some(context));
                        let idx = self.ctxs.len() - 1;
                        // hardware timestamps may be reported after the response is already there
                        // (in the `late` scenarios always: after the round trip and the master's turnaround)
                        let lag = if self.late_txts { 2 * self.s.delay + 2 * self.s.jitter + 60 * US + (self.rng.below(2000) as i128) * US } else { (self.rng.below(20) as i128) * US };
                        self.push(t + lag, Ev::TxTs { ctx: idx, t3 });
                        let d = self.s.delay + self.jit();
                        self.push(t + d, Ev::ReqAtMaster { seq, corr: 0 });
                    }
                }
                PortAction::SendGeneral { .. } | PortAction::ForwardTLV { .. } => {}
                PortAction::ResetAnnounceTimer { .. } | PortAction::ResetSyncTimer { .. } => {}
                PortAction::ResetDelayRequestTimer { duration } => {
                    self.gens[0] += 1;
                    let g = self.gens[0];
                    self.push(t + duration.as_nanos() as i128 * NS, Ev::TimerDelay { gen: g });
                }
                PortAction::ResetFilterUpdateTimer { duration } => {
                    self.gens[1] += 1;
                    let g = self.gens[1];
                    self.push(t + duration.as_nanos() as i128 * NS, Ev::TimerFilter { gen: g });
                }
                PortAction::ResetAnnounceReceiptTimer { duration } => {
                    self.gens[2] += 1;
                    let g = self.gens[2];
                    self.push(t + duration.as_nanos() as i128 * NS, Ev::TimerReceipt { gen: g });
                }
            }
        }
    }
}

fn master_frame(ty: u8, clock: [u8; 8], seq: u16) -> Frame {
    let mut f = Frame::new(ty, clock, 1, seq);
    f.version = 0x12;
    f
}

/// one scenario; `explore` prints nothing, the caller judges the outcome
pub fn run(rng: &Prng, s: &Scn, late_txts: bool) -> Outcome {
    let state = Rc::new(RefCell::new(ClockState::default()));
    let clock = SimClock(state.clone());
    let t0: i128 = 1_700_000_000 * SEC;
    {
        let mut st = state.borrow_mut();
        st.now_true = t0;
        st.theta = s.theta0;
    }
    let inst: &'static Inst = Box::leak(Box::new(PtpInstance::new(
        InstanceConfig {
            clock_identity: ClockIdentity([0x02, 0, 0, 0xff, 0xfe, 0, 0, 0x01]),
            priority_1: 255,
            priority_2: 255,
            domain_number: 0,
            sdo_id: SdoId::try_from(0).unwrap(),
            slave_only: true,
            path_trace: false,
            clock_quality: ClockQuality::default(),
        },
        TimePropertiesDS::new_arbitrary_time(false, false, TimeSource::InternalOscillator),
    )));
    let cfg = PortConfig {
        acceptable_master_list: None,
        delay_mechanism: DelayMechanism::E2E { interval: Interval::from_log_2(s.log_dreq as i8) },
        announce_interval: Interval::from_log_2(0),
        announce_receipt_timeout: 3,
        sync_interval: Interval::from_log_2(s.log_sync as i8),
        master_only: false,
        delay_asymmetry: Duration::ZERO,
        minor_ptp_version: PtpMinorVersion::One,
    };
    let mut out = Outcome { settle_s: None, steps_after_settle: 0, final_theta: 0, panicked: None, became_slave: false, measurements_hint: 0, last_excursion: None };
    let mut sim = Sim {
        rng,
        s: Scn { ..*s },
        clock: clock.clone(),
        queue: Default::default(),
        seq: 0,
        gens: [0; 3],
        ctxs: vec![],
        master_clock: [0x10, 0, 0, 0, 0, 0, 0, 0x01],
        sync_seq: rng.next_u64() as u16,
        ann_seq: rng.next_u64() as u16,
        two_step: rng.chance(2, 3),
        late_txts,
    };
    let bport: BPort = inst.add_port(cfg, KalmanConfiguration::default(), clock.clone(), PortRng(rng.fork()));
    let (port, actions) = bport.end_bmca();
    let mut port: Option<RPort> = Some(port);
    sim.absorb(actions);
    let ts: i128 = if s.log_sync >= 0 { SEC << s.log_sync } else { SEC >> (-s.log_sync) };
    let bound = bound_for(s.jitter);
    let end = t0 + s.duration_s as i128 * SEC;
    sim.push(t0 + 10 * US, Ev::MasterAnnounce);
    sim.push(t0 + (rng.below(ts as u64 / 1024) as i128) * 1024, Ev::MasterSync);
    sim.push(t0 + SEC / 2, Ev::Bmca);
    let mut excursions: Vec<(i128, i128)> = vec![];
    if s.theta0.abs() > bound {
        excursions.push((t0, s.theta0.abs()));
    }
    while let Some((at, _, ev)) = sim.queue.pop_first() {
        if at >= end {
            break;
        }
        // the slave clock runs at (1 + eps)(1 + f) until the event
        {
            let mut st = state.borrow_mut();
            let dt = at - st.now_true;
            if dt > 0 {
                let rate = (1.0 + s.eps_ppm * 1e-6) * (1.0 + st.f_cmd * 1e-6) - 1.0;
                st.theta += (dt as f64 * rate) as i128;
                st.now_true = at;
            }
        }
        let t = at;
        let steps_before = state.borrow().steps.len();
        let reading = clock.reading();
        let theta_before = state.borrow().theta;
        if theta_before.abs() > bound {
            excursions.push((t, theta_before.abs()));
        }
        let r: Result<(), String> = guarded(|| {
            let p = port.as_mut().unwrap();
            match ev {
                Ev::MasterAnnounce => {
                    sim.ann_seq = sim.ann_seq.wrapping_add(1);
                    let seq = sim.ann_seq;
                    let d = sim.s.delay + sim.jit();
                    sim.push(t + d, Ev::Arrive { kind: 0, seq, a: 0, b: 0 });
                    sim.push(t + SEC, Ev::MasterAnnounce);
                }
                Ev::MasterSync => {
                    sim.sync_seq = sim.sync_seq.wrapping_add(1);
                    let seq = sim.sync_seq;
                    let d = sim.s.delay + sim.jit();
                    sim.push(t + d, Ev::Arrive { kind: 1, seq, a: t, b: 0 });
                    if sim.two_step {
                        let d2 = d + (sim.rng.below(200) as i128) * US;
                        sim.push(t + d2, Ev::Arrive { kind: 2, seq, a: t, b: 0 });
                    }
                    sim.push(t + ts, Ev::MasterSync);
                }
                Ev::Arrive { kind, seq, a, b } => {
                    let mc = sim.master_clock;
                    match kind {
                        0 => {
                            let mut f = Frame::announce(mc, 1, seq);
                            f.version = 0x12;
                            f.set_announce(&AnnounceFields { utc: 37, p1: 1, class: 6, acc: 0x20, var: 0x4e5d, p2: 1, gm: mc, steps: 0, time_source: 0x20 });
                            f.flags[1] = 0x08;
                            let bytes = f.bytes();
                            let acts = p.handle_general_receive(&bytes);
                            sim.absorb(acts);
                        }
                        1 => {
                            let (sx, nx, _) = split_time(a as u128);
                            let mut f = master_frame(0, mc, seq).with_ts_body(if sim.two_step { 0 } else { sx }, if sim.two_step { 0 } else { nx });
                            f.flags[0] = if sim.two_step { 0x02 } else { 0 };
                            // a one-step master puts the sub-nanosecond part of t1 into the correction field
                            f.correction = if sim.two_step { 0 } else { ((a as u128 & 0xffff_ffff) >> 16) as i64 };
                            let bytes = f.bytes();
                            let acts = p.handle_event_receive(&bytes, time_of(reading));
                            sim.absorb(acts);
                        }
                        2 => {
                            let (sx, nx, sub) = split_time(a as u128);
                            let mut f = master_frame(8, mc, seq).with_ts_body(sx, nx);
                            f.correction = sub;
                            let bytes = f.bytes();
                            let acts = p.handle_general_receive(&bytes);
                            sim.absorb(acts);
                        }
                        _ => {
                            // Delay_Resp: receive timestamp t4 = a (master time), requester = our port
                            let (sx, nx, sub) = split_time(a as u128);
                            let mut f = master_frame(9, mc, seq).with_ts_pid_body(sx, nx, [0x02, 0, 0, 0xff, 0xfe, 0, 0, 0x01], 1);
                            f.correction = sub + (b >> 16) as i64;
                            let bytes = f.bytes();
                            let acts = p.handle_general_receive(&bytes);
                            sim.absorb(acts);
                        }
                    }
                }
                Ev::ReqAtMaster { seq, corr } => {
                    // the master stamps the request with its own (true) time and answers
                    let d = sim.s.delay + sim.jit();
                    sim.push(t + d + (sim.rng.below(50) as i128) * US, Ev::Arrive { kind: 3, seq, a: t, b: corr });
                }
                Ev::TxTs { ctx, t3 } => {
                    if let Some(c) = sim.ctxs[ctx].take() {
                        let acts = p.handle_send_timestamp(c, time_of(t3));
                        sim.absorb(acts);
                    }
                }
                Ev::TimerDelay { gen } => {
                    if gen == sim.gens[0] {
                        let acts = p.handle_delay_request_timer();
                        sim.absorb(acts);
                    }
                }
                Ev::TimerFilter { gen } => {
                    if gen == sim.gens[1] {
                        let acts = p.handle_filter_update_timer();
                        sim.absorb(acts);
                    }
                }
                Ev::TimerReceipt { gen } => {
                    if gen == sim.gens[2] {
                        let acts = p.handle_announce_receipt_timer();
                        sim.absorb(acts);
                    }
                }
                Ev::Bmca => {}
            }
        });
        if let Err(m) = r {
            out.panicked = Some(format!("{ev:?}: {m} at {}", crate::out::last_panic()));
            break;
        }
        if ev == Ev::Bmca {
            let r: Result<(), String> = guarded(|| {
                let running = port.take().unwrap();
                let mut b = running.start_bmca();
                inst.bmca(&mut [&mut b]);
                let (running, acts) = b.end_bmca();
                sim.absorb(acts);
                port = Some(running);
            });
            if let Err(m) = r {
                out.panicked = Some(format!("BMCA: {m} at {}", crate::out::last_panic()));
                break;
            }
            sim.push(t + SEC, Ev::Bmca);
        }
        if let Some(p) = port.as_ref() {
            if p.is_steering() {
                out.became_slave = true;
            }
        }
        let st = state.borrow();
        if st.theta.abs() > bound {
            excursions.push((t, st.theta.abs()));
        }
        if st.steps.len() > steps_before {
            out.measurements_hint += 1;
        }
    }
    let st = state.borrow();
    out.final_theta = st.theta;
    let last = excursions.last().copied();
    let settle_t = last.map(|x| x.0).unwrap_or(t0);
    out.last_excursion = last.map(|(te, v)| ((te - t0) as f64 / SEC as f64, v));
    if settle_t < end - 10 * SEC {
        out.settle_s = Some((settle_t - t0) as f64 / SEC as f64);
    }
    out.steps_after_settle = st.steps.iter().filter(|&&x| x > settle_t).count() as u32;
    out
}

/// the port needs two Announces and a BMCA run to become slave, and its first delay request is drawn at random:
/// a few seconds on top of the filter-only deadline
pub fn deadline(s: &Scn) -> f64 {
    deadline_s(s) + 10.0
}

pub fn generate(out: &mut Out, rng: &Prng, thorough: bool) {
    let scenarios = if thorough { 600 } else { 40 };
    let explore = std::env::var_os("VERIF_LOOP_EXPLORE").is_some();
    for i in 0..scenarios {
        let mut s = random_scn(rng, i % 3 == 0);
        s.duration_s = deadline(&s) as i64 + 200;
        let late = i % 4 == 2;
        // every random choice of the scenario derives from this number (printed in the op line, so the line replays)
        let sseed = rng.next_u64();
        let srng = Prng::new(sseed);
        let r = run(&srng, &s, late);
        let desc = format!(
            "theta0={:.6}s eps={}ppm delay={}ns jitter={}ns sync=2^{} dreq=2^{}{}",
            s.theta0 as f64 / SEC as f64,
            s.eps_ppm,
            s.delay / NS,
            s.jitter / NS,
            s.log_sync,
            s.log_dreq,
            if late { " transmit-timestamps-reported-late" } else { "" }
        );
        let op = format!("PLOOP {sseed} {} {} {} {} {} {} {} {}", s.theta0, s.eps_ppm, s.delay, s.jitter, s.log_sync, s.log_dreq, s.duration_s, late as u8);
        let _ = i;
        out.count("portloop.scenarios");
        if explore {
            eprintln!("#{i} {desc} -> settle={:?} last_exc={:?} steps_after={} final={}ns slave={} panic={:?}", r.settle_s, r.last_excursion.map(|(t, v)| (t, v / NS)), r.steps_after_settle, r.final_theta / NS, r.became_slave, r.panicked);
        }
        if let Some(p) = &r.panicked {
            out.oracle("C03", &format!("port-loop-panic@{}", p.split(" at ").last().unwrap_or("?")), &format!("{op} -> a host call panicked in the closed loop: {p}"));
            out.op(&op, "panic");
            continue;
        }
        let dl = deadline(&s);
        let verdict = match r.settle_s {
            _ if !r.became_slave => {
                out.oracle("C02", "port-never-slave", &format!("{op} -> the port never became slave of the announcing master"));
                "never-slave"
            }
            Some(ts) if ts <= dl => {
                out.count("portloop.converged");
                if r.steps_after_settle > 0 {
                    out.oracle("C02", "stepped-after-convergence", &format!("{op} -> full stack: {} step(s) after the offset had come below {} ns at {:.1} s", r.steps_after_settle, bound_for(s.jitter) / NS, ts));
                }
                "converged"
            }
            Some(ts) => {
                out.oracle("C02", "converges-too-late", &format!("{op} -> full stack: true offset last exceeded {} ns at {:.1} s (deadline {:.0} s)", bound_for(s.jitter) / NS, ts, dl));
                "late"
            }
            None => {
                out.oracle("C02", "does-not-stay-converged", &format!("{op} -> full stack: true offset still exceeds {} ns in the last 10 s of {} s ({:?}), final offset {} ns", bound_for(s.jitter) / NS, s.duration_s, r.last_excursion.map(|(t, v)| (t, v / NS)), r.final_theta / NS));
                "not-converged"
            }
        };
        out.op(&op, verdict);
    }
}


/// replays `PLOOP <seed> <theta0> <eps> <delay> <jitter> <log sync> <log dreq> <duration s> <late>` lines
#[derive(Default)]
pub struct PortLoopExec;

impl super::Executor for PortLoopExec {
    fn exec(&mut self, line: &str) -> String {
        let w: Vec<&str> = line.split_whitespace().collect();
        if w.len() != 10 || w[0] != "PLOOP" {
            return "bad-op".into();
        }
        let p = |i: usize| w[i].parse::<i128>().ok();
        let (Some(seed), Some(theta0), Ok(eps), Some(delay), Some(jitter), Some(ls), Some(ld), Some(dur), Some(late)) =
            (w[1].parse::<u64>().ok(), p(2), w[3].parse::<f64>(), p(4), p(5), p(6), p(7), p(8), p(9))
        else {
            return "bad-op".into();
        };
        let s = Scn { theta0, eps_ppm: eps, delay, jitter, log_sync: ls as i32, log_dreq: ld as i32, duration_s: dur as i64, inflight: false, p2p: false };
        let r = run(&Prng::new(seed), &s, late != 0);
        if let Some(p) = r.panicked {
            return format!("panic {p}");
        }
        let dl = deadline(&s);
        match r.settle_s {
            _ if !r.became_slave => "never-slave".into(),
            Some(ts) if ts <= dl => format!("converged at {ts:.1} s, {} step(s) afterwards, final offset {} ns", r.steps_after_settle, r.final_theta / NS),
            Some(ts) => format!("late: offset last above {} ns at {ts:.1} s (deadline {dl:.0} s)", bound_for(s.jitter) / NS),
            None => format!("not-converged: {:?}, final offset {} ns", r.last_excursion.map(|(t, v)| (t, v / NS)), r.final_theta / NS),
        }
    }
}
