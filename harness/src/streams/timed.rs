//! C12: a host that obeys the timer actions. `Timed` tracks which timers each port has armed (and when they are
//! due in simulated time); in timed mode the generator fires a timer only when it is armed, and the oracle checks
//! after every op that no port waits on a timer that is not armed.

use crate::out::Out;

pub const KINDS: [&str; 4] = ["ann", "sync", "delay", "rcpt"];

#[derive(Clone, Debug, Default)]
pub struct PortTiming {
    pub announce_log: i8,
    pub sync_log: i8,
    pub delay_log: i8,
    pub receipt_timeout: u8,
    pub due: [Option<u128>; 4], // ann, sync, delay, rcpt — simulated ns
    /// the port has been Faulty since its receipt timer was last armed
    pub tainted: bool,
    /// the receipt timer was armed at a moment the port was seen Faulty (so only the library can have lost it since)
    pub armed_at_fault: bool,
}

#[derive(Default)]
pub struct Timed {
    pub now: u128,
    pub ports: Vec<PortTiming>,
    pub frac: u64, // source of the "random" fraction of RNG-scaled durations
}

pub fn log_ns(log: i8) -> u128 {
    if log >= 0 {
        1_000_000_000u128 << (log as u32).min(40)
    } else {
        1_000_000_000u128 >> ((-log) as u32).min(30)
    }
}

fn kind_idx(k: &str) -> Option<usize> {
    KINDS.iter().position(|x| *x == k)
}

impl Timed {
    pub fn reset(&mut self) {
        self.ports.clear();
        self.now = 0;
    }

    /// is this op a timer firing that the host would not perform (the timer is not armed)?
    pub fn blocked(&self, line: &str) -> bool {
        let w: Vec<&str> = line.split_whitespace().collect();
        if w.len() >= 3 && w[0].starts_with('P') && w[0] != "PORT" && w[1] == "TMR" {
            if let (Ok(j), Some(k)) = (w[0][1..].parse::<usize>(), kind_idx(w[2])) {
                return self.ports.get(j.wrapping_sub(1)).map(|p| p.due[k].is_none()).unwrap_or(true);
            }
        }
        false
    }

    fn nominal(&mut self, p: &PortTiming, kind: usize, text: &str) -> u128 {
        if let Ok(ns) = text.parse::<u128>() {
            return ns;
        }
        // RNG-scaled: receipt = timeout × announce interval × [1, 2) is what the daemon's RNG gives at most; delay = interval × [0, 2)
        self.frac = self.frac.wrapping_mul(6364136223846793005).wrapping_add(1442695040888963407);
        let f = (self.frac >> 40) as u128 % 1000;
        match kind {
            3 => log_ns(p.announce_log) * p.receipt_timeout as u128 * (1000 + f) / 1000,
            2 => log_ns(p.delay_log) * (2 * f) / 1000,
            _ => log_ns(p.announce_log),
        }
    }

    /// account for one executed op; returns property findings (signature, detail)
    pub fn absorb(&mut self, out: &mut Out, line: &str, obs: &str) {
        let raw = super::inst::last_raw_timers();
        self.absorb_with(out, line, obs, &raw)
    }

    /// `raw`: the exact durations of the reset actions of this op (the observation prints randomised ones as `rand`)
    pub fn absorb_with(&mut self, out: &mut Out, line: &str, obs: &str, raw: &[(usize, &'static str, u128)]) {
        let mut raw_used = vec![false; raw.len()];
        let w: Vec<&str> = line.split_whitespace().collect();
        if w.is_empty() {
            return;
        }
        if w[0] == "INIT" {
            self.reset();
            return;
        }
        if w[0] == "PORT" && w.len() >= 7 {
            self.ports.push(PortTiming {
                delay_log: w[3].parse().unwrap_or(0),
                announce_log: w[4].parse().unwrap_or(0),
                receipt_timeout: w[5].parse().unwrap_or(3),
                sync_log: w[6].parse().unwrap_or(0),
                ..Default::default()
            });
        }
        // a fired timer is no longer armed
        if w.len() >= 3 && w[0].starts_with('P') && w[0] != "PORT" && w[1] == "TMR" {
            if let (Ok(j), Some(k)) = (w[0][1..].parse::<usize>(), kind_idx(w[2])) {
                if let Some(p) = self.ports.get_mut(j.wrapping_sub(1)) {
                    p.due[k] = None;
                }
            }
        }
        if obs.contains("R panic") {
            return;
        }
        // reset actions arm
        let first = obs.split(" | ").next().unwrap_or("");
        for item in first.split(" ; ") {
            let Some((pk, rest)) = item.split_once(':') else { continue };
            let Ok(j) = pk.trim_start_matches('P').parse::<usize>() else { continue };
            let Some(r) = rest.strip_prefix("reset ") else { continue };
            let f: Vec<&str> = r.split_whitespace().collect();
            if f.len() < 2 {
                continue;
            }
            let Some(k) = kind_idx(f[0]) else { continue };
            if j == 0 || j > self.ports.len() {
                continue;
            }
            let pt = self.ports[j - 1].clone();
            // the duration the port asked for - the host arms exactly that
            let actual = (0..raw.len()).find(|&x| !raw_used[x] && raw[x].0 == j && raw[x].1 == KINDS[k]).map(|x| {
                raw_used[x] = true;
                raw[x].2
            });
            let d = match actual {
                Some(ns) => {
                    // what the configuration allows: the receipt timeout spans `timeout` announce intervals, stretched by at
                    // most a factor two; a delay request interval is drawn from [0, 2) nominal intervals
                    let (lo, hi) = match k {
                        3 => (log_ns(pt.announce_log) * pt.receipt_timeout as u128, 2 * log_ns(pt.announce_log) * pt.receipt_timeout as u128),
                        2 => (0, 2 * log_ns(pt.delay_log)),
                        _ => (0, u128::MAX),
                    };
                    // S1 arms the delay request timer with zero; core::time::Duration::mul_f64 may round by a nanosecond
                    if ns + 1 < lo || ns > hi.saturating_add(1) {
                        out.oracle("C12", "timer-duration-outside-configured-range", &format!("{line} -> port {j} arms its {} timer with {ns} ns, configured range [{lo}, {hi}] ns", KINDS[k]));
                    }
                    ns
                }
                None => self.nominal(&pt, k, f[1]),
            };
            let now = self.now;
            let p = &mut self.ports[j - 1];
            p.due[k] = Some(now + d);
            if k == 3 {
                p.tainted = false;
            }
        }
        // the invariant: every port has armed what its state waits on
        let states: Vec<&str> = obs.split(" | ").find(|p| p.starts_with("S ")).map(|s| s[2..].split(',').collect()).unwrap_or_default();
        for (i, st) in states.iter().enumerate() {
            let Some(p) = self.ports.get_mut(i) else { continue };
            if *st == "Faulty" {
                if !p.tainted {
                    p.armed_at_fault = p.due[3].is_some();
                }
                p.tainted = true;
                continue;
            }
            // what only a timer can move: a Listening port gets no BMCA decision without a qualified master, so it
            // needs the announce receipt timeout; a Master needs its announce and sync timers; a Slave its delay
            // request timer. (Passive and Slave ports whose master falls silent are moved by the next BMCA run.)
            let needs: &[usize] = match *st {
                "Listening" => &[3],
                "Slave" => &[2],
                "Master" => &[0, 1],
                _ => &[],
            };
            for &k in needs {
                if p.due[k].is_none() {
                    if p.tainted && k == 3 && p.armed_at_fault {
                        out.oracle("C12", "receipt-timer-lost-while-faulty", &format!("{line} -> port {} is {st} after a peer-delay fault; its announce receipt timer was armed when the fault hit, fired while the port was Faulty and was not armed again: nothing will ever move the port", i + 1));
                    } else if p.tainted && k == 3 {
                        out.oracle("C12", "recovered-port-receipt-timer-not-armed", &format!("{line} -> port {} is {st} after a peer-delay fault and its announce receipt timer is not armed: nothing will ever move it", i + 1));
                    } else {
                        out.oracle("C12", "port-waits-on-unarmed-timer", &format!("{line} -> port {} is {st} but its {} timer is not armed", i + 1, KINDS[k]));
                    }
                }
            }
        }
    }

    /// the next timer that is due: (port, kind, time)
    pub fn next_due(&self) -> Option<(usize, usize, u128)> {
        let mut best: Option<(usize, usize, u128)> = None;
        for (i, p) in self.ports.iter().enumerate() {
            for k in 0..4 {
                if let Some(t) = p.due[k] {
                    if best.map(|b| t < b.2).unwrap_or(true) {
                        best = Some((i + 1, k, t));
                    }
                }
            }
        }
        best
    }
}
