//! C08 / C13 with the real servo: instances of one to three ports (E2E and P2P mixed) whose ports carry the real
//! `KalmanFilter`, each port with its own handle on the clock that counts the adjustments made through it. The
//! `inst` stream runs the ports over a recording filter (so that every measurement can be compared with the model);
//! what the *servo* of a port then does to the clock is only seen here.
//!
//! Host calls: Announces of a better and a worse master, BMCA runs, every timer, Sync (one- and two-step) and
//! Delay_Resp of the masters, complete peer delay exchanges in both directions on every port, in random order.
//!
//! No model runs beside it: oracle only.
//!  * C08 `clock-adjusted-by-non-slave-port`: a host call on a port that is not in the slave state when the call is
//!    made changes the clock (frequency or step) through that port's clock handle. (The call on which a port leaves
//!    the slave state may issue its servo's final command: the port is Slave when that call is made.)
//!  * C03 `kports-panic`.
use std::{
    cell::{Cell, RefCell},
    rc::Rc,
};

use fixed::types::U96F32;
use statime::{
    config::{ClockIdentity, ClockQuality, DelayMechanism, InstanceConfig, PortConfig, PtpMinorVersion, SdoId, TimePropertiesDS, TimeSource},
    filters::{KalmanConfiguration, KalmanFilter},
    port::{InBmca, NoForwardedTLVs, Port, PortAction, PortActionIterator, Running, TimestampContext},
    time::{Duration, Interval, Time},
    Clock, PtpInstance,
};

use crate::{
    frames::{split_time, AnnounceFields, Frame},
    out::{guarded, Out},
    prng::Prng,
};

const NS: u128 = 1 << 32;
const US: u128 = 1000 * NS;
const MS: u128 = 1000 * US;
const SEC: u128 = 1000 * MS;

const OWN: [u8; 8] = [0x02, 0, 0, 0xff, 0xfe, 0, 0, 0x01];
const BETTER: [u8; 8] = [0x10, 0, 0, 0, 0, 0, 0, 0x01];
const WORSE: [u8; 8] = [0x30, 0, 0, 0, 0, 0, 0, 0x03];
const PEER: [u8; 8] = [0x50, 0, 0, 0, 0, 0, 0, 0x05];

#[derive(Clone)]
struct CountClock {
    now: Rc<Cell<u128>>,
    calls: Rc<Cell<u32>>,
    last: Rc<RefCell<String>>,
}

fn time_of(bits: u128) -> Time {
    Time::from_fixed_nanos(U96F32::from_bits(bits))
}

impl Clock for CountClock {
    type Error = core::convert::Infallible;
    fn now(&self) -> Time {
        time_of(self.now.get())
    }
    fn step_clock(&mut self, offset: Duration) -> Result<Time, Self::Error> {
        self.calls.set(self.calls.get() + 1);
        *self.last.borrow_mut() = format!("step_clock({} ns)", offset.nanos().to_bits() >> 32);
        Ok(self.now())
    }
    fn set_frequency(&mut self, ppm: f64) -> Result<Time, Self::Error> {
        self.calls.set(self.calls.get() + 1);
        *self.last.borrow_mut() = format!("set_frequency({ppm})");
        Ok(self.now())
    }
    fn set_properties(&mut self, _t: &TimePropertiesDS) -> Result<(), Self::Error> {
        Ok(())
    }
}

struct PortRng(Prng);
impl rand::RngCore for PortRng {
    fn next_u32(&mut self) -> u32 {
        self.0.next_u64() as u32
    }
    fn next_u64(&mut self) -> u64 {
        self.0.next_u64()
    }
    fn fill_bytes(&mut self, dest: &mut [u8]) {
        for b in dest.iter_mut() {
            *b = self.0.next_u64() as u8;
        }
    }
    fn try_fill_bytes(&mut self, dest: &mut [u8]) -> Result<(), rand::Error> {
        self.fill_bytes(dest);
        Ok(())
    }
}

type Inst = PtpInstance<KalmanFilter, RefCell<statime::PtpInstanceState>>;
type RPort = Port<'static, Running, Option<Vec<ClockIdentity>>, PortRng, CountClock, KalmanFilter, RefCell<statime::PtpInstanceState>>;
type BPort = Port<'static, InBmca, Option<Vec<ClockIdentity>>, PortRng, CountClock, KalmanFilter, RefCell<statime::PtpInstanceState>>;

/// an event message the port wants sent: message type, sequence id, timestamp context
struct Sent {
    ty: u8,
    seq: u16,
    ctx: Option<TimestampContext>,
}

fn absorb(actions: PortActionIterator<'_>) -> Vec<Sent> {
    let mut v = vec![];
    for a in actions {
        if let PortAction::SendEvent { context, data, .. } = a {
            if data.len() >= 34 {
                v.push(Sent { ty: data[0] & 0x0f, seq: u16::from_be_bytes([data[30], data[31]]), ctx: Some(context) });
            }
        }
    }
    v
}

pub struct Outcome {
    pub findings: Vec<(String, String)>,
    pub panicked: Option<String>,
    pub calls: u32,
    pub slave_calls: u32,
    pub nonslave_p2p_exchanges: u32,
    pub clock_calls: u32,
}

struct Sim {
    inst: &'static Inst,
    ports: Vec<Option<RPort>>,
    clocks: Vec<CountClock>,
    p2p: Vec<bool>,
    now: Rc<Cell<u128>>,
    out: Outcome,
    seqs: [u16; 4],
}

impl Sim {
    fn state(&self, k: usize) -> String {
        format!("{:?}", self.ports[k].as_ref().unwrap().port_ds().port_state)
    }

    fn advance(&mut self, rng: &Prng, max: u128) {
        self.now.set(self.now.get() + 1 + rng.below(max as u64) as u128);
    }

    /// one host call on port `k`; the clock adjustments made through the port's handle during it are attributed to
    /// the state the port was in when the call was made
    fn call(&mut self, k: usize, what: &str, f: impl FnOnce(&mut RPort) -> Vec<Sent>) -> Vec<Sent> {
        if self.out.panicked.is_some() {
            return vec![];
        }
        let before = self.state(k);
        let c0 = self.clocks[k].calls.get();
        self.out.calls += 1;
        if before == "Slave" {
            self.out.slave_calls += 1;
        }
        let port = self.ports[k].as_mut().unwrap();
        let r = guarded(|| f(port));
        let n = self.clocks[k].calls.get() - c0;
        self.out.clock_calls += n;
        match r {
            Ok(v) => {
                if n > 0 && before != "Slave" {
                    let last = self.clocks[k].last.borrow().clone();
                    self.out.findings.push((
                        "clock-adjusted-by-non-slave-port".into(),
                        format!("{what} on port {} ({}, {before}) adjusted the clock {n} time(s) through that port, last {last}", k + 1, if self.p2p[k] { "P2P" } else { "E2E" }),
                    ));
                }
                v
            }
            Err(m) => {
                self.out.panicked = Some(format!("{what} on port {}: {m} at {}", k + 1, crate::out::last_panic()));
                vec![]
            }
        }
    }

    fn bmca(&mut self) {
        if self.out.panicked.is_some() {
            return;
        }
        let n = self.ports.len();
        let before: Vec<String> = (0..n).map(|k| self.state(k)).collect();
        let c0: Vec<u32> = self.clocks.iter().map(|c| c.calls.get()).collect();
        let inst = self.inst;
        let ports = &mut self.ports;
        let r = guarded(|| {
            let mut bs: Vec<BPort> = ports.iter_mut().map(|p| p.take().unwrap().start_bmca()).collect();
            {
                let mut refs: Vec<&mut BPort> = bs.iter_mut().collect();
                inst.bmca(&mut refs);
            }
            for (i, b) in bs.into_iter().enumerate() {
                let (running, acts) = b.end_bmca();
                for _ in acts {}
                ports[i] = Some(running);
            }
        });
        self.out.calls += 1;
        if let Err(m) = r {
            self.out.panicked = Some(format!("BMCA: {m} at {}", crate::out::last_panic()));
            return;
        }
        for k in 0..n {
            let d = self.clocks[k].calls.get() - c0[k];
            self.out.clock_calls += d;
            if d > 0 && before[k] != "Slave" {
                let last = self.clocks[k].last.borrow().clone();
                self.out.findings.push(("clock-adjusted-by-non-slave-port".into(), format!("a BMCA run adjusted the clock {d} time(s) through port {} ({}), last {last}", k + 1, before[k])));
            }
        }
    }

    fn announce(&mut self, rng: &Prng, k: usize, who: [u8; 8], p1: u8) {
        self.seqs[0] = self.seqs[0].wrapping_add(1);
        let mut f = Frame::announce(who, 1, self.seqs[0]);
        f.version = 0x12;
        f.set_announce(&AnnounceFields { utc: 37, p1, class: 6, acc: 0x20, var: 0x4e5d, p2: 1, gm: who, steps: 0, time_source: 0x20 });
        f.flags[1] = 0x08;
        let b = f.bytes();
        let _ = rng;
        self.call(k, "Announce", |p| absorb(p.handle_general_receive(&b)));
    }

    fn sync(&mut self, rng: &Prng, k: usize, who: [u8; 8]) {
        self.seqs[1] = self.seqs[1].wrapping_add(1);
        let seq = self.seqs[1];
        let t1 = self.now.get();
        self.advance(rng, (200 * US) as u128);
        let t2 = self.now.get();
        let two_step = rng.chance(1, 2);
        let (s, n, sub) = split_time(t1);
        let mut f = Frame::new(0, who, 1, seq).with_ts_body(if two_step { 0 } else { s }, if two_step { 0 } else { n });
        f.version = 0x12;
        f.flags[0] = if two_step { 0x02 } else { 0 };
        f.correction = if two_step { 0 } else { sub };
        let b = f.bytes();
        self.call(k, "Sync", |p| absorb(p.handle_event_receive(&b, time_of(t2))));
        if two_step {
            let mut f = Frame::new(8, who, 1, seq).with_ts_body(s, n);
            f.version = 0x12;
            f.correction = sub;
            let b = f.bytes();
            self.call(k, "Follow_Up", |p| absorb(p.handle_general_receive(&b)));
        }
    }

    /// the port's delay request timer and, whatever it sent, the rest of that exchange
    fn delay_timer(&mut self, rng: &Prng, k: usize) {
        let sent = self.call(k, "delay request timer", |p| absorb(p.handle_delay_request_timer()));
        let portnum = (k + 1) as u16;
        for mut s in sent {
            let t1 = self.now.get();
            if let Some(ctx) = s.ctx.take() {
                self.call(k, "transmit timestamp", |p| absorb(p.handle_send_timestamp(ctx, time_of(t1))));
            }
            let d = 1 + rng.below((300 * US) as u64) as u128;
            let t2 = t1 + d;
            match s.ty {
                1 => {
                    // Delay_Resp of both masters (only the parent's counts)
                    self.now.set(t2 + d);
                    let (sx, nx, sub) = split_time(t2);
                    for who in [BETTER, WORSE] {
                        let mut f = Frame::new(9, who, 1, s.seq).with_ts_pid_body(sx, nx, OWN, portnum);
                        f.version = 0x12;
                        f.correction = sub;
                        let b = f.bytes();
                        self.call(k, "Delay_Resp", |p| absorb(p.handle_general_receive(&b)));
                    }
                }
                2 => {
                    let resid = 1 + rng.below(MS as u64) as u128;
                    let t3 = t2 + resid;
                    let t4 = t3 + d;
                    self.now.set(t4);
                    let two_step = rng.chance(2, 3);
                    let (s2, n2, _) = split_time(t2);
                    let (s3, n3, sub3) = split_time(t3);
                    let mut f = Frame::new(3, PEER, 1, s.seq).with_ts_pid_body(s2, n2, OWN, portnum);
                    f.version = 0x12;
                    f.flags[0] = if two_step { 0x02 } else { 0 };
                    f.correction = if two_step { 0 } else { ((t3 - t2) >> 16) as i64 };
                    let b = f.bytes();
                    let st = self.state(k);
                    self.call(k, "Pdelay_Resp", |p| absorb(p.handle_event_receive(&b, time_of(t4))));
                    if two_step {
                        let mut f = Frame::new(0xa, PEER, 1, s.seq).with_ts_pid_body(s3, n3, OWN, portnum);
                        f.version = 0x12;
                        f.correction = sub3;
                        let b = f.bytes();
                        self.call(k, "Pdelay_Resp_Follow_Up", |p| absorb(p.handle_general_receive(&b)));
                    }
                    if st != "Slave" {
                        self.out.nonslave_p2p_exchanges += 1;
                    }
                }
                _ => {}
            }
        }
    }

    /// the peer measures the link from its side
    fn peer_request(&mut self, rng: &Prng, k: usize) {
        self.seqs[2] = self.seqs[2].wrapping_add(1);
        let mut f = Frame::new(2, PEER, 1, self.seqs[2]).with_ts_pid_body(0, 0, [0; 8], 0);
        f.version = 0x12;
        let b = f.bytes();
        let t = self.now.get();
        let sent = self.call(k, "Pdelay_Req", |p| absorb(p.handle_event_receive(&b, time_of(t))));
        self.advance(rng, (100 * US) as u128);
        for mut s in sent {
            let t3 = self.now.get();
            if let Some(ctx) = s.ctx.take() {
                self.call(k, "transmit timestamp", |p| absorb(p.handle_send_timestamp(ctx, time_of(t3))));
            }
        }
    }
}

/// one scenario, every choice derived from `seed`
pub fn run(seed: u64) -> Outcome {
    let rng = Prng::new(seed);
    let nports = 1 + rng.below(3) as usize;
    let inst: &'static Inst = Box::leak(Box::new(PtpInstance::new(
        InstanceConfig {
            clock_identity: ClockIdentity(OWN),
            priority_1: 128,
            priority_2: 128,
            domain_number: 0,
            sdo_id: SdoId::try_from(0).unwrap(),
            slave_only: false,
            path_trace: rng.chance(1, 2),
            clock_quality: ClockQuality::default(),
        },
        TimePropertiesDS::new_arbitrary_time(false, false, TimeSource::InternalOscillator),
    )));
    let now = Rc::new(Cell::new(1_700_000_000 * SEC + rng.below(1_000_000_000) as u128 * NS));
    let mut sim = Sim {
        inst,
        ports: vec![],
        clocks: vec![],
        p2p: vec![],
        now: now.clone(),
        out: Outcome { findings: vec![], panicked: None, calls: 0, slave_calls: 0, nonslave_p2p_exchanges: 0, clock_calls: 0 },
        seqs: [rng.next_u64() as u16, rng.next_u64() as u16, rng.next_u64() as u16, 0],
    };
    for _ in 0..nports {
        let p2p = rng.chance(3, 5);
        let log = -(rng.below(3) as i8);
        let cfg = PortConfig {
            acceptable_master_list: None,
            delay_mechanism: if p2p { DelayMechanism::P2P { interval: Interval::from_log_2(log) } } else { DelayMechanism::E2E { interval: Interval::from_log_2(log) } },
            announce_interval: Interval::from_log_2(0),
            announce_receipt_timeout: 3,
            sync_interval: Interval::from_log_2(log),
            master_only: rng.chance(1, 8),
            delay_asymmetry: Duration::ZERO,
            minor_ptp_version: PtpMinorVersion::One,
        };
        let clock = CountClock { now: now.clone(), calls: Rc::new(Cell::new(0)), last: Rc::new(RefCell::new(String::new())) };
        let b: BPort = inst.add_port(cfg, KalmanConfiguration::default(), clock.clone(), PortRng(rng.fork()));
        let (running, acts) = b.end_bmca();
        for _ in acts {}
        sim.ports.push(Some(running));
        sim.clocks.push(clock);
        sim.p2p.push(p2p);
    }
    let steps = 80 + rng.below(120);
    for _ in 0..steps {
        if sim.out.panicked.is_some() {
            break;
        }
        sim.advance(&rng, (50 * MS) as u128);
        let k = rng.below(nports as u64) as usize;
        match rng.below(16) {
            0 | 1 => {
                // a master makes itself heard (twice, so that it qualifies), then the BMCA runs
                let (who, p1) = if rng.chance(2, 3) { (BETTER, 1) } else { (WORSE, 250) };
                sim.announce(&rng, k, who, p1);
                sim.advance(&rng, (10 * MS) as u128);
                sim.announce(&rng, k, who, p1);
                sim.bmca();
            }
            2 => sim.bmca(),
            3 => {
                let who = if rng.chance(3, 4) { BETTER } else { WORSE };
                sim.announce(&rng, k, who, if who == BETTER { 1 } else { 250 });
            }
            4..=6 => sim.delay_timer(&rng, k),
            7 | 8 => {
                let who = if rng.chance(3, 4) { BETTER } else { WORSE };
                sim.sync(&rng, k, who);
            }
            9 | 10 => sim.peer_request(&rng, k),
            11 => {
                sim.call(k, "announce timer", |p| absorb(p.handle_announce_timer(&mut NoForwardedTLVs)));
            }
            12 => {
                let sent = sim.call(k, "sync timer", |p| absorb(p.handle_sync_timer()));
                for mut s in sent {
                    let t = sim.now.get();
                    if let Some(ctx) = s.ctx.take() {
                        sim.call(k, "transmit timestamp", |p| absorb(p.handle_send_timestamp(ctx, time_of(t))));
                    }
                }
            }
            13 => {
                sim.call(k, "filter update timer", |p| absorb(p.handle_filter_update_timer()));
            }
            14 => {
                if rng.chance(1, 3) {
                    sim.call(k, "announce receipt timer", |p| absorb(p.handle_announce_receipt_timer()));
                } else {
                    sim.call(k, "filter update timer", |p| absorb(p.handle_filter_update_timer()));
                }
            }
            _ => {
                // several BMCA runs in silence: foreign masters expire, the ports fall back
                if rng.chance(1, 3) {
                    for _ in 0..5 {
                        sim.now.set(sim.now.get() + SEC);
                        sim.bmca();
                    }
                } else {
                    sim.delay_timer(&rng, k);
                }
            }
        }
    }
    sim.out
}

pub fn generate(out: &mut Out, rng: &Prng, thorough: bool) {
    let scenarios = if thorough { 60000 } else { 3000 };
    for _ in 0..scenarios {
        let sseed = rng.next_u64();
        let op = format!("KPORT {sseed}");
        let r = run(sseed);
        out.count("kports.scenarios");
        out.add("kports.host-calls", r.calls as u64);
        out.add("kports.host-calls-on-slave-port", r.slave_calls as u64);
        out.add("kports.peer-delay-exchanges-on-non-slave-port", r.nonslave_p2p_exchanges as u64);
        out.add("kports.clock-adjustments", r.clock_calls as u64);
        if let Some(p) = &r.panicked {
            out.oracle("C03", &format!("kports-panic@{}", p.split(" at ").last().unwrap_or("?")), &format!("{op} -> a host call panicked: {p}"));
            out.op(&op, "panic");
            continue;
        }
        if let Some((sig, d)) = r.findings.first() {
            out.oracle("C08", sig, &format!("{op} -> {d} ({} such call(s) in this scenario)", r.findings.len()));
        }
        out.op(&op, &verdict(&r));
    }
}

fn verdict(r: &Outcome) -> String {
    if let Some(p) = &r.panicked {
        return format!("panic {p}");
    }
    match r.findings.first() {
        Some((sig, d)) => format!("{sig}: {d}"),
        None => format!("ok calls={} on-slave={} clock-adjustments={}", r.calls, r.slave_calls, r.clock_calls),
    }
}

/// replays `KPORT <seed>` lines
#[derive(Default)]
pub struct KPortsExec;

impl super::Executor for KPortsExec {
    fn exec(&mut self, line: &str) -> String {
        let w: Vec<&str> = line.split_whitespace().collect();
        match (w.first(), w.get(1).and_then(|x| x.parse::<u64>().ok()), w.len()) {
            (Some(&"KPORT"), Some(seed), 2) => verdict(&run(seed)),
            _ => "bad-op".into(),
        }
    }
}
