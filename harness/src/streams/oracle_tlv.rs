//! C15 oracle on the implementation alone: which TLVs a port hands to the host for forwarding, and what the
//! TLV suffix of every emitted Announce contains, judged against the queue the host offered.

use crate::out::{hex, unhex, Out};

pub const MAX_FRAME: usize = 1024;

fn be(b: &[u8], off: usize, w: usize) -> usize {
    b[off..off + w].iter().fold(0usize, |a, x| (a << 8) | *x as usize)
}

fn part<'a>(obs: &'a str, prefix: &str) -> Option<&'a str> {
    obs.split(" | ").find(|p| p.starts_with(prefix)).map(|p| &p[prefix.len()..])
}

/// (type, value) records of a TLV suffix, read independently (stops at the first malformed record)
pub fn read_tlvs(s: &[u8]) -> Vec<(u16, Vec<u8>)> {
    let mut v = Vec::new();
    let mut off = 0;
    while off + 4 <= s.len() {
        let ty = be(s, off, 2) as u16;
        let l = be(s, off + 2, 2);
        if off + 4 + l > s.len() {
            break;
        }
        v.push((ty, s[off + 4..off + 4 + l].to_vec()));
        off += 4 + l;
    }
    v
}

/// IEEE 1588-2019 table 52: TLVs a boundary clock propagates
fn propagates(ty: u16) -> bool {
    ty == 0x0008 || ty == 0x0009 || (0x4000..=0x7fff).contains(&ty)
}

#[derive(Default)]
pub struct TlvOracle {
    own_clock: String,
    prev: Option<String>,
}

impl TlvOracle {
    pub fn check(&mut self, out: &mut Out, before: &[String], line: &str, obs: &str) {
        let w: Vec<&str> = line.split_whitespace().filter(|t| !t.starts_with('#')).collect();
        if w.is_empty() {
            return;
        }
        if w[0] == "INIT" {
            *self = TlvOracle::default();
            self.own_clock = w.get(1).unwrap_or(&"").to_string();
            self.prev = Some(obs.to_string());
            return;
        }
        let prev = self.prev.clone().unwrap_or_default();
        if part(obs, "D ").is_some() {
            self.prev = Some(obs.to_string());
        }
        let first = obs.split(" | ").next().unwrap_or("");
        // ---- ForwardTLV actions
        let fwds: Vec<(usize, String, u16, String)> = first
            .split(" ; ")
            .filter_map(|item| {
                let (pk, rest) = item.split_once(':')?;
                let k: usize = pk.trim_start_matches('P').parse().ok()?;
                let r = rest.strip_prefix("fwd ")?;
                let f: Vec<&str> = r.split_whitespace().collect();
                if f.len() != 3 {
                    return None;
                }
                Some((k, f[0].to_string(), f[1].parse().ok()?, f[2].to_string()))
            })
            .collect();
        let is_port_op = w[0].starts_with('P') && w[0] != "PORT" && w.len() >= 3;
        let k: usize = if is_port_op { w[0][1..].parse().unwrap_or(0) } else { 0 };
        if !fwds.is_empty() {
            let frame = if is_port_op && (w[1] == "GEN" || w[1] == "EVT") { unhex(w[2]) } else { None };
            match frame {
                Some(b) if b.len() >= 64 && b[0] & 0x0f == 0xb => {
                    let len = be(&b, 2, 2).min(b.len());
                    let src = format!("{}:{}", hex(&b[20..28]), be(&b, 28, 2));
                    let expect: Vec<(usize, String, u16, String)> =
                        read_tlvs(&b[64..len]).into_iter().filter(|t| propagates(t.0)).map(|t| (k, src.clone(), t.0, hex(&t.1))).collect();
                    out.count("c15.forward-actions");
                    if fwds != expect {
                        let bad_type = fwds.iter().any(|f| !propagates(f.2));
                        out.oracle(
                            "C15",
                            if bad_type { "non-propagating-type-forwarded" } else { "forward-actions-not-the-propagating-tlvs" },
                            &format!("{line} -> ForwardTLV actions {:?}, propagating TLVs of the Announce in arrival order {:?}", fwds, expect),
                        );
                    }
                }
                _ => out.oracle("C15", "forward-without-announce", &format!("{line} -> ForwardTLV actions {:?} for an op that is not a received Announce", fwds)),
            }
        }
        // ---- announce timer: what went into the emitted Announce
        if !(is_port_op && w[1] == "TMR" && w[2] == "ann") {
            return;
        }
        let loose = w.get(3) == Some(&"1");
        let queue: Vec<(String, u16, Vec<u8>)> = w[4.min(w.len())..]
            .iter()
            .filter_map(|it| {
                let p: Vec<&str> = it.split(':').collect();
                if p.len() != 4 {
                    return None;
                }
                Some((format!("{}:{}", p[0], p[1]), p[2].parse().ok()?, unhex(p[3])?))
            })
            .collect();
        if obs.contains("R panic") {
            out.oracle("C15", "announce-send-panics", &format!("{line} -> the announce timer panicked instead of sending (queue of {} forwarded TLVs, sizes {:?})", queue.len(), queue.iter().map(|t| 4 + t.2.len()).collect::<Vec<_>>()));
            return;
        }
        let st = before.get(k.wrapping_sub(1)).map(|s| s.as_str()).unwrap_or("");
        let sent: Vec<Vec<u8>> = super::oracle_frames::sent_items(obs).into_iter().filter(|s| s.port == k && s.bytes.len() >= 64 && s.bytes[0] & 0x0f == 0xb).map(|s| s.bytes).collect();
        if st != "Master" {
            return;
        }
        if sent.len() != 1 {
            out.oracle("C15", "announce-not-sent", &format!("{line} -> Master port {k} emitted {} Announces on its announce timer", sent.len()));
            return;
        }
        out.count("c15.announces-with-queue");
        let b = &sent[0];
        if b.len() > MAX_FRAME {
            out.oracle("C15", "announce-too-long", &format!("{line} -> Announce of {} octets", b.len()));
        }
        let remaining: usize = first.rsplit(" q=").next().and_then(|x| x.trim().parse().ok()).unwrap_or(0);
        let parent = part(&prev, "D ").and_then(|d| d.split_whitespace().nth(1)).unwrap_or("").to_string();
        let pt: Vec<&str> = part(&prev, "PT ").unwrap_or("0 -").split_whitespace().collect();
        let pt_on = pt.first() == Some(&"1");
        let path: Vec<String> = if pt.get(1).map(|x| *x == "-").unwrap_or(true) { vec![] } else { pt[1].split(',').map(|x| x.to_string()).collect() };
        let mut tlvs = read_tlvs(&b[64..]);
        let consumed_total: usize = tlvs.iter().map(|t| 4 + t.1.len()).sum();
        if 64 + consumed_total != b.len() {
            out.oracle("C15", "suffix-malformed", &format!("{line} -> the TLV suffix of the emitted Announce does not parse to its end"));
        }
        let mut margin: isize = (MAX_FRAME - 64) as isize;
        // path trace TLV first
        if pt_on && path.len() < 128 {
            let mut want = path.clone();
            want.push(self.own_clock.clone());
            let size = 4 + 8 * want.len() as isize;
            if margin > size {
                out.count("c15.path-trace-expected");
                let got = tlvs.first().cloned();
                let ok = matches!(&got, Some((0x0008, v)) if hex(v) == want.concat());
                if !ok {
                    out.oracle("C15", "path-trace-tlv", &format!("{line} -> first TLV {:?}, expected PATH_TRACE {} (stored path + own identity)", got.map(|t| (t.0, hex(&t.1))), want.join(",")));
                } else {
                    tlvs.remove(0);
                }
                margin -= size;
            }
        }
        // the rest must be exactly the consumed queue items of the parent, in arrival order
        if remaining > queue.len() {
            out.oracle("C15", "queue-accounting", &format!("{line} -> {} items left of a queue of {}", remaining, queue.len()));
            return;
        }
        let consumed = &queue[..queue.len() - remaining];
        let want: Vec<(u16, Vec<u8>)> = consumed.iter().filter(|t| t.0 == parent && !(pt_on && t.1 == 0x0008)).map(|t| (t.1, t.2.clone())).collect();
        if tlvs != want {
            let foreign = tlvs.iter().any(|t| queue.iter().any(|q| q.0 != parent && q.1 == t.0 && q.2 == t.1) && !want.contains(t));
            out.oracle(
                "C15",
                if foreign { "forwarded-from-other-sender" } else { "forwarded-tlvs-not-the-parents-in-order" },
                &format!(
                    "{line} -> forwarded TLVs {:?}; consumed queue items of the parent {parent} in arrival order {:?}",
                    tlvs.iter().map(|t| (t.0, hex(&t.1))).collect::<Vec<_>>(),
                    want.iter().map(|t| (t.0, hex(&t.1))).collect::<Vec<_>>()
                ),
            );
        }
        for t in &want {
            margin -= 4 + t.1.len() as isize;
        }
        if margin < 0 {
            out.oracle("C15", "announce-too-long", &format!("{line} -> TLVs exceed the room of an Announce by {} octets", -margin));
        }
        // the head that was left behind must not have fitted (next Announce "that has room for it")
        if remaining > 0 {
            let head = &queue[queue.len() - remaining];
            let size = 4 + head.2.len() as isize;
            let fits = size < margin || (loose && size == margin);
            out.count("c15.queue-left");
            // head-of-line blocking: the TLV left behind would not be forwarded anyway (other sender, or the
            // parent's PATH_TRACE while the option is on), yet it keeps a TLV of the parent that has room waiting
            let dropped_anyway = head.0 != parent || (pt_on && head.1 == 0x0008);
            if !fits && dropped_anyway {
                let mut m2 = margin;
                for t in &queue[queue.len() - remaining + 1..] {
                    let sz = 4 + t.2.len() as isize;
                    let keep = t.0 == parent && !(pt_on && t.1 == 0x0008);
                    if keep && sz < m2 {
                        out.oracle("C15", "queue-blocked-by-tlv-that-is-never-forwarded", &format!("{line} -> a {size}-octet TLV that send_announce drops anyway (sender {}, type {}) stays at the head of the queue; behind it a {sz}-octet TLV of the parent has room ({m2} octets) and is not forwarded", head.0, head.1));
                        break;
                    }
                    if keep {
                        break;
                    }
                    m2 -= 0;
                }
            }
            if fits {
                out.oracle("C15", "tlv-left-behind-although-it-fits", &format!("{line} -> queue head of {size} octets left behind with {margin} octets of room"));
            }
        }
    }
}
