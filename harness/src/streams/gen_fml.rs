//! C06 stream: arrival patterns of Announces from one to three masters over a horizon of sixteen
//! announce intervals (present / absent per interval, duplicated, re-ordered, stale and wrapping
//! sequence numbers), all phases of BMCA runs relative to arrivals — through a real port.
//! Oracle (implementation only): an independent replay of "two distinct Announces inside the window".

use super::{inst::InstExec, Executor};
use crate::{
    frames::{AnnounceFields, Frame},
    out::{hex, Out},
    prng::Prng,
};

fn id(n: u8) -> [u8; 8] {
    [0x20, 0, 0, 0, 0, 0, 0, n]
}

struct Hist {
    /// (receipt time in BMCA ticks, sequence id, steps, accepted-by-identity)
    receipts: Vec<(u32, u16, u16)>,
}

pub fn generate(out: &mut Out, rng: &Prng, thorough: bool) {
    let scenarios = if thorough { 8000 } else { 500 };
    for _ in 0..scenarios {
        // port 1: announce interval 2^0 = 1 s (window 4 s); optional second port with a shorter interval sets
        // the BMCA step to 1/runs_per_interval s, so BMCA runs fall at every phase of the arrivals
        let rpi_log = *rng.pick(&[0i8, 0, -1, -2]);
        let runs_per_interval = 1u32 << (-rpi_log) as u32;
        let own = [0x20, 0, 0, 0, 0, 0, 0, 0x77];
        let mut ex = InstExec::new();
        let mut emit = |out: &mut Out, ex: &mut InstExec, line: String| -> String {
            let obs = ex.exec(&line);
            out.op(&line, &obs);
            obs
        };
        // own clock is poor so that any qualified master wins
        emit(out, &mut ex, format!("INIT {} 255 255 0 0 0 0 255 254 65535 - 0 0 0 1 160", hex(&own)));
        // one scenario in four: the port under test is port 2 of its instance, and port 1 of the same instance is heard
        // on its segment every announce interval (a sibling: its Announces are never stored, they only keep the port
        // from being Master). Everything about the foreign masters must be as without the sibling.
        let sibling = rng.chance(1, 4);
        if sibling {
            emit(out, &mut ex, "PORT - 0 0 0 3 0 0 0 1".to_string());
        }
        let tp: usize = if sibling { 2 } else { 1 };
        let mut sib_seq: u16 = rng.next_u64() as u16;
        emit(out, &mut ex, "PORT - 0 0 0 3 0 0 0 1".to_string());
        if rpi_log < 0 {
            emit(out, &mut ex, format!("PORT - 0 0 {rpi_log} 3 0 1 0 1"));
        }
        let nm = 1 + rng.below(3) as usize;
        let wrap_start = *rng.pick(&[5u16, 65530, 32760, 0]);
        let mut seqs: Vec<u16> = (0..nm).map(|i| wrap_start.wrapping_add(100 * i as u16)).collect();
        let steps_of: Vec<u16> = (0..nm).map(|_| *rng.pick(&[0u16, 0, 1, 3, 254, 255, 300])).collect();
        let own_identity_master = !sibling && rng.chance(1, 6); // master 0 bears our clock identity …
        // … as another port of this very instance would (its Announces coming back over the network), or as a
        // reflection of this port's own
        let own_src_port = *rng.pick(&[1u16, 2, 2, 7]);
        let prio: Vec<u8> = (0..nm).map(|i| 10 + i as u8).collect(); // master 0 is the best
        let mut hist: Vec<Hist> = (0..nm).map(|_| Hist { receipts: vec![] }).collect();
        let pattern: Vec<u8> = (0..nm).map(|_| rng.below(4) as u8).collect(); // 0 steady, 1 sparse, 2 silent after a while, 3 bursty
        let order = match (rpi_log < 0, sibling) {
            (false, false) => "1",
            (true, true) => "1,2,3",
            _ => "1,2",
        };
        let mut tick = 0u32; // BMCA runs so far
        let silent_from = 4 + rng.below(6) as u32;
        let mut was_slave_of: Option<usize> = None;
        for interval in 0..16u32 {
            // arrivals of this interval, at a random phase among the BMCA runs of the interval
            let mut events: Vec<(u32, usize, u16, bool)> = Vec::new(); // (phase, master, seq, is_dup_or_stale)
            for mi in 0..nm {
                let present = match pattern[mi] {
                    0 => true,
                    1 => rng.chance(1, 3),
                    2 => interval < silent_from,
                    _ => rng.chance(2, 3),
                };
                if !present {
                    continue;
                }
                let n_msgs = if pattern[mi] == 3 && rng.chance(1, 3) { 2 } else { 1 };
                for _ in 0..n_msgs {
                    seqs[mi] = seqs[mi].wrapping_add(1);
                    let phase = rng.below(runs_per_interval as u64) as u32;
                    events.push((phase, mi, seqs[mi], false));
                    if rng.chance(1, 8) {
                        events.push((phase, mi, seqs[mi], true)); // network duplicate
                    }
                    if rng.chance(1, 12) {
                        events.push((phase, mi, seqs[mi].wrapping_sub(1 + rng.below(3) as u16), true)); // stale / re-ordered
                    }
                }
            }
            let sib_phase = rng.below(runs_per_interval as u64) as u32;
            for phase in 0..runs_per_interval {
                if sibling && phase == sib_phase {
                    sib_seq = sib_seq.wrapping_add(1);
                    let mut f = Frame::announce(own, 1, sib_seq);
                    f.set_announce(&AnnounceFields { utc: 0, p1: 255, class: 255, acc: 0xfe, var: 0xffff, p2: 255, gm: own, steps: 0, time_source: 0xa0 });
                    f.flags[1] = 0x08;
                    emit(out, &mut ex, format!("P{tp} GEN {}", hex(&f.bytes())));
                    out.count("fml.sibling-announces");
                }
                for &(ph, mi, seq, _) in events.iter().filter(|e| e.0 == phase) {
                    let _ = ph;
                    let clock = if own_identity_master && mi == 0 { own } else { id(mi as u8 + 1) };
                    let src_port = if own_identity_master && mi == 0 { own_src_port } else { 1 };
                    let mut f = Frame::announce(clock, src_port, seq);
                    f.set_announce(&AnnounceFields { utc: 0, p1: prio[mi], class: 6, acc: 0x20, var: 1, p2: 1, gm: clock, steps: steps_of[mi], time_source: 0x20 });
                    f.flags[1] = 0x08;
                    emit(out, &mut ex, format!("P{tp} GEN {}", hex(&f.bytes())));
                    hist[mi].receipts.push((tick, seq, steps_of[mi]));
                    out.count("fml.announces");
                }
                let obs = emit(out, &mut ex, format!("BMCA {order}"));
                tick += 1;
                out.count("fml.bmca");
                // ---- oracle on the implementation's own observation
                let st = obs.split(" | ").find(|p| p.starts_with("S ")).map(|p| p[2..].split(',').nth(tp - 1).unwrap_or("").to_string()).unwrap_or_default();
                let parent = obs.split(" | ").find(|p| p.starts_with("D ")).and_then(|p| p.split_whitespace().nth(2).map(|x| x.to_string())).unwrap_or_default();
                let slave_of = if st == "Slave" { (0..nm).find(|&mi| { let (c, sp) = if own_identity_master && mi == 0 { (own, own_src_port) } else { (id(mi as u8 + 1), 1) }; parent == format!("{}:{sp}", hex(&c)) }) } else { None };
                out.count(&format!("fml.state.{st}"));
                // window in BMCA ticks: a record registered at tick r has, during the run at tick T (0-based), age (T - r) steps;
                // it is kept while age * step < 4 s  <=>  (T - r) < 4 * runs_per_interval
                let window = 4 * runs_per_interval;
                let now = tick - 1;
                if let Some(mi) = slave_of {
                    let inside: Vec<&(u32, u16, u16)> = hist[mi].receipts.iter().filter(|r| now - r.0 < window).collect();
                    let mut distinct: Vec<u16> = inside.iter().map(|r| r.1).collect();
                    distinct.sort();
                    distinct.dedup();
                    if inside.len() < 2 {
                        out.oracle("C06", "parent-on-fewer-than-two-receipts", &format!("BMCA {order} -> master {mi} selected at BMCA {now} with {} receipts inside the window", inside.len()));
                    } else if distinct.len() < 2 {
                        out.oracle("C06", "parent-on-duplicated-single-announce", &format!("BMCA {order} -> master {mi} selected at BMCA {now}: all {} receipts inside the window carry sequenceId {} (one Announce duplicated by the network counted twice)", inside.len(), distinct[0]));
                    }
                    if steps_of[mi] >= 255 {
                        out.oracle("C06", "parent-with-steps-removed-255", &format!("BMCA {order} -> master {mi} (stepsRemoved {}) selected at BMCA {now}", steps_of[mi]));
                    }
                    if own_identity_master && mi == 0 {
                        out.oracle("C06", "parent-with-own-clock-identity", &format!("BMCA {order} -> master bearing the instance's own clock identity selected at BMCA {now}"));
                    }
                }
                // Announces bearing the instance's own clock identity (whatever their port number) are never stored:
                // they leave no trace in the port state. Nothing else in this stream can make the port Passive (all
                // grandmasters are distinct, the own clock is class 255), and with no other master it stays Listening.
                if own_identity_master && (st == "Passive" || (nm == 1 && st != "Listening")) {
                    out.oracle("C06", "own-clock-identity-qualified", &format!("BMCA {order} -> Announces from {}:{own_src_port} (the instance's own clock identity) made the port {st} at BMCA {now}", hex(&own)));
                }
                // sufficiency: the best master (0), valid, with two distinct accepted Announces inside the
                // window (by an independent replay of the sequence-number rule) must be the parent
                if steps_of[0] < 255 && !own_identity_master {
                    let mut last_acc: Option<u16> = None;
                    let mut accepted: Vec<(u32, u16)> = Vec::new();
                    for r in &hist[0].receipts {
                        let ok = match last_acc {
                            None => true,
                            Some(l) => r.1.wrapping_sub(l) < 32767,
                        };
                        if ok {
                            if accepted.len() == 8 {
                                accepted.remove(0);
                            }
                            accepted.push((r.0, r.1));
                            last_acc = Some(r.1);
                        }
                        // records older than the window are purged; the staleness reference is the newest *stored* record
                        accepted.retain(|a| r.0 - a.0 < window);
                        if accepted.is_empty() {
                            last_acc = None;
                        }
                    }
                    // strictly inside the window at this run, with one interval of slack for the run's own ageing
                    let inside: Vec<&(u32, u16)> = accepted.iter().filter(|a| now - a.0 + runs_per_interval < window).collect();
                    let mut d: Vec<u16> = inside.iter().map(|a| a.1).collect();
                    d.sort();
                    d.dedup();
                    if d.len() >= 2 && slave_of != Some(0) {
                        out.oracle("C06", "qualified-master-not-selected", &format!("BMCA {order} -> best master has {} distinct accepted Announces well inside the window at BMCA {now} but the port is {st} (parent {parent}); receipts (tick, seq): {:?}", d.len(), hist[0].receipts.iter().map(|r| (r.0, r.1)).collect::<Vec<_>>()));
                    }
                }
                // silence: nothing from the selected master for window + 1 runs => not its slave any more
                if let Some(mi) = was_slave_of {
                    let last = hist[mi].receipts.iter().map(|r| r.0).max().unwrap_or(0);
                    if slave_of == Some(mi) && now > last + window + 1 {
                        out.oracle("C06", "silent-master-kept", &format!("BMCA {order} -> master {mi} last heard at tick {last}, still parent at BMCA {now} (window {window} runs)"));
                    }
                }
                // steady: master 0 (best), steady pattern, valid => once selected, never dropped
                if pattern[0] == 0 && steps_of[0] < 255 && !own_identity_master && was_slave_of == Some(0) && slave_of != Some(0) {
                    out.oracle("C06", "steady-master-dropped", &format!("BMCA {order} -> best master announcing every interval was dropped at BMCA {now} (state {st})"));
                }
                was_slave_of = slave_of;
            }
        }
    }
}
