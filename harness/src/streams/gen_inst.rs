//! Scenario generator for the instance / port stream: a "world" of foreign masters produces
//! mostly well-formed traffic consistent with the ports' current state, then perturbs it.
//! Ops are generated online (feedback from the implementation's own observations).

use super::{inst::InstExec, Executor};
use crate::{
    frames::{split_time, tlv, AnnounceFields, Frame},
    out::{hex, Out},
    prng::Prng,
};

pub const F32: u128 = 1 << 32;
pub const SEC: u128 = 1_000_000_000 * F32;

#[derive(Clone, Debug)]
pub struct Master {
    pub clock: [u8; 8],
    pub port: u16,
    pub ann: AnnounceFields,
    pub seq: u16,
    pub sync_seq: u16,
    pub two_step: bool,
    pub flags1: u8,
}

#[derive(Clone, Debug, Default)]
pub struct PortView {
    pub state: String,
    pub p2p: bool,
    pub master_only: bool,
    pub last_dreq: Option<u16>,
    pub last_pdreq: Option<u16>,
    pub pending_ctx: Vec<String>,
    pub last_sync: Option<(usize, u16, u128)>, // (master idx, seq, master send time)
    pub queue: Vec<String>,                    // forwarded TLVs waiting for this port (text items)
    pub acc: Option<Vec<String>>,              // acceptable master list (clock identities, hex)
    pub last_mean_delay: Option<i128>,         // what the filter last reported as mean delay (delay or peer delay of its last measurement)
}

pub struct World {
    pub own_clock: [u8; 8],
    pub own_sdo: u16,
    pub own_domain: u8,
    pub masters: Vec<Master>,
    pub ports: Vec<PortView>,
    pub parent: String, // parent port identity text from the D line
    pub now: u128,      // U96F32 bits
    pub path_trace: bool,
    pub slave_only: bool,
    pub own_p1: u8,
    pub own_class: u8,
    pub init_line: String,        // the INIT line of the scenario (what the host configured)
    pub port_lines: Vec<String>,  // the PORT lines, in port order
    pub prev_parent: String,      // the parent before the current one (text), "" if none
}

pub const CLOCKS: [[u8; 8]; 6] = [
    [0x00, 0x11, 0x22, 0xff, 0xfe, 0x33, 0x44, 0x55],
    [0x00, 0x11, 0x22, 0xff, 0xfe, 0x33, 0x44, 0x56],
    [0x10, 0, 0, 0, 0, 0, 0, 1],
    [0x10, 0, 0, 0, 0, 0, 0, 2],
    [0xf0, 0xe0, 0xd0, 0xc0, 0xb0, 0xa0, 0x90, 0x80],
    [0, 0, 0, 0, 0, 0, 0, 1],
];

fn small_u8(rng: &Prng) -> u8 {
    *rng.pick(&[0u8, 1, 127, 128, 129, 254, 255])
}

pub fn random_ann(rng: &Prng, clock: [u8; 8]) -> AnnounceFields {
    let gm = if rng.chance(2, 3) { clock } else { *rng.pick(&CLOCKS) };
    AnnounceFields {
        utc: *rng.pick(&[0i16, 37, -1, i16::MAX, i16::MIN]),
        p1: small_u8(rng),
        class: *rng.pick(&[6u8, 7, 52, 127, 128, 135, 187, 248, 255, 0]),
        acc: *rng.pick(&[0x17u8, 0x20, 0x21, 0x31, 0xfe, 0x80, 0x05, 0xff]),
        var: *rng.pick(&[0u16, 0x4e5d, 0xffff, 0x8000]),
        p2: small_u8(rng),
        gm,
        steps: *rng.pick(&[0u16, 0, 0, 1, 1, 2, 3, 5, 253, 254, 255, 256, 65535]),
        time_source: *rng.pick(&[0xa0u8, 0x20, 0x10, 0xf3, 0xff, 0x07]),
    }
}

impl World {
    fn t(&mut self, rng: &Prng) -> u128 {
        // time advances by 0..2 s with a sub-ns part
        self.now += rng.log_u128(63) % (2 * SEC);
        self.now
    }
}

pub fn clock_hex(c: &[u8; 8]) -> String {
    hex(c)
}

/// Independent bookkeeping for C09 / C14: every message of a Sync, Delay or Pdelay exchange the generator
/// hands to a port is logged with its timestamps and correction fields; every measurement the
/// filter receives must equal the IEEE formula of ONE logged exchange (same sender, same sequence id).
#[derive(Default)]
pub struct MeasOracle {
    pub asym: Vec<i128>,                                   // per port, 2^-32 ns
    pub syncs: Vec<(usize, String, u16, i128)>,            // (port, sender, seq, t2' = recv - corr)  [two-step or one-step]
    pub one_step: Vec<(usize, String, u16, i128)>,         // (port, sender, seq, t1' = origin)
    pub fus: Vec<(usize, String, u16, i128)>,              // (port, sender, seq, t1' = origin + corr)
    pub dreq_ts: Vec<(usize, u16, i128)>,                  // (port, id, t3)
    pub dresps: Vec<(usize, String, u16, String, i128)>,   // (port, sender, seq, requester, t4' = rx - corr)
    pub pd_ts: Vec<(usize, u16, i128)>,                    // (port, id, t1)
    pub pd_resps: Vec<(usize, String, u16, i128, i128, bool)>, // (port, responder, seq, t2 = reqRecv, t4' = recv - corr, two_step)
    pub pd_fus: Vec<(usize, String, u16, i128)>,           // (port, responder, seq, t3' = origin + corr)
    pub saturated: u64,
    pub own: String, // the instance's clock identity (hex), from the INIT line
}

fn be(b: &[u8], off: usize, w: usize) -> u128 {
    b[off..off + w].iter().fold(0u128, |a, x| (a << 8) | *x as u128)
}

impl MeasOracle {
    /// the library keeps corrected timestamps in an unsigned `Time`: a correction larger than the timestamp it is
    /// applied to leaves zero (since the `fix:` commit; the exact value would be negative). Counted: a measurement
    /// built from such a timestamp deviates from the IEEE formula (known finding).
    fn unsigned(&mut self, v: i128) -> i128 {
        if v < 0 {
            self.saturated += 1;
            0
        } else {
            v
        }
    }
    fn wire_time(b: &[u8], off: usize) -> i128 {
        ((be(b, off, 6) * 1_000_000_000 + be(b, off + 6, 4)) << 32) as i128
    }
    /// the port identity of port `k` of this instance, as `pid` prints it
    fn me(&self, k: usize) -> String {
        format!("{}:{}", self.own, k)
    }
    fn pid(b: &[u8], off: usize) -> String {
        format!("{}:{}", hex(&b[off..off + 8]), be(b, off + 8, 2))
    }
    /// log what an op hands to the port (only well-formed frames that pass the version check)
    pub fn note_op(&mut self, line: &str) {
        let w: Vec<&str> = line.split_whitespace().filter(|t| !t.starts_with('#')).collect();
        if w.is_empty() {
            return;
        }
        if w[0] == "INIT" {
            *self = MeasOracle::default();
            self.own = w.get(1).map(|x| x.to_string()).unwrap_or_default();
            return;
        }
        if w[0] == "PORT" {
            self.asym.push(w.get(8).and_then(|x| x.parse().ok()).unwrap_or(0));
            return;
        }
        if !w[0].starts_with('P') || w.len() < 3 {
            return;
        }
        let Ok(k) = w[0][1..].parse::<usize>() else { return };
        match w[1] {
            "TXTS" if w.len() >= 5 => {
                let id: u16 = w[3].parse().unwrap_or(0);
                let ts: i128 = w[w.len() - 1].parse().unwrap_or(0);
                match w[2] {
                    "dreq" => self.dreq_ts.push((k, id, ts)),
                    "pdreq" => self.pd_ts.push((k, id, ts)),
                    _ => {}
                }
            }
            "GEN" | "EVT" => {
                let Some(b) = crate::out::unhex(w[2]) else { return };
                if b.len() < 44 || b[1] & 0x0f != 2 {
                    return;
                }
                let len = be(&b, 2, 2) as usize;
                if len > b.len() || len < 44 {
                    return;
                }
                let ty = b[0] & 0x0f;
                let corr = (be(&b, 8, 8) as u64 as i64 as i128) << 16;
                let src = Self::pid(&b, 20);
                let seq = be(&b, 30, 2) as u16;
                let recv: i128 = if w[1] == "EVT" { w.get(3).and_then(|x| x.parse().ok()).unwrap_or(0) } else { 0 };
                match ty {
                    0x0 if w[1] == "EVT" => {
                        let v = self.unsigned(recv - corr);
                        self.syncs.push((k, src.clone(), seq, v));
                        if b[6] & 0x02 == 0 {
                            self.one_step.push((k, src, seq, Self::wire_time(&b, 34)));
                        }
                    }
                    0x8 => {
                        let v = self.unsigned(Self::wire_time(&b, 34) + corr);
                        self.fus.push((k, src, seq, v))
                    }
                    0x9 if len >= 54 => {
                        let v = self.unsigned(Self::wire_time(&b, 34) - corr);
                        self.dresps.push((k, src, seq, Self::pid(&b, 44), v))
                    }
                    0x3 if w[1] == "EVT" && len >= 54 => {
                        let v = self.unsigned(recv - corr);
                        if Self::pid(&b, 44) == self.me(k) {
                            self.pd_resps.push((k, src, seq, Self::wire_time(&b, 34), v, b[6] & 0x02 != 0))
                        }
                    }
                    0xa if len >= 54 => {
                        let v = self.unsigned(Self::wire_time(&b, 34) + corr);
                        // a follow-up answering another requester (a sibling port of this instance, say) is not ours
                        if Self::pid(&b, 44) == self.me(k) {
                            self.pd_fus.push((k, src, seq, v))
                        }
                    }
                    _ => {}
                }
            }
            _ => {}
        }
    }

    /// every `meas` item of an observation against the log; returns (property, signature, detail) findings
    pub fn check_obs(&self, own_clock: &[u8; 8], parent: &str, line: &str, obs: &str) -> Vec<(&'static str, String, String)> {
        let mut out = Vec::new();
        let first = obs.split(" | ").next().unwrap_or("");
        for item in first.split(" ; ") {
            let Some((pk, rest)) = item.split_once(':') else { continue };
            let Some(r) = rest.strip_prefix("meas ") else { continue };
            let Ok(k) = pk.trim_start_matches('P').parse::<usize>() else { continue };
            let f: Vec<&str> = r.split_whitespace().collect();
            if f.len() != 6 {
                continue;
            }
            let asym = self.asym.get(k - 1).copied().unwrap_or(0);
            let val = |s: &str| -> Option<i128> { if s == "-" { None } else { s.parse().ok() } };
            let ev: i128 = f[0].parse().unwrap_or(0);
            let me = format!("{}:{}", hex(own_clock), k);
            if let Some(raw) = val(f[4]) {
                // raw_sync = t2' - t1' - asym for ONE exchange (same sender = parent, same seq)
                let ok = self.syncs.iter().filter(|s| s.0 == k && s.1 == parent).any(|s| {
                    let t1s = self.fus.iter().chain(self.one_step.iter()).filter(|x| x.0 == k && x.1 == s.1 && x.2 == s.2);
                    s.3 == ev && t1s.clone().any(|x| s.3 - x.3 - asym == raw)
                });
                if !ok {
                    out.push(("C09", "sync-measurement-not-one-exchange".to_string(), format!("{line} -> {item}: raw_sync_offset {raw} (event time {ev}) is not (t2 - corr) - (t1 + corr) - asym of any single Sync/Follow_Up exchange of the parent {parent}")));
                }
            }
            if let Some(raw) = val(f[5]) {
                let ok = self.dreq_ts.iter().filter(|d| d.0 == k).any(|d| {
                    d.2 == ev && self.dresps.iter().any(|x| x.0 == k && x.1 == parent && x.2 == d.1 && x.3 == me && d.2 - x.4 - asym == raw)
                });
                if !ok {
                    out.push(("C09", "delay-measurement-not-one-exchange".to_string(), format!("{line} -> {item}: raw_delay_offset {raw} is not t3 - (t4 - corr) - asym of any single Delay_Req/Delay_Resp exchange with the parent {parent}")));
                }
            }
            if let Some(pd) = val(f[3]) {
                // ((t4' - t1) - (t3' - t2)) / 2 truncated toward zero, one request, one responder
                let ok = self.pd_ts.iter().filter(|d| d.0 == k).any(|d| {
                    self.pd_resps.iter().filter(|x| x.0 == k && x.2 == d.1).any(|x| {
                        let t3s: Vec<i128> = if x.5 { self.pd_fus.iter().filter(|y| y.0 == k && y.1 == x.1 && y.2 == d.1).map(|y| y.3).collect() } else { vec![x.3] };
                        x.4 == ev && t3s.iter().any(|t3| {
                            let num = (x.4 - d.2) - (t3 - x.3);
                            num / 2 == pd
                        })
                    })
                });
                if !ok {
                    out.push(("C14", "peer-delay-not-one-exchange".to_string(), format!("{line} -> {item}: peer delay {pd} is not ((t4 - corr - t1) - (t3 - t2)) / 2 of one request and one responder")));
                }
            }
        }
        out
    }
}

pub struct Gen<'a> {
    pub slave_only_from_start: bool,
    pub slave_only_now: bool,
    pub bmca_since_slave_only: bool,
    pub meas: MeasOracle,
    pub frames: super::oracle_frames::FrameOracle,
    pub view: super::oracle_view::ViewOracle,
    pub tlvo: super::oracle_tlv::TlvOracle,
    /// Some = the host obeys the timer actions (C12)
    pub timed: Option<super::timed::Timed>,
    pub last_obs: String,
    pub last_op: String,
    pub ex: InstExec,
    pub out: &'a mut Out,
    pub w: World,
    pub ops_in_scenario: usize,
    pub dead: bool,
    /// hook for per-property oracles: called with (op line, observation)
    pub on_obs: Option<Box<dyn FnMut(&mut Out, &World, &str, &str) + 'a>>,
}

impl<'a> Gen<'a> {
    pub fn emit(&mut self, line: String) -> String {
        if let Some(t) = &self.timed {
            if t.blocked(&line) {
                self.out.count("c12.unarmed-timer-not-fired");
                return String::new();
            }
        }
        let sat_before = self.meas.saturated;
        self.meas.note_op(&line);
        let parent_before = self.w.parent.clone();
        let obs = self.ex.exec(&line);
        if self.meas.saturated > sat_before && obs.contains(":meas ") {
            self.out.oracle("C09", "corrected-timestamp-saturates-at-zero", &format!("{line} -> the correction field exceeds the timestamp it is applied to; the library keeps corrected timestamps unsigned, so it continues with 0 and the measurement it hands to the filter is not the IEEE formula of this exchange"));
        }
        for (prop, sig, detail) in self.meas.check_obs(&self.w.own_clock, &parent_before, &line, &obs) {
            self.out.oracle(prop, &sig, &detail);
        }
        self.role_oracle(&line, &obs);
        {
            let before: Vec<String> = self.w.ports.iter().map(|p| p.state.clone()).collect();
            self.frames.check(self.out, &before, &line, &obs);
            self.view.check(self.out, &before, &line, &obs);
            self.tlvo.check(self.out, &before, &line, &obs);
            if let Some(t) = self.timed.as_mut() {
                t.absorb(self.out, &line, &obs);
            }
        }
        let kind: String = {
            let ws: Vec<&str> = line.split_whitespace().collect();
            if ws[0].starts_with('P') && ws[0] != "PORT" {
                format!("{}.{}", ws[1], if ws[1] == "TMR" || ws[1] == "TXTS" { ws[2] } else { "" })
            } else {
                ws[0].to_string()
            }
        };
        self.out.count(&format!("op.{kind}"));
        if obs == "R panic" {
            self.out.count("result.panic");
            self.dead = true;
            // C03: every call returns normally. The signature names the panic site (source file + message).
            let site = crate::out::last_panic();
            // which kind of call: op class (+ message type of a received frame)
            let ws: Vec<&str> = line.split_whitespace().collect();
            let call = if ws[0].starts_with('P') && ws[0] != "PORT" && ws.len() >= 3 {
                match ws[1] {
                    "GEN" | "EVT" => format!("{} type {}", ws[1], ws[2].get(1..2).unwrap_or("?")),
                    "TMR" | "TXTS" => format!("{} {}", ws[1], ws[2]),
                    x => x.to_string(),
                }
            } else {
                ws[0].to_string()
            };
            let sig = format!("panic in {} at {}", call, site).replace('\t', " ");
            self.out.count(&format!("c03.{sig}"));
            self.out.oracle("C03", &sig, &format!("{line} -> the call panicked ({site})"));
        } else if obs.starts_with("- |") {
            self.out.count("result.no-output");
        } else {
            self.out.count("result.output");
        }
        self.absorb(&line, &obs);
        self.last_obs = obs.clone();
        self.last_op = line.clone();
        self.out.op(&line, &obs);
        if self.ex.lock_nested > 0 {
            self.out.oracle("C17", "nested-lock", &format!("{line} -> lock trace {}", self.ex.last_lock_trace));
            self.ex.lock_nested = 0;
        }
        if let Some(mut f) = self.on_obs.take() {
            f(self.out, &self.w, &line, &obs);
            self.on_obs = Some(f);
        }
        self.ops_in_scenario += 1;
        obs
    }

    /// C08 / C14 predicates on the implementation's own observations: who may emit what, who may feed
    /// the servo, how many slaves, how a Faulty port may leave that state
    fn role_oracle(&mut self, line: &str, obs: &str) {
        let w: Vec<&str> = line.split_whitespace().collect();
        if w.first() == Some(&"INIT") {
            self.slave_only_from_start = w.get(6) == Some(&"1");
            self.slave_only_now = self.slave_only_from_start;
            self.bmca_since_slave_only = false;
            return;
        }
        let parts: Vec<&str> = obs.split(" | ").collect();
        // C12: the announce / sync timer of a Master port re-arms itself on every expiry (a call that panics re-arms
        // nothing: the port then waits on a timer that is not armed)
        if w.len() >= 3 && w[1] == "TMR" && (w[2] == "ann" || w[2] == "sync") {
            if let Ok(k) = w[0].trim_start_matches('P').parse::<usize>() {
                let is_master = self.w.ports.get(k.wrapping_sub(1)).map(|p| p.state == "Master").unwrap_or(false);
                let rearmed = parts[0].split(" ; ").any(|it| it.starts_with(&format!("P{k}:reset {} ", w[2])));
                if is_master && !rearmed && obs != "dead" && obs != "bad-op" {
                    self.out.oracle("C12", "master-timer-not-rearmed", &format!("{line} -> the {} timer of Master port {k} expired and was not re-armed ({})", if w[2] == "ann" { "announce" } else { "sync" }, if obs.starts_with("R panic") { "the call panicked" } else { "no reset action" }));
                }
            }
        }
        if parts.len() < 3 {
            return;
        }
        let before: Vec<String> = self.w.ports.iter().map(|p| p.state.clone()).collect();
        let after: Vec<String> = parts.iter().find(|p| p.starts_with("S ")).map(|p| p[2..].split(',').map(|x| x.to_string()).collect()).unwrap_or_default();
        if w.first() == Some(&"SET") && w.get(1) == Some(&"slave_only") {
            self.slave_only_now = w.get(2) == Some(&"1");
            self.slave_only_from_start = false;
            self.bmca_since_slave_only = false;
        }
        if w.first() == Some(&"BMCA") {
            self.bmca_since_slave_only = true;
        }
        // C05: after a BMCA run the Slave port is bound to the parent the run selected (parentDS.parentPortIdentity)
        if w.first() == Some(&"BMCA") {
            let parent = parts.iter().find(|p| p.starts_with("D ")).and_then(|p| p.split_whitespace().nth(2)).unwrap_or("");
            let rms: Vec<&str> = parts.iter().find(|p| p.starts_with("RM ")).map(|p| p[3..].split(',').collect()).unwrap_or_default();
            for (i, st) in after.iter().enumerate() {
                if st == "Slave" && rms.get(i).map(|r| *r != parent).unwrap_or(false) {
                    self.out.oracle("C05", "slave-port-not-bound-to-the-selected-parent", &format!("{line} -> port {} is Slave of {} while the run selected {parent} as parent (parentDS.parentPortIdentity): the port is not in the state the decision prescribes, it will not accept that parent's Sync", i + 1, rms[i]));
                }
            }
        }
        let nslaves = after.iter().filter(|s| *s == "Slave").count();
        if nslaves > 1 {
            self.out.oracle("C08", "two-slave-ports", &format!("{line} -> states {}", after.join(",")));
        }
        for (i, st) in after.iter().enumerate() {
            if st == "Slave" && self.w.ports.get(i).map(|p| p.master_only).unwrap_or(false) {
                self.out.oracle("C08", "master-only-port-slave", &format!("{line} -> port {} is Slave", i + 1));
            }
            if st == "Master" && self.slave_only_from_start {
                self.out.oracle("C08", "slave-only-instance-has-master", &format!("{line} -> port {} is Master on an instance configured slave-only from the start", i + 1));
            }
            if st == "Master" && self.slave_only_now && self.bmca_since_slave_only {
                self.out.oracle("C08", "master-after-slave-only-and-bmca", &format!("{line} -> port {} still Master after slave-only was switched on and a BMCA run completed", i + 1));
            }
        }
        let mut had_peer_meas = vec![false; after.len()];
        for item in parts[0].split(" ; ") {
            let Some((pk, rest)) = item.split_once(':') else { continue };
            let Ok(k) = pk.trim_start_matches('P').parse::<usize>() else { continue };
            if k == 0 || k > before.len() {
                continue;
            }
            let st = before[k - 1].as_str();
            if let Some(r) = rest.strip_prefix("send ") {
                let hexs = r.split_whitespace().skip(1).find(|t| !t.contains('=')).unwrap_or("");
                let ty = u8::from_str_radix(&hexs.get(1..2).unwrap_or("f"), 16).unwrap_or(15);
                let name = match ty { 0x0 => "Sync", 0x8 => "Follow_Up", 0x9 => "Delay_Resp", 0xb => "Announce", 0x1 => "Delay_Req", _ => "" };
                if matches!(ty, 0x0 | 0x8 | 0x9 | 0xb) && st != "Master" {
                    self.out.oracle("C08", &format!("{}-from-non-master", name.to_lowercase()), &format!("{line} -> {} emitted by port {k} in state {st}", name));
                    if st == "Faulty" {
                        self.out.oracle("C14", "faulty-port-acts-as-master", &format!("{line} -> {} emitted by Faulty port {k}", name));
                    }
                }
                if ty == 0x1 && st != "Slave" {
                    self.out.oracle("C08", "delay-req-from-non-slave", &format!("{line} -> Delay_Req emitted by port {k} in state {st}"));
                }
            }
            if let Some(r) = rest.strip_prefix("meas ") {
                let f: Vec<&str> = r.split_whitespace().collect();
                if f.len() == 6 {
                    if (f[4] != "-" || f[5] != "-") && st != "Slave" {
                        self.out.oracle("C08", "servo-fed-by-non-slave", &format!("{line} -> sync/delay measurement handed to the filter of port {k} in state {st}"));
                        if st == "Faulty" {
                            self.out.oracle("C14", "faulty-port-steers", &format!("{line} -> sync/delay measurement on Faulty port {k}"));
                        }
                    }
                    if f[3] != "-" {
                        had_peer_meas[k - 1] = true;
                    }
                }
            }
        }
        // C13 at the port: a port that leaves the slave state hands its servo its last call (`demobilize`) - once
        for i in 0..after.len().min(before.len()) {
            if before[i] == "Slave" && after[i] != "Slave" {
                let n = parts[0].split(" ; ").filter(|it| *it == format!("P{}:demob", i + 1)).count();
                if n != 1 {
                    self.out.oracle("C13", "servo-not-demobilised-once-on-leaving-slave", &format!("{line} -> port {} went Slave -> {} and its filter was demobilised {n} time(s): a live servo keeps steering after the port has left the slave state", i + 1, after[i]));
                }
            }
        }
        for i in 0..after.len().min(before.len()) {
            if before[i] == "Faulty" && after[i] != "Faulty" && !had_peer_meas[i] {
                self.out.oracle("C14", "faulty-left-without-clean-exchange", &format!("{line} -> port {} went Faulty -> {} without a completed peer delay exchange", i + 1, after[i]));
            }
        }
    }

    /// feedback: port states, parent, pending timestamp contexts, forwarded TLVs
    fn absorb(&mut self, line: &str, obs: &str) {
        let parts: Vec<&str> = obs.split(" | ").collect();
        if parts.len() < 3 {
            return;
        }
        for item in parts[0].split(" ; ") {
            let Some((pk, rest)) = item.split_once(':') else { continue };
            let Ok(k) = pk.trim_start_matches('P').parse::<usize>() else { continue };
            if k == 0 || k > self.w.ports.len() {
                continue;
            }
            if let Some(r) = rest.strip_prefix("send evt ") {
                let ctx = r.split_whitespace().find(|x| x.starts_with("ctx=")).map(|x| x[4..].to_string()).unwrap_or_default();
                let pv = &mut self.w.ports[k - 1];
                if let Some(id) = ctx.strip_prefix("dreq:") {
                    pv.last_dreq = id.parse().ok();
                }
                if let Some(id) = ctx.strip_prefix("pdreq:") {
                    pv.last_pdreq = id.parse().ok();
                }
                pv.pending_ctx.push(ctx);
                if pv.pending_ctx.len() > 6 {
                    pv.pending_ctx.remove(0);
                }
            }
            if let Some(r) = rest.strip_prefix("meas ") {
                // the recording filter answers every measurement with mean_delay = delay, else peer delay, of that measurement
                let f: Vec<&str> = r.split_whitespace().collect();
                if f.len() == 6 {
                    let md = if f[2] != "-" { f[2].parse::<i128>().ok() } else if f[3] != "-" { f[3].parse::<i128>().ok() } else { None };
                    if md.is_some() {
                        self.w.ports[k - 1].last_mean_delay = md;
                    }
                }
            }
            if let Some(r) = rest.strip_prefix("fwd ") {
                // fwd <clock>:<port> <type> <hex>  -> every other port's queue
                let f: Vec<&str> = r.split_whitespace().collect();
                if f.len() == 3 {
                    let item = format!("{}:{}:{}", f[0], f[1], f[2]);
                    for (j, p) in self.w.ports.iter_mut().enumerate() {
                        if j != k - 1 && p.queue.len() < 6 {
                            p.queue.push(item.clone());
                        }
                    }
                }
            }
        }
        for part in &parts {
            if let Some(s) = part.strip_prefix("S ") {
                for (i, st) in s.split(',').enumerate() {
                    if let Some(p) = self.w.ports.get_mut(i) {
                        p.state = st.to_string();
                    }
                }
            }
            if let Some(d) = part.strip_prefix("D ") {
                let np = d.split_whitespace().nth(1).unwrap_or("").to_string();
                if np != self.w.parent {
                    self.w.prev_parent = std::mem::replace(&mut self.w.parent, np);
                }
            }
        }
        let _ = line;
    }

    pub fn start_scenario(&mut self, rng: &Prng) {
        self.dead = false;
        self.ops_in_scenario = 0;
        let own = *rng.pick(&CLOCKS[..4]);
        let sdo = *rng.pick(&[0u16, 0, 0, 0x100, 0xfff]);
        let domain = *rng.pick(&[0u8, 0, 0, 5, 255]);
        let slave_only = rng.chance(1, 8);
        let path_trace = rng.chance(1, 2);
        let class = *rng.pick(&[6u8, 127, 128, 248, 248, 248, 255, 0]);
        let p1 = small_u8(rng);
        let p2 = small_u8(rng);
        let acc = *rng.pick(&[0x20u8, 0xfe, 0x31]);
        let var = *rng.pick(&[0u16, 0x4e5d, 0xffff]);
        let utc = if rng.chance(1, 2) { "37".to_string() } else { "-".to_string() };
        let line = format!(
            "INIT {} {} {} {} {} {} {} {} {} {} {} {} {} {} {} {}",
            clock_hex(&own),
            p1,
            p2,
            domain,
            sdo,
            slave_only as u8,
            path_trace as u8,
            class,
            acc,
            var,
            utc,
            *rng.pick(&["0", "0", "61", "59"]),
            rng.below(2),
            rng.below(2),
            rng.below(2),
            *rng.pick(&[0xa0u8, 0x20, 0x10])
        );
        // masters
        let nm = 1 + rng.below(3) as usize;
        let bmca_first = rng.chance(1, 12);
        let mut masters = Vec::new();
        for _ in 0..nm {
            let clock = *rng.pick(&CLOCKS);
            let seq = *rng.pick(&[0u16, 1, 100, 32766, 65533, 65535]);
            masters.push(Master {
                clock,
                port: *rng.pick(&[1u16, 1, 2, 0, 65535]),
                ann: random_ann(rng, clock),
                seq,
                sync_seq: *rng.pick(&[0u16, 7, 65534]),
                two_step: rng.chance(2, 3),
                flags1: rng.next_u64() as u8 & 0x7f,
            });
        }
        // incl. 20 s before 2^63 ns and before 2^64 ns (the i64 / u64 nanosecond boundaries are crossed while the scenario
        // runs) and the last days of the 48-bit seconds field
        // now and then two of the masters are two ports of one clock announcing the same grandmaster, one of them one
        // step closer: the port's parent then moves between port identities of one clock identity
        if masters.len() >= 2 && rng.chance(1, 4) {
            let m0 = masters[0].clone();
            let m1 = &mut masters[1];
            m1.clock = m0.clock;
            m1.port = if m0.port == 1 { 2 } else { 1 };
            let steps0 = m0.ann.steps;
            m1.ann = m0.ann.clone();
            m1.ann.steps = if rng.chance(1, 2) { steps0.wrapping_add(1) } else { steps0.saturating_sub(1) };
            m1.two_step = m0.two_step;
        }
        let start = *rng.pick(&[
            1_700_000_000u128 * SEC,
            1_700_000_000u128 * SEC,
            5 * SEC,
            0,
            ((1u128 << 63) - 20_000_000_000) * F32,
            1u128 << 79,
            ((1u128 << 64) - 20_000_000_000) * F32,
            ((1u128 << 48) - 200_000) * SEC,
        ]);
        self.w = World { own_clock: own, own_sdo: sdo, own_domain: domain, masters, ports: vec![], parent: String::new(), now: start, path_trace, slave_only, own_p1: p1, own_class: class, init_line: String::new(), port_lines: vec![], prev_parent: String::new() };
        self.w.init_line = line.clone();
        self.emit(line);
        if bmca_first {
            // a BMCA run before any port exists
            self.emit("BMCA".to_string());
        }
        let np = 1 + rng.below(3) as usize;
        for _ in 0..np {
            if self.dead {
                return;
            }
            let acc = match rng.below(10) {
                0 => "none".to_string(),
                1 | 2 => {
                    let mut l: Vec<String> = self.w.masters.iter().filter(|_| rng.chance(2, 3)).map(|m| clock_hex(&m.clock)).collect();
                    if l.is_empty() {
                        l.push(clock_hex(&CLOCKS[4]));
                    }
                    l.join(",")
                }
                _ => "-".to_string(),
            };
            let p2p = rng.chance(1, 4);
            let master_only = rng.chance(1, 7);
            let asym: i128 = *rng.pick(&[0i128, 0, 0, 1, -1, 1000 << 32, -(1000 << 32), 1 << 90]);
            let line = format!(
                "PORT {} {} {} {} {} {} {} {} {}",
                acc,
                p2p as u8,
                *rng.pick(&[-3i8, 0, 1, 4]),
                *rng.pick(&[-3i8, -1, 0, 1, 2]),
                *rng.pick(&[2u8, 3, 10, 255]),
                *rng.pick(&[-4i8, -3, 0, 1]),
                master_only as u8,
                asym,
                rng.below(2)
            );
            let accv = match acc.as_str() {
                "-" => None,
                "none" => Some(vec![]),
                l => Some(l.split(',').map(|x| x.to_string()).collect()),
            };
            self.w.ports.push(PortView { state: "Listening".into(), p2p, master_only, acc: accv, ..Default::default() });
            self.w.port_lines.push(line.clone());
            self.emit(line);
        }
    }

    fn base_frame(&self, rng: &Prng, ty: u8, clock: [u8; 8], port: u16, seq: u16) -> Frame {
        let mut f = Frame::new(ty, clock, port, seq);
        f.sdo = self.w.own_sdo;
        f.domain = self.w.own_domain;
        f.version = if rng.chance(1, 2) { 0x12 } else { 0x02 };
        f
    }

    /// perturb addressing so that the frame must be ignored (C07 classes); returns the class name
    fn foreignize(&self, rng: &Prng, f: &mut Frame) -> &'static str {
        match rng.below(4) {
            0 => {
                f.domain = f.domain.wrapping_add(1 + rng.below(3) as u8);
                "foreign-domain"
            }
            1 => {
                f.sdo = (f.sdo + 1 + rng.below(7) as u16) & 0xfff;
                "foreign-sdo"
            }
            2 => {
                f.version = (f.version & 0xf0) | *rng.pick(&[0u8, 1, 3, 15]);
                "version"
            }
            _ => {
                f.length_override = Some(*rng.pick(&[0u16, 33, 40, 2000]));
                "bad-length"
            }
        }
    }

    pub fn announce_op(&mut self, rng: &Prng) {
        let k = 1 + rng.below(self.w.ports.len() as u64) as usize;
        let mi = rng.below(self.w.masters.len() as u64) as usize;
        // sequence id behaviour
        let seq = {
            let m = &mut self.w.masters[mi];
            match rng.below(12) {
                0 => m.seq,                           // duplicate
                1 => m.seq.wrapping_sub(1 + rng.below(3) as u16), // stale
                2 => m.seq.wrapping_add(32766 + rng.below(3) as u16), // around the half range
                _ => {
                    m.seq = m.seq.wrapping_add(1);
                    m.seq
                }
            }
        };
        if rng.chance(1, 25) {
            // the master changes what it announces
            let c = self.w.masters[mi].clock;
            self.w.masters[mi].ann = random_ann(rng, c);
            self.w.masters[mi].flags1 = rng.next_u64() as u8 & 0x7f;
        }
        let m = self.w.masters[mi].clone();
        let mut f = self.base_frame(rng, 0xb, m.clock, m.port, seq);
        f.flags[1] = m.flags1;
        f.flags[0] = if rng.chance(1, 10) { rng.next_u64() as u8 } else { 0 };
        let mut a = m.ann.clone();
        if rng.chance(1, 20) {
            a.steps = *rng.pick(&[254u16, 255, 65535]);
        }
        f.set_announce(&a);
        f.log_interval = *rng.pick(&[0i8, 1, -3, 127]);
        // TLVs
        if rng.chance(1, 3) {
            let n = 1 + rng.below(3);
            for _ in 0..n {
                match rng.below(6) {
                    0 | 1 => {
                        // path trace
                        let len = *rng.pick(&[0usize, 1, 2, 3, 20, 127, 128, 129]);
                        let mut v = Vec::new();
                        for i in 0..len {
                            let c = if rng.chance(1, 12) { self.w.own_clock } else { let mut c = *rng.pick(&CLOCKS[2..]); c[7] = c[7].wrapping_add(i as u8); c };
                            v.extend_from_slice(&c);
                        }
                        if rng.chance(1, 5) {
                            v.extend_from_slice(&rng.bytes(2 * (1 + rng.below(3) as usize)));
                        }
                        f.suffix.extend(tlv(0x0008, &v));
                    }
                    2 => f.suffix.extend(tlv(0x0009, &rng.bytes(2 * rng.below(12) as usize))),
                    3 => {
                        let ty = *rng.pick(&[0x4000u16, 0x4001, 0x7fff, 0x7f00]);
                        let len = *rng.pick(&[0usize, 2, 10, 100, 400, 900, 950]);
                        f.suffix.extend(tlv(ty, &rng.bytes(len)));
                    }
                    4 => f.suffix.extend(tlv(*rng.pick(&[0x0001u16, 0x0003, 0x8000, 0x8008, 0x2004, 0x3fff]), &rng.bytes(2 * rng.below(6) as usize))),
                    _ => f.suffix.extend(tlv(0x4000, &[])),
                }
            }
        }
        let mut class = "announce";
        if rng.chance(1, 12) {
            class = self.foreignize(rng, &mut f);
        } else if rng.chance(1, 20) {
            // bearing the receiving instance's own identity
            f.src_clock = self.w.own_clock;
            f.src_port = *rng.pick(&[1u16, 2, 3, 0]);
            class = "own-identity";
        }
        self.out.count(&format!("gen.{class}"));
        let op = if rng.chance(1, 10) {
            let t = self.w.t(rng);
            format!("P{k} EVT {} {}", hex(&f.bytes()), t)
        } else {
            format!("P{k} GEN {}", hex(&f.bytes()))
        };
        self.emit(op);
    }

    pub fn bmca_op(&mut self, rng: &Prng) {
        let n = self.w.ports.len();
        let mut order: Vec<usize> = (1..=n).collect();
        for i in (1..n).rev() {
            let j = rng.below(i as u64 + 1) as usize;
            order.swap(i, j);
        }
        let s: Vec<String> = order.iter().map(|x| x.to_string()).collect();
        self.emit(format!("BMCA {}", s.join(",")));
    }

    pub fn timer_op(&mut self, rng: &Prng) {
        let k = 1 + rng.below(self.w.ports.len() as u64) as usize;
        let st = self.w.ports[k - 1].state.clone();
        let choice = match (st.as_str(), rng.below(10)) {
            ("Master", 0..=3) => "ann",
            ("Master", 4..=7) => "sync",
            ("Slave", 0..=6) => "delay",
            (_, 8) => "rcpt",
            (_, x) => ["ann", "sync", "delay", "rcpt", "filt", "delay", "ann", "sync", "rcpt", "delay"][x as usize],
        };
        if choice == "ann" {
            let loose = rng.chance(4, 5);
            let mut items: Vec<String> = std::mem::take(&mut self.w.ports[k - 1].queue);
            if rng.chance(1, 6) {
                // synthetic queue entries: sizes around the margin, other senders
                let sender = if rng.chance(2, 3) && !self.w.parent.is_empty() { self.w.parent.clone() } else { format!("{}:1", clock_hex(rng.pick(&CLOCKS))) };
                let len = *rng.pick(&[0usize, 2, 100, 900, 940, 944, 946, 948, 950, 952, 954, 956, 958, 1000]);
                let ty = *rng.pick(&[0x4000u16, 0x0009, 0x0008, 0x7fff]);
                items.push(format!("{}:{}:{}", sender, ty, hex(&rng.bytes(len))));
            }
            let op = format!("P{k} TMR ann {} {}", loose as u8, items.join(" "));
            let obs = self.emit(op.trim_end().to_string());
            // whatever was not consumed stays queued
            if let Some(q) = obs.split(" | ").next().and_then(|x| x.rsplit(" q=").next()).and_then(|x| x.parse::<usize>().ok()) {
                let rem = items.len().saturating_sub(q);
                self.w.ports[k - 1].queue = items[rem..].to_vec();
            }
        } else {
            self.emit(format!("P{k} TMR {choice}"));
        }
    }

    pub fn txts_op(&mut self, rng: &Prng) {
        let k = 1 + rng.below(self.w.ports.len() as u64) as usize;
        let t = self.w.t(rng);
        let ctx = if !self.w.ports[k - 1].pending_ctx.is_empty() && rng.chance(5, 6) {
            let i = rng.below(self.w.ports[k - 1].pending_ctx.len() as u64) as usize;
            if rng.chance(3, 4) { self.w.ports[k - 1].pending_ctx.remove(i) } else { self.w.ports[k - 1].pending_ctx[i].clone() }
        } else {
            let id = rng.below(4) as u16;
            match rng.below(4) {
                0 => format!("sync:{id}"),
                1 => format!("dreq:{id}"),
                2 => format!("pdreq:{id}"),
                _ => format!("pdresp:{id}:{}:1", clock_hex(&CLOCKS[2])),
            }
        };
        let parts: Vec<&str> = ctx.splitn(3, ':').collect();
        let op = match parts[0] {
            "pdresp" if parts.len() == 3 => format!("P{k} TXTS pdresp {} {} {}", parts[1], parts[2], t),
            kind if parts.len() >= 2 => format!("P{k} TXTS {kind} {} {}", parts[1], t),
            _ => return,
        };
        self.emit(op);
    }

    fn correction(rng: &Prng) -> i64 {
        match rng.below(12) {
            0 => i64::MAX,
            1 => i64::MIN,
            2 => -(rng.log_u128(62) as i64),
            3 => (rng.log_u128(40) as i64) << 16,
            4 | 5 => rng.log_u128(30) as i64,
            _ => 0,
        }
    }

    /// Sync / Follow_Up / Delay_Resp traffic towards a slave port (or any port, to test gating)
    pub fn sync_op(&mut self, rng: &Prng) {
        let slaves: Vec<usize> = self.w.ports.iter().enumerate().filter(|(_, p)| p.state == "Slave").map(|(i, _)| i + 1).collect();
        let k = if !slaves.is_empty() && rng.chance(5, 6) { *rng.pick(&slaves) } else { 1 + rng.below(self.w.ports.len() as u64) as usize };
        // the sender: the parent (if it is one of our masters) most of the time
        let parent_idx = self.w.masters.iter().position(|m| format!("{}:{}", clock_hex(&m.clock), m.port) == self.w.parent);
        let mi = match parent_idx {
            Some(i) if rng.chance(5, 6) => i,
            _ => rng.below(self.w.masters.len() as u64) as usize,
        };
        let t_recv = self.w.t(rng);
        let delay = rng.log_u128(50) % (SEC / 100);
        let t_send = t_recv.saturating_sub(delay);
        let kind = rng.below(10);
        let m = self.w.masters[mi].clone();
        match kind {
            0..=3 => {
                // Sync
                let seq = match rng.below(8) {
                    0 => m.sync_seq, // duplicate of the last
                    _ => {
                        self.w.masters[mi].sync_seq = m.sync_seq.wrapping_add(1);
                        self.w.masters[mi].sync_seq
                    }
                };
                let (s, n, _) = split_time(t_send);
                let mut f = self.base_frame(rng, 0x0, m.clock, m.port, seq).with_ts_body(if m.two_step { 0 } else { s }, if m.two_step { 0 } else { n });
                f.flags[0] = if m.two_step { 0x02 } else { 0 };
                f.correction = Self::correction(rng);
                let mut class = "sync";
                if rng.chance(1, 12) {
                    class = self.foreignize(rng, &mut f);
                }
                self.out.count(&format!("gen.{class}"));
                self.w.ports[k - 1].last_sync = Some((mi, seq, t_send));
                self.emit(format!("P{k} EVT {} {}", hex(&f.bytes()), t_recv));
            }
            4..=6 => {
                // Follow_Up for the last (or another) sync
                let (seq, ts) = match self.w.ports[k - 1].last_sync {
                    Some((i, seq, ts)) if i == mi && rng.chance(5, 6) => (seq, ts),
                    _ => (m.sync_seq.wrapping_add(rng.below(3) as u16), t_send),
                };
                let (s, n, sub) = split_time(ts);
                let mut f = self.base_frame(rng, 0x8, m.clock, m.port, seq).with_ts_body(s, n);
                f.correction = if rng.chance(2, 3) { sub } else { Self::correction(rng) };
                let mut class = "followup";
                if rng.chance(1, 12) {
                    class = self.foreignize(rng, &mut f);
                }
                self.out.count(&format!("gen.{class}"));
                self.emit(format!("P{k} GEN {}", hex(&f.bytes())));
            }
            _ => {
                // Delay_Resp
                let id = match self.w.ports[k - 1].last_dreq {
                    Some(id) if rng.chance(5, 6) => id,
                    Some(id) => id.wrapping_sub(1),
                    None => rng.below(3) as u16,
                };
                let (s, n, sub) = split_time(t_recv);
                let (rc, rp) = if rng.chance(7, 8) { (self.w.own_clock, k as u16) } else { (*rng.pick(&CLOCKS), 1 + rng.below(3) as u16) };
                let mut f = self.base_frame(rng, 0x9, m.clock, m.port, id).with_ts_pid_body(s, n, rc, rp);
                f.correction = if rng.chance(2, 3) { sub } else { Self::correction(rng) };
                let mut class = "delayresp";
                if rng.chance(1, 12) {
                    class = self.foreignize(rng, &mut f);
                }
                self.out.count(&format!("gen.{class}"));
                self.emit(format!("P{k} GEN {}", hex(&f.bytes())));
            }
        }
    }

    /// requests from foreign slaves / peers towards our ports
    pub fn request_op(&mut self, rng: &Prng) {
        let k = 1 + rng.below(self.w.ports.len() as u64) as usize;
        let t = self.w.t(rng);
        let clock = *rng.pick(&CLOCKS[2..]);
        let ty = if rng.chance(1, 2) { 0x1 } else { 0x2 };
        let mut f = self.base_frame(rng, ty, clock, 1 + rng.below(2) as u16, rng.next_u64() as u16).with_ts_body(0, 0);
        f.correction = Self::correction(rng);
        f.flags = [rng.next_u64() as u8 & 0x67, rng.next_u64() as u8 & 0x7f];
        f.log_interval = rng.next_u64() as i8;
        if rng.chance(1, 12) {
            self.foreignize(rng, &mut f);
        }
        self.out.count(if ty == 1 { "gen.delayreq" } else { "gen.pdelayreq" });
        self.emit(format!("P{k} EVT {} {}", hex(&f.bytes()), t));
    }

    /// peer delay responses / follow-ups for P2P ports, from one or two responders
    pub fn pdelay_op(&mut self, rng: &Prng) {
        let p2p: Vec<usize> = self.w.ports.iter().enumerate().filter(|(_, p)| p.p2p).map(|(i, _)| i + 1).collect();
        let k = if !p2p.is_empty() && rng.chance(7, 8) { *rng.pick(&p2p) } else { 1 + rng.below(self.w.ports.len() as u64) as usize };
        let id = match self.w.ports[k - 1].last_pdreq {
            Some(id) if rng.chance(6, 7) => id,
            Some(id) => id.wrapping_sub(1),
            None => rng.below(2) as u16,
        };
        let responder = if rng.chance(4, 5) { CLOCKS[4] } else { CLOCKS[5] };
        let t = self.w.t(rng);
        let (rc, rp) = if rng.chance(9, 10) { (self.w.own_clock, k as u16) } else { (CLOCKS[3], 1) };
        let t2 = t.saturating_sub(rng.log_u128(45));
        let (s, n, sub) = split_time(t2);
        if rng.chance(1, 2) {
            let mut f = self.base_frame(rng, 0x3, responder, 1, id).with_ts_pid_body(s, n, rc, rp);
            f.flags[0] = if rng.chance(2, 3) { 0x02 } else { 0 };
            f.correction = if rng.chance(3, 4) { 0 } else { Self::correction(rng) };
            if rng.chance(1, 14) {
                self.foreignize(rng, &mut f);
            }
            self.out.count("gen.pdelayresp");
            self.emit(format!("P{k} EVT {} {}", hex(&f.bytes()), t));
        } else {
            let mut f = self.base_frame(rng, 0xa, responder, 1, id).with_ts_pid_body(s, n, rc, rp);
            f.correction = if rng.chance(3, 4) { sub } else { Self::correction(rng) };
            if rng.chance(1, 14) {
                self.foreignize(rng, &mut f);
            }
            self.out.count("gen.pdelayrespfu");
            self.emit(format!("P{k} GEN {}", hex(&f.bytes())));
        }
    }

    pub fn garbage_op(&mut self, rng: &Prng) {
        let k = 1 + rng.below(self.w.ports.len() as u64) as usize;
        let data = match rng.below(4) {
            0 => rng.bytes(rng.below(80) as usize),
            1 => {
                let mut f = super::wire::valid_frame(rng, *rng.pick(&super::wire::TYPES), &[]);
                f[4] = self.w.own_domain;
                f[5] = self.w.own_sdo as u8;
                f[0] = (f[0] & 0x0f) | (((self.w.own_sdo >> 8) as u8) << 4);
                f
            }
            2 => {
                // management / signaling in our domain
                let ty = if rng.chance(1, 2) { 0xc } else { 0xd };
                let mut fr = self.base_frame(rng, ty, CLOCKS[4], 1, 9);
                fr.body = rng.bytes(if ty == 0xc { 10 } else { 14 });
                fr.bytes()
            }
            _ => {
                let l = *rng.pick(&[0usize, 1, 2, 33, 34, 35, 43, 44, 1024, 2048]);
                rng.bytes(l)
            }
        };
        self.out.count("gen.garbage");
        if rng.chance(1, 2) {
            self.emit(format!("P{k} GEN {}", hex(&data)));
        } else {
            let t = self.w.t(rng);
            self.emit(format!("P{k} EVT {} {}", hex(&data), t));
        }
    }

    pub fn set_op(&mut self, rng: &Prng) {
        if rng.chance(1, 4) {
            // the host's clock starts / stops refusing `set_properties`
            self.out.count("gen.clock-props-fail");
            self.emit(format!("SET clock_props_fail {}", rng.chance(2, 3) as u8));
        } else if rng.chance(1, 2) {
            let b = rng.chance(1, 2);
            self.w.slave_only = b;
            self.emit(format!("SET slave_only {}", b as u8));
        } else {
            self.emit(format!("SET quality {} {} {}", *rng.pick(&[6u8, 127, 128, 248, 255]), *rng.pick(&[0x20u8, 0xfe]), *rng.pick(&[0u16, 0xffff])));
        }
    }

    /// a master announces steadily on one port, then BMCA runs: the usual way a port becomes Slave / Passive
    pub fn announce_burst(&mut self, rng: &Prng) {
        let k = 1 + rng.below(self.w.ports.len() as u64) as usize;
        let mi = rng.below(self.w.masters.len() as u64) as usize;
        let n = 2 + rng.below(2);
        // two ports of the instance on one segment: both hear the very same Announces (same bytes, same BMCA period)
        let np = self.w.ports.len();
        let twin = if np >= 2 && rng.chance(1, 3) { Some(1 + (k - 1 + 1 + rng.below(np as u64 - 1) as usize) % np) } else { None };
        for _ in 0..n {
            if self.dead {
                return;
            }
            self.w.masters[mi].seq = self.w.masters[mi].seq.wrapping_add(1);
            let m = self.w.masters[mi].clone();
            let mut f = self.base_frame(rng, 0xb, m.clock, m.port, m.seq);
            f.flags[1] = m.flags1;
            f.set_announce(&m.ann);
            self.out.count("gen.announce-burst");
            let bytes = hex(&f.bytes());
            self.emit(format!("P{k} GEN {bytes}"));
            if let Some(j) = twin {
                if self.dead {
                    return;
                }
                self.out.count("gen.announce-burst-twin");
                self.emit(format!("P{j} GEN {bytes}"));
            }
        }
        if !self.dead {
            self.bmca_op(rng);
        }
    }

    /// more senders than the foreign master list has room for (8): Announces from 9 to 12 distinct port identities
    /// reach one port within one BMCA period
    pub fn announce_flood(&mut self, rng: &Prng) {
        let k = 1 + rng.below(self.w.ports.len() as u64) as usize;
        let n = 9 + rng.below(4) as u16;
        let base = *rng.pick(&CLOCKS[2..]);
        for i in 0..n {
            if self.dead {
                return;
            }
            let clock = if i % 3 == 0 { base } else { *rng.pick(&CLOCKS[2..]) };
            let port = 10 + i; // distinct port numbers make the identities distinct whatever the clock
            let mut f = self.base_frame(rng, 0xb, clock, port, rng.below(4) as u16);
            f.flags[1] = 0x08;
            f.set_announce(&random_ann(rng, clock));
            self.out.count("gen.announce-flood");
            self.emit(format!("P{k} GEN {}", hex(&f.bytes())));
        }
        if !self.dead && rng.chance(1, 2) {
            self.bmca_op(rng);
        }
    }

    /// two masters that are two ports of one clock: a burst from the one that is not the current parent, then a BMCA
    /// run - the parent moves between port identities of one clock identity (or stays, if the other one is worse)
    pub fn twin_burst(&mut self, rng: &Prng) -> bool {
        let parent = self.w.parent.clone();
        let pair = (0..self.w.masters.len()).find_map(|i| {
            (0..self.w.masters.len()).find(|&j| j != i && self.w.masters[j].clock == self.w.masters[i].clock && self.w.masters[j].port != self.w.masters[i].port).map(|j| (i, j))
        });
        let Some((i, j)) = pair else { return false };
        let is_parent = |m: &Master| format!("{}:{}", clock_hex(&m.clock), m.port) == parent;
        let mi = if is_parent(&self.w.masters[i]) { j } else { i };
        let slaves: Vec<usize> = self.w.ports.iter().enumerate().filter(|(_, p)| p.state == "Slave").map(|(x, _)| x + 1).collect();
        let k = if slaves.is_empty() { 1 + rng.below(self.w.ports.len() as u64) as usize } else { *rng.pick(&slaves) };
        for _ in 0..2 + rng.below(2) {
            if self.dead {
                return true;
            }
            self.w.masters[mi].seq = self.w.masters[mi].seq.wrapping_add(1);
            let m = self.w.masters[mi].clone();
            let mut f = self.base_frame(rng, 0xb, m.clock, m.port, m.seq);
            f.flags[1] = m.flags1;
            f.set_announce(&m.ann);
            self.out.count("gen.twin-burst");
            self.emit(format!("P{k} GEN {}", hex(&f.bytes())));
        }
        if !self.dead {
            self.bmca_op(rng);
        }
        true
    }

    /// the parent hands over to another port of its own clock in the middle of an exchange: a two-step Sync (and a
    /// delay request) of the old parent port is still open when the BMCA selects the sibling port; the sibling then
    /// sends the Follow_Up / Delay_Resp with the same sequence ids (ports of one clock count in step). Nothing of the
    /// old parent's open exchanges may be completed by the new one.
    pub fn twin_handover(&mut self, rng: &Prng) -> bool {
        let parent = self.w.parent.clone();
        let is_parent = |m: &Master| format!("{}:{}", clock_hex(&m.clock), m.port) == parent;
        let Some(pi) = self.w.masters.iter().position(|m| is_parent(m)) else { return false };
        let Some(oi) = (0..self.w.masters.len()).find(|&j| j != pi && self.w.masters[j].clock == self.w.masters[pi].clock && self.w.masters[j].port != self.w.masters[pi].port) else {
            return false;
        };
        let Some(k) = self.w.ports.iter().position(|p| p.state == "Slave").map(|i| i + 1) else { return false };
        self.out.count("gen.twin-handover");
        // an open two-step Sync of the parent
        let seq = self.w.masters[pi].sync_seq.wrapping_add(1);
        self.w.masters[pi].sync_seq = seq;
        self.w.masters[oi].sync_seq = seq;
        let old = self.w.masters[pi].clone();
        let new = self.w.masters[oi].clone();
        let t_recv = self.w.t(rng);
        let t_send = t_recv.saturating_sub(rng.log_u128(50) % (SEC / 1000));
        let (s, n, sub) = split_time(t_send);
        let mut sync = self.base_frame(rng, 0x0, old.clock, old.port, seq).with_ts_body(0, 0);
        sync.flags[0] = 0x02;
        self.emit(format!("P{k} EVT {} {}", hex(&sync.bytes()), t_recv));
        if self.dead {
            return true;
        }
        // an open delay request as well (every other time)
        let mut dreq: Option<(u16, u128)> = None;
        if rng.chance(1, 2) {
            self.emit(format!("P{k} TMR delay"));
            if self.dead {
                return true;
            }
            if let Some(id) = self.w.ports[k - 1].last_dreq {
                let t_tx = self.w.t(rng);
                self.w.ports[k - 1].pending_ctx.retain(|c| c != &format!("dreq:{id}"));
                self.emit(format!("P{k} TXTS dreq {id} {t_tx}"));
                dreq = Some((id, t_tx));
            }
        }
        // the sibling port announces; the BMCA decides (the sibling is taken when it ranks better, e.g. by port number)
        for _ in 0..3 {
            if self.dead {
                return true;
            }
            self.w.masters[oi].seq = self.w.masters[oi].seq.wrapping_add(1);
            let m = self.w.masters[oi].clone();
            let mut f = self.base_frame(rng, 0xb, m.clock, m.port, m.seq);
            f.flags[1] = m.flags1;
            f.set_announce(&m.ann);
            self.emit(format!("P{k} GEN {}", hex(&f.bytes())));
        }
        if self.dead {
            return true;
        }
        self.emit(format!("BMCA {}", (1..=self.w.ports.len()).map(|x| x.to_string()).collect::<Vec<_>>().join(",")));
        if self.dead {
            return true;
        }
        // the sibling completes what its twin began
        let mut fu = self.base_frame(rng, 0x8, new.clock, new.port, seq).with_ts_body(s, n);
        fu.correction = sub;
        self.emit(format!("P{k} GEN {}", hex(&fu.bytes())));
        if let (Some((id, t_tx)), false) = (dreq, self.dead) {
            let t_rx = t_tx + rng.log_u128(50) % (SEC / 1000);
            let (s2, n2, sub2) = split_time(t_rx);
            let mut resp = self.base_frame(rng, 0x9, new.clock, new.port, id).with_ts_pid_body(s2, n2, self.w.own_clock, k as u16);
            resp.correction = sub2;
            self.emit(format!("P{k} GEN {}", hex(&resp.bytes())));
        }
        true
    }

    /// a complete (possibly perturbed) Sync [+ Follow_Up] exchange and a Delay exchange on a slave port
    pub fn exchange(&mut self, rng: &Prng) {
        let slaves: Vec<usize> = self.w.ports.iter().enumerate().filter(|(_, p)| p.state == "Slave").map(|(i, _)| i + 1).collect();
        if slaves.is_empty() {
            return self.sync_op(rng);
        }
        let k = *rng.pick(&slaves);
        let Some(mi) = self.w.masters.iter().position(|m| format!("{}:{}", clock_hex(&m.clock), m.port) == self.w.parent) else {
            return self.sync_op(rng);
        };
        self.w.masters[mi].sync_seq = self.w.masters[mi].sync_seq.wrapping_add(1);
        let m = self.w.masters[mi].clone();
        let t_recv = self.w.t(rng);
        let delay = rng.log_u128(52) % (SEC / 100);
        let t_send = t_recv.saturating_sub(delay);
        let (s, n, sub) = split_time(t_send);
        let mut sync = self.base_frame(rng, 0x0, m.clock, m.port, m.sync_seq).with_ts_body(if m.two_step { 0 } else { s }, if m.two_step { 0 } else { n });
        sync.flags[0] = if m.two_step { 0x02 } else { 0 };
        sync.correction = if rng.chance(1, 2) { (rng.log_u128(34) as i64) } else { 0 };
        let mut fu = self.base_frame(rng, 0x8, m.clock, m.port, m.sync_seq).with_ts_body(s, n);
        fu.correction = sub + if rng.chance(1, 3) { rng.log_u128(30) as i64 } else { 0 };
        let sync_op = format!("P{k} EVT {} {}", hex(&sync.bytes()), t_recv);
        let fu_op = format!("P{k} GEN {}", hex(&fu.bytes()));
        self.w.ports[k - 1].last_sync = Some((mi, m.sync_seq, t_send));
        self.out.count("gen.exchange");
        // orderings: sync,fu | fu,sync | sync,sync,fu | sync only | fu only | sync,fu,fu
        let order: &[u8] = *rng.pick(&[&[0u8, 1][..], &[0, 1], &[0, 1], &[1, 0], &[0, 0, 1], &[0], &[1], &[0, 1, 1], &[1, 0, 1]]);
        for &x in order {
            if self.dead {
                return;
            }
            if x == 0 {
                self.emit(sync_op.clone());
            } else if m.two_step || rng.chance(1, 4) {
                self.emit(fu_op.clone());
            }
        }
        if self.dead || rng.chance(1, 3) {
            return;
        }
        // delay exchange: timer -> Delay_Req, transmit timestamp, Delay_Resp (any order of the last two)
        self.emit(format!("P{k} TMR delay"));
        if self.dead {
            return;
        }
        let Some(id) = self.w.ports[k - 1].last_dreq else { return };
        let t_tx = self.w.t(rng);
        let t_rx = t_tx + rng.log_u128(52) % (SEC / 100);
        let (s2, n2, sub2) = split_time(t_rx);
        let mut resp = self.base_frame(rng, 0x9, m.clock, m.port, id).with_ts_pid_body(s2, n2, self.w.own_clock, k as u16);
        resp.correction = sub2 + if rng.chance(1, 3) { rng.log_u128(30) as i64 } else { 0 };
        let ts_op = format!("P{k} TXTS dreq {id} {t_tx}");
        let resp_op = format!("P{k} GEN {}", hex(&resp.bytes()));
        let order: &[u8] = *rng.pick(&[&[0u8, 1][..], &[0, 1], &[1, 0], &[0, 0, 1], &[0, 1, 1], &[1], &[0]]);
        for &x in order {
            if self.dead {
                return;
            }
            self.w.ports[k - 1].pending_ctx.retain(|c| c != &format!("dreq:{id}"));
            self.emit(if x == 0 { ts_op.clone() } else { resp_op.clone() });
        }
    }

    /// a complete peer delay exchange on a P2P port (one or two responders)
    pub fn pdelay_exchange(&mut self, rng: &Prng) {
        let p2p: Vec<usize> = self.w.ports.iter().enumerate().filter(|(_, p)| p.p2p).map(|(i, _)| i + 1).collect();
        if p2p.is_empty() {
            return self.pdelay_op(rng);
        }
        let k = *rng.pick(&p2p);
        let prev_id = self.w.ports[k - 1].last_pdreq;
        self.emit(format!("P{k} TMR delay"));
        if self.dead {
            return;
        }
        let Some(id) = self.w.ports[k - 1].last_pdreq else { return };
        self.w.ports[k - 1].pending_ctx.retain(|c| c != &format!("pdreq:{id}"));
        // the transmit timestamp of the *previous* request, reported only now (it belongs to no exchange any more)
        if let Some(p) = prev_id {
            if p != id && rng.chance(1, 3) {
                let t_late = self.w.t(rng);
                self.out.count("gen.pdelay-late-previous-timestamp");
                self.emit(format!("P{k} TXTS pdreq {p} {t_late}"));
                if self.dead {
                    return;
                }
            }
        }
        let t1 = self.w.t(rng);
        let d = rng.log_u128(48) % (SEC / 1000);
        let t2 = t1 + d;
        let t3 = t2 + rng.log_u128(50) % (SEC / 1000);
        let t4 = t3 + d;
        self.w.now = t4;
        let two_step = rng.chance(2, 3);
        let r1 = CLOCKS[4];
        let r2 = CLOCKS[5];
        let (s2, n2, _sub2) = split_time(t2);
        let (s3, n3, sub3) = split_time(t3);
        let mk_resp = |g: &Self, who: [u8; 8]| {
            let mut f = g.base_frame(rng, 0x3, who, 1, id).with_ts_pid_body(s2, n2, g.w.own_clock, k as u16);
            f.flags[0] = if two_step { 0x02 } else { 0 };
            f.correction = if two_step { 0 } else { ((t3 - t2) >> 16) as i64 };
            format!("P{k} EVT {} {}", hex(&f.bytes()), t4)
        };
        let mk_fu = |g: &Self, who: [u8; 8]| {
            let mut f = g.base_frame(rng, 0xa, who, 1, id).with_ts_pid_body(s3, n3, g.w.own_clock, k as u16);
            f.correction = sub3;
            format!("P{k} GEN {}", hex(&f.bytes()))
        };
        // a follow-up that answers a sibling port of this instance (same clock, next port number) with the same
        // sequence id, from the same responder: not this port's
        let mk_sibling_fu = |g: &Self, who: [u8; 8]| {
            let mut f = g.base_frame(rng, 0xa, who, 1, id).with_ts_pid_body(s3 + 1, n3, g.w.own_clock, k as u16 + 1);
            f.correction = sub3;
            format!("P{k} GEN {}", hex(&f.bytes()))
        };
        let ts_op = format!("P{k} TXTS pdreq {id} {t1}");
        self.out.count("gen.pdelay-exchange");
        // 0 = tx timestamp, 1 = resp(r1), 2 = fu(r1), 3 = resp(r2), 4 = fu(r2)
        let order: &[u8] = *rng.pick(&[
            &[0u8, 1, 2][..], &[0, 1, 2], &[1, 0, 2], &[1, 2, 0], &[2, 1, 0], &[0, 1, 1, 2], &[0, 1, 3], &[0, 1, 2, 3], &[0, 1, 2, 4],
            &[0, 3, 1, 2], &[0, 1], &[0, 2], &[1, 2], &[0, 1, 2, 1], &[0, 1, 4], &[0, 1, 5, 2], &[0, 5, 1, 2], &[1, 5, 0, 2],
        ]);
        for &x in order {
            if self.dead {
                return;
            }
            let op = match x {
                0 => ts_op.clone(),
                1 => mk_resp(self, r1),
                2 => {
                    if two_step {
                        mk_fu(self, r1)
                    } else {
                        continue;
                    }
                }
                3 => mk_resp(self, r2),
                5 => {
                    if two_step {
                        mk_sibling_fu(self, r1)
                    } else {
                        continue;
                    }
                }
                _ => mk_fu(self, r2),
            };
            self.emit(op);
        }
    }


    /// C14 end to end: the Pdelay_Req of P2P port k is carried to another port j of the same instance (a looped
    /// cable through a transparent clock that adds residence time to the correction fields), port j's own
    /// Pdelay_Resp and Pdelay_Resp_Follow_Up are carried back. Both ends are the real code, so the link delay handed
    /// to the filter must be the true one-way delay of the simulated cable, whatever the residence times were.
    pub fn pdelay_loop(&mut self, rng: &Prng) {
        let np = self.w.ports.len();
        let p2p: Vec<usize> = self.w.ports.iter().enumerate().filter(|(_, p)| p.p2p).map(|(i, _)| i + 1).collect();
        if p2p.is_empty() || np < 2 {
            return self.pdelay_exchange(rng);
        }
        let k = *rng.pick(&p2p);
        let j = loop {
            let c = 1 + rng.below(np as u64) as usize;
            if c != k {
                break c;
            }
        };
        let sent = |obs: &str, port: usize, kind: &str| -> Option<String> {
            obs.split(" | ").next().unwrap_or("").split(" ; ").find_map(|item| {
                let rest = item.strip_prefix(&format!("P{port}:send {kind} "))?;
                rest.split_whitespace().find(|t| t.len() >= 88 && t.bytes().all(|b| b.is_ascii_hexdigit())).map(|t| t.to_string())
            })
        };
        let add_corr = |h: &str, add: i64| -> String {
            let mut b = crate::out::unhex(h).unwrap_or_default();
            if b.len() >= 16 {
                let mut c = [0u8; 8];
                c.copy_from_slice(&b[8..16]);
                let v = i64::from_be_bytes(c).wrapping_add(add);
                b[8..16].copy_from_slice(&v.to_be_bytes());
            }
            hex(&b)
        };
        let obs = self.emit(format!("P{k} TMR delay"));
        if self.dead {
            return;
        }
        let Some(id) = self.w.ports[k - 1].last_pdreq else { return };
        let Some(req) = sent(&obs, k, "evt") else { return };
        self.w.ports[k - 1].pending_ctx.retain(|c| c != &format!("pdreq:{id}"));
        // the cable: one-way delay d (any sub-nanosecond value), residence times r1 (request) and r2 (response) in
        // units of 2^-16 ns as a transparent clock writes them; the responder's t2 and t3 are whole nanoseconds
        // (its messages carry them to the nanosecond: C10)
        let ns = 1u128 << 32;
        let d = 1 + rng.log_u128(50) % (SEC / 1000);
        let r1 = ((rng.log_u128(36) % (SEC / 1000)) >> 16) << 16;
        let r2 = ((rng.log_u128(36) % (SEC / 1000)) >> 16) << 16;
        let (r1, r2) = if rng.chance(1, 4) { (0, 0) } else { (r1, r2) };
        let t2 = (self.w.t(rng) / ns + 1) * ns + 4 * SEC;
        let t1 = t2 - d - r1;
        let t3 = t2 + (rng.log_u128(50) % (SEC / 1000) / ns) * ns;
        let t4 = t3 + d + r2;
        self.w.now = t4;
        self.out.count("gen.pdelay-loop");
        let obs = self.emit(format!("P{j} EVT {} {}", add_corr(&req, (r1 >> 16) as i64), t2));
        if self.dead {
            return;
        }
        let Some(resp) = sent(&obs, j, "evt") else { return };
        let ctx = format!("pdresp:{id}:{}:{k}", hex(&self.w.own_clock));
        self.w.ports[j - 1].pending_ctx.retain(|c| c != &ctx);
        let obs = self.emit(format!("P{j} TXTS pdresp {id} {}:{k} {t3}", hex(&self.w.own_clock)));
        if self.dead {
            return;
        }
        let Some(fu) = sent(&obs, j, "gen") else { return };
        // the residence time of the way back lands in the response or in its follow-up
        let (c_resp, c_fu) = if rng.chance(1, 2) { (r2, 0) } else { (0, r2) };
        let ops = [
            format!("P{k} TXTS pdreq {id} {t1}"),
            format!("P{k} EVT {} {t4}", add_corr(&resp, (c_resp >> 16) as i64)),
            format!("P{k} GEN {}", add_corr(&fu, (c_fu >> 16) as i64)),
        ];
        let order: &[usize] = *rng.pick(&[&[0usize, 1, 2][..], &[0, 1, 2], &[1, 0, 2], &[1, 2, 0], &[2, 1, 0], &[0, 2, 1]]);
        let mut measured = false;
        for &x in order {
            if self.dead {
                return;
            }
            let op = ops[x].clone();
            let obs = self.emit(op.clone());
            for item in obs.split(" | ").next().unwrap_or("").split(" ; ") {
                let Some(r) = item.strip_prefix(&format!("P{k}:meas ")) else { continue };
                let f: Vec<&str> = r.split_whitespace().collect();
                if f.len() != 6 || f[3] == "-" {
                    continue;
                }
                measured = true;
                if f[3].parse::<i128>().ok() != Some(d as i128) {
                    self.out.oracle("C14", "peer-delay-not-the-link-delay", &format!("{op} -> {item}: request of port {k} answered by port {j} of the same instance over a link of one-way delay {d} (residence {r1} on the way out, {r2} on the way back, both in the correction fields): peer delay {} was handed to the filter", f[3]));
                }
            }
        }
        if measured {
            self.out.count("gen.pdelay-loop-measured");
        }
    }


    /// C19, first clause: `DUMP` prints every field of the data sets the daemon exposes for observation (the getters
    /// `main.rs` builds its `ObservableInstanceState` from). The model prints the same from its own state; the oracle
    /// here compares what the host itself configured (INIT / PORT lines) and the filter estimates of the Slave port.
    pub fn dump_op(&mut self) {
        if self.dead {
            return;
        }
        let obs = self.ex.exec("DUMP");
        self.out.op("DUMP", &obs);
        self.out.count("op.DUMP");
        if obs == "R panic" {
            self.dead = true;
            self.out.oracle("C03", "panic in DUMP", "DUMP -> an observability getter panicked");
            return;
        }
        let seg = |name: &str| -> Vec<String> {
            obs.split(" | ").find(|p| p.starts_with(name)).map(|p| p.split_whitespace().skip(1).map(|x| x.to_string()).collect()).unwrap_or_default()
        };
        let init: Vec<&str> = self.w.init_line.split_whitespace().collect();
        let df = seg("OBSV DF");
        // OBSV DF <clock> <nports> <class> <acc> <var> <p1> <p2> <domain> <slave_only> <sdo>   (first token after OBSV is DF)
        let df: Vec<String> = df.into_iter().skip(1).collect();
        if init.len() == 17 && df.len() == 10 {
            let want = [init[1], init[2], init[3], init[4], init[5]]; // clock p1 p2 domain sdo
            let got = [df[0].as_str(), df[5].as_str(), df[6].as_str(), df[7].as_str(), df[9].as_str()];
            if want != got {
                self.out.oracle("C19", "observed-default-ds-differs-from-configuration", &format!("DUMP -> default data set shows (clock, p1, p2, domain, sdoId) = {got:?}, the instance was configured with {want:?}"));
            }
            if df[1] != self.w.ports.len().to_string() {
                self.out.oracle("C19", "observed-default-ds-differs-from-configuration", &format!("DUMP -> numberPorts {} with {} ports", df[1], self.w.ports.len()));
            }
        } else {
            self.out.oracle("C19", "observable-dump-malformed", &format!("DUMP -> {obs}"));
        }
        let cu = seg("CU");
        let slave = self.w.ports.iter().position(|p| p.state == "Slave").map(|i| i + 1);
        let (wo, wd) = match slave {
            Some(k) => (super::inst::est_offset_bits(k), super::inst::est_delay_bits(k)),
            None => (0, 0),
        };
        if cu.len() != 3 || cu[1] != wo.to_string() || cu[2] != wd.to_string() {
            self.out.oracle("C19", "observed-current-ds-not-the-slave-ports-estimate", &format!("DUMP -> current data set {cu:?}; Slave port {slave:?}, whose filter reports offset {wo} and mean delay {wd}"));
        }
        for (i, pl) in self.w.port_lines.clone().iter().enumerate() {
            let w: Vec<&str> = pl.split_whitespace().collect();
            let got = seg(&format!("P{} ", i + 1));
            if w.len() != 10 || got.len() != 12 {
                self.out.oracle("C19", "observable-dump-malformed", &format!("DUMP -> port {} missing in {obs}", i + 1));
                continue;
            }
            let asym: i128 = w[8].parse().unwrap_or(0);
            let tiv = (asym >> 16).clamp(i64::MIN as i128, i64::MAX as i128);
            let mech = if w[2] == "1" { "P2P" } else { "E2E" };
            // P<k> <pid> <state> <annlog> <timeout> <synclog> <mech> <delaylog> <mld> <ver> <minor> <asym> <master_only>
            let want = [w[4].to_string(), w[5].to_string(), w[6].to_string(), mech.to_string(), w[3].to_string(), "2".to_string(), w[9].to_string(), tiv.to_string(), w[7].to_string()];
            let gotv = [got[2].clone(), got[3].clone(), got[4].clone(), got[5].clone(), got[6].clone(), got[8].clone(), got[9].clone(), got[10].clone(), got[11].clone()];
            if want != gotv {
                self.out.oracle("C19", "observed-port-ds-differs-from-configuration", &format!("DUMP -> port {} shows (announce, timeout, sync, mechanism, delay interval, version, minor, asymmetry, master-only) = {gotv:?}, configured {want:?}", i + 1));
            }
            // a P2P port shows the link delay it last measured, in whatever state it is
            if mech == "P2P" {
                let want_mld = self.w.ports[i].last_mean_delay.map(|d| (d >> 16).clamp(i64::MIN as i128, i64::MAX as i128)).unwrap_or(0);
                if got[7] != want_mld.to_string() {
                    self.out.oracle("C19", "observed-mean-link-delay-not-the-measured-one", &format!("DUMP -> port {} ({}) shows mean link delay {} (2^-16 ns), the last link delay its filter reported is {want_mld}", i + 1, got[1], got[7]));
                }
            }
            if got[1] != self.w.ports[i].state {
                self.out.oracle("C19", "observed-port-state-differs", &format!("DUMP -> port {} shown as {}, it is {}", i + 1, got[1], self.w.ports[i].state));
            }
            let pid = format!("{}:{}", init.get(1).copied().unwrap_or(""), i + 1);
            if got[0] != pid {
                self.out.oracle("C19", "observed-port-ds-differs-from-configuration", &format!("DUMP -> port {} has identity {}, expected {pid}", i + 1, got[0]));
            }
        }
    }

    /// one random step of the mixed alphabet, biased by what the ports are doing
    pub fn step(&mut self, rng: &Prng) {
        let any_slave = self.w.ports.iter().any(|p| p.state == "Slave");
        let any_p2p = self.w.ports.iter().any(|p| p.p2p);
        let r = rng.below(100);
        if rng.chance(1, 25) {
            self.dump_op();
        }
        if any_slave && r < 30 {
            return self.exchange(rng);
        }
        if any_p2p && (30..40).contains(&r) {
            return if r < 33 { self.pdelay_loop(rng) } else { self.pdelay_exchange(rng) };
        }
        if !any_slave && r < 12 {
            return self.announce_burst(rng);
        }
        if r == 99 && rng.chance(1, 3) {
            return self.announce_flood(rng);
        }
        if (90..94).contains(&r) && any_slave && self.twin_handover(rng) {
            return;
        }
        if (94..99).contains(&r) && self.twin_burst(rng) {
            return;
        }
        match rng.below(100) {
            0..=27 => self.announce_op(rng),
            28..=39 => self.bmca_op(rng),
            40..=54 => self.timer_op(rng),
            55..=62 => self.txts_op(rng),
            63..=80 => self.sync_op(rng),
            81..=86 => self.request_op(rng),
            87..=93 => self.pdelay_op(rng),
            94..=96 => self.garbage_op(rng),
            _ => self.set_op(rng),
        }
    }
}

pub fn new_gen(out: &mut Out) -> Gen<'_> {
    Gen {
        slave_only_from_start: false,
        slave_only_now: false,
        bmca_since_slave_only: false,
        frames: Default::default(),
        view: Default::default(),
        tlvo: Default::default(),
        timed: None,
        last_obs: String::new(),
        last_op: String::new(),
        meas: MeasOracle::default(),
        ex: InstExec::new(),
        out,
        w: World { own_clock: [0; 8], own_sdo: 0, own_domain: 0, masters: vec![], ports: vec![], parent: String::new(), now: 0, path_trace: false, slave_only: false, own_p1: 0, own_class: 0, init_line: String::new(), port_lines: vec![], prev_parent: String::new() },
        ops_in_scenario: 0,
        dead: false,
        on_obs: None,
    }
}

impl<'a> Gen<'a> {
    /// interesting transmit / receive timestamps over the PTP range (U96F32 bits)
    fn edge_time(&mut self, rng: &Prng) -> u128 {
        let t = match rng.below(10) {
            0 => 0,
            1 => rng.below(1 << 32) as u128,                                  // below one nanosecond
            2 => (rng.log_u128(48) % (1u128 << 48)) * SEC + rng.log_u128(60) % SEC, // anywhere in the 48-bit seconds range
            3 => ((1u128 << 48) - 1) * SEC + (SEC - 1 - rng.below(1 << 20) as u128), // just below 2^48 s
            4 => (rng.below(1 << 31) as u128) * SEC + 999_999_999 * F32 + rng.below(1 << 32) as u128, // nanosecond carry
            5 => (rng.below(1 << 31) as u128) * SEC + ((rng.below(1_000_000_000) as u128) << 32) + *rng.pick(&[0u128, 1, 0xffff, 0x1_0000, 0xffff_ffff, 0x8000_0000]),
            _ => self.w.t(rng),
        };
        t
    }

    /// make port k Master if the configuration allows it (announce receipt timeout)
    fn become_master(&mut self, k: usize) -> bool {
        self.emit(format!("P{k} TMR rcpt"));
        !self.dead && self.w.ports[k - 1].state == "Master"
    }

    /// the pending timestamp context `kind:` of port k, if any (removed from the pending list)
    fn take_ctx(&mut self, k: usize, kind: &str) -> Option<String> {
        let pv = &mut self.w.ports[k - 1];
        let i = pv.pending_ctx.iter().position(|c| c.starts_with(kind))?;
        Some(pv.pending_ctx.remove(i))
    }

    fn txts_for(&mut self, k: usize, ctx: &str, t: u128) {
        let parts: Vec<&str> = ctx.splitn(3, ':').collect();
        let op = match parts[0] {
            "pdresp" if parts.len() == 3 => format!("P{k} TXTS pdresp {} {} {}", parts[1], parts[2], t),
            kind if parts.len() >= 2 => format!("P{k} TXTS {kind} {} {}", parts[1], t),
            _ => return,
        };
        self.emit(op);
    }

    /// master-side traffic on port k: Sync + transmit timestamp, Delay_Req, Pdelay_Req + transmit timestamp, Announce
    pub fn master_step(&mut self, rng: &Prng, k: usize) {
        match rng.below(20) {
            0..=5 => {
                self.emit(format!("P{k} TMR sync"));
                if self.dead {
                    return;
                }
                if let Some(ctx) = self.take_ctx(k, "sync:") {
                    let t = self.edge_time(rng);
                    match rng.below(10) {
                        0 => {}                                   // timestamp lost
                        1 => {
                            // duplicate report
                            self.txts_for(k, &ctx, t);
                            if !self.dead {
                                self.txts_for(k, &ctx, t);
                            }
                        }
                        _ => self.txts_for(k, &ctx, t),
                    }
                }
            }
            6..=10 => {
                // Delay_Req from some slave
                let t = self.edge_time(rng);
                let clock = *rng.pick(&CLOCKS[2..]);
                let mut f = self.base_frame(rng, 0x1, clock, rng.next_u64() as u16, rng.next_u64() as u16).with_ts_body(0, 0);
                f.correction = match rng.below(8) {
                    0 => 0,
                    1 => -(rng.log_u128(62) as i64),
                    2 => rng.log_u128(62) as i64,
                    3 => i64::MAX - rng.below(70000) as i64,
                    4 => i64::MIN + rng.below(70000) as i64,
                    _ => (rng.log_u128(46) as i64) * if rng.chance(1, 2) { 1 } else { -1 },
                };
                f.flags = [rng.next_u64() as u8 & 0x67, rng.next_u64() as u8 & 0x7f];
                f.log_interval = rng.next_u64() as i8;
                if rng.chance(1, 16) {
                    self.foreignize(rng, &mut f);
                }
                self.out.count("gen.delayreq");
                self.emit(format!("P{k} EVT {} {}", hex(&f.bytes()), t));
            }
            11..=14 => {
                let t = self.edge_time(rng);
                let clock = *rng.pick(&CLOCKS[2..]);
                let mut f = self.base_frame(rng, 0x2, clock, rng.next_u64() as u16, rng.next_u64() as u16).with_ts_body(0, 0);
                f.correction = Self::correction(rng);
                self.out.count("gen.pdelayreq");
                self.emit(format!("P{k} EVT {} {}", hex(&f.bytes()), t));
                if self.dead {
                    return;
                }
                if let Some(ctx) = self.take_ctx(k, "pdresp:") {
                    if rng.chance(7, 8) {
                        let t2 = self.edge_time(rng);
                        self.txts_for(k, &ctx, t2);
                    }
                }
            }
            15..=17 => {
                self.emit(format!("P{k} TMR ann 1"));
            }
            18 => {
                // a stale / invented context
                let t = self.edge_time(rng);
                let id = rng.next_u64() as u16;
                self.emit(format!("P{k} TXTS sync {id} {t}"));
            }
            _ => self.step(rng),
        }
    }
}

impl<'a> Gen<'a> {
    /// the current parent (index into masters), if it is one of ours
    fn parent_idx(&self) -> Option<usize> {
        self.w.masters.iter().position(|m| format!("{}:{}", clock_hex(&m.clock), m.port) == self.w.parent)
    }

    /// the parent announces on the slave port with fresh contents: every flag combination, utc offsets, time sources,
    /// qualities, stepsRemoved over the whole range
    fn parent_announce(&mut self, rng: &Prng) {
        let Some(k) = self.w.ports.iter().position(|p| p.state == "Slave").map(|i| i + 1) else { return self.announce_burst(rng) };
        let Some(mi) = self.parent_idx() else { return self.announce_burst(rng) };
        if rng.chance(2, 3) {
            let c = self.w.masters[mi].clock;
            let mut a = random_ann(rng, c);
            a.steps = match rng.below(8) {
                0 => 0,
                1 => 254,
                2 => 253,
                3 => rng.below(255) as u16,
                4 => 255,
                5 => 65534,
                _ => rng.below(6) as u16,
            };
            a.utc = rng.next_u64() as i16;
            a.time_source = rng.next_u64() as u8;
            a.acc = rng.next_u64() as u8;
            a.class = rng.next_u64() as u8;
            a.var = rng.next_u64() as u16;
            self.w.masters[mi].ann = a;
            self.w.masters[mi].flags1 = rng.next_u64() as u8 & 0x3f;
        }
        self.w.masters[mi].seq = self.w.masters[mi].seq.wrapping_add(1);
        let m = self.w.masters[mi].clone();
        let mut f = self.base_frame(rng, 0xb, m.clock, m.port, m.seq);
        f.flags[1] = m.flags1;
        f.set_announce(&m.ann);
        self.out.count("gen.parent-announce");
        self.emit(format!("P{k} GEN {}", hex(&f.bytes())));
    }

    pub fn view_step(&mut self, rng: &Prng) {
        let np = self.w.ports.len();
        match rng.below(20) {
            0..=6 => self.parent_announce(rng),
            7..=11 => {
                // announce timers on every Master port
                for k in 1..=np {
                    if self.dead {
                        return;
                    }
                    if self.w.ports[k - 1].state == "Master" || rng.chance(1, 6) {
                        self.emit(format!("P{k} TMR ann 1"));
                    }
                }
            }
            12 | 13 => self.bmca_op(rng),
            14 => self.announce_burst(rng),              // another master shows up / parent change
            15 => {
                // the parent falls silent on the slave port: receipt timeout
                let k = self.w.ports.iter().position(|p| p.state == "Slave").map(|i| i + 1).unwrap_or(1 + rng.below(np as u64) as usize);
                self.emit(format!("P{k} TMR rcpt"));
            }
            16 => {
                self.emit(format!("SET quality {} {} {}", rng.next_u64() as u8, *rng.pick(&[0x20u8, 0xfe, 0x31, 0x17]), rng.next_u64() as u16));
                if !self.dead && rng.chance(1, 2) {
                    self.bmca_op(rng);
                }
            }
            17 => self.announce_op(rng),
            _ => self.step(rng),
        }
    }
}

/// C11: boundary clocks whose parents keep changing what they announce; take-overs; quality changes
pub fn generate_view(out: &mut Out, rng: &Prng, thorough: bool) {
    let mut g = new_gen(out);
    let scenarios = if thorough { 5000 } else { 300 };
    for _ in 0..scenarios {
        g.start_scenario(rng);
        // get a slave port quickly
        for _ in 0..3 {
            if !g.dead && !g.w.ports.iter().any(|p| p.state == "Slave") {
                g.announce_burst(rng);
            }
        }
        let len = 30 + rng.below(if thorough { 200 } else { 90 }) as usize;
        while !g.dead && g.ops_in_scenario < len {
            g.view_step(rng);
        }
        g.out.count("scenario");
    }
    let n = g.view.announces_checked;
    g.out.add("c11.announces-checked", n);
}

impl<'a> Gen<'a> {
    /// length of the stored path trace list, from the last observation
    fn stored_path_len(&self, obs: &str) -> Option<usize> {
        let pt = obs.split(" | ").find(|p| p.starts_with("PT "))?;
        let f: Vec<&str> = pt.split_whitespace().collect();
        if f.get(1) != Some(&"1") {
            return None;
        }
        Some(if f.get(2) == Some(&"-") { 0 } else { f.get(2).map(|x| x.split(',').count()).unwrap_or(0) })
    }

    /// the parent announces on the slave port with a TLV suffix: path traces of every interesting length (with and
    /// without the own identity), propagating and non-propagating TLVs of many sizes
    fn parent_announce_tlvs(&mut self, rng: &Prng) -> String {
        let Some(k) = self.w.ports.iter().position(|p| p.state == "Slave").map(|i| i + 1) else {
            self.announce_burst(rng);
            return String::new();
        };
        let Some(mi) = self.parent_idx() else {
            self.announce_burst(rng);
            return String::new();
        };
        self.w.masters[mi].seq = self.w.masters[mi].seq.wrapping_add(1);
        let m = self.w.masters[mi].clone();
        let mut f = self.base_frame(rng, 0xb, m.clock, m.port, m.seq);
        f.flags[1] = m.flags1;
        f.set_announce(&m.ann);
        let n = rng.below(4);
        let mut order: Vec<u8> = (0..n as u8).map(|_| rng.below(5) as u8).collect();
        if rng.chance(3, 4) {
            order.insert(rng.below(order.len() as u64 + 1) as usize, 9);
        }
        for c in order {
            match c {
                9 => {
                    let len = *rng.pick(&[0usize, 1, 2, 3, 10, 50, 100, 110, 117, 118, 119, 120, 126, 127, 128, 129, 129, 130, 160, 200]);
                    let mut v = Vec::new();
                    // the own identity somewhere in the path (a loop) - for paths longer than the 128 entries the data
                    // set can hold, often in the part beyond them
                    let own_at = if len > 128 && rng.chance(1, 3) {
                        Some(128 + rng.below((len - 128) as u64) as usize)
                    } else if rng.chance(1, 8) && len > 0 {
                        Some(rng.below(len as u64) as usize)
                    } else {
                        None
                    };
                    for i in 0..len {
                        let c = if Some(i) == own_at {
                            self.w.own_clock
                        } else {
                            let mut c = *rng.pick(&CLOCKS[2..]);
                            c[6] = (i >> 8) as u8 | 0x40;
                            c[7] = i as u8;
                            c
                        };
                        v.extend_from_slice(&c);
                    }
                    if rng.chance(1, 5) {
                        // a value that is not a whole number of identities (any even length parses)
                        v.extend_from_slice(&rng.bytes(2 * (1 + rng.below(3) as usize)));
                    }
                    f.suffix.extend(tlv(0x0008, &v));
                }
                0 => f.suffix.extend(tlv(0x0009, &rng.bytes(2 * rng.below(12) as usize))),
                1 => {
                    let ty = *rng.pick(&[0x4000u16, 0x4001, 0x7fff, 0x7f00, 0x4002]);
                    let len = *rng.pick(&[0usize, 0, 2, 10, 100, 400, 800, 900, 940, 950, 952, 954, 956, 958, 1000, 1100]);
                    f.suffix.extend(tlv(ty, &rng.bytes(len)));
                }
                2 => f.suffix.extend(tlv(*rng.pick(&[0x0001u16, 0x0003, 0x8000, 0x8008, 0x2004, 0x3fff, 0x0002]), &rng.bytes(2 * rng.below(6) as usize))),
                3 => f.suffix.extend(tlv(0x4000, &[])),
                _ => f.suffix.extend(tlv(0x0009, &[])),
            }
        }
        if rng.chance(1, 5) {
            // TLVs with an odd number of value octets (not allowed: the whole suffix is refused) - one, or several
            // whose sizes add up to an even number again; propagating, non-propagating and PATH_TRACE ones mixed
            let n = *rng.pick(&[1usize, 2, 2, 2, 3, 4]);
            for _ in 0..n {
                let ty = *rng.pick(&[0x4000u16, 0x4000, 0x7fff, 0x0008, 0x0003, 0x0009, 0x2004]);
                let len = 1 + 2 * rng.below(8) as usize;
                let at = if rng.chance(1, 2) { f.suffix.len() } else { 0 };
                let t = tlv(ty, &rng.bytes(len));
                f.suffix.splice(at..at, t);
            }
            self.out.count("gen.parent-announce-odd-tlvs");
        }
        self.out.count("gen.parent-announce-tlvs");
        self.emit(format!("P{k} GEN {}", hex(&f.bytes())))
    }

    /// announce timers on the Master ports, each with its queue (what the ports forwarded, plus synthetic items
    /// sized around the room that is left)
    fn announce_with_queue(&mut self, rng: &Prng, path_len: Option<usize>) {
        let np = self.w.ports.len();
        for k in 1..=np {
            if self.dead {
                return;
            }
            if self.w.ports[k - 1].state != "Master" && !rng.chance(1, 8) {
                continue;
            }
            let loose = rng.chance(1, 2);
            let mut items: Vec<String> = std::mem::take(&mut self.w.ports[k - 1].queue);
            let pt_size = match path_len {
                Some(n) if n < 128 && 4 + 8 * (n + 1) < 960 => 4 + 8 * (n + 1),
                _ => 0,
            };
            let used: usize = items.iter().map(|it| 4 + it.rsplit(':').next().map(|h| if h == "-" { 0 } else { h.len() / 2 }).unwrap_or(0)).sum();
            let room = (960usize).saturating_sub(pt_size).saturating_sub(used.min(960));
            if rng.chance(2, 3) {
                let n = 1 + rng.below(3);
                for _ in 0..n {
                    let sender = if rng.chance(3, 4) && !self.w.parent.is_empty() { self.w.parent.clone() } else { format!("{}:1", clock_hex(rng.pick(&CLOCKS))) };
                    // sizes equal to / one step above / below the room, and a few fixed ones
                    let size = match rng.below(8) {
                        0 => room,
                        1 => room.saturating_sub(2),
                        2 => room + 2,
                        3 => 4,
                        4 => 960,
                        5 => 958,
                        _ => 4 + 2 * rng.below(60) as usize,
                    };
                    let len = size.saturating_sub(4) & !1;
                    let ty = *rng.pick(&[0x4000u16, 0x0009, 0x0008, 0x7fff]);
                    let item = format!("{}:{}:{}", sender, ty, hex(&rng.bytes(len)));
                    let pos = rng.below(items.len() as u64 + 1) as usize;
                    items.insert(pos, item);
                }
            }
            let op = format!("P{k} TMR ann {} {}", loose as u8, items.join(" "));
            let obs = self.emit(op.trim_end().to_string());
            if let Some(q) = obs.split(" | ").next().and_then(|x| x.rsplit(" q=").next()).and_then(|x| x.parse::<usize>().ok()) {
                let rem = items.len().saturating_sub(q);
                self.w.ports[k - 1].queue = items[rem..].to_vec();
                if self.w.ports[k - 1].queue.len() > 6 {
                    self.w.ports[k - 1].queue.truncate(6);
                }
            }
        }
    }
}

/// C15: boundary clocks forwarding the TLVs of their parent
pub fn generate_tlv(out: &mut Out, rng: &Prng, thorough: bool) {
    let mut g = new_gen(out);
    let scenarios = if thorough { 4000 } else { 250 };
    for _ in 0..scenarios {
        g.start_scenario(rng);
        for _ in 0..3 {
            if !g.dead && !g.w.ports.iter().any(|p| p.state == "Slave") {
                g.announce_burst(rng);
            }
        }
        // other ports take over as masters of their segments
        for k in 1..=g.w.ports.len() {
            if !g.dead && g.w.ports[k - 1].state == "Listening" {
                g.emit(format!("P{k} TMR rcpt"));
            }
        }
        let mut path_len: Option<usize> = None;
        let len = 30 + rng.below(if thorough { 160 } else { 70 }) as usize;
        while !g.dead && g.ops_in_scenario < len {
            match rng.below(20) {
                0..=7 => {
                    let obs = g.parent_announce_tlvs(rng);
                    if !obs.is_empty() {
                        path_len = g.stored_path_len(&obs);
                    }
                }
                8..=15 => g.announce_with_queue(rng, path_len),
                16 => g.bmca_op(rng),
                17 => g.announce_op(rng),
                _ => g.step(rng),
            }
        }
        g.out.count("scenario");
    }
}

impl<'a> Gen<'a> {
    /// fire the timer that is due next (simulated time advances to its due time); false if none is armed
    fn fire_next(&mut self) -> bool {
        let Some((j, k, t)) = self.timed.as_ref().and_then(|t| t.next_due()) else { return false };
        if let Some(tm) = self.timed.as_mut() {
            if t > tm.now {
                tm.now = t;
            }
        }
        let kind = super::timed::KINDS[k];
        let op = if kind == "ann" { format!("P{j} TMR ann 1") } else { format!("P{j} TMR {kind}") };
        self.emit(op);
        true
    }

    fn sim_now(&self) -> u128 {
        self.timed.as_ref().map(|t| t.now).unwrap_or(0)
    }

    /// run the host for `span` ns of simulated time: due timers in order, BMCA every `bmca_every` ns, and (optionally)
    /// a steadily announcing master on port `k`. Returns per port (announces, syncs, delay requests) emitted.
    fn run_host(&mut self, rng: &Prng, span: u128, bmca_every: u128, master: Option<(usize, Master, u128)>, max_events: usize) -> (Vec<[u32; 3]>, bool) {
        let np = self.w.ports.len();
        let mut counts = vec![[0u32; 3]; np];
        let t_end = self.sim_now() + span;
        let mut next_bmca = self.sim_now() + bmca_every;
        let mut next_ann = self.sim_now();
        let mut m = master;
        let mut events = 0;
        loop {
            if self.dead {
                return (counts, false);
            }
            events += 1;
            if events > max_events {
                return (counts, false);
            }
            let due = self.timed.as_ref().and_then(|t| t.next_due()).map(|d| d.2).unwrap_or(u128::MAX);
            let ann_t = if m.is_some() { next_ann } else { u128::MAX };
            let t = due.min(next_bmca).min(ann_t);
            if t > t_end {
                if let Some(tm) = self.timed.as_mut() {
                    tm.now = t_end;
                }
                return (counts, true);
            }
            let obs;
            if t == ann_t {
                let (k, ref mut mm, every) = m.as_mut().unwrap();
                mm.seq = mm.seq.wrapping_add(1);
                let mut f = self.base_frame(rng, 0xb, mm.clock, mm.port, mm.seq);
                f.flags[1] = mm.flags1;
                f.set_announce(&mm.ann);
                if let Some(tm) = self.timed.as_mut() {
                    tm.now = t;
                }
                next_ann = t + *every;
                let k = *k;
                obs = self.emit(format!("P{k} GEN {}", hex(&f.bytes())));
            } else if t == next_bmca {
                if let Some(tm) = self.timed.as_mut() {
                    tm.now = t;
                }
                next_bmca = t + bmca_every;
                let s: Vec<String> = (1..=np).map(|x| x.to_string()).collect();
                obs = self.emit(format!("BMCA {}", s.join(",")));
            } else {
                let before = self.out.n_ops;
                self.fire_next();
                let _ = before;
                obs = String::new();
            }
            let _ = obs;
            // count what the last op emitted
            let last = self.last_obs.clone();
            for s in super::oracle_frames::sent_items(&last) {
                if s.port >= 1 && s.port <= np && !s.bytes.is_empty() {
                    match s.bytes[0] & 0x0f {
                        0xb => counts[s.port - 1][0] += 1,
                        0x0 => counts[s.port - 1][1] += 1,
                        0x1 | 0x2 => counts[s.port - 1][2] += 1,
                        _ => {}
                    }
                }
            }
        }
    }
}

/// C12: the host obeys the timer actions. Random prefix (timers fire only when armed), then silence or a steady better master.
pub fn generate_timed(out: &mut Out, rng: &Prng, thorough: bool) {
    use super::timed::{log_ns, Timed};
    let mut g = new_gen(out);
    let scenarios = if thorough { 5000 } else { 350 };
    for sc in 0..scenarios {
        g.timed = Some(Timed { frac: rng.next_u64(), ..Default::default() });
        g.start_scenario(rng);
        let np = g.w.ports.len();
        // prefix: arbitrary traffic; timers fire only when armed, in due order
        let len = rng.below(if thorough { 120 } else { 60 }) as usize;
        while !g.dead && g.ops_in_scenario < len + np + 1 {
            if rng.chance(1, 3) {
                if !g.fire_next() {
                    g.step(rng);
                }
            } else {
                g.step(rng);
            }
        }
        if g.dead {
            continue;
        }
        g.out.count("scenario");
        if sc % 7 == 3 {
            // directed: a P2P port that is Master with its receipt timer expired, hit by a peer-delay fault, then recovering
            if let Some(k) = g.w.ports.iter().position(|p| p.p2p).map(|i| i + 1) {
                for _ in 0..4 {
                    if !g.dead && g.w.ports[k - 1].state != "Slave" {
                        g.announce_burst(rng);
                    }
                }
                if !g.dead && g.w.ports[k - 1].state == "Slave" {
                    g.emit(format!("P{k} TMR rcpt"));
                    let mut tries = 0;
                    while !g.dead && tries < 30 && g.w.ports[k - 1].state != "Faulty" {
                        g.pdelay_exchange(rng);
                        tries += 1;
                    }
                    tries = 0;
                    while !g.dead && tries < 30 && g.w.ports[k - 1].state == "Faulty" {
                        g.pdelay_exchange(rng);
                        tries += 1;
                    }
                    g.out.count("c12.directed-fault-recovery");
                }
            }
            if g.dead {
                continue;
            }
        }
        let cfgs: Vec<super::timed::PortTiming> = g.timed.as_ref().unwrap().ports.clone();
        if cfgs.len() != np {
            continue;
        }
        let ann_ns: Vec<u128> = cfgs.iter().map(|c| log_ns(c.announce_log)).collect();
        let bmca_every = *ann_ns.iter().min().unwrap();
        let slow = cfgs.iter().any(|c| c.receipt_timeout > 10);
        if sc % 2 == 0 {
            // (a) the network falls silent
            if slow {
                g.out.count("c12.silence-skipped-long-timeout");
                continue;
            }
            let bound = cfgs.iter().map(|c| log_ns(c.announce_log) * (2 * c.receipt_timeout as u128 + 6)).max().unwrap();
            let (_, done) = g.run_host(rng, bound, bmca_every, None, 6000);
            if !done || g.dead {
                g.out.count("c12.silence-inconclusive");
                continue;
            }
            g.out.count("c12.silence-runs");
            let tainted: Vec<bool> = g.timed.as_ref().unwrap().ports.iter().map(|p| p.tainted).collect();
            let states: Vec<String> = g.w.ports.iter().map(|p| p.state.clone()).collect();
            let mut all_master = true;
            for j in 0..np {
                let may = !g.w.slave_only && states[j] != "Faulty" && !tainted[j];
                if may && states[j] != "Master" {
                    all_master = false;
                    g.out.oracle("C12", "not-master-after-silence", &format!("{} -> port {} is {} after {} ns of silence (announce interval {} ns, receipt timeout {})", g.last_op, j + 1, states[j], bound, ann_ns[j], cfgs[j].receipt_timeout));
                }
            }
            if all_master && !g.w.slave_only {
                // from then on: Announce and Sync at their configured intervals
                let window = ann_ns.iter().max().unwrap() * 4;
                let (counts, done) = g.run_host(rng, window, bmca_every, None, 8000);
                if done && !g.dead {
                    for j in 0..np {
                        if states[j] != "Master" || g.w.ports[j].state != "Master" {
                            continue;
                        }
                        let want_a = (window / ann_ns[j]) as u32;
                        let want_s = (window / log_ns(cfgs[j].sync_log)) as u32;
                        g.out.count("c12.cadence-checked");
                        if counts[j][0] + 1 < want_a || counts[j][0] > want_a + 1 {
                            g.out.oracle("C12", "announce-cadence", &format!("{} -> Master port {} emitted {} Announces in {} ns (interval {} ns)", g.last_op, j + 1, counts[j][0], window, ann_ns[j]));
                        }
                        if counts[j][1] + 1 < want_s || counts[j][1] > want_s + 1 {
                            g.out.oracle("C12", "sync-cadence", &format!("{} -> Master port {} emitted {} Syncs in {} ns (interval {} ns)", g.last_op, j + 1, counts[j][1], window, log_ns(cfgs[j].sync_log)));
                        }
                    }
                }
            }
        } else {
            // (b) a better master announces steadily on one port
            let k = 1 + rng.below(np as u64) as usize;
            let clock = [0x00, 0x00, 0x00, 0x00, 0x00, 0x00, 0x00, 0x00];
            let ann = AnnounceFields { utc: 37, p1: 0, class: 0, acc: 0x20, var: 0, p2: 0, gm: clock, steps: 0, time_source: 0x20 };
            let m = Master { clock, port: 1, ann, seq: rng.next_u64() as u16, sync_seq: 0, two_step: true, flags1: 0x08 };
            let every = ann_ns[k - 1];
            let span = every * 8 + bmca_every * 3;
            let (_, done) = g.run_host(rng, span, bmca_every, Some((k, m.clone(), every)), 8000);
            if !done || g.dead {
                g.out.count("c12.master-inconclusive");
                continue;
            }
            let pv = g.w.ports[k - 1].clone();
            let acceptable = pv.acc.as_ref().map(|l| l.iter().any(|c| *c == clock_hex(&clock))).unwrap_or(true);
            let tainted = g.timed.as_ref().unwrap().ports[k - 1].tainted;
            // a clock of class 1..127 never becomes Slave (decision P1 instead): IEEE 1588-2019 figure 33
            let class_now: u32 = g.last_obs.split(" | ").find(|p| p.starts_with("DF ")).and_then(|d| d.split_whitespace().nth(1)).and_then(|x| x.parse().ok()).unwrap_or(248);
            // another port already follows a master that outranks even this one (a generated foreign master with
            // priority1 0, class 0 and a better accuracy): port k is then rightly Master or Passive — which of the
            // two masters wins is C05's question, not this one's
            let outranked = g.w.ports.iter().enumerate().any(|(j, p)| j != k - 1 && p.state == "Slave");
            if outranked {
                g.out.count("c12.master-outranked");
            }
            let expect_slave = !pv.master_only && acceptable && g.w.own_p1 > 0 && pv.state != "Faulty" && !tainted && !(1..=127).contains(&class_now) && !outranked;
            g.out.count("c12.master-runs");
            if expect_slave && pv.state != "Slave" {
                g.out.oracle("C12", "not-slave-of-steady-better-master", &format!("{} -> port {k} is {} after 8 announce intervals of a better master (priority1 0)", g.last_op, pv.state));
            }
            if pv.state == "Slave" {
                let dns = log_ns(cfgs[k - 1].delay_log);
                let window = dns * 8;
                let (counts, done) = g.run_host(rng, window, bmca_every, Some((k, m, every)), 8000);
                if done && !g.dead && g.w.ports[k - 1].state == "Slave" {
                    g.out.count("c12.delay-cadence-checked");
                    // RNG-scaled interval in [0, 2) × nominal: at least 2 requests in 8 nominal intervals
                    if counts[k - 1][2] < 2 {
                        g.out.oracle("C12", "delay-request-cadence", &format!("{} -> Slave port {k} emitted {} delay requests in {} ns (interval {} ns)", g.last_op, counts[k - 1][2], window, dns));
                    }
                }
            }
        }
    }
    g.timed = None;
}

/// C10: master-side stream. Sequence number wrap-around runs plus dense master traffic with edge timestamps.
pub fn generate_master(out: &mut Out, rng: &Prng, thorough: bool) {
    let mut g = new_gen(out);
    // wrap-around runs: 66 000 emissions of one type from one port
    let kinds: &[&str] = if thorough { &["sync", "ann", "delay"] } else { &["sync"] };
    for kind in kinds {
        let mut tries = 0;
        loop {
            g.start_scenario(rng);
            tries += 1;
            let ok = match *kind {
                "delay" => g.w.ports[0].p2p,
                _ => !g.w.slave_only && g.become_master(1),
            };
            if ok || tries > 200 {
                break;
            }
        }
        for n in 0..66_000u32 {
            if g.dead {
                break;
            }
            match *kind {
                "ann" => g.emit("P1 TMR ann 1".to_string()),
                k => g.emit(format!("P1 TMR {k}")),
            };
            if *kind == "sync" && n % 97 == 0 && !g.dead {
                if let Some(ctx) = g.take_ctx(1, "sync:") {
                    let t = g.edge_time(rng);
                    g.txts_for(1, &ctx, t);
                }
            }
            g.w.ports[0].pending_ctx.clear();
        }
        g.out.count(&format!("c10.wrap-run.{kind}"));
    }
    let scenarios = if thorough { 4000 } else { 250 };
    for _ in 0..scenarios {
        g.start_scenario(rng);
        let np = g.w.ports.len();
        let k = 1 + rng.below(np as u64) as usize;
        if !g.w.slave_only {
            g.become_master(k);
        }
        let len = 20 + rng.below(if thorough { 200 } else { 80 }) as usize;
        while !g.dead && g.ops_in_scenario < len {
            let kk = if rng.chance(4, 5) { k } else { 1 + rng.below(np as u64) as usize };
            g.master_step(rng, kk);
        }
        g.out.count("scenario");
    }
    let n = g.frames.frames_checked;
    g.out.add("c10.frames-checked", n);
}

/// C09 / C10 on the slave side of the sequence-number wrap: one E2E port, slave of a master, sends 66 000 Delay_Reqs;
/// around the wrap and now and then elsewhere an exchange is completed with the response of the *previous* request
/// arriving late (after the next request has gone out) - it must not be paired with the newer request.
pub fn generate_slave_wrap(out: &mut Out, rng: &Prng, _thorough: bool) {
    let mut g = new_gen(out);
    let mut tries = 0;
    let mut parent: Option<Master> = None;
    loop {
        g.start_scenario(rng);
        tries += 1;
        let e2e = !g.w.ports[0].p2p && !g.w.ports[0].master_only;
        if e2e && !g.dead {
            // a clean better master on port 1
            let clock = [0x00, 0x00, 0x00, 0x00, 0x00, 0x00, 0x00, 0x02];
            let ann = AnnounceFields { utc: 37, p1: 0, class: 6, acc: 0x20, var: 0, p2: 0, gm: clock, steps: 0, time_source: 0x20 };
            let mut m = Master { clock, port: 1, ann, seq: 10, sync_seq: 0, two_step: false, flags1: 0x08 };
            for _ in 0..3 {
                m.seq = m.seq.wrapping_add(1);
                let mut f = g.base_frame(rng, 0xb, m.clock, m.port, m.seq);
                f.flags[1] = m.flags1;
                f.set_announce(&m.ann);
                g.emit(format!("P1 GEN {}", hex(&f.bytes())));
            }
            g.w.masters.push(m.clone());
            g.bmca_op(rng);
            if !g.dead && g.w.ports[0].state == "Slave" {
                parent = Some(m);
                break;
            }
        }
        if tries > 300 {
            break;
        }
    }
    let Some(m) = parent else { return };
    let resp_for = |g: &Gen, id: u16, t_rx: u128, rng: &Prng| -> String {
        let (s2, n2, sub2) = split_time(t_rx);
        let mut resp = g.base_frame(rng, 0x9, m.clock, m.port, id).with_ts_pid_body(s2, n2, g.w.own_clock, 1);
        resp.correction = sub2;
        format!("P1 GEN {}", hex(&resp.bytes()))
    };
    let mut prev: Option<(u16, u128)> = None; // (id, master receive time) of the request before the current one
    for n in 0..66_000u32 {
        if g.dead {
            break;
        }
        g.emit("P1 TMR delay".to_string());
        if g.dead {
            break;
        }
        let Some(id) = g.w.ports[0].last_dreq else { continue };
        let near = (65_500..65_600).contains(&n) || n % 503 == 0;
        g.w.ports[0].pending_ctx.clear();
        if !near {
            prev = None;
            continue;
        }
        let t_tx = g.w.t(rng);
        let t_rx = t_tx + rng.log_u128(48) % (SEC / 1000);
        // the late response of the previous request first (it answers a request that is no longer outstanding)
        let has_delay_meas = |obs: &str| obs.split(" | ").next().unwrap_or("").split(" ; ").any(|it| {
            it.strip_prefix("P1:meas ").map(|r| r.split_whitespace().nth(5).map(|x| x != "-").unwrap_or(false)).unwrap_or(false)
        });
        let mut late_sent = false;
        if let Some((pid, prx)) = prev {
            let op = resp_for(&g, pid, prx, rng);
            let obs = g.emit(op.clone());
            g.out.count("swrap.late-response");
            late_sent = true;
            if has_delay_meas(&obs) {
                g.out.oracle("C09", "delay-response-of-previous-request-used", &format!("{op} -> a delay measurement from the Delay_Resp of request {pid}, which was superseded by request {id}"));
            }
        }
        if g.dead {
            break;
        }
        let op = format!("P1 TXTS dreq {id} {t_tx}");
        let obs = g.emit(op.clone());
        if late_sent && has_delay_meas(&obs) {
            g.out.oracle("C09", "delay-response-of-previous-request-used", &format!("{op} -> a delay measurement is complete before request {id} was answered: the late Delay_Resp of the previous request was paired with this request's transmit timestamp"));
        }
        if g.dead {
            break;
        }
        if rng.chance(1, 2) {
            let op = resp_for(&g, id, t_rx, rng);
            g.emit(op);
            prev = None;
        } else {
            // leave it unanswered: its response arrives after the next request
            prev = Some((id, t_rx));
        }
    }
    g.out.count("swrap.runs");
    let n = g.frames.frames_checked;
    g.out.add("c10.frames-checked", n);
}

/// the mixed stream used by most port-level properties
pub fn generate(out: &mut Out, rng: &Prng, thorough: bool) {
    let scenarios = if thorough { 6000 } else { 350 };
    let mut g = Gen {
        slave_only_from_start: false,
        slave_only_now: false,
        bmca_since_slave_only: false,
        frames: Default::default(),
        view: Default::default(),
        tlvo: Default::default(),
        timed: None,
        last_obs: String::new(),
        last_op: String::new(),
        meas: MeasOracle::default(),
        ex: InstExec::new(),
        out,
        w: World { own_clock: [0; 8], own_sdo: 0, own_domain: 0, masters: vec![], ports: vec![], parent: String::new(), now: 0, path_trace: false, slave_only: false, own_p1: 0, own_class: 0, init_line: String::new(), port_lines: vec![], prev_parent: String::new() },
        ops_in_scenario: 0,
        dead: false,
        on_obs: None,
    };
    for _ in 0..scenarios {
        g.start_scenario(rng);
        let len = 20 + rng.below(if thorough { 250 } else { 120 }) as usize;
        while !g.dead && g.ops_in_scenario < len {
            g.step(rng);
        }
    }
    let depth = g.ex.lock_depth_max;
    g.out.add("locks.max_depth", depth as u64);
}
