//! C07 stream: every generated history is run twice on real ports — without and with inserted
//! frames of the property's "must have no effect" classes — and the two runs must be
//! observationally identical (two-run oracle). The run *with* insertions is what is recorded and
//! compared with the model.

use super::{
    gen_inst::{clock_hex, Gen, World, CLOCKS},
    inst::InstExec,
    Executor,
};
use crate::{
    frames::{split_time, AnnounceFields, Frame},
    out::{hex, Out},
    prng::Prng,
};

fn strip_queue(obs: &str) -> String {
    obs.to_string()
}

/// a sender that is not the selected parent: the previous parent, another port of the parent's own clock, another
/// known master, or some other clock
fn other_sender(rng: &Prng, w: &World, parent: &str) -> Option<([u8; 8], u16)> {
    let mut cands: Vec<([u8; 8], u16)> = Vec::new();
    let parse = |t: &str| -> Option<([u8; 8], u16)> {
        let (c, p) = t.split_once(':')?;
        let b = crate::out::unhex(c)?;
        if b.len() != 8 {
            return None;
        }
        let mut a = [0u8; 8];
        a.copy_from_slice(&b);
        Some((a, p.parse().ok()?))
    };
    if let Some(pp) = parse(&w.prev_parent) {
        cands.push(pp);
        cands.push(pp);
    }
    if let Some((c, p)) = parse(parent) {
        cands.push((c, p.wrapping_add(1)));
        cands.push((c, if p == 1 { 2 } else { 1 }));
    }
    for m in &w.masters {
        cands.push((m.clock, m.port));
    }
    for c in CLOCKS.iter() {
        cands.push((*c, 1));
    }
    let cands: Vec<([u8; 8], u16)> = cands.into_iter().filter(|(c, p)| format!("{}:{}", clock_hex(c), p) != parent).collect();
    if cands.is_empty() {
        return None;
    }
    Some(cands[rng.below(cands.len().min(6) as u64) as usize])
}

/// builds one frame that must be ignored by port `k` in the current world state; returns (op line, class)
fn ignored_frame(rng: &Prng, w: &World, k: usize) -> Option<(String, &'static str)> {
    let pv = &w.ports[k - 1];
    let parent = w.parent.clone();
    let is_slave = pv.state == "Slave";
    // a plausible sender: the parent itself, a better master, or a random clock
    let parent_id: Option<([u8; 8], u16)> = w.masters.iter().find(|m| format!("{}:{}", clock_hex(&m.clock), m.port) == parent).map(|m| (m.clock, m.port));
    let mk = |ty: u8, clock: [u8; 8], port: u16, seq: u16| {
        let mut f = Frame::new(ty, clock, port, seq);
        f.sdo = w.own_sdo;
        f.domain = w.own_domain;
        f
    };
    let now = w.now;
    let (s, n, sub) = split_time(now);
    let best_ann = AnnounceFields { utc: 37, p1: 0, class: 6, acc: 0x17, var: 0, p2: 0, gm: [0, 0, 0, 0, 0, 0, 0, 1], steps: 0, time_source: 0x10 };
    // after a change of parent: the frames of the property's "not from the selected parent" classes more often
    let choice = if !w.prev_parent.is_empty() && rng.chance(1, 3) { 5 + rng.below(3) } else { rng.below(8) };
    let (clock, port) = parent_id.unwrap_or((CLOCKS[4], 1));
    match choice {
        0..=2 => {
            // any message type, foreign domain / sdoId / version / malformed length — even from the parent
            let ty = *rng.pick(&[0xbu8, 0x0, 0x8, 0x9, 0x1, 0x2, 0x3, 0xa]);
            let seq = rng.next_u64() as u16;
            let mut f = match ty {
                0xb => {
                    let mut f = mk(0xb, clock, port, seq);
                    f.set_announce(&best_ann);
                    f
                }
                0x0 | 0x8 | 0x1 | 0x2 => mk(ty, clock, port, seq).with_ts_body(s, n),
                _ => mk(ty, clock, port, seq).with_ts_pid_body(s, n, w.own_clock, k as u16),
            };
            f.correction = sub;
            let class = match rng.below(4) {
                0 => {
                    f.domain = f.domain.wrapping_add(1 + rng.below(200) as u8);
                    "foreign-domain"
                }
                1 => {
                    f.sdo = (f.sdo + 1 + rng.below(4000) as u16) & 0xfff;
                    if f.sdo == w.own_sdo {
                        f.sdo ^= 1;
                    }
                    "foreign-sdo"
                }
                2 => {
                    f.version = (f.version & 0xf0) | *rng.pick(&[0u8, 1, 3, 4, 15]);
                    "wrong-version"
                }
                _ => {
                    f.length_override = Some(*rng.pick(&[0u16, 10, 33, 35, 43, 3000, 65535]));
                    "malformed-length"
                }
            };
            let bytes = f.bytes();
            let op = if matches!(ty, 0x0 | 0x1 | 0x2 | 0x3) || rng.chance(1, 4) { format!("P{k} EVT {} {}", hex(&bytes), now) } else { format!("P{k} GEN {}", hex(&bytes)) };
            Some((op, class))
        }
        3 => {
            // Announce bearing the port's own identity
            let mut f = mk(0xb, w.own_clock, k as u16, rng.next_u64() as u16);
            f.set_announce(&best_ann);
            Some((format!("P{k} GEN {}", hex(&f.bytes())), "announce-own-port-identity"))
        }
        4 => {
            // Announce from a clock outside the acceptable master list (only where such a list exists)
            let acc = pv.acc.as_ref()?;
            let cand = CLOCKS.iter().find(|c| !acc.contains(&clock_hex(c)) && **c != w.own_clock)?;
            let mut f = mk(0xb, *cand, 1, rng.next_u64() as u16);
            f.set_announce(&best_ann);
            f.suffix = crate::frames::tlv(0x4000, &rng.bytes(6));
            Some((format!("P{k} GEN {}", hex(&f.bytes())), "announce-unacceptable"))
        }
        5 | 6 => {
            // Sync / Follow_Up not sent by the selected parent (or to a port that is not slave at all)
            let other = other_sender(rng, w, &parent)?;
            // most of the time the sequence id matches the exchange that is pending on this port
            let pending_seq = pv.last_sync.map(|x| x.1);
            let seq = match pending_seq {
                Some(q) if rng.chance(3, 4) => q,
                _ => rng.next_u64() as u16,
            };
            if choice == 5 {
                let mut f = mk(0x0, other.0, other.1, seq).with_ts_body(s, n);
                f.flags[0] = if rng.chance(1, 2) { 2 } else { 0 };
                f.correction = if rng.chance(1, 4) { i64::MAX } else { 0 };
                Some((format!("P{k} EVT {} {}", hex(&f.bytes()), now), if is_slave { "sync-not-from-parent" } else { "sync-to-non-slave" }))
            } else {
                let mut f = mk(0x8, other.0, other.1, seq).with_ts_body(s, n);
                f.correction = sub;
                Some((format!("P{k} GEN {}", hex(&f.bytes())), if is_slave { "followup-not-from-parent" } else { "followup-to-non-slave" }))
            }
        }
        _ => {
            // Delay_Resp answering someone else's request (right source, right sequence number) or from a non-parent
            let id = pv.last_dreq.unwrap_or(0);
            if rng.chance(1, 2) {
                let mut f = mk(0x9, clock, port, id).with_ts_pid_body(s, n, w.own_clock, k as u16 + 1 + rng.below(3) as u16);
                f.correction = sub;
                Some((format!("P{k} GEN {}", hex(&f.bytes())), "delayresp-other-requester"))
            } else {
                let other = other_sender(rng, w, &parent)?;
                let mut f = mk(0x9, other.0, other.1, id).with_ts_pid_body(s, n, w.own_clock, k as u16);
                f.correction = sub;
                Some((format!("P{k} GEN {}", hex(&f.bytes())), if is_slave { "delayresp-not-from-parent" } else { "delayresp-to-non-slave" }))
            }
        }
    }
}

pub fn generate(out: &mut Out, rng: &Prng, thorough: bool, workdir: &std::path::Path) {
    let scenarios = if thorough { 4000 } else { 300 };
    // the base run (without insertions) is driven by the ordinary scenario generator into a scratch sink
    let mut base_sink = Out::new(workdir, "c07base");
    let irng = rng.fork();
    // state shared with the hook
    let with: std::rc::Rc<std::cell::RefCell<(InstExec, Vec<(String, String)>, u64, u64)>> =
        std::rc::Rc::new(std::cell::RefCell::new((InstExec::new(), Vec::new(), 0, 0)));
    {
        let with2 = with.clone();
        let irng2 = irng.clone();
        let mut g = Gen {
            slave_only_from_start: false,
            slave_only_now: false,
            bmca_since_slave_only: false,
            frames: Default::default(),
            view: Default::default(),
            tlvo: Default::default(),
            timed: None,
            last_obs: String::new(),
            last_op: String::new(),
            meas: super::gen_inst::MeasOracle::default(),
            ex: InstExec::new(),
            out: &mut base_sink,
            w: World { own_clock: [0; 8], own_sdo: 0, own_domain: 0, masters: vec![], ports: vec![], parent: String::new(), now: 0, path_trace: false, slave_only: false, own_p1: 0, own_class: 0, init_line: String::new(), port_lines: vec![], prev_parent: String::new() },
            ops_in_scenario: 0,
            dead: false,
            on_obs: Some(Box::new(move |_sink: &mut Out, w: &World, op: &str, obs: &str| {
                let mut st = with2.borrow_mut();
                // log: (op, obs of the run WITH insertions, obs of the run WITHOUT, class)
                // the op itself on the second run
                // the exact timer durations of the run without insertions (this op was just executed there) ...
                let raw_base = super::inst::last_raw_timers();
                let obs_with = st.0.exec(op);
                // ... and of the run with them: an inserted frame that consumes a draw of the port's random source
                // shifts every later randomised duration, although the observation prints both as `rand`
                let raw_with = super::inst::last_raw_timers();
                let tag = if strip_queue(&obs_with) == strip_queue(obs) && raw_with == raw_base { "same" } else { "DIFF" };
                let timers = if raw_with != raw_base { format!(" ; exact timer durations without insertions {raw_base:?}, with {raw_with:?}") } else { String::new() };
                st.1.push((format!("{op}"), format!("{obs_with}\t{tag}\t{obs}{timers}")));
                // then, with some probability, insert ignored frames (they come *after* this op, i.e. before the next)
                if !w.ports.is_empty() && obs != "R panic" && irng2.chance(1, 2) {
                    let n = 1 + irng2.below(2);
                    for _ in 0..n {
                        let k = 1 + irng2.below(w.ports.len() as u64) as usize;
                        if let Some((iop, class)) = ignored_frame(&irng2, w, k) {
                            // the lock trace (" | L …") is how the call went about it, not an effect
                            let state_of = |x: &str| x.split(" | R ok | ").nth(1).unwrap_or("").split(" | L ").next().unwrap_or("").to_string();
                            let before = state_of(&obs_with);
                            let o = st.0.exec(&iop);
                            let after = state_of(&o);
                            let silent = o.starts_with("- | R ok | ") && (after == before || before.is_empty());
                            st.1.push((format!("{iop} #ins:{class}"), format!("{o}\tinserted:{class}:{}", if silent { "silent" } else { "EFFECT" })));
                            st.2 += 1;
                        }
                    }
                }
                st.3 += 1;
            })),
        };
        for _ in 0..scenarios {
            g.start_scenario(rng);
            let len = 20 + rng.below(if thorough { 200 } else { 100 }) as usize;
            while !g.dead && g.ops_in_scenario < len {
                g.step(rng);
            }
        }
    }
    base_sink.finish();
    let st = with.borrow();
    // a DIFF is only meaningful until the runs diverge; report the first one of each scenario
    // the acceptable-master filter itself: every `AcceptableMasterList` implementation the library ships
    {
        let ids: Vec<String> = super::gen_inst::CLOCKS.iter().map(|c| crate::out::hex(c)).collect();
        let n = if thorough { 4000 } else { 400 };
        for _ in 0..n {
            let kind = *rng.pick(&["any", "slice", "arrayvec", "vec", "btree", "hash", "some-vec", "some-slice", "none"]);
            let mut list: Vec<String> = ids.iter().filter(|_| rng.chance(1, 3)).cloned().collect();
            if rng.chance(1, 6) {
                list.extend(list.clone()); // repeated entries
            }
            let id = rng.pick(&ids).clone();
            let lstr = if list.is_empty() { "-".to_string() } else { list.join(",") };
            let op = format!("ACC {kind} {lstr} {id} #ins:acceptable-master-list");
            let obs = super::inst::acc_line(&[kind, &lstr, &id]);
            let want = matches!(kind, "any" | "none") || list.contains(&id);
            if obs != format!("acc {}", want as u8) {
                out.oracle("C07", "acceptable-master-list-wrong", &format!("{op} -> {obs}: the {kind} implementation of AcceptableMasterList disagrees with membership"));
            }
            out.count("c07.acceptable-list-queries");
            out.op(&op, &obs);
        }
    }
    let mut diverged = false;
    for (op, rest) in &st.1 {
        let parts: Vec<&str> = rest.split('\t').collect();
        let obs_with = parts[0];
        out.op(op, obs_with);
        if op.starts_with("INIT") {
            diverged = false;
        }
        if parts[1].starts_with("inserted:") {
            let f: Vec<&str> = parts[1].split(':').collect();
            out.count(&format!("inserted.{}", f[1]));
            if f[2] == "EFFECT" && !diverged {
                out.oracle("C07", &format!("ignored-frame-has-effect-{}", f[1]), &format!("{op} -> {obs_with}"));
                diverged = true;
            }
        } else if parts[1] == "DIFF" && !diverged {
            out.oracle("C07", "runs-diverge-after-insertion", &format!("{op} -> with insertions: {obs_with} ; without: {}", parts.get(2).unwrap_or(&"")));
            diverged = true;
        }
    }
    out.add("c07.inserted_frames", st.2);
    out.add("c07.base_ops", st.3);
}
