//! Independent PTP frame builder used by the generators (shares no code with statime).

#[derive(Clone, Debug)]
pub struct Frame {
    pub ty: u8,
    pub sdo: u16,
    pub version: u8, // octet 1: minor<<4 | major
    pub domain: u8,
    pub flags: [u8; 2],
    pub correction: i64,
    pub src_clock: [u8; 8],
    pub src_port: u16,
    pub seq: u16,
    pub control: u8,
    pub log_interval: i8,
    pub body: Vec<u8>,
    pub suffix: Vec<u8>,
    /// overrides the computed messageLength when set
    pub length_override: Option<u16>,
}

pub fn ts_bytes(secs: u64, nanos: u32) -> [u8; 10] {
    let mut b = [0u8; 10];
    b[0..6].copy_from_slice(&secs.to_be_bytes()[2..8]);
    b[6..10].copy_from_slice(&nanos.to_be_bytes());
    b
}

/// wire timestamp of a U96F32 bit pattern (seconds, nanoseconds) and the remaining sub-ns as 2^-16 ns units
pub fn split_time(bits: u128) -> (u64, u32, i64) {
    let ns = bits >> 32;
    let sub = ((bits & 0xffff_ffff) >> 16) as i64;
    ((ns / 1_000_000_000) as u64, (ns % 1_000_000_000) as u32, sub)
}

pub fn pid_bytes(clock: [u8; 8], port: u16) -> [u8; 10] {
    let mut b = [0u8; 10];
    b[0..8].copy_from_slice(&clock);
    b[8..10].copy_from_slice(&port.to_be_bytes());
    b
}

#[derive(Clone, Debug)]
pub struct AnnounceFields {
    pub utc: i16,
    pub p1: u8,
    pub class: u8,
    pub acc: u8,
    pub var: u16,
    pub p2: u8,
    pub gm: [u8; 8],
    pub steps: u16,
    pub time_source: u8,
}

impl Frame {
    pub fn new(ty: u8, clock: [u8; 8], port: u16, seq: u16) -> Frame {
        let control = match ty {
            0 => 0,
            1 => 1,
            8 => 2,
            9 => 3,
            0xd => 4,
            _ => 5,
        };
        Frame {
            ty,
            sdo: 0,
            version: 0x12,
            domain: 0,
            flags: [0, 0],
            correction: 0,
            src_clock: clock,
            src_port: port,
            seq,
            control,
            log_interval: 0,
            body: vec![],
            suffix: vec![],
            length_override: None,
        }
    }

    pub fn announce(clock: [u8; 8], port: u16, seq: u16) -> Frame {
        let mut f = Frame::new(0xb, clock, port, seq);
        f.set_announce(&AnnounceFields { utc: 37, p1: 128, class: 248, acc: 0xfe, var: 0xffff, p2: 128, gm: clock, steps: 0, time_source: 0xa0 });
        f
    }

    pub fn set_announce(&mut self, a: &AnnounceFields) {
        let mut b = vec![0u8; 30];
        b[10..12].copy_from_slice(&a.utc.to_be_bytes());
        b[13] = a.p1;
        b[14] = a.class;
        b[15] = a.acc;
        b[16..18].copy_from_slice(&a.var.to_be_bytes());
        b[18] = a.p2;
        b[19..27].copy_from_slice(&a.gm);
        b[27..29].copy_from_slice(&a.steps.to_be_bytes());
        b[29] = a.time_source;
        self.body = b;
    }

    pub fn with_ts_body(mut self, secs: u64, nanos: u32) -> Frame {
        self.body = ts_bytes(secs, nanos).to_vec();
        if self.ty == 2 {
            self.body.extend_from_slice(&[0; 10]);
        }
        self
    }

    pub fn with_ts_pid_body(mut self, secs: u64, nanos: u32, clock: [u8; 8], port: u16) -> Frame {
        self.body = ts_bytes(secs, nanos).to_vec();
        self.body.extend_from_slice(&pid_bytes(clock, port));
        self
    }

    pub fn bytes(&self) -> Vec<u8> {
        let total = 34 + self.body.len() + self.suffix.len();
        let len = self.length_override.unwrap_or(total as u16);
        let mut b = vec![0u8; 34];
        b[0] = (((self.sdo >> 8) as u8) << 4) | (self.ty & 0x0f);
        b[1] = self.version;
        b[2..4].copy_from_slice(&len.to_be_bytes());
        b[4] = self.domain;
        b[5] = self.sdo as u8;
        b[6] = self.flags[0];
        b[7] = self.flags[1];
        b[8..16].copy_from_slice(&self.correction.to_be_bytes());
        b[20..28].copy_from_slice(&self.src_clock);
        b[28..30].copy_from_slice(&self.src_port.to_be_bytes());
        b[30..32].copy_from_slice(&self.seq.to_be_bytes());
        b[32] = self.control;
        b[33] = self.log_interval as u8;
        b.extend_from_slice(&self.body);
        b.extend_from_slice(&self.suffix);
        b
    }
}

pub fn tlv(ty: u16, value: &[u8]) -> Vec<u8> {
    let mut v = vec![(ty >> 8) as u8, ty as u8, (value.len() >> 8) as u8, value.len() as u8];
    v.extend_from_slice(value);
    v
}
