//! Output files of one harness run: op lines, implementation observations,
//! oracle findings, and statistics for the evidence file.

use std::{
    collections::BTreeMap,
    fs::File,
    io::{BufWriter, Write},
    path::Path,
};

pub struct Out {
    ops: BufWriter<File>,
    obs: BufWriter<File>,
    oracle: BufWriter<File>,
    pub n_ops: u64,
    pub n_oracle: u64,
    pub stats: BTreeMap<String, u64>,
    pub samples: Vec<String>,
    dir: std::path::PathBuf,
    name: String,
}

impl Out {
    pub fn new(dir: &Path, name: &str) -> Self {
        std::fs::create_dir_all(dir).unwrap();
        let f = |ext: &str| BufWriter::new(File::create(dir.join(format!("{name}.{ext}"))).unwrap());
        Out {
            ops: f("ops"),
            obs: f("impl"),
            oracle: f("oracle"),
            n_ops: 0,
            n_oracle: 0,
            stats: BTreeMap::new(),
            samples: Vec::new(),
            dir: dir.to_path_buf(),
            name: name.to_string(),
        }
    }

    /// one op line and the implementation's observation for it
    pub fn op(&mut self, op: &str, obs: &str) {
        debug_assert!(!op.contains('\n') && !obs.contains('\n'));
        writeln!(self.ops, "{op}").unwrap();
        writeln!(self.obs, "{obs}").unwrap();
        self.n_ops += 1;
        if self.samples.len() < 8 && (self.n_ops % 997 == 1) {
            self.samples.push(format!("{op} => {obs}"));
        }
    }

    /// a property violation observed on the implementation itself
    /// `sig` is the stable signature used for known-findings matching
    pub fn oracle(&mut self, property: &str, sig: &str, detail: &str) {
        // 4th field: index of the op line this finding belongs to (the op is written right after its oracles ran,
        // or was the last one written)
        writeln!(self.oracle, "{property}\t{sig}\t{detail}\t{}", self.n_ops).unwrap();
        self.n_oracle += 1;
    }

    pub fn count(&mut self, key: &str) {
        *self.stats.entry(key.to_string()).or_insert(0) += 1;
    }
    pub fn add(&mut self, key: &str, n: u64) {
        *self.stats.entry(key.to_string()).or_insert(0) += n;
    }

    pub fn finish(mut self) {
        self.ops.flush().unwrap();
        self.obs.flush().unwrap();
        self.oracle.flush().unwrap();
        let mut s = String::from("{\n");
        s.push_str(&format!("  \"ops\": {},\n  \"oracle_findings\": {},\n  \"stats\": {{", self.n_ops, self.n_oracle));
        let mut first = true;
        for (k, v) in &self.stats {
            if !first {
                s.push(',');
            }
            first = false;
            s.push_str(&format!("\n    {:?}: {}", k, v));
        }
        s.push_str("\n  },\n  \"samples\": [");
        for (i, smp) in self.samples.iter().enumerate() {
            if i > 0 {
                s.push(',');
            }
            s.push_str(&format!("\n    {:?}", smp));
        }
        s.push_str("\n  ]\n}\n");
        std::fs::write(self.dir.join(format!("{}.stats.json", self.name)), s).unwrap();
    }
}

pub fn hex(b: &[u8]) -> String {
    if b.is_empty() {
        return "-".into();
    }
    let mut s = String::with_capacity(b.len() * 2);
    for x in b {
        s.push_str(&format!("{:02x}", x));
    }
    s
}

pub fn unhex(s: &str) -> Option<Vec<u8>> {
    if s == "-" {
        return Some(vec![]);
    }
    if s.len() % 2 != 0 {
        return None;
    }
    (0..s.len() / 2)
        .map(|i| u8::from_str_radix(&s[2 * i..2 * i + 2], 16).ok())
        .collect()
}

thread_local! {
    pub static GUARD_DEPTH: std::cell::Cell<u32> = const { std::cell::Cell::new(0) };
}

/// panic hook: silent inside `guarded`, loud otherwise
pub fn install_panic_hook() {
    std::panic::set_hook(Box::new(|info| {
        if GUARD_DEPTH.with(|d| d.get()) == 0 {
            eprintln!("harness panic: {info}");
        } else {
            // remember where the library panicked (file, not line: stable across unrelated edits) and why
            let file = info.location().map(|l| {
                let f = l.file();
                let f = f.rsplit("statime/src/").next().unwrap_or(f);
                // registry crates: keep `<crate>-<version>/src/...`
                match f.rfind("/src/") {
                    Some(i) if f.starts_with('/') => f[..i].rsplit('/').next().unwrap_or("").to_string() + &f[i..],
                    _ => f.to_string(),
                }
            }).unwrap_or_default();
            let msg = if let Some(s) = info.payload().downcast_ref::<&str>() {
                s.to_string()
            } else if let Some(s) = info.payload().downcast_ref::<String>() {
                s.clone()
            } else {
                "panic".to_string()
            };
            let short: String = msg.split(':').next().unwrap_or("").chars().take(60).collect();
            LAST_PANIC.with(|p| *p.borrow_mut() = format!("{file}: {short}"));
            if std::env::var_os("VERIF_BT").is_some() {
                eprintln!("panic: {info}\n{}", std::backtrace::Backtrace::force_capture());
            }
        }
    }));
}

thread_local! {
    pub static LAST_PANIC: std::cell::RefCell<String> = const { std::cell::RefCell::new(String::new()) };
}

pub fn last_panic() -> String {
    LAST_PANIC.with(|p| p.borrow().clone())
}

pub fn guarded<T>(f: impl FnOnce() -> T) -> Result<T, String> {
    GUARD_DEPTH.with(|d| d.set(d.get() + 1));
    let r = std::panic::catch_unwind(std::panic::AssertUnwindSafe(f));
    GUARD_DEPTH.with(|d| d.set(d.get() - 1));
    match r {
        Ok(v) => Ok(v),
        Err(e) => {
            let msg = if let Some(s) = e.downcast_ref::<&str>() {
                s.to_string()
            } else if let Some(s) = e.downcast_ref::<String>() {
                s.clone()
            } else {
                "panic".to_string()
            };
            Err(msg)
        }
    }
}
