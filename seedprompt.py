#!/usr/bin/env python3
"""seedprompt.py <ID> — writes /tmp/seed-<ID>/prompt.txt (the brief for an independent seeding agent; contains nothing from /verif but the property text)"""
import json, sys
pid = sys.argv[1]
tag = sys.argv[2] if len(sys.argv) > 2 else pid          # directory tag, e.g. C05b
avoid = sys.argv[3] if len(sys.argv) > 3 else ""
props = {}
for l in open('/verif/properties.jsonl'):
    p = json.loads(l); props[p['id']] = p
tmpl = '''You are helping evaluate a verification setup for the Rust project pendulum-project/statime (IEEE 1588 PTP implementation). Your job: make ONE realistic source change that BREAKS the semantic property below, while the project still compiles and its existing test suite still passes, and provide a small demo test that exposes the breakage.

Work ONLY inside the git worktree {wt} (a checkout of the project). Do not look at or use anything under /verif. Do not touch /repo. NEVER use `git stash` (it is shared across worktrees). No network: always pass --offline to cargo and set CARGO_NET_OFFLINE=true; use CARGO_TARGET_DIR={base}/target for all builds.

The property ({pid} — {title}):
{statement}

Quantifier: {quant}

Mechanisms / anchors: {anchors}

Requirements for the change:
1. It must look like something a developer could plausibly commit (a refactor slip, an off-by-one, a wrong comparison, a dropped guard, a reordered statement ...), be small, and live in the library / program source (not in tests). It must not be a trivially loud change (no panics on every call, no deleting the whole mechanism): it should need something specific (particular inputs, values, ordering or state) to manifest, and behave identically to the original on common inputs.
2. `cargo test --workspace --offline --lib --bins` must still pass with the change applied (the existing tests unedited).
3. Write a demo: a NEW unit test (added to an existing tests module in the crate, or a new #[cfg(test)] module) that passes on the original code and fails with your change.
4. Deliver three files in {base}/out/ :
   - patch.diff : `git diff` of ONLY the source change (no demo), applicable with `git apply` at the worktree root.
   - demo.diff  : `git diff` of ONLY the demo test (relative to the original tree, without the source change).
   - meta.json  : {{"property": "{pid}", "summary": <what you changed and why it breaks the property>, "needs_to_manifest": <the specific conditions under which behaviour differs>, "commands_run": [...], "demo_test": <test name and file>, "demo_passes_without_change": true/false, "demo_fails_with_change": true/false, "existing_tests_pass_with_change": <counts>}}
5. Verify all claims by actually running the commands (original+demo passes; change+demo fails in the demo only; change alone passes all existing tests). Leave the worktree with BOTH diffs applied at the end.
Report briefly what you did.'''
p = props[pid]
txt = tmpl.format(wt=f'/tmp/seed-{tag}/wt', base=f'/tmp/seed-{tag}', pid=pid, title=p['title'], statement=p['statement'],
                  quant=p['quantifier']['text'], anchors=json.dumps(p['anchors']['mechanism']))
if avoid:
    txt += "\n\nAn earlier change for this property already did the following; choose a DIFFERENT mechanism / code location and a different kind of slip: " + avoid
open(f'/tmp/seed-{tag}/prompt.txt', 'w').write(txt)
print("written", len(txt))
