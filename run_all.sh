#!/bin/sh
# runs the quick check of every claimed property (refreshes evidence/); prints a summary
cd "$(dirname "$0")"
rc=0
for id in $(python3 -c "import json;print(' '.join(c['property_id'] for c in json.load(open('MANIFEST.json'))['checks']))"); do
  if [ -n "$1" ] && [ "$1" != "$id" ] && [ "$1" != "all" ]; then continue; fi
  ./check "$id" --tier quick > "work/last_$id.log" 2>&1; r=$?
  tail -1 "work/last_$id.log"
  grep -E '^(VIOLATION|KNOWN-FINDING)' "work/last_$id.log" | cut -c1-220
  [ $r -ne 0 ] && rc=1
done
exit $rc
