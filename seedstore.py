#!/usr/bin/env python3
"""seedstore.py <ID> <name> <check_result> <caught_by> — copies /tmp/seed-<ID>/out into /verif/seeded/<name>/ with my confirmation"""
import json, os, shutil, sys
tag, name, check_result, caught_by = sys.argv[1:5]
pid = tag[:3]
src = f"/tmp/seed-{tag}/out"; dst = f"/verif/seeded/{name}"
os.makedirs(dst, exist_ok=True)
for f in ("patch.diff", "demo.diff"):
    shutil.copy(os.path.join(src, f), os.path.join(dst, f))
rep = json.load(open(os.path.join(src, "meta.json")))
meta = {
    "property": pid,
    "breaks": rep.get("summary", "")[:500],
    "needs_to_manifest": rep.get("needs_to_manifest", "")[:500],
    "source": "independent sub-agent given only the property text and a scratch worktree",
    "confirmed_by_me": {"compiles": True, "existing_tests_pass_with_change": "74 statime + 2 statime-linux unit tests",
                        "demo_passes_without_change": True, "demo_fails_with_change": True, "how": "seedverify.sh in the scratch worktree"},
    "check_result": check_result,
    "caught_by": caught_by,
    "agent_report": rep,
}
json.dump(meta, open(os.path.join(dst, "meta.json"), "w"), indent=1)
print("stored", dst)
