#!/usr/bin/env python3
"""ddmin over op lines: keeps the first line (scenario header), drops others while `needle`
still occurs in the replay output of the implementation.
usage: shrink.py <drive-binary> <stream> <ops-file> <needle> [out-file]"""
import subprocess, sys, tempfile, os

def run(drive, stream, lines):
    with tempfile.NamedTemporaryFile('w', suffix='.ops', delete=False, dir='/dev/shm') as f:
        f.write('\n'.join(lines) + '\n')
        name = f.name
    try:
        r = subprocess.run([drive, 'replay', stream, name], capture_output=True, text=True, timeout=120)
        return r.stdout
    finally:
        os.unlink(name)

def shrink(drive, stream, lines, needle):
    head, body = lines[0], lines[1:]
    test = lambda b: needle in run(drive, stream, [head] + b)
    assert test(body), 'needle not found in the full replay'
    n = 2
    while len(body) >= 2:
        chunk = max(1, len(body) // n)
        reduced = False
        for i in range(0, len(body), chunk):
            cand = body[:i] + body[i + chunk:]
            if cand and test(cand):
                body = cand
                n = max(n - 1, 2)
                reduced = True
                break
        if not reduced:
            if chunk == 1:
                break
            n = min(n * 2, len(body))
    return [head] + body

if __name__ == '__main__':
    drive, stream, path, needle = sys.argv[1:5]
    lines = [l for l in open(path).read().split('\n') if l.strip() and not l.startswith('#')]
    out = shrink(drive, stream, lines, needle)
    text = '\n'.join(out) + '\n'
    if len(sys.argv) > 5:
        open(sys.argv[5], 'w').write(text)
    else:
        sys.stdout.write(text)
