"""Per-property configuration of ./check: streams, projections, evidence texts."""
import os

TRUSTED_BASE = [
    "Lean 4.33 kernel (thorough tier: leanchecker re-check); axioms allowed: propext, Classical.choice, Quot.sound",
    "hand-written Lean model of the anchored Rust code; tie = translator (constants/tables/layouts) + differential correspondence run of this check",
    "harness generators bound what the correspondence can see (measured coverage is in this file)",
]

PROPS = {}

PROPS["C16"] = {
    "streams": [{"name": "time"}],
    "rule": "TIME stream: every public operator of Time/Duration/Interval/TimeInterval/WireTimestamp on bit patterns; "
            "boundary lattice (second/nanosecond carries, sign changes, 2^16/2^32/2^47/2^48/2^63/2^95/2^127 edges) crossed exhaustively, "
            "all 256 log intervals, plus seeded random operands with log-uniform magnitudes. distinct = distinct op lines; "
            "non-trivial = the implementation returned a value (not an overflow panic) or the op is an overflow boundary case",
    "exhaustive": False,
    "explanation": "theorems over Nat/Int bit-pattern model; model vs Rust operators compared bit-exactly incl. which operands overflow",
    "assumptions": ["`fixed` crate arithmetic modelled as integer arithmetic on bit patterns (checked by the TIME stream)",
                    "f64 powi/multiplication by 1e9 exact for powers of two (checked for all 256 i8 values)"],
}


def projection(pid, stream, profile):
    """returns f(op_line, observation_line) -> comparable value or None (= not compared for this property)"""
    def ident(op, obs):
        return obs
    return ident


def count_nontrivial(pid, stream, ops, workdir):
    """distinct op lines whose implementation observation is non-trivial"""
    impl_path = os.path.join(workdir, f"{stream}.impl")
    seen = set()
    try:
        impl = open(impl_path).read().splitlines()
    except FileNotFoundError:
        impl = [""] * len(ops)
    for o, i in zip(ops, impl):
        if i in ("bad-op", ""):
            continue
        seen.add(o)
    return len(seen)


def replay_body(pid, stream, ops, idx):
    """op lines needed to reproduce line idx: stateless streams need only that line"""
    if stream in STATEFUL:
        # everything since the last INIT line
        start = idx
        while start > 0 and not ops[start].startswith("INIT"):
            start -= 1
        return "\n".join(ops[start:idx + 1]) + "\n"
    return ops[idx] + "\n"


STATEFUL = set()
