"""Per-property configuration of ./check: streams, projections, evidence texts."""
import os

TRUSTED_BASE = [
    "Lean 4.33 kernel (thorough tier: leanchecker re-check); axioms allowed: propext, Classical.choice, Quot.sound",
    "hand-written Lean model of the anchored Rust code; tie = translator (constants/tables/layouts) + differential correspondence run of this check",
    "harness generators bound what the correspondence can see (measured coverage is in this file)",
]

PROPS = {}

PROPS["C16"] = {
    "streams": [{"name": "time"}],
    "model_is_spec": ["time"],
    "spec_theorem": "the model operators are exact integer arithmetic (C16 theorems)",
    "rule": "TIME stream: every public operator of Time/Duration/Interval/TimeInterval/WireTimestamp on bit patterns; "
            "boundary lattice (second/nanosecond carries, sign changes, 2^16/2^32/2^47/2^48/2^63/2^95/2^127 edges) crossed exhaustively, "
            "all 256 log intervals, plus seeded random operands with log-uniform magnitudes. distinct = distinct op lines; "
            "non-trivial = the implementation returned a value (not an overflow panic) or the op is an overflow boundary case",
    "exhaustive": False,
    "explanation": "theorems over Nat/Int bit-pattern model; model vs Rust operators compared bit-exactly incl. which operands overflow",
    "assumptions": ["`fixed` crate arithmetic modelled as integer arithmetic on bit patterns (checked by the TIME stream)",
                    "f64 powi/multiplication by 1e9 exact for powers of two (checked for all 256 i8 values)"],
}

PROPS["C04"] = {
    "streams": [{"name": "wire"}],
    "model_is_spec": ["wire"],
    "spec_theorem": "the model reads every field at its Clause 13 offset (C04.header_layout / body_layout)",
    "rule": "DEC stream: structured mostly-valid frames of all ten message types — every flag-field value (2^16) on Sync/Announce, "
            "every value of every single header/body octet (exhaustive per position), every messageLength value against several "
            "buffer lengths, 16-bit field sweeps, every TLV layout class (types, even/odd lengths, truncated, trailing 1..5 octets, "
            "zero-length first/last, overrun), random valid frames with boundary patterns and padding, plus a malformed stream "
            "(short buffers, random bytes, bit/byte mutations, truncations). distinct = distinct frames; non-trivial = decoded "
            "successfully or rejected after the header length check (error class other than too-short-for-header)",
    "exhaustive": False,
    "explanation": "theorems over the List UInt8 codec model; tie = layout/enum tables extracted from the Rust source and "
                   "compared with the Clause 13 tables by decide, plus differential DEC stream (field dump, error class, re-encoded bytes)",
    "assumptions": ["Spec/Clause13.lean is our transcription of IEEE 1588-2019 Clause 13 / 15.4.1 (trusted)",
                    "Message::serialize is observed on a zeroed buffer (reserved octets it does not write are 0 in the model)",
                    "translator/extract_tables.py copies offsets/bits syntactically (regex); a degraded item falls back to the DEC stream"],
}


INST_ASSUME = ["recording filter / clock / RNG stand in for the host's (Filter, Clock, Rng are traits of the public API)",
               "RNG-scaled timer durations are compared by kind only",
               "Announce octet 46 (reserved, not written by the serializer) is masked in emitted frames"]

PROPS["C05"] = {
    "streams": [{"name": "cmp"}, {"name": "bmca"}, {"name": "inst"}],
    "model_is_spec": ["cmp", "bmca", "inst"],
    "spec_theorem": "the model's decision is Figure 33 (C05.decision_matches_spec) and its comparison is Figures 34/35 (CMP oracle)",
    "rule": "cmp: the data set comparison on explicit data sets — exhaustive over all pairs of a 480/960-element domain "
            "(priority1, priority2, [accuracy], GM identity, stepsRemoved 0/1/2/3/254, sender, receiver clock, receiving port) plus "
            "random data sets over the full field ranges; bmca: up to three masters (small-domain GM attributes, GM-consistent or "
            "deliberately not) heard on up to three ports after a varied first round (prior states), BMCA through PtpInstance::bmca, "
            "with permuted arrival/port orders as an order-independence oracle; inst: the mixed host-call stream, compared after "
            "every BMCA op (port states and all data sets). distinct = distinct op lines with a non-empty observation",
    "explanation": "Lean theorems: antisymmetry, strict-weak-order characterisation, Ebest maximality, order independence of the "
                   "selection, decision table = Figure 33 spec; model tied by differential runs through the real BMCA",
    "assumptions": INST_ASSUME + ["Spec/StateDecision.lean is our transcription of Figure 33 (trusted)"],
}

PROPS["C06"] = {
    "streams": [{"name": "fml"}, {"name": "inst"}],
    "rule": "fml: one to three masters announcing over sixteen announce intervals (steady / sparse / falling silent / bursty), "
            "network duplicates, stale and re-ordered sequence ids, sequence numbers straddling 65535->0 and the half range, "
            "stepsRemoved 254/255/300, a master bearing the own clock identity, BMCA runs at every phase (1, 2 or 4 runs per "
            "interval); inst: the mixed stream. Compared after every BMCA op (port states, parent/current data sets). "
            "distinct = distinct op lines with a non-empty observation",
    "explanation": "Lean theorems over all histories of the foreign master list (threshold, single Announce never qualifies, never "
                   "stepsRemoved>=255 / own identity, records younger than the window, silence expires); constants tied by the translator",
    "assumptions": INST_ASSUME,
}

PROPS["C07"] = {
    "streams": [{"name": "c07"}],
    "nontrivial_op": "#ins:",
    "rule": "c07: every history of the mixed generator is run twice on real ports, without and with inserted frames of the "
            "property's classes (foreign domain / sdoId, PTP version != 2, malformed length — of every message type, even from the "
            "parent; Announce bearing the port's own identity or from outside the acceptable master list; Sync / Follow_Up not from "
            "the parent or to a non-slave port; Delay_Resp for another requester or from a non-parent), inserted at arbitrary "
            "positions in every reachable port state. The two runs must be identical (two-run oracle on the implementation); "
            "the model is compared on every inserted op (it must predict: no output, state unchanged). ACC ops: every AcceptableMasterList "
            "implementation the library ships (AcceptAnyMaster, slice, ArrayVec, Vec, BTreeSet, HashSet, Option of those) queried with lists "
            "of zero to six identities (with repeats) and identities inside and outside them, against the model's `acceptable` and plain "
            "membership. distinct = distinct inserted op lines",
    "explanation": "Lean: ignored_noop for each class and noninterference for all histories and insertions; tie by the two-run stream",
    "assumptions": INST_ASSUME + ["log output and CPU time are outside 'observationally identical'",
                   "ignored_noop assumes an unacceptable Announce is not from the currently selected parent (the parent passed the list when it was selected)"],
}

def frame_tok(item):
    """the hex frame of a `P<k>:send evt|gen ...` item (a trailing q=<n> may follow it)"""
    for t in item.split()[2:]:
        if "=" not in t:
            return t
    return ""


def meas_items(obs, which):
    """the `meas` items of an observation (port-tagged), restricted to sync/delay or peer-delay measurements"""
    items = obs.split(" | ")[0].split(" ; ")
    out = []
    for it in items:
        if ":meas " in it:
            f = it.split()
            # P<k>:meas <event> <off> <delay> <peer> <rawS> <rawD>
            if which == "e2e" and (f[5] != "-" or f[6] != "-"):
                out.append(it)
            if which == "p2p" and f[4] != "-":
                out.append(it)
    return " ; ".join(out)


PROPS["C09"] = {
    "streams": [{"name": "inst"}, {"name": "swrap"}],
    "model_is_spec": ["inst"],
    "spec_theorem": "every measurement of the model is the Spec/Formulas.lean value of one exchange (C09.handleSync_exact … handleDelayResp_exact)",
    "nontrivial_op": "",
    "rule": "inst: mixed host histories with directed Sync / Follow_Up / Delay_Req / Delay_Resp exchanges on slave ports in every "
            "order (sync,fu | fu,sync | duplicates | losses | late and double transmit timestamps), one-step and two-step masters, "
            "sequence ids near 65535, correction fields of every sign and magnitude, sub-ns timestamps, start times 0 … 2^63 ns. "
            "Compared: every measurement handed to the (recording) filter, bit-exact. Independent oracle: each measurement must equal "
            "the IEEE formula of one logged exchange of the parent. distinct = distinct ops that produced a measurement",
    "explanation": "Lean provenance invariants per handler; Spec/Formulas.lean is the IEEE formula in exact fixed point",
    "assumptions": INST_ASSUME + ["Spec/Formulas.lean transcribes IEEE 1588-2019 11.2-11.4 (trusted)"],
}

def state_part(obs):
    for part in obs.split(" | "):
        if part.startswith("S "):
            return part
    return obs


PROPS["C14"] = {
    "streams": [{"name": "inst"}],
    "model_is_spec": ["inst"],
    "spec_theorem": "the model's link delay is Spec.peerDelay of the stored exchange (C14.extract_peer) and its Faulty transitions are those of C14.multi_responder_faulty / faulty_*",
    "rule": "inst: mixed host histories with directed Pdelay exchanges on P2P ports (transmit timestamp, Pdelay_Resp, "
            "Pdelay_Resp_Follow_Up from one or two responders, all orders, duplicates, losses, one-step and two-step responders, "
            "wrong requester, stale sequence ids) in every port state. Compared: peer-delay measurements (bit-exact) and every "
            "transition into or out of Faulty. Independent oracles: each link delay equals ((t4-corr-t1)-(t3-t2))/2 of one logged "
            "request and one responder; a Faulty port emits no master traffic, feeds no sync/delay measurement and leaves Faulty "
            "only through a completed exchange. distinct = distinct ops with a peer-delay measurement or a Faulty port",
    "explanation": "Lean: extract_peer exactness, multi_responder_faulty, classify_false_iff, faulty_* inertness, faulty_recovers",
    "assumptions": INST_ASSUME + ["Spec/Formulas.lean transcribes IEEE 1588-2019 11.4 (trusted)"],
}

PROPS["C08"] = {
    "streams": [{"name": "inst"}, {"name": "kports", "model": False}],
    "model_is_spec": ["inst"],
    "spec_theorem": "every reachable model state has at most one Slave port, none on a master-only port, no Master on a slave-only instance (C08.reachable_inv, slave_only_from_start, slave_only_at_runtime) and every emitted frame / measurement is role-guarded (C08.emitters_guarded)",
    "rule": "inst: mixed host histories (all timers, BMCA runs, Announce / Sync / Follow_Up / Delay / Pdelay frames from better, worse, "
            "own-identity and unacceptable masters, transmit timestamps, run-time slave-only and quality changes) on instances with one "
            "to three ports in every combination of master-only, slave-only, E2E / P2P. Compared after every op: every port state, the "
            "type and interface of every emitted frame per port, every sync/delay measurement and every filter demobilisation. "
            "Independent oracle on the implementation alone: <=1 Slave; no master-only Slave; no Master on an instance slave-only from the "
            "start or after slave-only + BMCA; Announce/Sync/Follow_Up/Delay_Resp only from a port that was Master, Delay_Req only from "
            "the Slave port, sync/delay measurements only on the Slave port. kports (oracle only): instances of one to three ports (E2E / P2P mixed) "
            "carrying the real KalmanFilter, each port with its own counting handle on the clock; Announces of a better and a worse master, BMCA "
            "runs, every timer, Sync / Follow_Up / Delay_Resp, complete peer delay exchanges in both directions on every port in random order: a "
            "host call on a port that is not Slave when the call is made must not adjust the clock through that port. "
            "distinct = distinct ops that changed a state, emitted a frame or fed a filter (kports: scenarios)",
    "explanation": "Lean: Inv by induction over all host histories (step_inv, reachable_inv), emitters_guarded, slave-only theorems",
    "assumptions": INST_ASSUME + ["every BMCA run is passed every port exactly once (PtpInstance::bmca asserts the count; the borrow checker gives distinctness)",
                   "'only that port adjusts the clock' is observed twice: sync/delay measurements reach a (recording) filter only on the Slave port (inst), and with the real Kalman servo on every port no call on a non-Slave port reaches Clock::set_frequency / step_clock (kports)"],
}

PROPS["C10"] = {
    "streams": [{"name": "master"}, {"name": "inst"}, {"name": "swrap"}],
    "model_is_spec": ["master", "inst"],
    "spec_theorem": "the model's Follow_Up / Delay_Resp / Pdelay_Resp(_Follow_Up) are exact (C10.followUp_exact … pdelayRespFu_exact), every model frame is well-formed for its port and numbered consecutively (C10.portHandler_frames, seq_numbers_consecutive)",
    "rule": "master: runs of 66 000 Sync (thorough: also Announce and Pdelay_Req) emissions from one port through the sequence number "
            "wrap, then dense master-side traffic on one to three ports: Sync + transmit timestamp (lost, duplicated, stale), Delay_Req "
            "and Pdelay_Req from arbitrary requesters with corrections up to ±2^63, timestamps at 0, below 1 ns, nanosecond/second "
            "carries, sub-ns patterns and just below 2^48 s; inst: mixed host histories with master ports sending Sync / Announce on their timers, transmit timestamps over the "
            "PTP range incl. sub-ns fractions reported for every pending Sync / Pdelay_Resp (and stale / duplicate ones), Delay_Req and "
            "Pdelay_Req frames with corrections of every sign and magnitude, arbitrary requester identities, sequence numbers and flags, "
            "in every port state. Compared: every emitted frame (bit-exact), its interface, timestamp context and the timer actions. "
            "Independent oracle (own Clause 13 reader + the library's own parser): Follow_Up / Delay_Resp / Pdelay_Resp(_FU) count, echo and "
            "time arithmetic; source identity, domain, sdoId, version, messageLength, size <= 1024; per (port, type) sequence numbers +1 "
            "mod 2^16; <= 1 event send per action set. distinct = distinct ops that emitted a frame",
    "explanation": "Lean: exactness per constructor (wire_roundtrip), decode∘encode on every constructor, Frames for every handler, consecutive numbering by induction over histories",
    "assumptions": INST_ASSUME + ["configuration and identity fields are in the range of their Rust types (u4/u8/u16/u64/i8): PortRanges / DfltRanges",
                   "transmit / receive timestamps handed in by the host lie in the PTP range (< 2^48 s)"],
}

PROPS["C11"] = {
    "streams": [{"name": "view"}, {"name": "inst"}],
    "model_is_spec": ["view", "inst"],
    "spec_theorem": "the model's Announce carries the data sets (C11.announce_carries_datasets) and its data sets follow table 33 / the M1-M2 update (C11.decision_m_datasets, decision_s1_datasets, parent_announce_datasets)",
    "rule": "view: boundary clocks (one to three ports) brought to Slave, whose parent then keeps announcing fresh contents (all 6 flag "
            "bits, any utc offset / time source / class / accuracy / variance, stepsRemoved 0..65534), announce timers on every Master port after "
            "each change, parent changes, receipt timeouts (grandmaster take-over), run-time quality changes followed by BMCA; inst: mixed host "
            "histories on one to three ports with parents announcing every flag combination, utc offsets, time "
            "sources, qualities and stepsRemoved 0..65535, parent changes, run-time quality changes, grandmaster take-overs (receipt timeouts, "
            "BMCA runs), announce timers on every port. Compared after every op: all data sets (current, parent, time properties, path trace, "
            "default) and every emitted Announce bit-exact. Independent oracle: each emitted Announce equals the data-set getters read before "
            "the call; an Announce of the parent on the Slave port leaves its contents (+1 step) in the data sets; after a BMCA run that makes "
            "every port Master the data sets are the instance's own attributes. distinct = distinct ops that emitted an Announce or changed a data set",
    "explanation": "Lean: announce_carries_datasets, time_properties_roundtrip, decision theorems, parent_change_in_next_announce, frame theorems (nothing else writes the data sets)",
    "assumptions": INST_ASSUME,
}

PROPS["C15"] = {
    "streams": [{"name": "tlv"}, {"name": "inst"}, {"name": "forwarder", "chunk_prefixes": ["FWD new"]}],
    "model_is_spec": ["tlv", "inst"],
    "spec_theorem": "the model forwards exactly the parent's queued TLVs in order within the room (C15.fwdLoop_spec, announce_suffix), emits decodable Announces <= 1024 octets (C15.announce_fits, announce_decodes) and discards looping Announces without effect (C15.loop_discarded)",
    "rule": "tlv: boundary clocks (one to three ports, one Slave, the others Master) whose parent announces with TLV suffixes - PATH_TRACE of "
            "0..129 entries incl. 117..120 (room boundary) and 127..129 (capacity boundary), with and without the own identity, propagating "
            "and non-propagating types, value lengths 0..1100 - and whose Master ports fire their announce timers with the queue of what was "
            "forwarded plus synthetic items sized equal to / 2 above / 2 below the remaining room, from the parent and from other senders, strict "
            "and loose providers; inst: Announces with TLV suffixes of every type class (PATH_TRACE, ALTERNATE_TIME_OFFSET, organisation / experimental "
            "propagating and non-propagating types), value lengths 0..950, several per Announce, from the parent, other acceptable masters and "
            "unacceptable ones, path traces of 0..129 entries with and without the own identity; announce timers with host queues of zero to "
            "several forwarded TLVs (real ones fed back plus synthetic ones sized equal to / one above / one below the remaining room, from the "
            "parent and other senders), strict and loose providers, one to three master ports. Compared: ForwardTLV actions, every emitted "
            "Announce bit-exact, the number of queue items consumed, path trace data set. Independent oracle: ForwardTLV actions = the propagating "
            "TLVs of the Announce in order; emitted suffix = [PATH_TRACE(stored path + own)] + the consumed queue items of the parent in order; "
            "head left behind does not fit; size <= 1024; own parser accepts; the announce timer never panics; a looping Announce changes nothing. "
            "forwarder: the real statime_linux TlvForwarder (tokio broadcast channel) shared by one to three port tasks: Announces' worth of "
            "TLVs of 8..1100 octets, bursts of 100..300 (lag and overflow), announce timers taking what fits with shrinking room, empty(), BMCA "
            "hand-backs under the clearing rule read from main.rs (UDP and ethernet task), with oracles: nothing larger than asked, unmodified, "
            "in order and at most once per port, the oldest fitting TLV is not withheld, a Master port's queue survives the BMCA hand-back. "
            "distinct = distinct ops with a ForwardTLV action or an Announce emitted with a non-empty queue or path trace",
    "explanation": "Lean: forward_actions, fwdLoop_spec, announce_fits, announce_decodes, path trace theorems, loop_discarded",
    "assumptions": INST_ASSUME + ["the daemon's TlvForwarder (tokio broadcast channel, lag and overflow) is modelled as the queue the host passes to the announce timer; its own code is not in the model",
                   "queued TLVs were produced by this library's parser (even value length < 65536, type < 65536): TlvWF"],
}

PROPS["C12"] = {
    "streams": [{"name": "timed"}, {"name": "tlv"}, {"name": "inst"}],
    "model_is_spec": ["timed"],
    "spec_theorem": "in every reachable model state a Listening port has its receipt timer armed, a Master its announce and sync timers, a Slave its delay timer (C12.reachable_allwait), and the progress steps hold (C12.receipt_timeout_makes_master … slave_keeps_requesting)",
    "rule": "timed: a simulated host that applies every Reset…Timer action and fires a timer only when it is armed, in due order of "
            "simulated time: a random prefix of the mixed alphabet (frames from better / worse / own / unacceptable masters, exchanges, lost and "
            "late transmit timestamps, BMCA runs, setting changes, peer-delay faults and recoveries) on one to three ports of every "
            "configuration, then either total silence for (2·receiptTimeout+6) announce intervals followed by four more, or a steadily "
            "announcing best master for eight intervals followed by eight delay intervals, with BMCA at its interval. Compared: every timer "
            "action and every port state after every op. Independent oracle: after every op no port waits on an unarmed timer; after silence "
            "every port that may be master is Master and then emits Announce / Sync at the configured cadence (±1); under the steady master "
            "the port is its Slave and emits >= 2 delay requests in 8 intervals. distinct = distinct ops with a timer action or a state change",
    "explanation": "Lean: Rearm for every handler and for the BMCA pending actions, AllWait invariant by induction over host histories, progress theorems",
    "assumptions": INST_ASSUME + ["simulated time: RNG-scaled durations are drawn from their documented range by the harness (the port itself keeps no clock)",
                   "the foreign master window expiry used in the silence argument is C06's"],
}

PROPS["C03"] = {
    "streams": [{"name": "inst"}, {"name": "tlv"}, {"name": "master"}, {"name": "timed"},
                {"name": "filt", "chunk_prefixes": ["FLT knew", "FLT bnew"]},
                {"name": "loop", "chunk_prefixes": ["FLT knew"]}, {"name": "portloop", "model": False}],
    "model_is_spec": ["inst", "tlv", "master", "timed"],
    "profiles_thorough": ["debug", "release"],
    "model_profiles": ["debug"],
    "spec_theorem": "port-level calls of the model return normally for every frame, timestamp below 2^63 ns, timer and transmit timestamp on bounded state (C03.general_receive_total … timers_total), BMCA keeps the state bounded and has no unconditional panic (bmca_keeps_bnd, bmca_failure_kinds)",
    "rule": "every op of the inst, tlv, master and timed streams (arbitrary and structured frames of up to 2048 octets in every port "
            "state, corrections up to ±2^63, timestamps from 0 to 2^79, TLVs around every margin, path traces up to 129 entries, all port "
            "configurations, BMCA before any port exists, run-time setting changes) is a call that must return; compared with the model: "
            "returned normally / panicked, after every op (debug build: overflow checks and debug assertions on). Thorough tier: the same "
            "streams on a release build too (no panic allowed there either; the value-level properties judge wrapped results). "
            "Independent oracle: any panic, named by its site (source file and message) and the kind of call. filt / loop: the real Kalman and "
            "basic filters under random call sequences and under the closed-loop simulation of C02 (debug build too: one scenario in four "
            "keeps a Delay_Req in flight across the Sync arrivals of the first 20 s, so that a clock step falls between a request's transmit "
            "timestamp and its response). distinct = distinct ops",
    "explanation": "Lean: bounded-state invariant, totality of every port-level handler on bounded state and inputs, BMCA keeps the bound, failure kinds of a BMCA run",
    "assumptions": INST_ASSUME + ["host timestamps below 2^63 ns, frames of at most 65535 octets, |delay asymmetry| < 2^78 ns (BA), the host's filter returns mean delays it was given (recording filter): the hypotheses of the totality theorems",
                   "the Kalman / basic filters, the clock overlay and the daemon are outside this model (C13, C18, C20)"],
}

PROPS["C13"] = {
    "streams": [{"name": "filt", "chunk_prefixes": ["FLT knew", "FLT bnew"]}, {"name": "inst"}],
    "profiles_thorough": ["debug", "release"],
    "model_profiles": ["debug"],
    "spec_theorem": "",
    "rule": "inst: the demobilize and measurement events of the recording filter under the instance stream's histories - compared with the "
            "model, and judged by the port-level oracle: a port that leaves the slave state demobilises its servo exactly once. "
            "filt: the real KalmanFilter and BasicFilter, call by call (measurement / update / demobilize), against a recording clock "
            "that refuses commands intermittently. Scenarios: servo configurations (step threshold 1 ns … 10^6 s, max_freq_offset 10^-3 … 10^5 ppm "
            "incl. values that are not round in binary, max_steer, steer time, dead zone, estimator boundaries, hysteresis, wander), then "
            "histories of up to 120 (thorough: 400) measurements of eight shapes: steady link with drift and jitter 0 … 1 ms (zero jitter = "
            "zero-variance sample sets), repeated and equal event times, event times running backwards or jumping by up to 2^58 ns, extreme "
            "and alternating offsets up to ±10^9 s and up to 2^94 units, offsets hovering around ± the step threshold, sync / delay / "
            "peer-delay kinds mixed, update calls in between, demobilize at the end; a step the clock accepted moves the clock and all later "
            "timestamps. Compared with the Lean model after every call, bit for bit: the commands given to the clock (frequency as binary64 "
            "bit pattern, step as I96F32 bits, accepted / refused), the returned FilterUpdate, current_estimates() and the complete filter "
            "state (state vector, covariance, filter time of both Kalman filters, wander, wander score, noise estimator samples, programmed "
            "frequency; basic filter: last step, confidences, frequency). Independent oracle on the implementation: every Kalman frequency "
            "finite and |f| <= max_freq_offset, every Kalman step at least the threshold (both passed through the same f64 -> Duration "
            "conversion), every basic-filter frequency finite, at most one command - a frequency - on demobilize; panics are reported under C03. "
            "distinct = distinct op lines that issued a command",
    "explanation": "Lean: servo model over bit-level binary64 comparisons and conversions, arbitrary rounding arithmetic; theorems for every arithmetic and history",
    "assumptions": ["the rounding operations (+ - * / sqrt exp) are a parameter of the model: the theorems hold for every choice of them; that the driver's choice (Lean Float = the processor's binary64) is what the Rust code computes with is checked by the bit-exact correspondence, not proved",
                    "that the estimator never produces a NaN is not proved (it is a property of floating-point trajectories): the theorems say 'within the bound, and finite unless NaN'; NaN-freedom rests on the sampled histories of the filt stream",
                    "clock contract: set_frequency / step_clock return the clock's reading, which is not earlier than any timestamp the clock issued before (otherwise progress_filtertime's debug assertion fires)",
                    "configuration: positive finite thresholds and bounds, difference_estimation_boundary >= 1, precision_hysteresis <= 127 (documented maxima), basic filter gain in (0, 1]"],
    "nontrivial_op": None,
}

PROPS["C02"] = {
    "streams": [{"name": "loop", "chunk_prefixes": ["FLT knew"]}, {"name": "portloop", "model": False}],
    "profiles": ["release"],
    "profiles_thorough": ["release"],
    "model_profiles": ["release"],
    "rule": "loop: closed loop. A simulated slave clock (initial offset in [-10 s, 10 s], oscillator error within ±150 ppm, programmed "
            "frequency and steps acting on it) is disciplined by the real KalmanFilter (default configuration) from Sync and Delay "
            "measurements over a symmetric path (one-way delay 1 … 400 us, uniform jitter of amplitude 0 … 20 us on every leg), Sync interval "
            "and delay request interval each from 2^-3 … 2^1 s, delay requests at the port's random spacing (uniform in (0, 2) x interval), "
            "responses arriving after the return leg (so measurements reach the filter out of event-time order), the filter update timer "
            "firing when due; one scenario in three from the corners of the domain (±10 s, ±1 ms, ±150 ppm, 1 / 400 us, jitter 0 / 1 / 20 us, "
            "fastest and slowest rates). 60 scenarios per quick run, 1500 per thorough run, each 60 + 350·I + 200 simulated seconds (I = the "
            "slower of the two intervals). Oracle on the true offset of the simulated clock: it comes below 500 ns + 1.5 x jitter amplitude "
            "within 60 + 350·I seconds and never exceeds it again, and no step is given after that. Every call is also compared bit for bit "
            "with the Lean servo model (commands, estimates, complete filter state). One loop scenario in four keeps a Delay_Req in flight "
            "across the Sync arrivals of the first 20 s. portloop (oracle only): the full stack - a real slave Port (slave-only instance, E2E, "
            "default KalmanConfiguration) on a simulated clock, a simulated master (one-step or two-step, Announce every second) and path; "
            "frames, transmit timestamps, the port's own timers (random delay request spacing, filter update, announce receipt) and BMCA runs "
            "go through the public host interface; in a quarter of the scenarios the transmit timestamp of every Delay_Req is reported "
            "after its response. Same scenario domain and oracle, deadline + 10 s; 40 scenarios per quick run, 600 per thorough run. "
            "distinct = distinct measurement lines",
    "explanation": "closed-loop simulation oracle on the real filter (sampling) + bit-exact model correspondence; Lean theorems for the structural facts (no step below the threshold, negative feedback)",
    "assumptions": ["convergence itself is NOT proved: it is a property of floating-point trajectories under random jitter; the verdict on it rests on the sampled closed-loop scenarios (a bounded simulation, named as such)",
                    "the numeric bound (500 ns + 1.5 x jitter amplitude) and deadline (60 + 350·I s) are calibrations against 4500 scenarios of the unchanged servo with a factor of about two of margin; the property itself only says 'a bound set by the jitter' and 'a bounded time'",
                    "the port-level part (which timestamps reach the filter, C09; which frames are sent, C10) is composed, not re-simulated: the stream feeds the filter the measurements the port formulas give",
                    "negative feedback is proved for arithmetics with the IEEE sign rule for products and quotients (SignLaws), a hypothesis about binary64 that is not proved in Lean"],
    "nontrivial_op": None,
}

PROPS["C19"] = {
    "streams": [{"name": "metrics"}, {"name": "view"}, {"name": "inst"}],
    "model_is_spec": ["metrics"],
    "spec_theorem": "the model response announces its body's length, carries every boolean as 1 for true, the nanosecond metrics in nanoseconds, one port_state sample per port and one path_trace_list sample per entry, and label values that un-escape to the original (C19.content_length_matches_body, boolean_metrics, nanosecond_metrics, label_escape_roundtrip)",
    "rule": "metrics: end to end through the real exporter process. Observable states (grandmaster / slave / boundary clock; 1 … 64 ports in every "
            "port state and delay mechanism incl. P2P link delays up to i64::MAX; path trace lists of 0, 1, 2, 5, 127, 128 distinct entries; offsets "
            "and mean delays 0, 1 ns … ±10 s incl. bit patterns of 2^63-1, 2^63, 2^64+1; every time-properties combination, clock accuracy and time "
            "source incl. profile specific and reserved codes; UTC offset absent / extreme; version strings with quotes, backslashes, line feeds and "
            "non-ASCII; uptimes as Instant::elapsed().as_secs_f64() gives them up to 12 years) are written as a JSON document, read by the "
            "daemon's serde representations (ObservableState: Deserialize), written again by them (Serialize, as observer::write_json does), "
            "served on a unix socket the way the observer does (one write, close), fetched by the real statime-metrics-exporter process "
            "(read_json, format_response) and scraped over HTTP. Compared with the Lean model of the formatter: the whole HTTP response, "
            "byte for byte. Independent oracle on the response: status 200, Content-Length = octets of the body, every line of the "
            "OpenMetrics text grammar (HELP/TYPE before samples, UNIT suffix, label syntax and escapes, numeric values), and the set of "
            "samples equals an independently written table (every metric by the meaning of its help text and unit suffix, true as 1, "
            "nanosecond metrics in nanoseconds, values exactly equal as binary64). FMT ops: the model's rendering of binary64 values "
            "against Rust's `{}` on random, integral, fixed-point and special bit patterns. Every fourth state is also published the daemon's own "
            "way: into the watch channel of the real statime_linux::observer task running in the harness process (its socket, accept loop, "
            "ProgramData::with_uptime and write_json), from which a second exporter process reads; the program data in the model's op line "
            "are then the daemon's own and the served uptime must lie between the times the task has verifiably been running. view: C11's stream - the snapshot getters against the "
            "instance's live data sets. inst: `DUMP` ops (one op in 25 of the instance stream's histories) print every field of default_ds, "
            "current_ds (with the Slave port's filter estimates, as main.rs passes them), parent_ds, time_properties_ds, path_trace_ds and of "
            "port_ds() of every port - the getters the daemon builds its ObservableInstanceState from - compared with the model's state; "
            "oracle: configuration-derived fields equal the INIT / PORT lines, port states equal the live ones, the current data set "
            "carries the Slave port's estimates and zero otherwise. distinct = distinct op lines",
    "explanation": "Lean model of format.rs (metric table, label escaping, layout, Content-Length) incl. Rust's shortest-round-trip float rendering; theorems over every state; end-to-end byte-exact correspondence through serde_json, the socket and the exporter process",
    "assumptions": ["serde_json itself is not modelled: that a document written by the daemon reads back as the same state is established by the end-to-end runs (state in, samples out), not by a theorem",
                    "three states in four reach the exporter through the harness's own socket server, which delivers the document as the observer does (one write_all, then close); one in four through the real observer task",
                    "PortDS fields that no metric shows (log intervals, versions, asymmetry, master_only) and default_ds.domain / sdo_id / slave_only are carried through the JSON hop but not observable at the endpoint"],
}

PROPS["C20"] = {
    "streams": [{"name": "exporter", "chunk_prefixes": ["EXP new"]}],
    "model_is_spec": ["exporter"],
    "spec_theorem": "in the model a client that goes away never leaves the exporter waiting, a well-formed GET is answered whatever the segmentation, and after any such connections a later well-formed request gets its 200 (C20.client_that_goes_away_is_finished, chunking_does_not_matter, later_request_is_answered)",
    "rule": "exporter: the real exporter process (one per scenario) against sequences of one to four connections, then a well-formed request "
            "with a valid observation document. Client behaviours: complete GET; GET split in two writes at every offset; the first 0, 1, 3, 4, "
            "20, len-2, len-1 octets of a GET then an orderly close; the same then a reset (RST); 100 … 10000 octets without an end of headers "
            "(around the 2048-octet buffer: 2047, 2048, 2049); complete requests with other verbs (POST, HEAD, PUT, OPTIONS, get, GETX); a "
            "complete GET followed by a reset without reading the response; connect and leave. Observation socket while the connection is "
            "served: valid document, syntactically invalid document, document cut in half, accept-and-close, nobody listening. Compared with "
            "the Lean model per connection: what the client saw (200 / 500 / closed without response / nothing) and that the process is "
            "alive. Independent oracle: the process has not exited, does not use CPU while idle (>= 10 ticks in 250 ms = spinning), a "
            "well-formed GET gets 200 with a valid document and 500 otherwise, and the final request gets its 200 within 1.5 s. "
            "distinct = distinct op lines",
    "explanation": "Lean model of the accept / request loop over abstract read results; structural termination, liveness and segmentation-independence theorems; process-level correspondence and liveness oracle",
    "assumptions": ["clients eventually go away (the property's premise): a client that stays connected and silent holds the single-threaded exporter, in the model (`waiting`) as in the code",
                    "the observation socket closes its end (the exporter reads to EOF): a daemon that accepts and then neither writes nor closes would hold the exporter; not among the property's socket behaviours",
                    "accept() errors (e.g. descriptor exhaustion) still terminate the exporter; they are not client behaviours on a connection",
                    "timing: 'spin' is judged by CPU ticks of the process over a quarter of a second of silence, 'answered' by a 1.5 s deadline"],
}

PROPS["C01"] = {
    "streams": [{"name": "net", "chunk_prefixes": ["N0 INIT"]}],
    "rule": "net: networks of 2 … 5 (thorough: … 8) real PtpInstances - lines, stars, rings, one shared segment, a shared segment with two "
            "ports of one instance on it plus a tail, random connected graphs with extra links - with every ranking of priority1 / clockClass / "
            "accuracy / variance / priority2 / identity; one scenario in three also has clockClass < 128 instances, slave-only instances and "
            "master-only ports. The simulator delivers every Announce to the other ports of its segment after 10 … 910 us, fires announce "
            "timers as armed, announce receipt timers after 3 … 6 s (the port's random stretch), runs each instance's BMCA every second with a "
            "random phase and a few ms of jitter and a random port order. Cold start, 8 + 5·N s to settle, 8 s of observation; then one fault "
            "(cut a port off its segment, silence a node, change a node's quality to best / worst, cut and restore), settle again, observe. "
            "Every call on every instance is compared with the Lean instance model (port states, data sets, frames, timer actions). At every "
            "judged point the instances' states are handed to the abstract network model (NETX), which must find them a fixed point of its "
            "node-wise re-evaluation. Independent oracle on the instances' states, per connected component: the best-ranked instance is the "
            "only one acting as grandmaster, every other instance that may be slave has exactly one Slave port and its parent chain reaches "
            "the best with strictly decreasing stepsRemoved and the same grandmaster, every segment with a master-capable instance has exactly "
            "one Master port, and nothing changes during the observation window. distinct = distinct op lines",
    "explanation": "composition of the verified instance model over a simulated network (every call compared), abstract fixed-point model tied to the converged states, Lean theorems about its fixed points, convergence / no-flap oracle",
    "assumptions": ["convergence within the stated time and re-convergence after a fault are judged on the sampled scenarios (bounded simulation); the theorems are about fixed points of the abstract model",
                    "networks with a non-relaying instance besides the best clock (clockClass < 128, slave-only, master-only port) do not satisfy the property's literal wording under IEEE 1588 either: recorded as a known finding, judged only against the abstract model's fixed points",
                    "all ports use announce interval 2^0 s and receipt timeout 3; only Announce traffic is simulated (Sync / delay messages do not influence port states or data sets: C07, C08)",
                    "the abstract model's timing abstraction: a port that hears no Announce becomes Master (receipt timeout), one that keeps hearing any Announce does not time out"],
    "nontrivial_op": None,
}

PROPS["C17"] = {
    "streams": [{"name": "inst"}, {"name": "tlv"}, {"name": "timed"}, {"name": "threads", "model": False}],
    "model_is_spec": ["inst", "tlv", "timed"],
    "spec_theorem": "the model's lock trace of every host call is a flat sequence with at most one write acquisition, and calls without a write acquisition leave the shared state alone (C17.writes_at_most_once, no_write_no_change)",
    "rule": "inst / tlv / timed: every op of these streams runs over a recording implementation of the public PtpInstanceStateMutex "
            "trait that logs every acquisition (r / w) and release; compared with the model's lock trace after every op (a nested "
            "acquisition would read `rw..` instead of `r.w.`), together with the parent / current / time-properties data sets as a snapshot "
            "taken after the call shows them (every member must be the one the model's single update of that call wrote); oracle: nesting depth > 1. threads: one instance over the library's own "
            "std::sync::RwLock implementation, the Slave port handling 1 000 000 (thorough: 8 000 000) Announces per round of its parent that alternate "
            "between two contents differing in every field, while a second thread fires the announce timer of a Master port and a third "
            "takes snapshots through parent_ds / current_ds / time_properties_ds: every Announce and every snapshot must be entirely of "
            "one content; a watchdog reports a blocked thread, a join error a poisoned lock. distinct = distinct ops (threads: rounds)",
    "explanation": "Lean: lock trace model of every call site; at most one write section per call; no change outside it; atomic sections => snapshots of whole updates",
    "assumptions": INST_ASSUME + ["the lock gives mutual exclusion (std RwLock / RefCell); the interleaving argument is over critical sections, not over instructions",
                   "thread interleavings are sampled by the stress run, not enumerated (no model checker for the Rust threads is used)"],
}

PROPS["C18"] = {
    "streams": [{"name": "ovl"}, {"name": "sysclock", "model": False}],
    "model_is_spec": ["ovl"],
    "spec_theorem": "the model's overlay clock is continuous across frequency changes, steps by exactly the requested offset, and advances at (1 + ppm/10^6) to within one unit of 2^-32 ns (C18.frequency_change_continuous, step_exact, rate)",
    "rule": "ovl: an OverlayClock over a test clock the stream controls: sequences of up to 50 operations - advances of the underlying "
            "clock (0, sub-ns, up to 10^4 s), set_frequency (0, ±500 ppm, integer and /1024 ppm values, arbitrary 2^-32 ppm values), step_clock "
            "(0, ±10 s, sub-ns, log-uniform magnitudes of both signs), now, time_from_underlying - over underlying clocks starting at 0, near "
            "2^48 s and anywhere between. Compared: every returned time, bit-exact. Independent oracle in exact integer arithmetic: a "
            "frequency change returns the reading before it and leaves it unchanged; a step returns and leaves the reading before it plus "
            "the offset, exactly; between adjustments the reading advances by du·(1+ppm/10^6) within 3 units of 2^-32 ns; conversion of the "
            "current underlying time equals now(). The overlay is reached through two SharedClock handles used alternately (shared_clock.rs). "
            "sysclock (oracles only, no model: the clock underneath is the machine's): the daemon's SharedClock<OverlayClock<LinuxClock>> over "
            "CLOCK_TAI through three handles - set_frequency (+-500 ppm), step_clock (+-10 s), now() and PortTimestampToTime of a fresh "
            "socket timestamp, each bracketed by system clock readings taken just before and after and mapped through the affine map the "
            "operations so far define (integer nanoseconds, 16 ns slack). distinct = distinct op lines",
    "explanation": "Lean theorems over the exact bit-pattern model of the affine map; ppm enters as the I96F32 value the f64 is converted to",
    "assumptions": ["ppm values are driven as multiples of 2^-32 (exactly representable in f64 and in I96F32), so the f64 -> fixed conversion is exact; other f64 values differ by its rounding (< 2^-33 ppm)",
                    "overlay times that would be negative are outside the property (Time is unsigned and saturates at zero)"],
}


def split_obs(obs):
    """(items, status, state) of an instance-stream observation line"""
    parts = obs.split(" | ")
    if len(parts) < 2:
        return obs, obs, ""
    return parts[0], parts[1], " | ".join(parts[2:])


def projection(pid, stream, profile):
    """returns f(op_line, observation_line) -> comparable value or None (= not compared for this property).
    `DUMP` lines (every field of the observable data sets) belong to C19 only."""
    inner = _projection(pid, stream, profile)
    if pid == "C19" and stream == "inst":
        return lambda op, obs: obs if op.strip() == "DUMP" else None
    return lambda op, obs: None if op.strip() == "DUMP" else inner(op, obs)


def _projection(pid, stream, profile):
    def ident(op, obs):
        return obs
    if stream in ("inst", "bmca", "fml") and pid in ("C05", "C06"):
        def f(op, obs):
            if not op.startswith("BMCA"):
                return None
            items, status, state = split_obs(obs)
            return status + " | " + state
        return f
    if pid == "C09":
        def f9(op, obs):
            m = meas_items(obs, "e2e")
            return m if (m or ":meas" in obs) else None
        return f9
    if pid == "C14":
        def f14(op, obs):
            m = meas_items(obs, "p2p")
            st = state_part(obs)
            if m or "Faulty" in st or ":demob" in obs:
                return m + " | " + st + " | " + ("demob" if ":demob" in obs else "")
            return None
        return f14
    if pid == "C08":
        def f8(op, obs):
            items = obs.split(" | ")[0].split(" ; ")
            keep = []
            for it in items:
                if ":send " in it:
                    f = it.split()
                    # P<k>:send evt|gen ... <hex>: keep port, interface and message type nibble
                    keep.append(f"{f[0]} {f[1]} type={frame_tok(it)[1:2]}")
                elif ":demob" in it:
                    keep.append(it)
            m = meas_items(obs, "e2e")
            st = state_part(obs)
            return " ; ".join(keep) + " | " + m + " | " + st
        return f8
    if pid == "C17":
        def f17(op, obs):
            # the lock trace of the call, and what a snapshot of the parent / current / time-properties data sets
            # shows after it (every member must be of the update the call made, as the model defines it)
            if " | L " not in obs:
                return None
            ds = " | ".join(x for x in obs.split(" | ") if x[:2] in ("D ", "T "))
            return obs.split(" | L ")[1] + " || " + ds
        return f17
    if pid == "C03":
        def f3(op, obs):
            return "panic" if "R panic" in obs else "returned"
        return f3
    if pid == "C19" and stream == "view":
        return _projection("C11", stream, profile)
    if pid == "C13" and stream == "inst":
        # the port's side of "leaving the slave state": when the servo is handed measurements and when it is demobilised
        def f13i(op, obs):
            parts = obs.split(" | ")
            items = [it for it in parts[0].split(" ; ") if ":demob" in it or ":meas " in it]
            st = next((x for x in parts if x.startswith("S ")), "")
            if not items and "R panic" not in obs:
                return None
            return " ; ".join(it.split(" ")[0] for it in items) + " | " + st + (" | R panic" if "R panic" in obs else "")
        return f13i
    if pid in ("C13", "C02"):
        def f13(op, obs):
            return "R panic" if obs.startswith("R panic") else obs
        return f13
    if pid == "C12":
        def f12(op, obs):
            if "R panic" in obs:
                return "R panic"   # a call that panics re-arms nothing
            items = obs.split(" | ")[0].split(" ; ")
            keep = [it for it in items if ":reset " in it]
            return " ; ".join(keep) + " | " + state_part(obs)
        return f12
    if pid == "C15":
        def f15(op, obs):
            if op.startswith("FWD "):
                return obs
            parts = obs.split(" | ")
            items = parts[0].split(" ; ")
            keep = [it for it in items if ":fwd " in it or (":send gen" in it and len(frame_tok(it)) >= 128 and frame_tok(it)[1] == "b")]
            pt = " | ".join(x for x in parts if x.startswith("PT ") or x.startswith("R "))
            if not keep and " TMR ann" not in op and "GEN 0b" not in op and "GEN 1b" not in op:
                return None
            q = parts[0].rsplit(" q=", 1)[1] if " q=" in parts[0] else ""
            return " ; ".join(keep) + " q=" + q + " | " + pt
        return f15
    if pid == "C11":
        def f11(op, obs):
            parts = obs.split(" | ")
            ds = " | ".join(x for x in parts if x[:2] in ("D ", "T ") or x.startswith("PT ") or x.startswith("DF "))
            ann = [it for it in parts[0].split(" ; ") if ":send gen" in it and len(frame_tok(it)) >= 128 and frame_tok(it)[1] == "b"]
            if not ds and not ann:
                return None
            return " ; ".join(ann) + " | " + ds
        return f11
    if pid == "C10":
        def f10(op, obs):
            items = obs.split(" | ")[0].split(" ; ")
            keep = [it for it in items if ":send " in it or ":reset " in it]
            if not any(":send " in it for it in keep):
                return None
            return " ; ".join(keep)
        return f10
    if pid == "C07":
        def f7(op, obs):
            return obs if "#ins:" in op else None
        return f7
    return ident


def count_nontrivial(pid, stream, ops, workdir):
    """distinct op lines whose implementation observation is non-trivial"""
    impl_path = os.path.join(workdir, f"{stream}.impl")
    seen = set()
    pat = PROPS.get(pid, {}).get("nontrivial_op")
    proj = projection(pid, stream, "debug")
    try:
        f = open(impl_path)
    except FileNotFoundError:
        return 0
    with f:
        for o in ops:
            i = f.readline()
            if not i:
                break
            i = i.rstrip("\n")
            if i in ("bad-op", "", "dead"):
                continue
            if pat and pat not in o:
                continue
            if proj(o, i) is None:
                continue
            seen.add(hash(o))
    return len(seen)


def replay_body(pid, stream, ops, idx):
    """op lines needed to reproduce line idx: stateless streams need only that line"""
    if stream in STATEFUL:
        # everything since the line that started the scenario
        starts = SCENARIO_START.get(stream, ("INIT",))
        start = idx
        while start > 0 and not ops[start].startswith(starts):
            start -= 1
        return "\n".join(ops[start:idx + 1]) + "\n"
    return ops[idx] + "\n"


STATEFUL = {"inst", "bmca", "fml", "c07", "master", "swrap", "view", "tlv", "timed", "filt", "loop", "exporter", "net", "forwarder"}
SCENARIO_START = {"filt": ("FLT knew", "FLT bnew"), "loop": ("FLT knew", "FLT bnew"), "exporter": ("EXP new",), "net": ("N0 INIT",), "forwarder": ("FWD new",)}

# theorems about source translated on every run that other properties also rest on: audited (and their module
# built) by those properties' checks too, so a change to the translated function breaks an obligation there as well
PROPS["C12"]["extra_theorem_modules"] = ["StatimeModel.Props.C08"]
PROPS["C12"]["extra_theorems"] = ["Statime.C08.generated_receipt_timer_is_model", "Statime.C05.generated_port_move_is_model"]
PROPS["C14"]["extra_theorem_modules"] = ["StatimeModel.Props.C05"]
PROPS["C14"]["extra_theorems"] = ["Statime.C05.generated_port_move_is_model"]
PROPS["C08"]["extra_theorems"] = ["Statime.C05.generated_port_move_is_model"]
