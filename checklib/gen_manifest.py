#!/usr/bin/env python3
"""writes /verif/MANIFEST.json from checklib/manifest_data.py (keeps it valid and current)"""
import json, os, sys, subprocess
ROOT = os.path.join(os.path.dirname(os.path.abspath(__file__)), "..")
sys.path.insert(0, os.path.dirname(os.path.abspath(__file__)))
import manifest_data as D

ALL = [f"C{i:02d}" for i in range(1, 21)]
checks = []
for pid in ALL:
    if pid not in D.CLAIMED:
        continue
    c = D.CLAIMED[pid]
    checks.append({
        "property_id": pid,
        "quick_cmd": f"./check {pid} --tier quick",
        "thorough_cmd": f"./check {pid} --tier thorough",
        "evidence_file": f"evidence/{pid}.json",
        "replay_cmd_template": f"./check {pid} --replay {{path}}",
        "engine": "lean-proof+correspondence",
        "level_claimed": {"category": "proof", "text": c["text"], "design_ref": c.get("design_ref", f"DESIGN.md section 7 ({pid})")},
        "level_note": c["note"],
        "technique": c["technique"],
    })
hooks_commits = subprocess.run(["git", "-C", "/repo", "log", "--format=%h %s"], capture_output=True, text=True).stdout.splitlines()
hook_shas = [l.split(" ")[0] for l in hooks_commits if l.split(" ", 1)[1].startswith("verif hook")]
manifest = {
    "version": 1,
    "setup_cmd": "./setup.sh",
    "hooks": {
        "guard": "cargo feature `verif` of crate statime (off by default)",
        "enable": "the harness depends on statime with features = [\"verif\"] (path dependency on /repo/statime)",
        "baseline_off_cmd": "cd /repo && cargo nextest run --workspace --no-fail-fast --offline",
        "source_commits": hook_shas,
        "add_only": True,
    },
    "engines": [
        {"name": "lean-proof+correspondence", "path": "check",
         "serves_properties": sorted(D.CLAIMED),
         "kind_free_text": "Lean 4 theorems over a hand-written executable model (lean/StatimeModel), tied to /repo on every run by a translator "
                           "(translator/extract.py -> Generated/*.lean + decide obligations) and a differential correspondence run "
                           "(harness/ drives the real Rust code in-process, Driver/Main.lean runs the model on the same op lines); "
                           "property oracles on the implementation supply concrete replays"},
    ],
    "checks": checks,
    "not_applicable": [{"property_id": p, "reason": D.NOT_YET.get(p, "not claimed yet: model and correspondence stream under construction")} for p in ALL if p not in D.CLAIMED],
    "notes": "See DESIGN.md. known_findings.json lists genuine defects (open = recorded finding, fixed = repaired by a fix: commit in /repo).",
}
json.dump(manifest, open(os.path.join(ROOT, "MANIFEST.json"), "w"), indent=1)
print("MANIFEST.json written:", len(checks), "checks")
