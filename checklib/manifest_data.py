"""claimed properties: level text, note (trusted base), technique"""
CLAIMED = {}
NOT_YET = {}

CLAIMED["C16"] = {
    "text": "Proof. 15 Lean theorems over the exact bit-pattern model of Time/Duration/TimeInterval/WireTimestamp/log-interval "
            "arithmetic (all times in the PTP range, all durations, all 2^64 interval patterns, all i8 log intervals; unbounded "
            "integers, omega/decide +kernel). The model is tied to the Rust operators by a bit-exact differential run over the "
            "boundary lattice and seeded random operands, including which operand pairs overflow; an independent oracle evaluates "
            "the property's own predicates on the implementation.",
    "note": "Trusted: Lean kernel; the hand-written model of the `fixed` crate's arithmetic (validated by the correspondence run only); "
            "harness generators. f64 powi for powers of two assumed exact (checked for all 256 i8 inputs each run).",
    "technique": "Lean 4 theorems (omega, decide +kernel) + differential correspondence against the Rust operators",
}
