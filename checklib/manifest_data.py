"""claimed properties: level text, note (trusted base), technique"""
CLAIMED = {}
NOT_YET = {}

CLAIMED["C16"] = {
    "text": "Proof. 15 Lean theorems over the exact bit-pattern model of Time/Duration/TimeInterval/WireTimestamp/log-interval "
            "arithmetic (all times in the PTP range, all durations, all 2^64 interval patterns, all i8 log intervals; unbounded "
            "integers, omega/decide +kernel). The model is tied to the Rust operators by a bit-exact differential run over the "
            "boundary lattice and seeded random operands, including which operand pairs overflow; an independent oracle evaluates "
            "the property's own predicates on the implementation.",
    "note": "Trusted: Lean kernel; the hand-written model of the `fixed` crate's arithmetic (validated by the correspondence run only); "
            "harness generators. f64 powi for powers of two assumed exact (checked for all 256 i8 inputs each run).",
    "technique": "Lean 4 theorems (omega, decide +kernel) + differential correspondence against the Rust operators",
}

CLAIMED["C04"] = {
    "text": "Proof. Lean theorems for every byte string: decoding depends only on the first messageLength octets (prefix independence, "
            "padding ignored, truncation rejected); a decoded message re-encodes to exactly the declared length, decodes again to an "
            "equal message, and carries the same value as the input at the Clause 13 position of every header field, flag and body "
            "field (independent table-driven reader fieldAt/flagAt); encode/decode round trip for all well-formed messages. "
            "The tables the Rust source indexes are re-extracted on every run and compared with the Clause 13 tables by `decide`; "
            "the model codec is compared with the Rust codec on ~350k generated frames per quick run (all fields dumped, error class, "
            "re-encoded bytes), and an independently written Rust Clause 13 reader judges the implementation directly.",
    "note": "Trusted: Lean kernel; Spec/Clause13.lean (transcription of the standard); regex translator; generator coverage. "
            "serialize is observed on zeroed buffers; frames longer than 65535 octets are outside the theorem (hosts pass <= 2048).",
    "technique": "Lean 4 theorems (structural induction, omega, decide) + translated layout tables + differential correspondence",
}

CLAIMED["C05"] = {
    "text": "Proof. Lean theorems over the model of the data set comparison and state decision: the comparison is antisymmetric for "
            "all data sets; on GM-consistent data whose receivers are not their senders it is exactly the lexicographic order on "
            "(priority1, class, accuracy, variance, priority2, GM identity, stepsRemoved, sender, receiving port[, age]) — hence a strict "
            "weak order; the selected Ebest/Erbest is a candidate and no candidate is better; any two presentations of the same "
            "candidates select equal-key candidates; the recommended state equals an independently written Figure 33 for every own "
            "data set, Ebest, Erbest and prior state; S1 carries Ebest; a port handed S1 is afterwards Slave of the sender of the selected "
            "Announce (also when it was Slave of another port of the same clock) and after every BMCA run over all ports every Slave port "
            "is bound to the parent the data sets name (s1_binds_port_to_parent, bmca_binds_slaves_to_the_parent). dataset_comparison.rs is "
            "translated on every run into Lean data (chain of Figure 34, arms of Figure 35, dispatch, as_ordering, both constructors) and the "
            "interpretation of that translation is proved equal to the model's comparison for all data sets (generated_compare_is_model, "
            "generated_as_ordering_is_model, generated_of_announce_is_model, generated_of_own_is_model); so is the state decision of bmc/bmca.rs "
            "(guard, clockClass range, which best message each comparison looks at, every result arm: generated_state_decision_is_model), BestAnnounceMessage::compare (generated_best_compare_is_model) and the "
            "application of the decision, Port::set_recommended_port_state of port/bmca.rs (per decision code group and current port state: move or "
            "stay, target state, pending timer actions: generated_port_move_is_model). The unrestricted transitivity claim is refuted by a kernel-checked "
            "witness (IEEE's algorithm itself). Tie: exhaustive/random CMP stream, BMCA scenarios through real ports and the mixed stream, "
            "all compared with the model (port states, the master each Slave port listens to — hook verif_remote_master — and every data set); "
            "independent Rust transcription of Figures 34/35, an order-permutation oracle and a slave-bound-to-parent oracle on the implementation.",
    "note": "Trusted: Lean kernel; Spec/StateDecision.lean; generators. Instance-level permutation invariance of the whole bmca() call is "
            "validated by the oracle, proved only for the selection function (findBest_perm).",
    "technique": "Lean 4 theorems (order characterisation, fold invariant, case analysis) + the data set comparison translated from the source on every run and proved equal to the model + differential correspondence through PtpInstance::bmca",
}

CLAIMED["C06"] = {
    "text": "Proof. Lean theorems for every history of Announce "
            "registrations and BMCA runs on a port's foreign master list: an Erbest always is the newest of at least two stored records of "
            "its sender; after a single Announce from a sender (and any other traffic, any BMCA phasing) that sender is never selected; no "
            "record with stepsRemoved >= 255 or the instance's own clock identity is ever stored or selected; after every BMCA run all "
            "records are younger than 4 announce intervals; a sender that stays silent while BMCA steps adding up to the window go by has "
            "no record left. steady_master_is_never_dropped: from an empty list, a sender announcing once per BMCA period with "
            "consecutive sequence numbers modulo 2^16 (any number of rounds, any number of wraps) and a BMCA period shorter than the "
            "window is the Erbest of every BMCA run from its second Announce on, with the Announce of that round. "
            "steady_master_among_others_is_never_dropped: the same with any number of other foreign masters on the port announcing whatever "
            "and whenever they like, provided every Announce of the steady master beats theirs in the data set comparison (for instance by "
            "a lower priority1, dom_of_lower_priority1) - a master that is not the port's best loses its newest record on every BMCA run "
            "and is legitimately not covered. Constants are tied to the source by the translator. is_announce_message_qualified is translated from the source on every run (own-clock rule, sequence freshness rule, stepsRemoved cut-off: operator and bound of each, named constants evaluated) and proved equal to the model's FML.qualified for all lists and Announces (generated_qualification_is_model).",
    "note": "Trusted: Lean kernel; generators; the BMCA step equals the smallest announce interval (host contract). Known finding: a "
            "network-duplicated Announce (same sequenceId) counts as two.",
    "technique": "the qualification rules translated from the source on every run and proved equal to the model + Lean 4 theorems (invariants by induction over op histories) + translated constants + differential correspondence",
}

CLAIMED["C07"] = {
    "text": "Proof. Lean theorems: for every port state, instance state, receive time and every frame in the property's classes "
            "(IgnoredFrame), handle_general_receive / handle_event_receive return the unchanged port and instance state and no action, "
            "timer, forwarded TLV, measurement or clock call, and cannot panic (ignored_noop); lifted to all host histories with "
            "insertions at arbitrary positions, ignoredness judged in the state reached (noninterference: equal observation trace and "
            "final state). Tie: the c07 stream runs each generated history with and without ~12k inserted frames per quick run on the "
            "real ports (two-run oracle) and compares the model on every inserted op.",
    "note": "Trusted: Lean kernel; hand-written Port model (tied by all instance streams); generators. Hypothesis of ignored_noop for "
            "unacceptable Announces: the frame is not from the currently selected parent — true in reachable states because a parent "
            "passed the acceptable-master check when selected (validated by the streams, not yet a theorem).",
    "technique": "Lean 4 theorems (case analysis per handler, induction over insertion derivations) + two-run differential oracle",
}

CLAIMED["C09"] = {
    "text": "Proof. Lean theorems per handler (handle_sync, handle_follow_up, handle_delay_timestamp, handle_delay_resp with "
            "extract_measurement / handle_time_measurement): for every slave state, history and message, the stored timestamps carry the "
            "provenance invariant (they come from messages of the parent with the stored sequence id) and every measurement handed to the "
            "filter equals the IEEE formula (Spec/Formulas.lean, exact 2^-32 ns fixed point, asymmetry applied) of ONE Sync[/Follow_Up] "
            "pair or ONE Delay_Req/Delay_Resp pair with equal sequence ids; emitting a measurement empties the pair (each message used "
            "once). Tie: the recording filter's measurements are compared bit-exactly with the model's on generated interleavings; an "
            "independent Rust oracle re-derives each measurement from the logged frames.",
    "note": "Trusted: Lean kernel; Spec/Formulas.lean; generators. The step theorems are stated per handler under the invariants "
            "PeerIdle / incomplete-other-pair, which the handlers re-establish; their composition over whole histories is by the "
            "obvious induction and is exercised, not separately stated.",
    "technique": "Lean 4 theorems (provenance invariants, exact integer arithmetic) + bit-exact differential correspondence + independent oracle",
}

CLAIMED["C08"] = {
    "text": "Proof. Lean theorems by induction over every host history of a model instance with any number of ports: at most one "
            "port is Slave and a master-only port never is (Inv; step_inv for every op incl. BMCA runs, reachable_inv from "
            "Inst.new); a state decision S1 is only issued to the port whose own foreign-master list produced Ebest (bmca_inv_with, "
            "through C05.decision_payload and port-identity well-formedness); an instance slave-only from the start never has a "
            "Master port (slave_only_from_start) and after a run-time switch no port is Master once the next BMCA run completed, nor "
            "later (slave_only_at_runtime); every frame and measurement emitted by any host call is role-guarded "
            "(emitters_guarded: Announce/Sync/Follow_Up/Delay_Resp only from a port that was Master, Delay_Req only from the Slave "
            "port, sync/delay measurements only on the Slave port; BMCA runs emit no frames); what a port that is not Slave hands its "
            "servo is a peer delay result and nothing else (non_slave_port_feeds_peer_delay_only), on which an unarmed Kalman servo programs "
            "no frequency (C13). Port::handle_announce_receipt_timer (the one place a port makes itself Master outside a BMCA run) is translated from "
            "the source on every run - order of the tests, the slave-only condition, forced state and timer actions of each branch - and proved "
            "equal to the model's handler for all ports and instance states (generated_receipt_timer_is_model). Model tied by the inst stream "
            "(states, frame types, measurements, demobilisations after every op) plus an independent role oracle on the implementation; "
            "oracle-only stream kports: the real Kalman servo on every port of one- to three-port instances (E2E / P2P), no host call on a "
            "port that is not Slave reaches Clock::set_frequency / step_clock through that port.",
    "note": "Trusted: Lean kernel; generators. 'Adjusts the clock' is modelled as 'hands a sync/delay measurement to its filter': the "
            "servo itself is the host's Filter implementation (what the shipped Kalman servo then does is sampled by kports, not proved). The BMCA hypothesis (every port passed exactly once) is what "
            "PtpInstance::bmca asserts / the borrow checker enforces.",
    "technique": "Lean 4 theorems (invariant by induction over host histories) + the announce receipt timeout handler translated from the source on every run and proved equal to the model + differential correspondence + independent role oracle",
}

CLAIMED["C10"] = {
    "text": "Proof. Lean theorems: for every transmit timestamp in the PTP range a Master port emits exactly one Follow_Up numbered "
            "like the Sync whose origin timestamp plus correction is the timestamp truncated to 2^-16 ns (followUp_exact, no failure "
            "inside the range); a Delay_Req is answered with exactly one Delay_Resp echoing requester and sequence number with receive "
            "time + correction = receive time + request correction to 2^-16 ns (delayResp_exact, under the stated no-overflow guard of "
            "the I48F16 sum); Pdelay_Resp / Pdelay_Resp_Follow_Up echo requester, sequence number and correction and carry the times to "
            "the nanosecond; every message constructor output decodes to itself under the model of the library's parser and has its "
            "fixed size (44 / 54 octets); every frame any port-level host call emits bears the port's identity and the instance's "
            "domain and sdoId, a call emits at most one frame (hence at most one event send), and by induction over every host history "
            "(any length, so through every wrap) the Announce / Sync / Delay_Req / Pdelay_Req frames of a port are numbered c, c+1, … "
            "mod 2^16 and nothing else moves a counter (seq_numbers_consecutive). Message::sync, follow_up, delay_req, delay_resp, pdelay_req, pdelay_resp and pdelay_resp_follow_up "
            "are translated from the source on every run (base header, every overridden header field and its source, body) and the "
            "interpretation is proved equal to the model's constructors for all arguments (generated_sync_is_model, generated_follow_up_is_model, "
            "generated_delay_req_is_model, generated_delay_resp_is_model, generated_pdelay_req_is_model, generated_pdelay_resp_is_model, generated_pdelay_resp_follow_up_is_model). Model tied by the inst stream (every emitted frame "
            "bit-exact) plus an independent frame oracle.",
    "note": "Trusted: Lean kernel; generators; range assumptions on configuration fields (Rust integer types). Announce size and "
            "decodability with forwarded TLVs is C15. The Delay_Resp correction overflow (panic) is C03.",
    "technique": "Lean 4 theorems (exact integer arithmetic, decode∘encode round trip, induction over host histories) + message constructors translated from the source on every run and proved equal to the model + differential correspondence + independent frame oracle",
}

CLAIMED["C11"] = {
    "text": "Proof. Lean theorems: the one frame a Master port's announce timer emits is the encoding of a message whose grandmaster "
            "identity, quality, priorities, stepsRemoved, UTC offset, time source and leap / traceability flags are exactly the current "
            "parentDS / currentDS / timePropertiesDS (announce_carries_datasets; flags <-> time properties is lossless: "
            "time_properties_roundtrip); decisions M1 / M2 write the instance's own attributes - the current default data set, so a "
            "run-time quality change is advertised after the next BMCA run - with stepsRemoved 0 (decision_m_datasets, "
            "recommend_m_is_own, quality_change_after_bmca); decision S1 and every later Announce of the parent on the Slave port write "
            "the announced attributes with stepsRemoved + 1 (decision_s1_datasets, parent_announce_datasets), which the next Announce of "
            "any Master port then carries (parent_change_in_next_announce); nothing else writes these data sets (timers_keep_datasets, "
            "frames_keep_datasets, other_announce_keeps_datasets). Message::announce and AnnounceMessage::time_properties are translated from the "
            "source on every run into Lean data and the interpretation of that translation is proved equal to the model's msgAnnounce / "
            "annTimeProps for all states and messages (generated_announce_is_model, generated_time_properties_is_model). Model tied by the inst and master streams (all data sets and every "
            "Announce after every op) plus an independent data-set oracle. One genuine finding is recorded: on M1 / M2 the time "
            "properties are reset to fixed defaults instead of the ones the instance was constructed with.",
    "note": "Trusted: Lean kernel; generators. 'While it is grandmaster' / 'while one of its ports is slave' is stated per decision and "
            "per parent Announce (the events that make it so) plus frame theorems, not as one global invariant.",
    "technique": "Lean 4 theorems (case analysis over the decision / handler definitions, frame lemmas) + the Announce constructor and reader translated from the source on every run and proved equal to the model + differential correspondence + independent data-set oracle",
}

CLAIMED["C15"] = {
    "text": "Proof. Lean theorems: a received Announce yields ForwardTLV actions for exactly its TLVs of propagating type, in arrival "
            "order, tagged with the sender, and only if it was accepted into the foreign master list (forward_actions); the announce "
            "timer consumes a prefix of the host's queue and appends, unmodified and in order, exactly those consumed TLVs whose sender "
            "is the current parent (and that are not PATH_TRACE when the option is on), stopping at the first TLV that does not fit the "
            "remaining room (fwdLoop_spec) - so nothing from other senders is ever forwarded, nothing twice, and what is left is the head "
            "that did not fit; the emitted Announce never exceeds 1024 octets (announce_fits), decodes under the library's parser "
            "(announce_decodes, for queued TLVs the parser itself produced) and is always sent (no failure branch); with path trace on "
            "it begins with PATH_TRACE(stored path ++ own identity) whenever that fits, the stored path being the parent's "
            "(path_trace_stored); an Announce of the parent whose path contains the own identity changes nothing at all - no data set, "
            "no foreign master record, no timer, no forwarding (loop_discarded). Three genuine defects found by the oracle were "
            "repaired by fix: commits (own parser rejected frames ending in an empty TLV; announce timer panicked when a TLV filled the "
            "room exactly; a looping Announce updated the data sets before being discarded). Daemon side (Model/Forwarder.lean: the "
            "tokio broadcast channel as a log with per-receiver cursors, TlvForwarder with its peeked value, capacity / size test / "
            "resubscribe and each port task's clearing rule translated from tlvforwarder.rs and main.rs): next_if_smaller never hands "
            "out more than asked (forwarder_hands_out_what_fits); while a port task is fewer than 128 values behind, its forwarder is "
            "exactly the FIFO queue with 'take the head if it fits' that the port-level theorems assume (forwarder_is_a_queue, "
            "forwarder_forward_appends, forwarder_is_loose); for every history incl. lag, overflow, empty() and BMCA hand-backs, what a "
            "forwarder handed out is position by position a subsequence of what was sent: at most once per port, in arrival order, "
            "unmodified (forwarder_history); and neither port task's clearing rule touches the queue of a Master port "
            "(port_tasks_keep_master_queue - false before fix 76e768f: the ethernet task emptied exactly the master ports' queues). The two "
            "halves are joined by announce_forwards_from_the_daemons_queue: the forwarding loop of send_announce run against a "
            "forwarder (drain) appends exactly what the port-level model appends when handed that forwarder's pending list, and "
            "leaves in the forwarder what the model leaves in the list.",
    "note": "Trusted: Lean kernel; generators. The port tasks of main.rs need sockets and are not executed: the clearing rule is read "
            "from the source text (by the translator for the model, independently by the harness for the real TlvForwarder) and applied "
            "at the BMCA hand-back; everything else in the tasks (timers, sockets, action dispatch) is not modelled.",
    "technique": "Lean 4 theorems (induction over the forwarding loop, TLV codec lemmas, history invariant of the broadcast queue) + translated glue + differential correspondence + independent TLV oracle",
}

CLAIMED["C12"] = {
    "text": "Proof. Lean theorems over a host that applies the returned timer actions: every handler - each frame handler, each timer "
            "handler for the timer that just fired, transmit timestamps - and the pending actions of every BMCA decision re-arm what the "
            "port's new state waits on (Rearm lemmas); hence, by induction over every host history from a new instance, in every reachable "
            "state a Listening port has its announce receipt timer armed, a Master port its announce and sync timers, a Slave port its delay "
            "request timer (reachable_allwait) - no port waits on a timer that was never armed. Progress: the receipt timeout turns any "
            "non-faulty port of an instance that may be master into a Master with both periodic timers due at once; with no qualified "
            "master left the decision for a non-listening port is M1/M2, which does the same; a Master's announce / sync timer emits and "
            "re-arms itself with the configured interval, indefinitely; decision S1 makes the port Slave with receipt and delay timers, and a "
            "Slave's delay timer emits a (P)delay request and re-arms itself. One genuine finding is recorded (recovery from a peer-delay "
            "fault arms no timer). Model tied by the timed stream (a simulated host obeying the timers) plus liveness oracles on the "
            "implementation (silence -> Master and cadence; steady best master -> Slave and delay requests). The announce receipt timeout handler and set_recommended_port_state are translated from the source on every run and proved equal to the model (C08.generated_receipt_timer_is_model, C05.generated_port_move_is_model); both are obligations of this check too.",
    "note": "Trusted: Lean kernel; generators; simulated time. The bound 'within a bounded number of announce intervals' is argued from the "
            "armed-timer invariant + the durations of the timers (receiptTimeout x interval x [1,2)) + C06's window expiry, and is tested by "
            "the liveness oracle; it is not a single timed theorem.",
    "technique": "Lean 4 theorems (invariant by induction over host histories of a timer-obeying host, per-handler re-arm lemmas, progress lemmas) + differential correspondence + liveness oracles under simulated time",
}

CLAIMED["C03"] = {
    "text": "Proof. The Lean model marks every panic site of the modelled code (checked arithmetic, debug assertions, unconditional "
            "panics) as a failure. Theorems: on a port whose stored timestamps and durations are bounded (Bnd: < 2^112 units, an "
            "invariant every handler and every BMCA run preserves) every frame on either interface - any bytes up to 65535 octets - with any "
            "receive timestamp below 2^63 ns, every transmit timestamp report, and every timer expiration with any queue of forwarded TLVs "
            "returns normally (general_receive_total, event_receive_total, send_timestamp_total, timers_total; the measurement arithmetic "
            "cannot overflow: syncMeasurement_total, delayMeasurement_total, peerMeasurement_total; decoded wire timestamps always convert; "
            "corrections of any 64-bit value are applied without overflow); a BMCA run keeps every port bounded and can fail only through "
            "the host passing the wrong number of ports, an announce interval no Duration can hold, or an S1 decision that C06 / C08 "
            "exclude - never an unconditional panic (bmca_keeps_bnd, bmca_failure_kinds). Seven genuine panics found by the panic oracle "
            "were repaired by fix: commits (stepsRemoved overflow, path trace of 129+ entries, Time - correction underflow, Delay_Req "
            "correction overflow, debug assertion on slave-only instances, BMCA without ports, exact-fit TLV assertion). Model tied by "
            "four streams (returned / panicked after every op); thorough tier also on a release build.",
    "note": "Trusted: Lean kernel; generators. Partial where the truth is in the runtime: poisoned locks (C17), the filters (C13), the "
            "daemon. The BMCA totality is split: boundedness + failure kinds are theorems; that the two excluded S1 cases cannot arise "
            "rests on C06 (qualified stepsRemoved < 255) and C08 (S1 only to the port that produced Ebest, never master-only).",
    "technique": "Lean 4 theorems (bounded-state invariant, totality of each handler by case analysis with integer range arithmetic) + differential correspondence + panic-site oracle (debug and release builds)",
}

CLAIMED["C17"] = {
    "text": "Proof. The model lists, for every host call and state, the acquisitions of the instance-state lock the code performs "
            "(Inst.lockTrace: every with_ref / with_mut call site of the port and instance code). Theorems: the trace of every call is a "
            "flat sequence (acquisitions are never nested - a trace is a list of complete sections) with at most one write acquisition "
            "(writes_at_most_once); a call without a write acquisition changes nothing in the shared data sets (no_write_no_change), so "
            "every update of the parent / current / time-properties data sets is made inside one critical section; under mutual exclusion "
            "a concurrent observer therefore sees the state after a prefix of complete sections - whole updates only "
            "(snapshot_is_prefix, section_atomic). The trace model is tied to the library by running every op of three streams over a "
            "recording implementation of the public PtpInstanceStateMutex trait and comparing traces (nesting would be visible), and by "
            "a thread stress run over the library's RwLock implementation that looks for mixed snapshots, blocked threads and poisoned locks.",
    "note": "Trusted: Lean kernel; the lock's mutual exclusion; generators. Partial: real thread interleavings are sampled (stress), "
            "not enumerated; what is proved is the discipline (flat, single write section) that makes every interleaving safe.",
    "technique": "Lean 4 theorems over a lock-trace model (case analysis per call site) + differential correspondence of lock traces + thread stress oracle",
}

CLAIMED["C18"] = {
    "text": "Proof. Lean theorems over the exact fixed-point model of the overlay clock: set_frequency returns the reading at that "
            "instant and the re-anchored clock reads exactly that value at that instant, for every old and new frequency "
            "(frequency_change_continuous); step_clock returns the old reading plus the offset, exactly, and reads that afterwards, "
            "whatever frequency is in force and however long ago the last adjustment was (step_exact); between adjustments the reading "
            "is the underlying time plus a constant plus a correction that equals elapsed·ppm/10^6 to within (1 + 10^-6) units of "
            "2^-32 ns (rate); there is one conversion map, which now() applies to the underlying clock's current time "
            "(conversion_is_reading). The model is compared bit-exactly with the Rust OverlayClock on every returned time. One genuine "
            "defect found by the oracle was repaired by a fix: commit (step_clock lost the accrued frequency correction and scaled the step).",
    "note": "Trusted: Lean kernel; generators. The f64 ppm value enters the code only through its conversion to I96F32; the stream "
            "drives values for which that conversion is exact.",
    "technique": "Lean 4 theorems (exact integer arithmetic on the fixed-point bit patterns) + differential correspondence + independent exact-arithmetic oracle",
}

CLAIMED["C14"] = {
    "text": "Proof. Lean theorems: a completed peer exchange hands the filter exactly ((t4'-t1)-(t3'-t2))/2 (Spec.peerDelay, `fixed` "
            "division semantics), stamped t4', for every timestamp and correction value; a Pdelay_Resp or follow-up for the current "
            "request from a second device (before or after the measurement) makes the port Faulty with the peer state untouched - the "
            "later response is not used - and timestamps are only ever stored into an exchange whose responder is unknown or the same "
            "(classify_false_iff); a Faulty port emits no Announce/Sync/Follow_Up/Delay_Resp, hands no sync/delay measurement to a "
            "filter, is excluded from Ebest, is left alone by every BMCA decision and by the receipt timeout; the next completed "
            "exchange returns it to Listening with a fresh servo. Two genuine defects found by the oracle (Faulty left without a clean "
            "exchange) were repaired by fix: commits. set_recommended_port_state is translated from the source on every run and proved equal to the model (C05.generated_port_move_is_model: no decision code moves a Faulty port); an obligation of this check too.",
    "note": "Trusted: Lean kernel; Spec/Formulas.lean; generators. Provenance of the stored peer timestamps over whole histories is "
            "argued from classify_false_iff + the store definition, and checked by the independent oracle; it is not a single theorem.",
    "technique": "Lean 4 theorems (case analysis, exact integer arithmetic) + differential correspondence + independent oracles",
}

CLAIMED["C13"] = {
    "text": "Proof (partial on NaN-freedom and on the basic filter). Lean model of the whole Kalman servo and of the basic averaging "
            "filter (estimator, covariance update, wander selection, noise estimator, steer / step / clamp, demobilize), with "
            "binary64 values as bit patterns: comparisons, negation, abs, signum, max, clamp and the f64 <-> Duration conversions are "
            "defined on the bits, the rounding operations (+ - * / sqrt exp) are a parameter. Theorems, for every choice of those "
            "operations, every configuration with a finite non-negative max_freq_offset, every history of measurement / update / "
            "demobilize calls and every pattern of clock refusals: every frequency given to the clock compares within "
            "-max_freq_offset ..= max_freq_offset and is finite unless it is a NaN (frequency_within_bound); every step is, as a "
            "Duration, at least the step threshold as the servo compares it (step_at_least_threshold, via monotonicity of the "
            "bit-level f64 -> I96F32 conversion); demobilize gives the clock at most one command, a frequency within the bound, "
            "and a servo that is gone gives none (demobilize_at_most_one_command, nothing_after_demobilize); the fresh filter a port "
            "installs is silent until its first measurement (fresh_filter_is_silent) and, like every servo that has not programmed a "
            "frequency yet, programs none however many peer delay results, update timers and a demobilisation it sees - which is all a "
            "port that is not Slave hands it (unarmed_servo_never_programs_a_frequency_partial with C08.non_slave_port_feeds_peer_delay_only; "
            "partial: a step is excluded only by the sampled stream kports); a port demobilises exactly when it leaves "
            "Slave or enters / leaves Faulty (leaving_slave_demobilizes_once). Tie: the model instantiated with the processor's "
            "binary64 operations is compared with the Rust filters after every call, bit for bit, on commands, returned values and "
            "the complete filter state. Three genuine defects found (bound exceeded by one ulp; NaN state from zero-variance "
            "sample sets leading to a panic; NaN frequency from the basic filter on repeated event times) were repaired by fix: commits. "
            "Not proved: that the estimator never produces a NaN, and finiteness of the basic filter's frequency (no bound to clamp to) "
            "- both rest on the sampled histories (oracle + correspondence).",
    "note": "Trusted: Lean kernel; that Lean's Float operations are the binary64 operations Rust uses (checked bit-exactly by the "
            "correspondence on every run, not proved); generators. Commands issued by a call that later panics are outside the "
            "theorems (C03 covers panics; the oracle still checks those commands).",
    "technique": "Lean 4 theorems over a bit-level binary64 model with uninterpreted rounding arithmetic (induction over call histories, omega) + bit-exact differential correspondence of the full filter state + independent oracle",
}

CLAIMED["C02"] = {
    "text": "Partial. Convergence of the closed loop is not proved (it is a statement about floating-point trajectories under random "
            "jitter); it is decided on sampled closed-loop scenarios: the real KalmanFilter disciplining a simulated clock over the "
            "whole quantifier domain (offsets ±10 s, ±150 ppm, delay 1-400 us, jitter 0-20 us, intervals 2^-3..2^1 s, random delay-request "
            "spacing, out-of-order delay measurements, update timer), with an oracle on the true offset (below 500 ns + 1.5 x jitter "
            "within 60 + 350·I s, staying there, no step afterwards). Every call of every scenario is also compared bit for bit with the "
            "Lean servo model. A second, full-stack simulation (portloop) puts a real slave Port with the real KalmanFilter into the "
            "loop - frames, transmit timestamps (also reported after the response), the port's own timers and BMCA runs through the "
            "public host interface - under the same oracle. Proved in Lean, for every rounding arithmetic and every filter state: below the step threshold the servo "
            "gives at most one frequency command and never a step (no_step_below_threshold, step_only_at_threshold); steer programs "
            "slewTarget of the estimate (steer_slews_to_target); outside the dead zone the slew target has the sign opposite to the "
            "estimated offset, for every arithmetic with the IEEE sign rule (steering_opposes_offset); the noise estimator adds a sample "
            "only for a Sync / Delay pair whose event times differ by less than estimate_threshold in absolute value "
            "(noise_sample_needs_close_pair_sync / _delay); the estimator's three measurement rows (Sync = offset + delay, Delay_Resp = offset - delay, "
            "peer delay = delay) are those extracted from kalman.rs on this run and each absorb function uses its own (measurement_rows_match_source). "
            "One closed-loop scenario in five uses the peer-to-peer mechanism.",
    "note": "Trusted: Lean kernel; the closed-loop simulators (harness/src/streams/gen_loop.rs, portloop.rs: clock model, path model, event queue); "
            "generators; the calibration of bound and deadline. The convergence verdict is bounded simulation, not proof.",
    "technique": "Lean 4 theorems for the control law's structure + bit-exact differential correspondence of the servo on closed-loop histories + closed-loop simulation oracle (sampling) for convergence",
}

CLAIMED["C19"] = {
    "text": "Proof for the formatter, end-to-end correspondence for the rest. Lean model of the exporter's format.rs (every metric: name, "
            "help, unit, labels, value; label escaping; block layout; HTTP header) including an exact model of Rust's shortest-round-trip "
            "float rendering. Theorems for every state: the Content-Length announced is the body's length in octets; booleans are "
            "exported as 1 for true, 0 for false under their names; offset_from_master_nanoseconds and mean_delay_nanoseconds carry the "
            "nanosecond value; one port_state sample per port, one path_trace_list sample per entry plus 'self'; an escaped label value "
            "contains no raw line feed and un-escapes to the original for every string. Tie: each run sends hundreds (thorough: thousands) "
            "of states through the daemon's real serde representations, a unix socket, the real exporter process and HTTP, and compares "
            "the complete response with the model byte for byte; an independently written reader of the response checks framing, the "
            "OpenMetrics grammar and every sample value against the state. Four genuine defects found and repaired by fix: commits "
            "(booleans inverted; seconds exported as nanoseconds; documents over 16 KiB cut short -> 500 for instances with dozens of "
            "ports; floats altered by one ulp in the JSON hop). Snapshot getters = live data sets: C11's theorems and view stream.",
    "note": "Trusted: Lean kernel; generators; the independent exposition reader. serde_json and tokio are exercised, not modelled.",
    "technique": "Lean 4 theorems over a model of the formatter (structural induction for escaping, simp over the metric table) + byte-exact end-to-end correspondence through the real exporter process + independent response oracle",
}

CLAIMED["C20"] = {
    "text": "Proof on the loop's model, process-level correspondence for the tie. Lean model of the exporter's accept / request loop over "
            "abstract results of read() (data, end of stream, error) and of the observation socket (usable or not). Theorems for every "
            "sequence of read results: the loop is structurally recursive over them (no iteration without consuming a read result: no "
            "spin); a connection whose client goes away (any end of stream or error) always finishes - the exporter is left waiting only "
            "by a client that is still connected and has sent nothing final; however a request is cut into reads, the connection gets "
            "the verdict of the whole stream (chunking_does_not_matter); a well-formed GET is answered with the data, or with the 500 "
            "status when the observation socket is unusable; after any number of such connections a later well-formed request gets its "
            "200 and nothing in the model can terminate the loop. Tie: the real exporter process is run against scripted clients "
            "(partial requests, resets, oversized and non-GET requests, split writes) and observation-socket behaviours; every "
            "connection's outcome is compared with the model and an independent oracle watches exit status, CPU use while idle and the "
            "answer to a final request. Three genuine defects found and repaired by fix: commits (busy loop for ever after a client "
            "closed early; busy loop after an over-long request; exit on a connection reset or a failed write).",
    "note": "Trusted: Lean kernel; tokio / the kernel's socket semantics as abstracted by read results; timing thresholds of the oracle. "
            "Buffer size, end-of-headers marker, verb prefix and the binary's entry point are re-extracted from the source every run.",
    "technique": "Lean 4 theorems (structural induction over read results, list lemmas) over a model of the request loop + translated constants + process-level differential correspondence and liveness oracle",
}

CLAIMED["C01"] = {
    "text": "Proof for fixed points, sampling for convergence. Lean theorems about the abstract network model (any number of nodes, "
            "any segment structure incl. rings and shared segments, any ranking): (1) for every fixed point, non-relaying instances "
            "and several ports of one instance on a segment allowed: each Slave port follows a Master port attached to its own "
            "segment, of a different live instance whose stepsRemoved is exactly one less and whose grandmaster attributes it "
            "carries (slave_follows_master_port); an instance that advertises is in the grandmaster state or has a Slave port "
            "(master_port_node); every slave reaches, over exactly stepsRemoved parent hops, a live instance in the grandmaster "
            "state whose own attributes are the ones advertised - no loop, no phantom grandmaster "
            "(slave_reaches_live_grandmaster). (2) for every fixed point of a connected plain network (all instances relay, one "
            "port per instance and segment): the best-ranked instance is in the grandmaster state, every instance carries exactly "
            "its grandmaster attributes, no other instance is in the grandmaster state and every other instance has a Slave port "
            "(best_is_only_grandmaster; via minimality of bestOf / ebestOf under the C05 key order, grandmaster consistency of "
            "fixed points, and induction along paths of shared segments), and every segment has at least one Master port and no "
            "two ports of a segment are both Master (one_master_per_segment; a Master port hearing another belongs to the "
            "instance closer to the grandmaster, or equally close with the lower identity); the hypotheses are met by a concrete "
            "network (Lemmas/NetDemo). Tie, at two levels: networks of real PtpInstances are simulated (2-8 nodes, lines, stars, rings, "
            "shared segments, dual-homed instances, random graphs, all rankings, cold start and single faults) with every call of "
            "every instance compared with the Lean instance model of C05-C12, and at every judged point the instances' states are "
            "checked to be a fixed point of the abstract model. NOT proved: the convergence / re-convergence time and absence of flapping, and the "
            "'best is sole grandmaster / one Master per segment' half for networks with several ports of one instance on a segment "
            "- decided by the oracle on the sampled scenarios.",
    "note": "Trusted: Lean kernel; the network simulator (delivery, timers, BMCA phases, faults); generators. Known finding: networks "
            "with a non-relaying instance besides the best clock (clockClass<128, slave-only, master-only port) do not meet the "
            "property's literal wording under IEEE 1588 itself; their converged states are still fixed points of the abstract model.",
    "technique": "Lean 4 theorems about fixed points of an abstract network model (fold-minimum lemmas over the comparison key, strong induction on stepsRemoved, induction along paths) + per-call differential correspondence of every instance + fixed-point check of converged states + network-level oracle (sampling) for convergence",
}
