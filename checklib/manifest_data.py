"""claimed properties: level text, note (trusted base), technique"""
CLAIMED = {}
NOT_YET = {}

CLAIMED["C16"] = {
    "text": "Proof. 15 Lean theorems over the exact bit-pattern model of Time/Duration/TimeInterval/WireTimestamp/log-interval "
            "arithmetic (all times in the PTP range, all durations, all 2^64 interval patterns, all i8 log intervals; unbounded "
            "integers, omega/decide +kernel). The model is tied to the Rust operators by a bit-exact differential run over the "
            "boundary lattice and seeded random operands, including which operand pairs overflow; an independent oracle evaluates "
            "the property's own predicates on the implementation.",
    "note": "Trusted: Lean kernel; the hand-written model of the `fixed` crate's arithmetic (validated by the correspondence run only); "
            "harness generators. f64 powi for powers of two assumed exact (checked for all 256 i8 inputs each run).",
    "technique": "Lean 4 theorems (omega, decide +kernel) + differential correspondence against the Rust operators",
}

CLAIMED["C04"] = {
    "text": "Proof. Lean theorems for every byte string: decoding depends only on the first messageLength octets (prefix independence, "
            "padding ignored, truncation rejected); a decoded message re-encodes to exactly the declared length, decodes again to an "
            "equal message, and carries the same value as the input at the Clause 13 position of every header field, flag and body "
            "field (independent table-driven reader fieldAt/flagAt); encode/decode round trip for all well-formed messages. "
            "The tables the Rust source indexes are re-extracted on every run and compared with the Clause 13 tables by `decide`; "
            "the model codec is compared with the Rust codec on ~350k generated frames per quick run (all fields dumped, error class, "
            "re-encoded bytes), and an independently written Rust Clause 13 reader judges the implementation directly.",
    "note": "Trusted: Lean kernel; Spec/Clause13.lean (transcription of the standard); regex translator; generator coverage. "
            "serialize is observed on zeroed buffers; frames longer than 65535 octets are outside the theorem (hosts pass <= 2048).",
    "technique": "Lean 4 theorems (structural induction, omega, decide) + translated layout tables + differential correspondence",
}
