#!/bin/sh
# usage: seedbatch.sh <tag> [extra property ids]   e.g. seedbatch.sh C05b C01
# verifies the agent's three claims, then runs the property's quick check (and any extra ones) against the change
tag="$1"; shift
pid=$(echo "$tag" | cut -c1-3)
cd /verif
echo "### $tag"
./seedverify.sh "$tag" 2>&1 | cut -c1-130 | tail -4
./seedtest.sh /tmp/seed-$tag/out/patch.diff $pid "$@" 2>&1 | grep -E "^(VIOLATION|\[check\]|==|patch)" | cut -c1-200
