#!/bin/sh
# runs the thorough check of every claimed property; prints a summary (about an hour on 16 cores)
cd "$(dirname "$0")"
rc=0
for id in $(python3 -c "import json;print(' '.join(c['property_id'] for c in json.load(open('MANIFEST.json'))['checks']))"); do
  if [ -n "$1" ] && [ "$1" != "$id" ] && [ "$1" != "all" ]; then continue; fi
  ./check "$id" --tier thorough > "work/thorough_$id.log" 2>&1; r=$?
  tail -1 "work/thorough_$id.log"
  grep -E '^(VIOLATION)' "work/thorough_$id.log" | cut -c1-220
  [ $r -ne 0 ] && rc=1
done
exit $rc
