#!/bin/sh
# usage: seedverify.sh <ID>  — in /tmp/wt/<ID> (change + demo applied): checks the three claims
id="$1"; wt=/tmp/wt/$id; out=/tmp/wt/$id-out
export CARGO_NET_OFFLINE=true CARGO_TARGET_DIR=/tmp/wt/target-$id
cd $wt || exit 2
run() { cargo test --workspace --offline --lib --bins 2>&1 | grep -E "^test result|FAILED|failed" | tr '\n' ' '; echo; }
echo "[both applied]      $(run)"
git apply -R $out/patch.diff && echo "[demo only]         $(run)"
git apply $out/patch.diff
git apply -R $out/demo.diff 2>/dev/null || git checkout -- . && git apply $out/patch.diff 2>/dev/null
echo "[change only]       $(run)"
git status --short | head -5
