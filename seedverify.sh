#!/bin/sh
# usage: seedverify.sh <ID> [base]  — in <base>/wt (change + demo applied; default base /tmp/seed-<ID>): checks the three claims
id="$1"; base="${2:-/tmp/seed-$id}"; wt=$base/wt; out=$base/out
[ -d "$wt" ] || { wt=/tmp/wt/$id; out=/tmp/wt/$id-out; base=/tmp/wt; }
export CARGO_NET_OFFLINE=true CARGO_TARGET_DIR=$base/target
cd $wt || exit 2
run() { cargo test --workspace --offline --lib --bins 2>&1 | grep -E "^test result|FAILED|failed" | tr '\n' ' '; echo; }
git checkout -- . ; git apply $out/patch.diff && git apply $out/demo.diff
echo "[both applied]      $(run)"
git checkout -- . ; git apply $out/demo.diff
echo "[demo only]         $(run)"
git checkout -- . ; git apply $out/patch.diff
echo "[change only]       $(run)"
git status --short | head -5
