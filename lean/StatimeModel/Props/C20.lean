import StatimeModel.Model.Exporter
import StatimeModel.Generated.ExporterConsts
/-
C20 — The metrics exporter cannot be wedged by its clients.

Property theorems only, about the model of the accept / request loop (Model/Exporter.lean). The tie to
statime-linux/src/metrics/exporter.rs is the `exporter` stream: the real exporter process against
scripted clients and observation-socket behaviours, compared with this model connection by connection,
with process liveness (exit status, CPU use while idle) judged by an independent oracle.

`serve` is structurally recursive over the results of the `read` calls: that Lean accepts it is the
statement that a connection costs at most one loop iteration per read result — there is no state in
which the exporter goes round without consuming one.
-/
namespace Statime.C20
open Statime.Exporter

/-- the exporter is only ever left waiting by a client that is still connected and silent: if any
read reports the end of the stream or an error — the client has gone away — the connection is over -/
theorem client_that_goes_away_is_finished (rds : List Rd) (o : Obs) :
    ∀ acc, (Rd.eof ∈ rds ∨ Rd.err ∈ rds) → serve acc rds o ≠ .waiting := by
  induction rds with
  | nil => intro acc h; simp at h
  | cons r rest ih =>
    intro acc h
    cases r with
    | eof => simp [serve]
    | err => simp [serve]
    | data bs =>
      have h' : Rd.eof ∈ rest ∨ Rd.err ∈ rest := by
        rcases h with h | h
        · left; simpa using h
        · right; simpa using h
      unfold serve
      split
      · simp
      · simp only
        split
        · split
          · cases o <;> simp [respond]
          · simp
        · split
          · simp
          · exact ih _ h'

/-- waiting means exactly that: every read so far returned data, no end of headers has been seen and
the buffer is not full -/
theorem waiting_only_on_silent_client (rds : List Rd) (o : Obs) :
    ∀ acc, serve acc rds o = .waiting → ∀ r ∈ rds, ∃ bs, r = Rd.data bs ∧ bs ≠ [] := by
  induction rds with
  | nil => intro acc _ r hr; cases hr
  | cons r rest ih =>
    intro acc h x hx
    cases r with
    | eof => simp [serve] at h
    | err => simp [serve] at h
    | data bs =>
      unfold serve at h
      split at h
      · cases h
      · rename_i hne
        simp only at h
        split at h
        · split at h
          · cases o <;> simp [respond] at h
          · cases h
        · split at h
          · cases h
          · rcases List.mem_cons.mp hx with e | e
            · exact ⟨bs, e, by intro hb; apply hne; simp [hb]⟩
            · exact ih _ h x e

/-! ### an end of headers, once in the buffer, stays found -/

theorem startsWithTerm_append (a b : List UInt8) (h : startsWithTerm a = true) : startsWithTerm (a ++ b) = true := by
  match a, h with
  | x0 :: x1 :: x2 :: x3 :: rest, h => simpa [startsWithTerm] using h

theorem hasTerm_append (a b : List UInt8) (h : hasTerm a = true) : hasTerm (a ++ b) = true := by
  induction a with
  | nil => simp [hasTerm] at h
  | cons x xs ih =>
    simp only [hasTerm, Bool.or_eq_true] at h
    rcases h with h | h
    · have := startsWithTerm_append (x :: xs) b h
      simp only [List.cons_append] at this ⊢
      simp [hasTerm, this]
    · have := ih h
      simp only [List.cons_append]
      simp [hasTerm, this]

theorem hasTerm_length (a : List UInt8) (h : hasTerm a = true) : 4 ≤ a.length := by
  induction a with
  | nil => simp [hasTerm] at h
  | cons x xs ih =>
    simp only [hasTerm, Bool.or_eq_true] at h
    rcases h with h | h
    · match xs, h with
      | x1 :: x2 :: x3 :: rest, _ => simp
    · have := ih h; simp; omega

theorem isGet_append (a b : List UInt8) (h : 4 ≤ a.length) : isGet (a ++ b) = isGet a := by
  match a, h with
  | x0 :: x1 :: x2 :: x3 :: rest, _ => simp [isGet]

/-- **Split writes do not matter.** However the network cuts a request into reads, the connection gets
the verdict of the whole stream: the response for a `GET` whose end of headers lies within the first
2048 octets, nothing otherwise. (`chunks`: the non-empty results of the reads, then the client closes.) -/
theorem chunking_does_not_matter (chunks : List (List UInt8)) (o : Obs) :
    ∀ acc, (∀ c ∈ chunks, c ≠ []) → hasTerm acc = false → acc.length < CAP →
      serve acc (chunks.map Rd.data ++ [Rd.eof]) o = verdict (acc ++ chunks.flatten) o := by
  induction chunks with
  | nil =>
    intro acc _ hna hlen
    simp only [List.map_nil, List.nil_append, List.flatten_nil, List.append_nil]
    unfold serve verdict
    have : acc.take CAP = acc := List.take_of_length_le (by omega)
    simp [this, hna]
  | cons c rest ih =>
    intro acc hne hna hlen
    have hc : c ≠ [] := hne c (by simp)
    simp only [List.map_cons, List.cons_append, List.flatten_cons]
    unfold serve
    have hce : c.isEmpty = false := by cases c <;> simp_all
    simp only [hce, Bool.false_eq_true, if_false]
    -- the new buffer content is a prefix of the stream
    have hpre : (acc ++ (c ++ rest.flatten)).take (acc ++ c.take (CAP - acc.length)).length = acc ++ c.take (CAP - acc.length) := by
      have e : acc ++ (c ++ rest.flatten) = (acc ++ c.take (CAP - acc.length)) ++ (c.drop (CAP - acc.length) ++ rest.flatten) := by
        rw [List.append_assoc, ← List.append_assoc (c.take _), List.take_append_drop]
      rw [e, List.take_append_length]
    have hlen' : (acc ++ c.take (CAP - acc.length)).length ≤ CAP := by
      rw [List.length_append, List.length_take]; omega
    -- hence also a prefix of the first CAP octets of the stream
    have hw : ∃ t, (acc ++ (c ++ rest.flatten)).take CAP = (acc ++ c.take (CAP - acc.length)) ++ t := by
      refine ⟨((acc ++ (c ++ rest.flatten)).take CAP).drop (acc ++ c.take (CAP - acc.length)).length, ?_⟩
      have := List.take_append_drop (acc ++ c.take (CAP - acc.length)).length ((acc ++ (c ++ rest.flatten)).take CAP)
      rw [List.take_take, Nat.min_eq_left hlen', hpre] at this
      exact this.symm
    obtain ⟨t, ht⟩ := hw
    split
    · -- end of headers found now
      rename_i hterm
      unfold verdict
      simp only
      rw [ht, hasTerm_append _ _ hterm, isGet_append _ _ (hasTerm_length _ hterm)]
      simp
    · rename_i hnt
      split
      · -- buffer full without an end of headers
        rename_i hfull
        unfold verdict
        simp only
        have hexact : (acc ++ c.take (CAP - acc.length)).length = CAP := by omega
        have : (acc ++ (c ++ rest.flatten)).take CAP = acc ++ c.take (CAP - acc.length) := by
          have h := hpre
          rw [hexact] at h
          exact h
        rw [this]
        simp [hnt]
      · -- the whole chunk went into the buffer; go on
        rename_i hnf
        have hall : c.take (CAP - acc.length) = c := by
          apply List.take_of_length_le
          rw [List.length_append, List.length_take] at hnf
          omega
        rw [hall] at hnt hnf ⊢
        have := ih (acc ++ c) (fun x hx => hne x (by simp [hx])) (by simpa using hnt) (by omega)
        rw [this, List.append_assoc]

/-- **A well-formed request is answered**, with the data or with the error status, whatever the
segmentation: a `GET` whose end of headers lies within the buffer gets `respond o`. -/
theorem wellformed_request_is_answered (chunks : List (List UInt8)) (o : Obs)
    (hne : ∀ c ∈ chunks, c ≠ []) (hget : isGet chunks.flatten = true)
    (hterm : hasTerm (chunks.flatten.take CAP) = true) :
    serve [] (chunks.map Rd.data ++ [Rd.eof]) o = respond o := by
  rw [chunking_does_not_matter chunks o [] hne (by simp [hasTerm]) (by simp [CAP])]
  unfold verdict
  simp only [List.nil_append, hterm, if_true]
  have h4 := hasTerm_length _ hterm
  have : isGet (chunks.flatten.take CAP) = true := by
    have e := List.take_append_drop CAP chunks.flatten
    rw [← e] at hget
    rw [isGet_append _ _ h4] at hget
    exact hget
  simp [this]

/-- **Later requests are answered.** After any number of connections whose clients have gone away —
whatever they sent, whatever the observation socket did meanwhile — a well-formed request with a
usable observation document gets its 200. -/
theorem later_request_is_answered (cs : List Conn) (good : List (List UInt8))
    (hgone : ∀ c ∈ cs, Rd.eof ∈ c.1 ∨ Rd.err ∈ c.1)
    (hne : ∀ c ∈ good, c ≠ []) (hget : isGet good.flatten = true) (hterm : hasTerm (good.flatten.take CAP) = true) :
    (run (cs ++ [(good.map Rd.data ++ [Rd.eof], Obs.usable)])).getLast? = some Outcome.ok200 ∧
    Outcome.waiting ∉ run (cs ++ [(good.map Rd.data ++ [Rd.eof], Obs.usable)]) := by
  induction cs with
  | nil =>
    have := wellformed_request_is_answered good .usable hne hget hterm
    simp [run, this, respond]
  | cons c rest ih =>
    have hc := client_that_goes_away_is_finished c.1 c.2 [] (hgone c (by simp))
    have ih' := ih (fun x hx => hgone x (by simp [hx]))
    simp only [List.cons_append, run]
    cases hs : serve [] c.1 c.2 with
    | waiting => exact absurd hs hc
    | ok200 =>
      refine ⟨?_, ?_⟩
      · rw [List.getLast?_cons_of_ne_nil] <;> first | exact ih'.1 | (intro h; rw [h] at ih'; simp at ih')
      · simp [ih'.2]
    | err500 =>
      refine ⟨?_, ?_⟩
      · rw [List.getLast?_cons_of_ne_nil] <;> first | exact ih'.1 | (intro h; rw [h] at ih'; simp at ih')
      · simp [ih'.2]
    | dropped =>
      refine ⟨?_, ?_⟩
      · rw [List.getLast?_cons_of_ne_nil] <;> first | exact ih'.1 | (intro h; rw [h] at ih'; simp at ih')
      · simp [ih'.2]

/-- an unusable observation socket (refused, closed early, truncated or invalid document) costs the
client an error status, never the exporter -/
theorem unusable_observation_gives_500 (chunks : List (List UInt8))
    (hne : ∀ c ∈ chunks, c ≠ []) (hget : isGet chunks.flatten = true) (hterm : hasTerm (chunks.flatten.take CAP) = true) :
    serve [] (chunks.map Rd.data ++ [Rd.eof]) .unusable = .err500 := by
  rw [wellformed_request_is_answered chunks .unusable hne hget hterm]; rfl

/-! non-vacuity: the harness's request, whole or cut in two, satisfies the hypotheses -/
example : isGet [getRequest].flatten = true ∧ hasTerm ([getRequest].flatten.take CAP) = true := by decide
example : serve [] [.data (getRequest.take 10), .data (getRequest.drop 10)] .usable = .ok200 := by decide
example : serve [] [.data (getRequest.take 10), .eof] .usable = .dropped := by decide

/-! tie to the source: buffer size, end-of-headers marker and verb prefix as extracted from exporter.rs -/
theorem constants_match_source :
    Generated.exporterBufLen = some CAP ∧ Generated.exporterTerminator = some [13, 10, 13, 10] ∧
    Generated.exporterVerb = some [71, 69, 84, 32] := by decide

end Statime.C20
