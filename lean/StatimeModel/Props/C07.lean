import StatimeModel.Model.Instance
/-
C07 — Traffic from unselected, unacceptable or foreign-domain sources has no effect.

`IgnoredFrame p s data` spells out the property's classes of frames relative to the state the
frame arrives in. `ignored_noop`: such a frame changes neither the port nor the instance state and
produces no action, no timer, no measurement, no clock call — and cannot panic. `noninterference`
lifts this to whole histories with arbitrary insertions.

Tie: the `c07` stream runs every generated history twice on the real ports — with and without
inserted frames of these classes — and requires identical observations (two-run oracle), and the
mixed stream compares the model with the implementation on all ops.
-/
namespace Statime.C07
open Statime

/-- the classes of frames the property calls ineffective, for port `p` of an instance in state `s` -/
def IgnoredFrame (p : Port) (s : InstState) (data : List UInt8) : Prop :=
  -- another domain or sdoId, a PTP version other than 2, or otherwise malformed
  parseAndFilter s data = none ∨
  ∃ m, parseAndFilter s data = some m ∧
    match m.body with
    -- Announce bearing the port's own identity, or from a clock outside the acceptable master list
    -- (and not the currently selected parent: the parent was accepted when it was selected)
    | .announce _ =>
        (m.header.src = p.id ∨ acceptable p.cfg.acceptable m.header.src.clock = false) ∧
        ¬ (p.st.isSlave = true ∧ m.header.src = s.parent.parentPort)
    -- Sync / Follow_Up not sent by the currently selected parent
    | .sync _ | .followUp _ => ∀ remote sy d l, p.st = .slave remote sy d l → remote ≠ m.header.src
    -- Delay_Resp answering someone else's request, or not sent by the parent
    | .delayResp _ req => ∀ remote sy d l, p.st = .slave remote sy d l → (p.id ≠ req ∨ remote ≠ m.header.src)
    | _ => False

theorem handleSync_other (p : Port) (h : Header) (o : WireTs) (ts : Nat)
    (hr : ∀ remote sy d l, p.st = .slave remote sy d l → remote ≠ h.src) : p.handleSync h o ts = .ok (p, []) := by
  unfold Port.handleSync
  cases hst : p.st with
  | slave remote sy d l => simp only; rw [if_pos (hr remote sy d l hst)]
  | _ => rfl

theorem handleFollowUp_other (p : Port) (h : Header) (o : WireTs)
    (hr : ∀ remote sy d l, p.st = .slave remote sy d l → remote ≠ h.src) : p.handleFollowUp h o = .ok (p, []) := by
  unfold Port.handleFollowUp
  cases hst : p.st with
  | slave remote sy d l => simp only; rw [if_pos (hr remote sy d l hst)]
  | _ => rfl

theorem handleDelayResp_other (p : Port) (h : Header) (rx : WireTs) (req : PortId)
    (hr : ∀ remote sy d l, p.st = .slave remote sy d l → (p.id ≠ req ∨ remote ≠ h.src)) :
    p.handleDelayResp h rx req = .ok (p, []) := by
  unfold Port.handleDelayResp
  cases hst : p.st with
  | slave remote sy d l => simp only; rw [if_pos (hr remote sy d l hst)]
  | _ => rfl

theorem handleAnnounce_unacceptable (p : Port) (s : InstState) (m : Msg) (ab : AnnounceBody)
    (hbad : m.header.src = p.id ∨ acceptable p.cfg.acceptable m.header.src.clock = false)
    (hnp : ¬ (p.st.isSlave = true ∧ m.header.src = s.parent.parentPort))
    (hown : p.fml.own = p.id) :
    p.handleAnnounce s m ab = .ok (p, s, []) := by
  have hreg : bmcaRegister p.fml p.cfg.acceptable ⟨m.header, ab⟩ = (p.fml, false) := by
    unfold bmcaRegister
    rw [if_neg]
    intro ⟨h1, h2⟩
    rcases hbad with e | e
    · exact h1 (by rw [hown]; exact e)
    · rw [e] at h2; cases h2
  have hupd : p.announceUpdate s m ⟨m.header, ab⟩ = .ok (s, false) := by
    unfold Port.announceUpdate
    rw [if_neg hnp]
  have hr : p.announceRegister m ⟨m.header, ab⟩ = (p, []) := by
    unfold Port.announceRegister
    rw [hreg]
    simp
  unfold Port.handleAnnounce
  rw [hupd]
  simp only [Bool.false_eq_true, if_false, hr]

/-- every port the model creates files its foreign masters under its own identity -/
def PortOK (p : Port) : Prop := p.fml.own = p.id

/-- **An ignored frame is a no-op**, on the general and on the event interface, at any receive time. -/
theorem ignored_noop (p : Port) (s : InstState) (data : List UInt8) (ts : Nat) (hp : PortOK p)
    (h : IgnoredFrame p s data) :
    p.handleGeneralReceive s data = .ok (p, s, []) ∧ p.handleEventReceive s data ts = .ok (p, s, []) := by
  unfold Port.handleGeneralReceive Port.handleEventReceive
  rcases h with h | ⟨m, hm, hc⟩
  · simp [h]
  · simp only [hm]
    unfold Port.handleGeneralInternal
    cases hb : m.body with
    | announce ab =>
      rw [hb] at hc
      simp only at hc
      simp only [handleAnnounce_unacceptable p s m ab hc.1 hc.2 hp, and_self]
    | sync o =>
      rw [hb] at hc
      simp only at hc
      simp [handleSync_other p m.header o ts hc, Functor.map, Except.map]
    | followUp o =>
      rw [hb] at hc
      simp only at hc
      simp [handleFollowUp_other p m.header o hc, Functor.map, Except.map]
    | delayResp rx req =>
      rw [hb] at hc
      simp only at hc
      simp [handleDelayResp_other p m.header rx req hc, Functor.map, Except.map]
    | delayReq _ => rw [hb] at hc; exact absurd hc (by simp)
    | pdelayReq _ => rw [hb] at hc; exact absurd hc (by simp)
    | pdelayResp _ _ => rw [hb] at hc; exact absurd hc (by simp)
    | pdelayRespFu _ _ => rw [hb] at hc; exact absurd hc (by simp)
    | signaling _ => rw [hb] at hc; exact absurd hc (by simp)
    | management _ _ _ _ => rw [hb] at hc; exact absurd hc (by simp)

/-! ### histories -/

/-- a host call that delivers an ignored frame to some port -/
def IgnoredOp (i : Inst) : Op → Prop
  | .gen k data => ∃ p, portAt i.ports k = some p ∧ PortOK p ∧ IgnoredFrame p i.st data
  | .evt k data _ => ∃ p, portAt i.ports k = some p ∧ PortOK p ∧ IgnoredFrame p i.st data
  | _ => False

theorem setPort_same (ports : List Port) (k : Nat) (p : Port) (h0 : portAt ports k = some p) :
    setPort ports k p = ports := by
  have h : ports[k - 1]? = some p := by
    unfold portAt at h0
    split at h0
    · cases h0
    · exact h0
  unfold setPort
  apply List.ext_getElem?
  intro j
  by_cases hj : j = k - 1
  · subst hj
    rw [List.getElem?_set_self', h]; simp
  · rw [List.getElem?_set_ne (Ne.symm hj)]

theorem step_ignored (i : Inst) (op : Op) (h : IgnoredOp i op) : i.step op = .ok (i, [], 0) := by
  cases op with
  | gen k data =>
    obtain ⟨p, hp, hok, hf⟩ := h
    simp only [Inst.step, Inst.portHandler, Inst.withPort, hp, (ignored_noop p i.st data 0 hok hf).1, Except.map, tag,
      List.map_nil, setPort_same i.ports k p hp]
  | evt k data ts =>
    obtain ⟨p, hp, hok, hf⟩ := h
    simp only [Inst.step, Inst.portHandler, Inst.withPort, hp, (ignored_noop p i.st data ts hok hf).2, Except.map, tag,
      List.map_nil, setPort_same i.ports k p hp]
  | _ => exact absurd h (by simp [IgnoredOp])

/-- run a history; the result is the final state (or the panic) and the concatenated observations
(actions, timers, forwarded TLVs, measurements, filter and clock calls, in order) -/
def run (i : Inst) : List Op → (Except Panic Inst) × Obs
  | [] => (.ok i, [])
  | op :: ops =>
    match i.step op with
    | .error e => (.error e, [])
    | .ok (i', o, _) =>
      let (r, os) := run i' ops
      (r, o ++ os)

/-- `Inserted i h h'`: `h'` is `h` with ignored frames inserted at arbitrary positions — ignoredness
being judged in the state reached at that point -/
inductive Inserted : Inst → List Op → List Op → Prop
  | nil (i : Inst) : Inserted i [] []
  | keep (i i' : Inst) (op : Op) (o : Obs) (q : Nat) (h h' : List Op) :
      i.step op = .ok (i', o, q) → Inserted i' h h' → Inserted i (op :: h) (op :: h')
  | stop (i : Inst) (op : Op) (e : Panic) (h h' : List Op) : i.step op = .error e → Inserted i (op :: h) (op :: h')
  | insert (i : Inst) (op : Op) (h h' : List Op) : IgnoredOp i op → Inserted i h h' → Inserted i h (op :: h')

/-- **Non-interference.** The run with insertions is observationally identical to the run without:
same observation trace, same final port states and data sets (or the same panic at the same point). -/
theorem noninterference (i : Inst) (h h' : List Op) (hins : Inserted i h h') : run i h' = run i h := by
  induction hins with
  | nil i => rfl
  | keep i i' op o q h h' hs _ ih => simp only [run, hs, ih]
  | stop i op e h h' hs => simp only [run, hs]
  | insert i op h h' hig _ ih =>
    simp only [run, step_ignored i op hig]
    rw [ih]
    cases hr : run i h with
    | mk r os => simp

/-! ### Non-vacuity: a concrete foreign-domain Announce is ignored by a listening port -/

def samplePort : Port :=
  { cfg := { acceptable := none, p2p := false, delayLog := 0, announceLog := 0, receiptTimeout := 3, syncLog := 0,
             masterOnly := false, delayAsymmetry := 0, minorVersion := 1 },
    id := ⟨7, 1⟩, st := .listening, fml := { masters := [], interval := 65536000000000, own := ⟨7, 1⟩ },
    multiportDisable := none, annSeq := 0, syncSeq := 0, delaySeq := 0, pdelaySeq := 0, meanDelay := none, peer := .empty }

def sampleState : InstState :=
  { dflt := { clockIdentity := 7, numberPorts := 1, quality := ⟨248, 0xfe, 0xffff⟩, p1 := 128, p2 := 128, domain := 0,
              slaveOnly := false, sdoId := 0 },
    stepsRemoved := 0, parent := { parentPort := ⟨7, 0⟩, gmIdentity := 7, gmQuality := ⟨248, 0xfe, 0xffff⟩, gmP1 := 128, gmP2 := 128 },
    pathTrace := [], pathEnable := false, tp := defaultTimeProps }

/-- a well-formed Announce for domain 5 -/
def foreignAnnounce : List UInt8 :=
  encode { header := { domain := 5, src := ⟨9, 1⟩, seq := 3 },
           body := .announce { origin := ⟨0, 0⟩, utcOffset := 37, p1 := 1, clockClass := 6, accuracy := 0x20, variance := 1,
                               p2 := 1, gm := 9, steps := 0, timeSource := 0x20 },
           suffix := [] }

example : PortOK samplePort ∧ parseAndFilter sampleState foreignAnnounce = none ∧
    (decode foreignAnnounce).toOption.isSome = true := by
  refine ⟨rfl, ?_, ?_⟩ <;> decide +kernel

end Statime.C07
