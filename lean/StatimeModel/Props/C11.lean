import StatimeModel.Lemmas.Frames
import StatimeModel.Lemmas.InstanceInv
import StatimeModel.Generated.AnnounceCtor
/-
C11 — Announces advertise the instance's current view of the hierarchy.

Property theorems only.
-/
namespace Statime.C11
open Statime

/-- the hierarchy fields of an Announce message -/
structure View where
  gm : Nat
  quality : ClockQuality
  p1 : Nat
  p2 : Nat
  steps : Nat
  tp : TimeProps
  deriving DecidableEq, Repr

/-- what the instance's data sets (parentDS, currentDS, timePropertiesDS) currently hold -/
def viewOf (s : InstState) : View :=
  { gm := s.parent.gmIdentity, quality := s.parent.gmQuality, p1 := s.parent.gmP1, p2 := s.parent.gmP2,
    steps := s.stepsRemoved, tp := s.tp }

/-- what an Announce says (flags decoded the way `AnnounceMessage::time_properties` does) -/
def viewOfAnnounce (h : Header) (ab : AnnounceBody) : View :=
  { gm := ab.gm, quality := ⟨ab.clockClass, ab.accuracy, ab.variance⟩, p1 := ab.p1, p2 := ab.p2, steps := ab.steps,
    tp := annTimeProps ⟨h, ab⟩ }

/-- flags → time properties → flags is the identity on time properties: nothing is lost between the data set and the frame -/
theorem time_properties_roundtrip (s : InstState) (pid : PortId) (seq minor : Nat) (ab : AnnounceBody)
    (h : (msgAnnounce s pid seq minor).body = .announce ab) :
    annTimeProps ⟨(msgAnnounce s pid seq minor).header, ab⟩ = s.tp := by
  unfold msgAnnounce at h
  simp only [Body.announce.injEq] at h
  subst h
  unfold annTimeProps msgAnnounce
  cases hs : s.tp with
  | mk utc leap tt ft pts ts =>
    cases utc <;> cases leap <;> simp

/-- **Every Announce a Master port emits carries what the data sets hold right now**: grandmaster identity, quality,
priorities, stepsRemoved, UTC offset, time source and the leap / traceability flags. -/
theorem announce_carries_datasets (p p' : Port) (s : InstState) (q q' : List FwdTlv) (loose : Bool) (outs : List Out)
    (hm : p.st = .master) (h : p.sendAnnounce s q loose = .ok (p', outs, q')) :
    ∃ (m : Msg) (ab : AnnounceBody), outs = [.reset .announce (.exact (intervalNs p.cfg.announceLog)), .sendGeneral (encode m) false] ∧
      m.body = .announce ab ∧ viewOfAnnounce m.header ab = viewOf s ∧ m.header.src = p.id ∧ m.header.seq = p.annSeq := by
  rcases sendAnnounce_shape p p' s q q' loose outs h with ⟨_, _, _, ho⟩ | ⟨hn, _⟩
  · have hb : ∃ ab, (msgAnnounce s p.id p.annSeq p.cfg.minorVersion).body = .announce ab := by
      unfold msgAnnounce; exact ⟨_, rfl⟩
    obtain ⟨ab, hab⟩ := hb
    have htp := time_properties_roundtrip s p.id p.annSeq p.cfg.minorVersion ab hab
    refine ⟨p.announceMsg s (p.announceFwd s q loose).1, ab, ho, hab, ?_, rfl, rfl⟩
    have hab2 := hab
    unfold msgAnnounce at hab2
    simp only [Body.announce.injEq] at hab2
    unfold viewOfAnnounce viewOf
    have hh : (p.announceMsg s (p.announceFwd s q loose).1).header = (msgAnnounce s p.id p.annSeq p.cfg.minorVersion).header := rfl
    rw [hh, htp, ← hab2]
  · exact absurd hm hn

/-! ### how the data sets change -/

/-- the instance's own attributes, as BMCA decision M1 / M2 writes them -/
def ownView (d : DefaultDS) : View :=
  { gm := d.clockIdentity, quality := d.quality, p1 := d.p1, p2 := d.p2, steps := 0, tp := defaultTimeProps }

/-- **Grandmaster**: decisions M1 and M2 write the instance's own attributes with stepsRemoved 0 into the data sets.
(The time properties written are the fixed defaults of `set_recommended_state`, not the ones the instance was
constructed with — known finding `gm-time-properties-reset`.) -/
theorem decision_m_datasets (p p' : Port) (s s' : InstState) (d : DefaultDS) (r : Recommended) (e : List Out) (pd : Option (List Out))
    (hr : r = .m1 d ∨ r = .m2 d) (h : p.setRecommendedState r s = .ok (p', s', e, pd)) :
    viewOf s' = ownView d ∧ s'.parent.parentPort = ⟨d.clockIdentity, 0⟩ ∧ s'.dflt = s.dflt ∧ s'.pathTrace = [] := by
  unfold Port.setRecommendedState at h
  obtain ⟨v, _, h2⟩ := bindR_ok _ _ _ h
  obtain ⟨p1, ev, pend⟩ := v
  rcases hr with rfl | rfl
  · simp only [Except.ok.injEq, Prod.mk.injEq] at h2
    rw [← h2.2.1]; exact ⟨rfl, rfl, rfl, rfl⟩
  · simp only [Except.ok.injEq, Prod.mk.injEq] at h2
    rw [← h2.2.1]; exact ⟨rfl, rfl, rfl, rfl⟩

/-- the attributes BMCA writes on M1 / M2 are the *current* default data set (so a run-time quality change is
advertised after the next BMCA run) -/
theorem recommend_m_is_own (own : DefaultDS) (e er : Option Best) (l : Bool) (d : DefaultDS)
    (h : recommend own e er l = some (.m1 d) ∨ recommend own e er l = some (.m2 d)) : d = own := by
  unfold recommend at h
  split at h
  · rcases h with h | h <;> cases h
  · split at h
    · unfold recommendLow at h
      split at h <;> rcases h with h | h <;> simp only [Option.some.injEq, Recommended.m1.injEq, reduceCtorEq] at h <;>
        first | exact h.symm | cases h
    · unfold recommendHigh at h
      split at h
      · rcases h with h | h <;> simp only [Option.some.injEq, Recommended.m2.injEq, reduceCtorEq] at h <;>
          first | exact h.symm | cases h
      · rcases h with h | h <;> simp only [Option.some.injEq, Recommended.m2.injEq, reduceCtorEq] at h <;>
          first | exact h.symm | cases h
      · split at h
        · rcases h with h | h <;> cases h
        · unfold compareGlobalAndPort at h
          rcases h with h | h <;> (split at h <;> first | cases h | (split at h <;> cases h))

/-- **A change of the local clock quality is advertised after the next BMCA run**: the decision computed for a port
after `setQuality q`, when it is M1 or M2, writes quality `q`. -/
theorem quality_change_after_bmca (i : Inst) (q : ClockQuality) (p p' : Port) (s' : InstState) (e er : Option Best)
    (r : Recommended) (ev : List Out) (pd : Option (List Out))
    (hrec : recommend (i.setQuality q).st.dflt e er (decide (p.st = .listening)) = some r)
    (hm : (∃ d, r = .m1 d) ∨ ∃ d, r = .m2 d)
    (h : p.setRecommendedState r (i.setQuality q).st = .ok (p', s', ev, pd)) :
    (viewOf s').quality = q ∧ (viewOf s').steps = 0 ∧ (viewOf s').gm = i.st.dflt.clockIdentity := by
  rcases hm with ⟨d, rfl⟩ | ⟨d, rfl⟩
  · have hd := recommend_m_is_own _ e er _ d (Or.inl hrec)
    obtain ⟨hv, _⟩ := decision_m_datasets p p' _ s' d _ ev pd (Or.inl rfl) h
    rw [hv, hd]; exact ⟨rfl, rfl, rfl⟩
  · have hd := recommend_m_is_own _ e er _ d (Or.inr hrec)
    obtain ⟨hv, _⟩ := decision_m_datasets p p' _ s' d _ ev pd (Or.inr rfl) h
    rw [hv, hd]; exact ⟨rfl, rfl, rfl⟩

/-- table 33: the view an accepted Announce `a` of the parent leaves in the data sets -/
def parentView (a : Ann) : View :=
  { gm := a.body.gm, quality := ⟨a.body.clockClass, a.body.accuracy, a.body.variance⟩, p1 := a.body.p1, p2 := a.body.p2,
    steps := if a.body.steps + 1 ≥ 65536 then 65535 else a.body.steps + 1, tp := annTimeProps a }

theorem applyParent_view (s s1 : InstState) (a : Ann) (h : s.applyParent a = .ok s1) :
    viewOf s1 = parentView a ∧ s1.parent.parentPort = a.hdr.src ∧ s1.dflt = s.dflt ∧ s1.pathTrace = s.pathTrace ∧
    s1.pathEnable = s.pathEnable := by
  unfold InstState.applyParent at h
  simp only [Except.ok.injEq] at h
  rw [← h]; exact ⟨rfl, rfl, rfl, rfl, rfl⟩

theorem applyParentS1_view (s s1 : InstState) (a : Ann) (h : s.applyParentS1 a = .ok s1) :
    viewOf s1 = parentView a ∧ s1.parent.parentPort = a.hdr.src ∧ s1.dflt = s.dflt := by
  unfold InstState.applyParentS1 at h
  split at h
  · cases h
  · rename_i hlt
    simp only [Except.ok.injEq] at h
    rw [← h]
    refine ⟨?_, rfl, rfl⟩
    unfold viewOf parentView InstState.withParent
    simp only [if_neg hlt]

/-- **Slave, decision S1**: the data sets take the attributes announced by the new parent, stepsRemoved + 1 -/
theorem decision_s1_datasets (p p' : Port) (s s' : InstState) (a : Ann) (e : List Out) (pd : Option (List Out))
    (h : p.setRecommendedState (.s1 a) s = .ok (p', s', e, pd)) :
    viewOf s' = parentView a ∧ s'.parent.parentPort = a.hdr.src := by
  unfold Port.setRecommendedState at h
  obtain ⟨v, _, h2⟩ := bindR_ok _ _ _ h
  obtain ⟨p1, ev, pend⟩ := v
  simp only at h2
  obtain ⟨s1, hs1, h3⟩ := bindR_ok _ _ _ h2
  simp only [Except.ok.injEq, Prod.mk.injEq] at h3
  obtain ⟨a1, a2, _⟩ := applyParentS1_view s s1 a hs1
  rw [← h3.2.1]; exact ⟨a1, a2⟩

/-- **Slave, every later Announce of the parent**: received on the Slave port it updates the data sets to its
contents with stepsRemoved + 1 — unless its path trace shows a loop: then (C15) it changes nothing -/
theorem parent_announce_datasets (p : Port) (s s1 : InstState) (m : Msg) (a : Ann) (loop : Bool)
    (hs : p.st.isSlave = true) (hp : a.hdr.src = s.parent.parentPort)
    (h : p.announceUpdate s m a = .ok (s1, loop)) :
    (loop = false ∧ viewOf s1 = parentView a ∧ s1.parent.parentPort = a.hdr.src) ∨ (loop = true ∧ s1 = s) := by
  rcases announceUpdate_cases p s s1 m a loop h with ⟨hn, _⟩ | ⟨_, _, _, e, hl⟩ | ⟨_, _, _, hl, s2, hap, hst⟩
  · exact absurd ⟨hs, hp⟩ hn
  · exact Or.inr ⟨hl, e⟩
  · left
    obtain ⟨a1, a2, _⟩ := applyParent_view s s2 a hap
    rcases storePath_spec s2 s1 _ hst with ⟨_, e⟩ | ⟨t, _, e, _⟩
    · rw [e]; exact ⟨hl, a1, a2⟩
    · rw [e]; exact ⟨hl, a1, a2⟩

/-- an Announce that is not from the parent, or arrives on a port that is not Slave, leaves the data sets alone -/
theorem other_announce_keeps_datasets (p : Port) (s s1 : InstState) (m : Msg) (a : Ann) (loop : Bool)
    (hn : ¬ (p.st.isSlave = true ∧ a.hdr.src = s.parent.parentPort))
    (h : p.announceUpdate s m a = .ok (s1, loop)) : s1 = s ∧ loop = false := by
  rcases announceUpdate_cases p s s1 m a loop h with ⟨_, e1, e2⟩ | ⟨h1, h2, _⟩ | ⟨h1, h2, _⟩
  · exact ⟨e1, e2⟩
  · exact absurd ⟨h1, h2⟩ hn
  · exact absurd ⟨h1, h2⟩ hn

/-- **A change in the parent's Announce contents shows up in the next Announce sent**: once the Slave port `ps` has
handled the parent's Announce `ab`, the Announce any Master port `pm` of the instance sends next carries exactly
those contents, stepsRemoved + 1. -/
theorem parent_change_in_next_announce (ps ps' pm pm' : Port) (s s1 : InstState) (m : Msg) (ab : AnnounceBody)
    (o1 outs : List Out) (q q' : List FwdTlv) (loose : Bool)
    (hs : ps.st.isSlave = true) (hp : m.header.src = s.parent.parentPort)
    (hnl : loopsBack s (pathTlvOf s m) = false)
    (h1 : ps.handleAnnounce s m ab = .ok (ps', s1, o1))
    (hm : pm.st = .master) (h2 : pm.sendAnnounce s1 q loose = .ok (pm', outs, q')) :
    ∃ (m2 : Msg) (ab2 : AnnounceBody), outs = [.reset .announce (.exact (intervalNs pm.cfg.announceLog)), .sendGeneral (encode m2) false] ∧
      m2.body = .announce ab2 ∧ viewOfAnnounce m2.header ab2 = parentView ⟨m.header, ab⟩ := by
  obtain ⟨m2, ab2, ho, hb, hv, _⟩ := announce_carries_datasets pm pm' s1 q q' loose outs hm h2
  refine ⟨m2, ab2, ho, hb, ?_⟩
  rw [hv]
  unfold Port.handleAnnounce at h1
  split at h1
  · cases h1
  · rename_i s2 loop hu
    have : viewOf s2 = parentView ⟨m.header, ab⟩ := by
      rcases announceUpdate_cases ps s s2 m ⟨m.header, ab⟩ loop hu with ⟨hn, _⟩ | ⟨_, _, hl, _⟩ | ⟨_, _, _, _, s3, hap, hst⟩
      · exact absurd ⟨hs, hp⟩ hn
      · rw [hnl] at hl; cases hl
      · obtain ⟨a1, _⟩ := applyParent_view s s3 _ hap
        rcases storePath_spec s3 s2 _ hst with ⟨_, e⟩ | ⟨t, _, e, _⟩
        · rw [e]; exact a1
        · rw [e]; exact a1
    split at h1
    · simp only [Except.ok.injEq, Prod.mk.injEq] at h1; rw [← h1.2.1]; exact this
    · simp only [Except.ok.injEq, Prod.mk.injEq] at h1; rw [← h1.2.1]; exact this

/-! ### nothing else touches the data sets -/

/-- port-level host calls other than frames leave the data sets alone (timers, transmit timestamps) -/
theorem timers_keep_datasets (i : Inst) (op : Op) (k : Nat) (f : Port → R (Port × InstState × List Out × Nat))
    (hop : i.portHandler op = some (k, f)) (hne : (∀ kk d, op ≠ .gen kk d) ∧ ∀ kk d t, op ≠ .evt kk d t)
    (p p' : Port) (s' : InstState) (o : List Out) (q : Nat) (h : f p = .ok (p', s', o, q)) : s' = i.st := by
  cases op with
  | gen kk data => exact absurd rfl (hne.1 kk data)
  | evt kk data ts => exact absurd rfl (hne.2 kk data ts)
  | tmrAnnounce kk loose fq =>
    simp only [Inst.portHandler, Option.some.injEq, Prod.mk.injEq] at hop
    obtain ⟨rfl, rfl⟩ := hop
    obtain ⟨r, _, he⟩ := map_ok _ _ _ h
    simp only [Prod.mk.injEq] at he
    exact he.2.1.symm
  | tmr kk t =>
    cases t with
    | filter => simp [Inst.portHandler] at hop
    | receipt =>
      simp only [Inst.portHandler, Option.some.injEq, Prod.mk.injEq] at hop
      obtain ⟨rfl, rfl⟩ := hop
      simp only [Except.ok.injEq, Prod.mk.injEq] at h
      exact h.2.1.symm
    | announce | sync | delay =>
      simp only [Inst.portHandler, Option.some.injEq, Prod.mk.injEq] at hop
      obtain ⟨rfl, rfl⟩ := hop
      obtain ⟨r, _, he⟩ := map_ok _ _ _ h
      simp only [Prod.mk.injEq] at he
      exact he.2.1.symm
  | txts kk ctx ts =>
    simp only [Inst.portHandler, Option.some.injEq, Prod.mk.injEq] at hop
    obtain ⟨rfl, rfl⟩ := hop
    obtain ⟨r, _, he⟩ := map_ok _ _ _ h
    simp only [Prod.mk.injEq] at he
    exact he.2.1.symm
  | bmca _ => simp [Inst.portHandler] at hop
  | setSlaveOnly _ => simp [Inst.portHandler] at hop
  | setQuality _ => simp [Inst.portHandler] at hop
  | addPort _ => simp [Inst.portHandler] at hop

/-- a received frame changes the data sets only if it is an Announce from the current parent on a Slave port -/
theorem frames_keep_datasets (p p' : Port) (s s' : InstState) (m : Msg) (outs : List Out)
    (h : p.handleGeneralInternal s m = .ok (p', s', outs)) :
    s' = s ∨ (p.st.isSlave = true ∧ m.header.src = s.parent.parentPort ∧ ∃ ab, m.body = .announce ab) := by
  unfold Port.handleGeneralInternal at h
  split at h
  · rename_i ab hb
    by_cases hc : p.st.isSlave = true ∧ m.header.src = s.parent.parentPort
    · exact Or.inr ⟨hc.1, hc.2, ab, hb⟩
    · left
      unfold Port.handleAnnounce at h
      split at h
      · cases h
      · rename_i s2 loop hu
        have := (other_announce_keeps_datasets p s s2 m ⟨m.header, ab⟩ loop hc hu).1
        split at h
        · simp only [Except.ok.injEq, Prod.mk.injEq] at h; rw [← h.2.1]; exact this
        · simp only [Except.ok.injEq, Prod.mk.injEq] at h; rw [← h.2.1]; exact this
  · obtain ⟨⟨q, o⟩, _, he⟩ := map_ok _ _ _ h; simp only [Prod.mk.injEq] at he; exact Or.inl he.2.1.symm
  · obtain ⟨⟨q, o⟩, _, he⟩ := map_ok _ _ _ h; simp only [Prod.mk.injEq] at he; exact Or.inl he.2.1.symm
  · obtain ⟨⟨q, o⟩, _, he⟩ := map_ok _ _ _ h; simp only [Prod.mk.injEq] at he; exact Or.inl he.2.1.symm
  · simp only [Except.ok.injEq, Prod.mk.injEq] at h; exact Or.inl h.2.1.symm

/-! ### the Announce constructor as translated from the source on this run
(`translator/extract_announce.py` → `Generated/AnnounceCtor.lean`, interpreter `Lemmas/AnnounceGen.lean`) -/
section Translated
open Statime.AnnGen

/-- **the Announce constructor translated from `Message::announce` on this run is the model's `msgAnnounce`**:
every header flag and every body field, taken from the data set member the source names, for every instance state,
port identity, sequence number and minor version -/
theorem generated_announce_is_model (s : InstState) (pid : PortId) (seq minor : Nat) :
    ∀ ft bt, Generated.announceFlagTable = some ft → Generated.announceBodyTable = some bt →
      buildAnnounce ft bt s pid seq minor = some (msgAnnounce s pid seq minor) := by
  intro ft bt hf hb
  unfold Generated.announceFlagTable at hf
  unfold Generated.announceBodyTable at hb
  cases hf <;> cases hb
  all_goals (
    rfl)

/-- `base_header` takes sdoId, domain, identity and sequence number from its arguments (when recognised) -/
theorem generated_base_header_as_modelled : Generated.announceBaseHeaderAsModelled ≠ some false := by decide

/-- **`AnnounceMessage::time_properties` as translated on this run is the model's `annTimeProps`**: the `if`-chain of
the leap indicator, the flag guarding the UTC offset and the flag behind each boolean, for every received Announce -/
theorem generated_time_properties_is_model (a : Ann) :
    ∀ t, Generated.timePropertiesTable = some t → buildTp t a = some (annTimeProps a) := by
  intro t h
  unfold Generated.timePropertiesTable at h
  cases h
  all_goals rfl

end Translated

end Statime.C11
