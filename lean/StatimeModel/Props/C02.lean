import StatimeModel.Lemmas.ServoL
import StatimeModel.Generated.ServoConsts
/-
C02 — A slave port drives its clock to the master's time and keeps it there.

Convergence of the closed loop is a property of floating-point trajectories under random jitter; it
is not proved here. It is decided on sampled closed-loop histories by the `loop` stream (the real
filter disciplining a simulated clock; every history also compared bit for bit with this model).
What is proved, for every arithmetic `A` and every state, are the two structural facts the
property's last sentence and its direction of travel rest on:

  * while the estimated offset is below the step threshold the servo slews and never steps;
  * outside of the dead zone the steering target has the sign opposite to the estimated offset
    (negative feedback), for any arithmetic whose products and quotients have the IEEE sign.

Property theorems only.
-/
namespace Statime.C02
open Statime Statime.Servo

/-- **Only slewed, never stepped.** While the filter's offset estimate is below the step threshold,
`steer` gives the clock no step: at most one command, a frequency, and it asks to be called again. -/
theorem no_step_below_threshold (A : Arith) (k k' : Kalman) (clk : ClockIn) (cs : List Cmd) (u : Upd)
    (hlt : f64Lt (f64Abs k.run.offset) (durSeconds A k.cfg.thr) = true)
    (h : k.steer A clk = some (k', cs, u)) :
    (∀ c ∈ cs, ∃ f ok, c = Cmd.freq f ok) ∧ cs.length ≤ 1 ∧ u.nextUpdate = true := by
  unfold Kalman.steer at h
  simp only [hlt, if_true] at h
  obtain ⟨target, _, h⟩ := obind h
  obtain ⟨⟨k1, c1⟩, hcf, h⟩ := obind h
  simp only at h
  split at h
  · obtain ⟨md, _, h⟩ := omap h
    cases h
    unfold Kalman.changeFrequency at hcf
    cases hc : k.cur with
    | none =>
      rw [hc] at hcf; simp only at hcf; cases hcf
      exact ⟨(fun c hc => by cases hc), by simp, rfl⟩
    | some cur =>
      rw [hc] at hcf; simp only at hcf
      split at hcf
      · cases hcf
        exact ⟨(fun c hc => by simp at hc; exact ⟨_, _, hc⟩), by simp, rfl⟩
      · obtain ⟨run, _, hcf⟩ := obind hcf
        obtain ⟨wan, _, hcf⟩ := omap hcf
        cases hcf
        exact ⟨(fun c hc => by simp at hc; exact ⟨_, _, hc⟩), by simp, rfl⟩
  · cases h

/-- and conversely a step is only ever given when the estimate is not below the threshold -/
theorem step_only_at_threshold (A : Arith) (k k' : Kalman) (clk : ClockIn) (cs : List Cmd) (u : Upd)
    (h : k.steer A clk = some (k', cs, u)) (d : Int) (ok : Bool) (hd : Cmd.step d ok ∈ cs) :
    f64Lt (f64Abs k.run.offset) (durSeconds A k.cfg.thr) = false := by
  cases hlt : f64Lt (f64Abs k.run.offset) (durSeconds A k.cfg.thr)
  · rfl
  · obtain ⟨h1, _, _⟩ := no_step_below_threshold A k k' clk cs u hlt h
    obtain ⟨f, ok', e⟩ := h1 _ hd
    cases e

/-- the IEEE sign rule for products and quotients (whenever the result is a number) -/
structure SignLaws (A : Arith) : Prop where
  mul_sign : ∀ a b, f64IsNaN (A.mul a b) = false → f64Sign (A.mul a b) = (f64Sign a + f64Sign b) % 2
  div_sign : ∀ a b, f64IsNaN (A.div a b) = false → f64Sign (A.div a b) = (f64Sign a + f64Sign b) % 2

/-- the slew target `steer` computes from an offset estimate `e` with uncertainty `unc` -/
def slewTarget (A : Arith) (c : Cfg) (e unc : Nat) : Option Nat :=
  let desired := A.mul (f64Signum e) (f64Max (A.sub (f64Abs e) (A.mul unc c.dz)) cZero)
  f64Clamp (A.div (A.mul (f64Neg desired) c1e6) (durSeconds A c.st)) (f64Neg c.ms) c.ms

/-- `steer`, below the threshold, programs `slewTarget` of the filter's offset estimate and its uncertainty -/
theorem steer_slews_to_target (A : Arith) (k : Kalman) (clk : ClockIn)
    (hlt : f64Lt (f64Abs k.run.offset) (durSeconds A k.cfg.thr) = true) :
    k.steer A clk =
      (slewTarget A k.cfg k.run.offset (k.run.offsetUnc A k.cfg)).bind fun target =>
        (k.changeFrequency A target clk).bind fun (k', cmds) =>
          if coreDurationOk (durSeconds A k.cfg.st) then
            (durFromSeconds k'.run.meanDelay).map fun md => (k', cmds, { nextUpdate := true, meanDelay := some md })
          else none := by
  unfold Kalman.steer slewTarget
  simp only [hlt, if_true]

theorem signum_sign (e : Nat) (hn : f64IsNaN e = false) : f64Sign (f64Signum e) = f64Sign e := by
  unfold f64Signum
  rw [hn]
  simp only [Bool.false_eq_true, if_false]
  rcases f64Sign_le e with s | s <;> rw [s] <;> simp <;> unfold f64Sign P63 <;> decide

theorem clamp_sign (x lo hi r : Nat) (h : f64Clamp x lo hi = some r) (hx : f64IsNaN x = false)
    (hlo : f64Sign lo = 1) (hhi : f64Sign hi = 0) : f64Sign r = f64Sign x ∨ f64Key r = 0 ∨ f64Key x = 0 := by
  unfold f64Clamp at h
  split at h
  · rename_i hle
    cases h
    by_cases h1 : f64Lt x lo = true
    · -- x < lo: result lo (negative, like x) unless hi < lo, which hle excludes
      have k1 := (f64Lt_iff _ _).mp h1
      have k2 := (f64Le_iff _ _).mp hle
      simp only [h1, if_true]
      have : f64Lt hi lo = false := by
        cases hh : f64Lt hi lo
        · rfl
        · have := (f64Lt_iff _ _).mp hh; omega
      simp only [this, Bool.false_eq_true, if_false]
      -- key x < key lo <= 0 so x has sign 1
      have hklo : f64Key lo ≤ 0 := by unfold f64Key; rw [hlo]; simp
      have : f64Sign x = 1 := by
        rcases f64Sign_le x with s | s
        · exfalso; unfold f64Key at k1; rw [s] at k1; simp at k1; omega
        · exact s
      left; rw [this, hlo]
    · simp only [h1, Bool.false_eq_true, if_false]
      by_cases h2 : f64Lt hi x = true
      · simp only [h2, if_true]
        have k1 := (f64Lt_iff _ _).mp h2
        have hkhi : 0 ≤ f64Key hi := by unfold f64Key; rw [hhi]; simp
        have : f64Sign x = 0 := by
          rcases f64Sign_le x with s | s
          · exact s
          · exfalso; unfold f64Key at k1; rw [s] at k1; simp at k1; omega
        left; rw [this, hhi]
      · simp only [h2, Bool.false_eq_true, if_false]
        left; trivial
  · cases h

/-- **Negative feedback.** Outside of the dead zone (the excess `|e| - unc·deadzone` is a positive
number), with a positive steer time and a positive maximum steer, the slew target is a number whose
sign is opposite to that of the offset estimate, or zero — for every arithmetic with the IEEE sign rule. -/
theorem steering_opposes_offset (A : Arith) (L : SignLaws A) (c : Cfg) (e unc t : Nat)
    (he : f64IsNaN e = false)
    (hex : f64Lt cZero (A.sub (f64Abs e) (A.mul unc c.dz)) = true)
    (hst : f64Sign (durSeconds A c.st) = 0) (hms : f64Sign c.ms = 0)
    (h : slewTarget A c e unc = some t) (ht : f64IsNaN t = false)
    (hraw : f64IsNaN (A.div (A.mul (f64Neg (A.mul (f64Signum e) (A.sub (f64Abs e) (A.mul unc c.dz)))) c1e6) (durSeconds A c.st)) = false)
    (hm1 : f64IsNaN (A.mul (f64Neg (A.mul (f64Signum e) (A.sub (f64Abs e) (A.mul unc c.dz)))) c1e6) = false)
    (hm0 : f64IsNaN (A.mul (f64Signum e) (A.sub (f64Abs e) (A.mul unc c.dz))) = false) :
    f64Sign t = 1 - f64Sign e ∨ f64Key t = 0 := by
  unfold slewTarget at h
  simp only at h
  generalize hx : A.sub (f64Abs e) (A.mul unc c.dz) = x at *
  -- the max returns the positive excess itself
  have kx := (f64Lt_iff _ _).mp hex
  have hmax : f64Max x cZero = x := by
    unfold f64Max
    have z0 : f64IsNaN cZero = false := by unfold f64IsNaN f64Mag cZero F64INF P63; decide
    rw [kx.2.1, z0]
    simp only [Bool.false_eq_true, if_false]
    have : f64Lt x cZero = false := f64Lt_asymm _ _ hex
    rw [this]; simp
  rw [hmax] at h
  have sx : f64Sign x = 0 := by
    have k0 : f64Key cZero = 0 := by unfold f64Key f64Sign f64Mag cZero; simp
    rcases f64Sign_le x with s | s
    · exact s
    · exfalso
      have := kx.2.2
      unfold f64Key at this
      rw [s] at this
      have k0' : f64Key cZero = 0 := k0
      unfold f64Key at k0'
      simp at this
      have hz : f64Sign cZero = 0 := by unfold f64Sign cZero P63; decide
      rw [hz] at this
      simp at this
      have hm0' : f64Mag cZero = 0 := by unfold f64Mag cZero P63; decide
      rw [hm0'] at this
      omega
  -- signs along the expression
  have s1 : f64Sign (A.mul (f64Signum e) x) = f64Sign e := by
    rw [L.mul_sign _ _ hm0, signum_sign e he, sx]
    rcases f64Sign_le e with s | s <;> rw [s]
  have s2 : f64Sign (f64Neg (A.mul (f64Signum e) x)) = 1 - f64Sign e := by rw [f64Neg_sign, s1]
  have sc : f64Sign c1e6 = 0 := by unfold f64Sign c1e6 P63; decide
  have s3 : f64Sign (A.mul (f64Neg (A.mul (f64Signum e) x)) c1e6) = 1 - f64Sign e := by
    rw [L.mul_sign _ _ hm1, s2, sc]
    rcases f64Sign_le e with s | s <;> rw [s]
  have s4 : f64Sign (A.div (A.mul (f64Neg (A.mul (f64Signum e) x)) c1e6) (durSeconds A c.st)) = 1 - f64Sign e := by
    rw [L.div_sign _ _ hraw, s3, hst]
    rcases f64Sign_le e with s | s <;> rw [s]
  have hlo : f64Sign (f64Neg c.ms) = 1 := by rw [f64Neg_sign, hms]
  rcases clamp_sign _ _ _ _ h hraw hlo hms with r | r | r
  · left; rw [r, s4]
  · right; exact r
  · -- the raw target is a zero: then so is the clamped one, or it equals a bound with the right sign
    left
    -- a zero raw value lies between the bounds, so the clamp returns it
    unfold f64Clamp at h
    split at h
    · rename_i hle
      cases h
      have kle := (f64Le_iff _ _).mp hle
      have l1 : f64Lt (A.div (A.mul (f64Neg (A.mul (f64Signum e) x)) c1e6) (durSeconds A c.st)) (f64Neg c.ms) = false := by
        cases hh : f64Lt (A.div (A.mul (f64Neg (A.mul (f64Signum e) x)) c1e6) (durSeconds A c.st)) (f64Neg c.ms)
        · rfl
        · have k := (f64Lt_iff _ _).mp hh
          have : f64Key (f64Neg c.ms) ≤ 0 := by unfold f64Key; rw [hlo]; simp
          omega
      simp only [l1, Bool.false_eq_true, if_false]
      have l2 : f64Lt c.ms (A.div (A.mul (f64Neg (A.mul (f64Signum e) x)) c1e6) (durSeconds A c.st)) = false := by
        cases hh : f64Lt c.ms (A.div (A.mul (f64Neg (A.mul (f64Signum e) x)) c1e6) (durSeconds A c.st))
        · rfl
        · have k := (f64Lt_iff _ _).mp hh
          have : 0 ≤ f64Key c.ms := by unfold f64Key; rw [hms]; simp
          omega
      simp only [l2, Bool.false_eq_true, if_false]
      exact s4
    · cases h

/-! ### the noise estimator's window -/

/-- the window test of the noise estimator, spelled out: both times below 2^127 and |a − b| < threshold -/
theorem closeInTime_spec (a b : Nat) (thr : Int) (h : closeInTime a b thr = some true) :
    ((a : Int) - (b : Int) < thr) ∧ ((b : Int) - (a : Int) < thr) := by
  unfold closeInTime timeSub at h
  split at h
  · unfold durSub durNeg at h
    split at h
    · simp at h
    · rename_i nb hnb
      split at hnb
      · simp only [Option.some.injEq] at hnb
        subst hnb
        unfold durAdd at h
        split at h
        · simp only [Option.bind_some] at h
          unfold durAbs at h
          split at h
          · unfold durNeg at h
            split at h
            · simp only [Option.map_some, Option.some.injEq, decide_eq_true_eq] at h
              constructor <;> omega
            · simp at h
          · simp only [Option.map_some, Option.some.injEq, decide_eq_true_eq] at h
            constructor <;> omega
        · simp at h
      · simp at hnb
  · simp at h

/-- **The noise estimator only pairs measurements that are close in time.** A delay measurement adds a sample to
the estimator's window only together with a stored Sync measurement whose event time differs from its own by
less than `estimate_threshold`, in either direction (the test is on the absolute difference: a measurement
stamped before a backward step of the clock is not paired with one taken after it merely because the
difference is negative). -/
theorem noise_sample_needs_close_pair_delay (A : Arith) (e e' : Est) (m : Meas) (freq : Nat) (c : Cfg)
    (h : e.absorbDelay A m freq c = some e') (hins : e'.nextIdx ≠ e.nextIdx) :
    ∃ time so dof, e.lastSync = some (time, so) ∧ m.rawDelay = some dof ∧
      ((m.eventTime : Int) - time < c.et) ∧ ((time : Int) - m.eventTime < c.et) := by
  unfold Est.absorbDelay at h
  cases hd : m.rawDelay with
  | none => rw [hd] at h; simp only [Option.some.injEq] at h; subst h; exact absurd rfl hins
  | some dof =>
    rw [hd] at h
    simp only at h
    cases hs : e.lastSync with
    | none =>
      rw [hs] at h
      simp only [Option.some.injEq] at h
      subst h; exact absurd rfl hins
    | some p =>
      obtain ⟨time, so⟩ := p
      rw [hs] at h
      simp only at h
      cases hc : closeInTime m.eventTime time c.et with
      | none => rw [hc] at h; simp at h
      | some close =>
        rw [hc] at h
        simp only [Option.bind_some] at h
        cases close with
        | false =>
          simp only [Bool.false_eq_true, ↓reduceIte, Option.some.injEq] at h
          subst h; exact absurd rfl hins
        | true =>
          have := closeInTime_spec _ _ _ hc
          exact ⟨time, so, dof, rfl, rfl, this.1, this.2⟩

theorem noise_sample_needs_close_pair_sync (A : Arith) (e e' : Est) (m : Meas) (freq : Nat) (c : Cfg)
    (h : e.absorbSync A m freq c = some e') (hins : e'.nextIdx ≠ e.nextIdx) :
    ∃ time dof so, e.lastDelay = some (time, dof) ∧ m.rawSync = some so ∧
      ((m.eventTime : Int) - time < c.et) ∧ ((time : Int) - m.eventTime < c.et) := by
  unfold Est.absorbSync at h
  cases hd : m.rawSync with
  | none => rw [hd] at h; simp only [Option.some.injEq] at h; subst h; exact absurd rfl hins
  | some so =>
    rw [hd] at h
    simp only at h
    cases hs : e.lastDelay with
    | none =>
      rw [hs] at h
      simp only [Option.some.injEq] at h
      subst h; exact absurd rfl hins
    | some p =>
      obtain ⟨time, dof⟩ := p
      rw [hs] at h
      simp only at h
      cases hc : closeInTime m.eventTime time c.et with
      | none => rw [hc] at h; simp at h
      | some close =>
        rw [hc] at h
        simp only [Option.bind_some] at h
        cases close with
        | false =>
          simp only [Bool.false_eq_true, ↓reduceIte, Option.some.injEq] at h
          subst h; exact absurd rfl hins
        | true =>
          have := closeInTime_spec _ _ _ hc
          exact ⟨time, dof, so, rfl, rfl, this.1, this.2⟩


/-! tie to the source: how the three kinds of measurement relate to the estimator's state (offset, frequency, delay) -
the rows `MEASUREMENT_SYNC`, `MEASUREMENT_DELAY`, `MEASUREMENT_PEER_DELAY` of kalman.rs as extracted on this run, and
that each `absorb_*` function uses its own row. A Sync offset is offset + delay, a Delay_Resp offset is offset − delay,
a peer delay is the delay itself: with any other sign the servo settles the clock a multiple of the path delay away
from the master. -/
theorem measurement_rows_match_source :
    Generated.measurementRows = some (hSync ++ hDelay ++ hPeer) ∧ Generated.measurementRowUse = true := by
  decide


end Statime.C02
