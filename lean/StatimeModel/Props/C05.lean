import StatimeModel.Lemmas.Order
import StatimeModel.Spec.StateDecision
import StatimeModel.Model.Instance
import StatimeModel.Lemmas.BmcaBind
import StatimeModel.Generated.DatasetComparison
import StatimeModel.Generated.StateDecision
import StatimeModel.Generated.PortMove
/-
C05 — BMCA state decision matches IEEE 1588 for every data set combination.

Tie: the mixed instance stream drives `PtpInstance::bmca` through real ports and
compares port states and data sets after every run with this model; `CMP` lines
compare the data set comparison itself on exhaustive small domains.
-/
namespace Statime.C05
open Statime

/-! ### the data set comparison -/

/-- **Antisymmetry**: swapping the operands flips the verdict (for every pair of data sets). -/
theorem compare_flip (a b : CmpDS) : b.compare a = (a.compare b).flip := by
  unfold CmpDS.compare
  by_cases hg : a.gmId = b.gmId
  · rw [if_pos hg, if_pos hg.symm]
    simp only [compareSame]
    have hl : lexCmp [(b.sender, a.sender), (b.receiver.port, a.receiver.port)] =
        (lexCmp [(a.sender, b.sender), (a.receiver.port, b.receiver.port)]).swap :=
      lexCmp_swap [(a.sender, b.sender), (a.receiver.port, b.receiver.port)]
    rw [hl]
    by_cases h1 : (a.steps : Int) - b.steps ≥ 2
    · have : (b.steps : Int) - a.steps ≤ -2 := by omega
      have : ¬ ((b.steps : Int) - a.steps ≥ 2) := by omega
      simp [*, DOrd.flip]
    · by_cases h2 : (a.steps : Int) - b.steps ≤ -2
      · have : (b.steps : Int) - a.steps ≥ 2 := by omega
        simp [*, DOrd.flip]
      · by_cases h3 : (a.steps : Int) - b.steps = 1
        · have e1 : ¬ ((b.steps : Int) - a.steps ≥ 2) := by omega
          have e2 : ¬ ((b.steps : Int) - a.steps ≤ -2) := by omega
          have e3 : ¬ ((b.steps : Int) - a.steps = 1) := by omega
          have e4 : (b.steps : Int) - a.steps = -1 := by omega
          simp only [h1, h2, h3, e1, e2, e3, e4, if_true, if_false]
          repeat' split
          all_goals first | rfl | (exfalso; omega)
        · by_cases h4 : (a.steps : Int) - b.steps = -1
          · have e1 : ¬ ((b.steps : Int) - a.steps ≥ 2) := by omega
            have e2 : ¬ ((b.steps : Int) - a.steps ≤ -2) := by omega
            have e3 : (b.steps : Int) - a.steps = 1 := by omega
            simp only [h1, h2, h3, h4, e1, e2, e3, if_true, if_false]
            repeat' split
            all_goals first | rfl | (exfalso; omega)
          · have e1 : ¬ ((b.steps : Int) - a.steps ≥ 2) := by omega
            have e2 : ¬ ((b.steps : Int) - a.steps ≤ -2) := by omega
            have e3 : ¬ ((b.steps : Int) - a.steps = 1) := by omega
            have e4 : ¬ ((b.steps : Int) - a.steps = -1) := by omega
            simp only [h1, h2, h3, h4, e1, e2, e3, e4, if_false]
            cases lexCmp [(a.sender, b.sender), (a.receiver.port, b.receiver.port)] <;> rfl
  · have hg' : ¬ b.gmId = a.gmId := fun h => hg h.symm
    rw [if_neg hg, if_neg hg']
    unfold compareDifferent
    have hl := lexCmp_swap [(a.gmP1, b.gmP1), (a.gmClass, b.gmClass), (a.gmAcc, b.gmAcc), (a.gmVar, b.gmVar),
      (a.gmP2, b.gmP2), (a.gmId, b.gmId)]
    simp only [List.map_cons, List.map_nil, Prod.swap] at hl
    rw [hl]
    cases lexCmp [(a.gmP1, b.gmP1), (a.gmClass, b.gmClass), (a.gmAcc, b.gmAcc), (a.gmVar, b.gmVar),
      (a.gmP2, b.gmP2), (a.gmId, b.gmId)] <;> rfl

/-- the comparison key of a candidate: data set key, then age (newer wins ties) -/
def bkey (x : Best) : List Int := (CmpDS.ofAnnounce x.ann x.identity).key ++ [x.age]

/-- hypotheses under which the comparison is a strict weak order — both are invariants of what the
BMCA compares: own Announces are never stored, and a grandmaster announces one set of attributes -/
def Good (x : Best) : Prop := (CmpDS.ofAnnounce x.ann x.identity).NoSelf
def Cons (x y : Best) : Prop := (CmpDS.ofAnnounce x.ann x.identity).GMCons (CmpDS.ofAnnounce y.ann y.identity)

theorem best_compare_key (x y : Best) (hx : Good x) (hy : Good y) (hc : Cons x y) :
    Best.compare x y = (keyCmp (bkey x) (bkey y)).swap := by
  unfold Best.compare bkey
  rw [compare_asOrdering_key _ _ hx hy hc, keyCmp_append _ _ _ _ (by simp [CmpDS.key, CmpDS.gmKey, CmpDS.topoKey])]
  cases keyCmp (CmpDS.ofAnnounce x.ann x.identity).key (CmpDS.ofAnnounce y.ann y.identity).key with
  | lt => rfl
  | gt => rfl
  | eq =>
    simp only [Ordering.swap, cmpInt, keyCmp]
    by_cases h1 : x.age < y.age
    · have : ¬ y.age < x.age := by omega
      simp [h1, this]
    · by_cases h2 : y.age < x.age
      · simp [h1, h2]
      · simp [h1, h2]

theorem bkey_length (x : Best) : (bkey x).length = 10 := by
  simp [bkey, CmpDS.key, CmpDS.gmKey, CmpDS.topoKey]

/-- **Transitivity** (strict weak order): on consistent candidates, "not worse than" is transitive. -/
theorem compare_trans (x y z : Best) (hx : Good x) (hy : Good y) (hz : Good z)
    (cxy : Cons x y) (cyz : Cons y z) (cxz : Cons x z)
    (h1 : Best.compare x y ≠ .gt) (h2 : Best.compare y z ≠ .gt) : Best.compare x z ≠ .gt := by
  rw [best_compare_key x y hx hy cxy] at h1
  rw [best_compare_key y z hy hz cyz] at h2
  rw [best_compare_key x z hx hz cxz]
  -- swap: (keyCmp kx ky).swap ≠ gt ↔ keyCmp ky kx ≠ gt … work with the reversed key order
  have e1 : keyCmp (bkey y) (bkey x) ≠ .gt := by rw [keyCmp_swap]; exact h1
  have e2 : keyCmp (bkey z) (bkey y) ≠ .gt := by rw [keyCmp_swap]; exact h2
  have := keyCmp_le_trans (bkey z) (bkey y) (bkey x) (by simp [bkey_length]) (by simp [bkey_length]) e2 e1
  rw [keyCmp_swap] at this
  exact this

/-- the unrestricted statement is false for IEEE's algorithm itself: three data sets naming one
grandmaster identity with different priority1 values and suitable stepsRemoved cycle -/
theorem compare_cycle_witness :
    ∃ a b c : CmpDS, (a.compare b).asOrdering = .gt ∧ (b.compare c).asOrdering = .gt ∧ (c.compare a).asOrdering = .gt := by
  refine ⟨{ gmP1 := 1, gmId := 7, gmClass := 0, gmAcc := 0, gmVar := 0, gmP2 := 0, steps := 5, sender := 1, receiver := ⟨9, 1⟩ },
          { gmP1 := 2, gmId := 8, gmClass := 0, gmAcc := 0, gmVar := 0, gmP2 := 0, steps := 0, sender := 1, receiver := ⟨9, 1⟩ },
          { gmP1 := 3, gmId := 7, gmClass := 0, gmAcc := 0, gmVar := 0, gmP2 := 0, steps := 0, sender := 1, receiver := ⟨9, 1⟩ }, ?_⟩
  decide

/-! ### Ebest / Erbest selection -/

/-- generic fact about `max_by` as a fold: with a reflexive, transitive, total "not worse" relation
on the elements (predicate `P`), the result dominates the start value and every element -/
theorem fold_max (cmp : Best → Best → Ordering) (P : Best → Prop)
    (refl : ∀ x, P x → cmp x x ≠ .gt)
    (trans : ∀ x y z, P x → P y → P z → cmp x y ≠ .gt → cmp y z ≠ .gt → cmp x z ≠ .gt)
    (total : ∀ x y, P x → P y → cmp x y = .gt → cmp y x ≠ .gt) :
    ∀ (ys : List Best) (c : Best), P c → (∀ y ∈ ys, P y) →
      P (ys.foldl (maxStep cmp) c) ∧
      ((ys.foldl (maxStep cmp) c) = c ∨
        (ys.foldl (maxStep cmp) c) ∈ ys) ∧
      cmp c (ys.foldl (maxStep cmp) c) ≠ .gt ∧
      ∀ y ∈ ys, cmp y (ys.foldl (maxStep cmp) c) ≠ .gt := by
  intro ys
  induction ys with
  | nil => intro c hc _; exact ⟨hc, Or.inl rfl, refl c hc, by simp⟩
  | cons y ys ih =>
    intro c hc hys
    have hy : P y := hys y List.mem_cons_self
    have hys' : ∀ z ∈ ys, P z := fun z hz => hys z (List.mem_cons_of_mem _ hz)
    simp only [List.foldl_cons]
    cases hcy : cmp c y with
    | gt =>
      simp only [maxStep, hcy]
      obtain ⟨pr, hm, h1, h2⟩ := ih c hc hys'
      refine ⟨pr, ?_, h1, ?_⟩
      · rcases hm with h | h
        · left; exact h
        · right; exact List.mem_cons_of_mem _ h
      · intro z hz
        rcases List.mem_cons.1 hz with h | h
        · subst h; exact trans _ c _ hy hc pr (total c _ hc hy hcy) h1
        · exact h2 z h
    | lt =>
      simp only [maxStep, hcy]
      obtain ⟨pr, hm, h1, h2⟩ := ih y hy hys'
      have hcy' : cmp c y ≠ .gt := by rw [hcy]; decide
      refine ⟨pr, ?_, trans c y _ hc hy pr hcy' h1, ?_⟩
      · rcases hm with h | h
        · right; rw [h]; exact List.mem_cons_self
        · right; exact List.mem_cons_of_mem _ h
      · intro z hz
        rcases List.mem_cons.1 hz with h | h
        · subst h; exact h1
        · exact h2 z h
    | eq =>
      simp only [maxStep, hcy]
      obtain ⟨pr, hm, h1, h2⟩ := ih y hy hys'
      have hcy' : cmp c y ≠ .gt := by rw [hcy]; decide
      refine ⟨pr, ?_, trans c y _ hc hy pr hcy' h1, ?_⟩
      · rcases hm with h | h
        · right; rw [h]; exact List.mem_cons_self
        · right; exact List.mem_cons_of_mem _ h
      · intro z hz
        rcases List.mem_cons.1 hz with h | h
        · subst h; exact h1
        · exact h2 z h

/-- **The selected parent is never worse than any other qualified candidate** (and is one of them). -/
theorem findBest_maximal (l : List Best) (b : Best) (hg : ∀ x ∈ l, Good x)
    (hc : ∀ x ∈ l, ∀ y ∈ l, Cons x y) (h : findBest l = some b) :
    b ∈ l ∧ ∀ x ∈ l, Best.compare x b ≠ .gt := by
  cases l with
  | nil => simp [findBest, maxBy] at h
  | cons x0 xs =>
    simp only [findBest, maxBy, Option.some.injEq] at h
    have refl : ∀ x, x ∈ x0 :: xs → Best.compare x x ≠ .gt := by
      intro x hx
      rw [best_compare_key x x (hg x hx) (hg x hx) (hc x hx x hx), keyCmp_refl]; decide
    have trans : ∀ x y z, x ∈ x0 :: xs → y ∈ x0 :: xs → z ∈ x0 :: xs →
        Best.compare x y ≠ .gt → Best.compare y z ≠ .gt → Best.compare x z ≠ .gt := by
      intro x y z hx hy hz
      exact compare_trans x y z (hg x hx) (hg y hy) (hg z hz) (hc x hx y hy) (hc y hy z hz) (hc x hx z hz)
    have total : ∀ x y, x ∈ x0 :: xs → y ∈ x0 :: xs → Best.compare x y = .gt → Best.compare y x ≠ .gt := by
      intro x y hx hy hxy
      rw [best_compare_key y x (hg y hy) (hg x hx) (hc y hy x hx)]
      rw [best_compare_key x y (hg x hx) (hg y hy) (hc x hx y hy)] at hxy
      rw [keyCmp_swap (bkey x) (bkey y)]
      cases hk : keyCmp (bkey x) (bkey y) <;> simp_all [Ordering.swap]
    obtain ⟨_, hm, h1, h2⟩ := fold_max Best.compare (fun x => x ∈ x0 :: xs) refl trans total xs x0
      List.mem_cons_self (fun y hy => List.mem_cons_of_mem _ hy)
    rw [h] at hm h1 h2
    refine ⟨?_, ?_⟩
    · rcases hm with e | e
      · rw [e]; exact List.mem_cons_self
      · exact List.mem_cons_of_mem _ e
    · intro x hx
      rcases List.mem_cons.1 hx with e | e
      · rw [e]; exact h1
      · exact h2 x e

/-- **Order independence of the selection.** Two presentations of the same candidates (any
permutation) select candidates that compare as equal — identical keys: same grandmaster, same
stepsRemoved, same sender, same receiving port, same age. -/
theorem findBest_perm (l l' : List Best) (b b' : Best) (hp : ∀ x, x ∈ l ↔ x ∈ l')
    (hg : ∀ x ∈ l, Good x) (hc : ∀ x ∈ l, ∀ y ∈ l, Cons x y)
    (h : findBest l = some b) (h' : findBest l' = some b') : Best.compare b b' = .eq := by
  have hg' : ∀ x ∈ l', Good x := fun x hx => hg x ((hp x).2 hx)
  have hc' : ∀ x ∈ l', ∀ y ∈ l', Cons x y := fun x hx y hy => hc x ((hp x).2 hx) y ((hp y).2 hy)
  obtain ⟨m1, a1⟩ := findBest_maximal l b hg hc h
  obtain ⟨m2, a2⟩ := findBest_maximal l' b' hg' hc' h'
  have e1 := a2 b ((hp b).1 m1)        -- b ≤ b'
  have e2 := a1 b' ((hp b').2 m2)      -- b' ≤ b
  rw [best_compare_key b' b (hg b' ((hp b').2 m2)) (hg b m1) (hc b' ((hp b').2 m2) b m1), keyCmp_swap (bkey b) (bkey b')] at e2
  rw [best_compare_key b b' (hg b m1) (hg b' ((hp b').2 m2)) (hc b m1 b' ((hp b').2 m2))] at e1 ⊢
  cases hk : keyCmp (bkey b) (bkey b') <;> simp_all [Ordering.swap]

/-! ### the state decision -/

/-- statime's decision code for a recommended state -/
def code : Option Recommended → Spec.Decision
  | none => .stay
  | some (.m1 _) => .m1 | some (.m2 _) => .m2 | some (.m3 _) => .m3
  | some (.p1 _) => .p1 | some (.p2 _) => .p2 | some (.s1 _) => .s1

/-- **The recommended state is the one Figure 33 prescribes**, for every own data set, every
Ebest / Erbest and every prior port state. -/
theorem d0_split (d0 : CmpDS) (b : Best) :
    (compareD0Best d0 (some b) = .worse b ∧ Spec.d0Wins d0 (some b) = false) ∨
    ((compareD0Best d0 (some b) = .better ∨ compareD0Best d0 (some b) = .same) ∧ Spec.d0Wins d0 (some b) = true) := by
  unfold compareD0Best Spec.d0Wins
  cases hx : d0.compare (CmpDS.ofAnnounce b.ann b.identity) <;> simp [hx, DOrd.asOrdering]

theorem decision_matches_spec (own : DefaultDS) (ebest erbest : Option Best) (listening : Bool) :
    code (recommend own ebest erbest listening) = Spec.stateDecision own ebest erbest listening := by
  unfold recommend Spec.stateDecision
  by_cases h0 : (erbest.isNone && listening) = true
  · simp [h0, code]
  · simp only [h0, if_false, Bool.false_eq_true]
    by_cases hc : 1 ≤ own.quality.clockClass ∧ own.quality.clockClass ≤ 127
    · simp only [hc, and_self, if_true]
      unfold recommendLow
      cases erbest with
      | none => simp [compareD0Best, Spec.d0Wins, code]
      | some b =>
        rcases d0_split (CmpDS.ofOwn own) b with ⟨h1, h2⟩ | ⟨h1 | h1, h2⟩ <;> simp [h1, h2, code]
    · simp only [hc, if_false]
      unfold recommendHigh
      cases ebest with
      | none => simp [compareD0Best, Spec.d0Wins, code]
      | some g =>
        rcases d0_split (CmpDS.ofOwn own) g with ⟨h1, h2⟩ | ⟨h1 | h1, h2⟩
        · simp only [h1, h2, if_false, Bool.false_eq_true]
          cases erbest with
          | none => simp [code]
          | some p =>
            simp only [compareGlobalAndPort, Spec.betterOrTopo]
            by_cases hgp : g = p
            · simp [hgp, code]
            · simp only [hgp, if_false]
              by_cases hbt : (CmpDS.ofAnnounce g.ann g.identity).compare (CmpDS.ofAnnounce p.ann p.identity) = .betterTopo
              · simp [hbt, code]
              · simp [hbt, code]
        · simp [h1, h2, code]
        · simp [h1, h2, code]

/-- the data a decision carries is the right one: S1 carries Ebest's Announce, M1/M2 the own data set -/
theorem decision_payload (own : DefaultDS) (ebest erbest : Option Best) (listening : Bool) (a : Ann)
    (h : recommend own ebest erbest listening = some (.s1 a)) :
    ∃ g, ebest = some g ∧ erbest = some g ∧ a = g.ann := by
  unfold recommend at h
  split at h
  · cases h
  · split at h
    · simp only [Option.some.injEq] at h
      unfold recommendLow at h
      split at h <;> cases h
    · simp only [Option.some.injEq] at h
      unfold recommendHigh at h
      split at h
      · cases h
      · cases h
      · rename_i g _
        split at h
        · cases h
        · rename_i p
          unfold compareGlobalAndPort at h
          split at h
          · rename_i hgp
            injection h with h
            unfold compareD0Best at *
            cases ebest with
            | none => simp at *
            | some g' =>
              simp only at *
              split at * <;> simp_all
          · split at h <;> cases h

/-! ### The port on which S1 was decided is bound to the selected parent -/

/-- **Decision S1 applied to a port** (`set_recommended_state`, any port that is not disabled by a peer-delay fault,
whatever it was doing before): afterwards the port is Slave *of the sender of the selected Announce* — also when it
was already Slave of another port of the same clock — and that sender is the parent the data sets name.
(`boundTo` = `SlaveState::remote_master`, the `RM` part of the state line.) -/
theorem s1_binds_port_to_parent (p p' : Port) (a : Ann) (s s' : InstState) (ev : List Out) (pend : Option (List Out))
    (hf : p.st ≠ .faulty)
    (h : p.setRecommendedState (.s1 a) s = .ok (p', s', ev, pend)) :
    boundTo p' = some a.hdr.src ∧ s'.parent.parentPort = a.hdr.src :=
  setRecommendedState_s1_binds p p' a s s' ev pend hf h

/-- **After every BMCA run (all ports passed, each once) every Slave port is bound to the parent the data sets name**:
whatever the ports were doing before the run, whichever order they are presented in, whatever else the run decided for
the other ports. -/
theorem bmca_binds_slaves_to_the_parent (i i' : Inst) (order : List Nat) (obs : Obs) (hnd : order.Nodup)
    (hall : ∀ j, j < i.ports.length → j + 1 ∈ order)
    (h : i.bmca order = .ok (i', obs)) :
    ∀ (j : Nat) (p' : Port), i'.ports[j]? = some p' → ∀ r, boundTo p' = some r → r = i'.st.parent.parentPort := by
  unfold Inst.bmca at h
  split at h
  · cases h
  · obtain ⟨step, _, hw⟩ := orOv_ok _ _ _ h
    unfold Inst.bmcaWith at hw
    simp only at hw
    obtain ⟨t1, t2, _⟩ := bmcaTakeBest_spec order i.ports []
    generalize bmcaTakeBest order i.ports [] = tb at hw t1 t2
    obtain ⟨ports1, lbs⟩ := tb
    simp only at hw t1 t2
    generalize (order.filterMap fun k =>
        match portAt ports1 k with
        | some p => bestForBmca p ((lbs.lookup k).getD none)
        | none => none) = cands at hw
    cases hap : bmcaApply (findBest cands) lbs order ports1 i.st [] [] with
    | error e => rw [hap] at hw; cases hw
    | ok v =>
      obtain ⟨ports2, s2, ev2, pend2⟩ := v
      rw [hap] at hw
      simp only at hw
      cases hag : bmcaAge step order ports2 with
      | error e => rw [hag] at hw; cases hw
      | ok ports3 =>
        rw [hag] at hw
        simp only [Except.ok.injEq, Prod.mk.injEq] at hw
        obtain ⟨hi', _⟩ := hw
        obtain ⟨a1, _, _, _, _⟩ := bmcaApply_spec (findBest cands) lbs order hnd ports1 i.st [] [] ports2 s2 ev2 pend2 hap
        obtain ⟨_, bnd⟩ := bmcaApply_bind i.st.dflt (findBest cands) lbs order hnd ports1 i.st [] [] ports2 s2 ev2 pend2 rfl hap
        obtain ⟨g1, g2⟩ := bmcaAge_spec step order ports2 ports3 hag
        intro j p' hp' r hr
        rw [← hi'] at hp' ⊢
        simp only at hp' ⊢
        have hj3 : j < ports3.length := by
          by_cases hc : j < ports3.length
          · exact hc
          · rw [List.getElem?_eq_none (Nat.le_of_not_lt hc)] at hp'; cases hp'
        have hj2 : j < ports2.length := by rw [← g1]; exact hj3
        obtain ⟨p3, hp3, hsr⟩ := g2 j ports2[j] (List.getElem?_eq_getElem hj2)
        rw [hp'] at hp3; cases hp3
        have hst : p'.st = ports2[j].st := hsr.2.2.1
        have hs : ports2[j].st.isSlave = true := by rw [← hst]; exact boundTo_some_isSlave hr
        have hjo : j + 1 ∈ order := hall j (by rw [← t1, ← a1]; exact hj2)
        obtain ⟨⟨a, ha, hpar⟩, a', ha', hb⟩ := bnd j ports2[j] (List.getElem?_eq_getElem hj2) hjo hs
        rw [ha] at ha'; cases ha'
        rw [boundTo_congr hst, hb] at hr
        cases hr
        exact hpar.symm

/-- a port that was Slave of port 1 of a clock and is handed S1 for port 2 of the same clock follows it (non-vacuity of
the case the theorem is about) -/
example :
    let p : Port := { (default : Port) with st := .slave ⟨5, 1⟩ .empty .empty none }
    let a : Ann := ⟨{ src := ⟨5, 2⟩ }, { origin := ⟨0, 0⟩, utcOffset := 0, p1 := 10, clockClass := 6, accuracy := 0x20, variance := 100, p2 := 1, gm := 5, steps := 1, timeSource := 0 }⟩
    (portMove p (.s1 a) default).map (·.1) = some (.slave ⟨5, 2⟩ .empty .empty none) := by
  decide

/-! ### Non-vacuity -/

def sampleA : Best :=
  ⟨⟨{ src := ⟨5, 1⟩ }, { origin := ⟨0, 0⟩, utcOffset := 0, p1 := 10, clockClass := 6, accuracy := 0x20, variance := 100, p2 := 1, gm := 5, steps := 1, timeSource := 0 }⟩, 0, ⟨9, 1⟩⟩
def sampleB : Best :=
  ⟨⟨{ src := ⟨6, 1⟩ }, { origin := ⟨0, 0⟩, utcOffset := 0, p1 := 20, clockClass := 6, accuracy := 0x20, variance := 100, p2 := 1, gm := 6, steps := 1, timeSource := 0 }⟩, 0, ⟨9, 1⟩⟩

example : Good sampleA ∧ Good sampleB ∧ Cons sampleA sampleB ∧ Best.compare sampleA sampleB = .gt ∧
    findBest [sampleB, sampleA] = some sampleA := by
  refine ⟨?_, ?_, ?_, ?_, ?_⟩
  · unfold Good CmpDS.NoSelf; decide
  · unfold Good CmpDS.NoSelf; decide
  · unfold Cons CmpDS.GMCons; decide
  · decide
  · decide

/-! ### the comparison as translated from the source on this run

`translator/extract_cmp.py` turns `dataset_comparison.rs` into data (`Generated/DatasetComparison.lean`) whose
meaning is given by the interpreter of `Lemmas/CmpGen.lean`.  The theorems below re-prove, against whatever the
source says now, that this meaning is the hand-written model the theorems above are about. -/
section Translated
open Statime.CmpGen Statime.DecGen Statime.MoveGen

theorem generated_figure34_is_model (a b : CmpDS) :
    ∀ keys arms, Generated.figure34Chain = some keys → Generated.figure34Arms = some arms →
      evalDifferent keys arms.1 arms.2 a b = compareDifferent a b := by
  intro keys arms hk ha
  unfold Generated.figure34Chain at hk
  unfold Generated.figure34Arms at ha
  cases hk <;> cases ha
  all_goals (
    unfold evalDifferent compareDifferent
    rw [lexKeys_figure34]
    generalize lexCmp _ = o
    cases o <;> rfl)

theorem generated_figure35_is_model (a b : CmpDS) :
    ∀ arms, Generated.figure35Arms = some arms → evalArms arms a b = some (compareSame a b) := by
  intro arms h
  unfold Generated.figure35Arms at h
  cases h
  all_goals (
    simp only [evalArms, geLo, leHi, Body.eval, Side.pick, Field.get, Bool.true_and, Bool.and_true, pick3_cmpNat]
    unfold compareSame
    have hl : lexKeys [.sender, .recvPort] a b = lexCmp [(a.sender, b.sender), (a.receiver.port, b.receiver.port)] := rfl
    rw [hl]
    generalize ((a.steps : Int) - (b.steps : Int)) = d
    have hd : 2 ≤ d ∨ d ≤ -2 ∨ d = 1 ∨ d = -1 ∨ d = 0 := by omega
    rcases hd with h | h | h | h | h
    · have h1 : ¬ d ≤ -2 := by omega
      have h2 : ¬ d ≤ 1 := by omega
      have h3 : ¬ d ≤ -1 := by omega
      have h4 : ¬ d ≤ 0 := by omega
      simp [h, h1, h2, h3, h4]
    · have h1 : ¬ 2 ≤ d := by omega
      have h2 : ¬ 1 ≤ d := by omega
      have h3 : ¬ -1 ≤ d := by omega
      have h4 : ¬ 0 ≤ d := by omega
      simp [h, h1, h2, h3, h4]
    · subst h; simp
    · subst h; simp
    · subst h
      generalize lexCmp _ = o
      cases o <;> simp [pick3])

/-- **the comparison translated from `dataset_comparison.rs` on this run is the model's comparison**: the dispatch of
`compare`, the arms of `compare_same_identity` and the chain of `compare_different_identity`, as extracted, evaluate to
`CmpDS.compare` on all pairs of data sets -/
theorem generated_compare_is_model (a b : CmpDS) :
    ∀ disp arms keys res, Generated.cmpDispatch = some disp → Generated.figure35Arms = some arms →
      Generated.figure34Chain = some keys → Generated.figure34Arms = some res →
      evalCompare disp arms keys res.1 res.2 a b = some (a.compare b) := by
  intro disp arms keys res hd h35 hk hr
  have h1 := generated_figure35_is_model a b arms h35
  have h2 := generated_figure34_is_model a b keys res hk hr
  unfold Generated.cmpDispatch at hd
  cases hd
  all_goals (
    unfold evalCompare CmpDS.compare
    rw [h1, h2]
    have hg : ∀ x : CmpDS, Field.gmId.get x = x.gmId := fun _ => rfl
    by_cases h : a.gmId = b.gmId
    · rw [if_pos (by rw [hg, hg]; exact h), if_pos h]
    · rw [if_neg (by rw [hg, hg]; exact h), if_neg h])

theorem generated_as_ordering_is_model :
    ∀ tbl, Generated.asOrderingTable = some tbl → ∀ d, lookupOrd tbl d = some d.asOrdering := by
  intro tbl h d
  unfold Generated.asOrderingTable at h
  cases h
  all_goals (
    cases d <;> rfl)

theorem generated_of_announce_is_model (a : Ann) (r : PortId) :
    ∀ tbl, Generated.ofAnnounceTable = some tbl → build tbl (Src.ofAnn a r) = some (CmpDS.ofAnnounce a r) := by
  intro tbl h
  unfold Generated.ofAnnounceTable at h
  cases h
  all_goals (
    rfl)

theorem generated_of_own_is_model (d : DefaultDS) :
    ∀ tbl, Generated.ofOwnTable = some tbl → build tbl (Src.ofOwn d) = some (CmpDS.ofOwn d) := by
  intro tbl h
  unfold Generated.ofOwnTable at h
  cases h
  all_goals (
    rfl)

/-- `ClockAccuracy::cmp_numeric` compares the octets, in this order (when the translator recognises it at all) -/
theorem generated_accuracy_by_octet : Generated.accuracyComparedByOctet ≠ some false := by decide

/-- **the state decision translated from `bmc/bmca.rs` on this run is the model's `recommend`**: the guard, the
clockClass range, the arms of the low-class and high-class decisions, of `compare_d0_best` and of
`compare_global_and_port`, as extracted into `Generated.decisionTable`, evaluate to `recommend` for every own data
set, Ebest, Erbest and prior state (and `recommend` is Figure 33 by `decision_matches_spec` above) -/
theorem generated_state_decision_is_model (own : DefaultDS) (ebest erbest : Option Best) (listening : Bool) :
    ∀ t, Generated.decisionTable = some t →
      evalRecommend t own ebest erbest listening = some (recommend own ebest erbest listening) := by
  intro t h
  unfold Generated.decisionTable at h
  cases h
  all_goals (
    unfold evalRecommend recommend
    simp only [Bool.true_and]
    by_cases h0 : (erbest.isNone && listening) = true
    · simp only [h0, if_true]
    · simp only [h0, if_false, Bool.false_eq_true]
      by_cases h1 : 1 ≤ own.quality.clockClass ∧ own.quality.clockClass ≤ 127
      · simp only [h1, and_self, if_true]
        unfold evalLow recommendLow evalD0 compareD0Best
        simp only [Who.get]
        cases erbest with
        | none => simp [Leaf.eval, Leaf.evalBase]
        | some b =>
          simp only []
          cases ((CmpDS.ofOwn own).compare (CmpDS.ofAnnounce b.ann b.identity)).asOrdering <;>
            simp [Leaf.eval, Leaf.evalBase, Who.get]
      · simp only [h1, if_false]
        unfold evalHigh recommendHigh evalD0 compareD0Best
        simp only [Who.get]
        cases ebest with
        | none => simp [Leaf.eval, Leaf.evalBase]
        | some g =>
          simp only []
          cases ((CmpDS.ofOwn own).compare (CmpDS.ofAnnounce g.ann g.identity)).asOrdering
          · cases erbest with
            | none => simp [Leaf.eval, Leaf.evalBase, Who.get]
            | some p =>
              simp [Leaf.eval, evalGP, Who.get, compareGlobalAndPort, Leaf.evalBase]
              by_cases hgp : g = p
              · subst hgp; simp
              · simp only [hgp, if_false]; split <;> rfl
          · simp [Leaf.eval, Leaf.evalBase]
          · simp [Leaf.eval, Leaf.evalBase])

/-- **`BestAnnounceMessage::compare` as translated on this run is the model's `Best.compare`** (data set ordering of
`self` against `other`, ties broken towards the newer message), and `find_best_announce_message` takes the
maximum under it -/
theorem generated_best_compare_is_model (x y : Best) :
    ∀ t, Generated.bestCompareTable = some t → evalBestCompare t x y = Best.compare x y := by
  intro t h
  unfold Generated.bestCompareTable at h
  cases h
  all_goals (
    unfold evalBestCompare Best.compare ordThen
    simp only [if_true]
    cases ((CmpDS.ofAnnounce x.ann x.identity).compare (CmpDS.ofAnnounce y.ann y.identity)).asOrdering <;> rfl)

theorem generated_find_best_is_max : Generated.findBestIsMaxBy ≠ some false := by decide

/-- **`set_recommended_port_state` as translated on this run is the model's `portMove`** ("application of the
decision"): for S1, for M1 / M2 / M3 (slave-only instance, port disabled by a sibling, otherwise) and for P1 / P2, per
current port state: whether the port moves, where to, and which timer actions become pending - for every port,
recommendation and default data set. In particular a Faulty port is moved by no decision code. -/
theorem generated_port_move_is_model (p : Port) (r : Recommended) (d : DefaultDS) :
    ∀ t, Generated.portMoveTable = some t → evalPortMove t p r d = some (portMove p r d) := by
  intro t h
  unfold Generated.portMoveTable at h
  cases h
  all_goals (
    unfold evalPortMove portMove
    cases r <;> cases hs : p.st <;> by_cases h1 : d.slaveOnly = true <;>
      by_cases h2 : p.multiportDisable.isSome = true <;>
      simp [evalS1, evalMoves, lookupK, memK, SK.of, Move.eval, Tgt.toP, PAct.out, remoteOf, h1, h2] <;>
      (try split) <;> simp_all)

end Translated

end Statime.C05
