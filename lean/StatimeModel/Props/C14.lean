import StatimeModel.Lemmas.Slave
import StatimeModel.Model.Instance
/-
C14 — Peer-delay measurement is exact and guarded against multiple responders.

Tie: the `inst` stream contains directed Pdelay exchanges (transmit timestamp, Pdelay_Resp,
Pdelay_Resp_Follow_Up from one or two responders, every order, duplicates, losses) on P2P ports
in every port state; peer-delay measurements and the Faulty transitions are compared with the
model, and an independent oracle re-derives each link delay from the logged frames.
-/
namespace Statime.C14
open Statime

/-! ### the link delay is the formula of the stored exchange -/

/-- **Exactness.** When `extract_measurement` consumes a complete peer exchange it hands the filter
`((t4' − t1) − (t3' − t2)) / 2` (Spec.peerDelay; `/2` truncating toward zero as the `fixed` crate
does), stamped with t4', remembers request id and responder, and — if the port was Faulty —
brings it back to Listening with a fresh filter. Nothing else is measured in that call. -/
theorem extract_peer (p p' : Port) (id : Nat) (resp : PortId) (t1 t2 t3 t4 : Nat) (m : Option Measurement) (o : List Out)
    (hpeer : p.peer = .measuring id (some resp) (some t1) (some t2) (some t3) (some t4))
    (h : p.extract = .ok (p', m, o)) :
    ∃ v, Spec.peerDelay t1 t2 t3 t4 = some v ∧ m = some { eventTime := t4, peerDelay := some v } ∧
      p'.peer = .post id resp ∧
      ((p.st = .faulty ∧ p'.st = .listening ∧ o = [.demobilize]) ∨ (p.st ≠ .faulty ∧ p'.st = p.st ∧ o = [])) := by
  unfold Port.extract at h
  rw [hpeer] at h
  simp only at h
  obtain ⟨mm, h1, h2⟩ := orOv_ok _ _ _ h
  obtain ⟨v, hv, hm⟩ := peerMeasurement_spec _ _ _ _ _ h1
  refine ⟨v, hv, ?_⟩
  by_cases hf : p.st = .faulty
  · rw [if_pos hf] at h2
    simp only [Port.setState, Except.ok.injEq, Prod.mk.injEq] at h2
    obtain ⟨e1, e2, e3⟩ := h2
    subst e1
    refine ⟨by rw [← e2, hm], rfl, Or.inl ⟨hf, rfl, ?_⟩⟩
    rw [← e3]; simp [PState.isSlave, hf]
  · rw [if_neg hf] at h2
    simp only [Except.ok.injEq, Prod.mk.injEq] at h2
    obtain ⟨e1, e2, e3⟩ := h2
    subst e1
    exact ⟨by rw [← e2, hm], rfl, Or.inr ⟨hf, rfl, e3.symm⟩⟩

/-! ### more than one responder ⇒ Faulty, the later response is not used -/

/-- a response (or follow-up) to the current request from a device other than the responder already
seen — before or after the measurement was taken -/
def SecondResponder (s : PeerSt) (seq : Nat) (src : PortId) : Prop :=
  (∃ r, s = .post seq r ∧ r ≠ src) ∨ (∃ r a b c d, s = .measuring seq (some r) a b c d ∧ r ≠ src)

theorem classify_second (s : PeerSt) (seq : Nat) (src : PortId) (h : SecondResponder s seq src) :
    s.classify seq src = some true := by
  rcases h with ⟨r, rfl, hne⟩ | ⟨r, a, b, c, d, rfl, hne⟩
  · simp [PeerSt.classify, hne]
  · simp [PeerSt.classify, hne]

/-- **Multiple responders.** A Pdelay_Resp for the current request from a second device puts the port
into Faulty; its timestamps are not stored (peer state unchanged) and nothing is measured: the only
side effect is that the servo is demobilised (exactly when the Faulty state is entered). -/
theorem multi_responder_faulty (p : Port) (h : Header) (rx : WireTs) (ts : Nat)
    (hsec : SecondResponder p.peer h.seq h.src) :
    p.handlePdelayResp h rx p.id ts = .ok ({ p with st := .faulty }, [.demobilize]) := by
  unfold Port.handlePdelayResp
  simp only [ne_eq, not_true_eq_false, if_false, classify_second _ _ _ hsec]
  simp [Port.setState]

theorem multi_responder_faulty_fu (p : Port) (h : Header) (o : WireTs)
    (hsec : SecondResponder p.peer h.seq h.src) :
    p.handlePdelayRespFu h o p.id = .ok ({ p with st := .faulty }, [.demobilize]) := by
  unfold Port.handlePdelayRespFu
  simp only [ne_eq, not_true_eq_false, if_false, classify_second _ _ _ hsec]
  simp [Port.setState]

/-- responses to someone else's request are ignored -/
theorem other_requester_ignored (p : Port) (h : Header) (rx : WireTs) (req : PortId) (ts : Nat) (hne : p.id ≠ req) :
    p.handlePdelayResp h rx req ts = .ok (p, []) ∧ p.handlePdelayRespFu h rx req = .ok (p, []) := by
  unfold Port.handlePdelayResp Port.handlePdelayRespFu
  simp [hne]

/-- **One responder per stored exchange.** The handlers store the timestamps of a response (and set the
responder to its sender) only when `classify` answers `some false`, and that happens exactly when the
response is for the request being measured and no *other* responder has been seen for it. -/
theorem classify_false_iff (s : PeerSt) (seq : Nat) (src : PortId) :
    s.classify seq src = some false ↔
      ∃ r a b c d, s = .measuring seq r a b c d ∧ (r = none ∨ r = some src) := by
  constructor
  · intro h
    cases s with
    | empty => simp [PeerSt.classify] at h
    | post i r =>
      simp only [PeerSt.classify] at h
      split at h <;> cases h
    | measuring i r a b c d =>
      simp only [PeerSt.classify] at h
      by_cases e : i = seq
      · rw [if_pos e] at h
        subst e
        refine ⟨r, a, b, c, d, rfl, ?_⟩
        cases r with
        | none => left; rfl
        | some r' =>
          simp only at h
          by_cases e2 : r' ≠ src
          · rw [if_pos e2] at h; cases h
          · right; rw [Classical.not_not.1 e2]
      · rw [if_neg e] at h; cases h
  · rintro ⟨r, a, b, c, d, rfl, hr⟩
    rcases hr with rfl | rfl
    · simp [PeerSt.classify]
    · simp [PeerSt.classify]

/-- a response that is not for the current request (other sequence id, or no request outstanding) is ignored -/
theorem stale_response_ignored (p : Port) (h : Header) (rx : WireTs) (req : PortId) (ts : Nat)
    (hc : p.peer.classify h.seq h.src = none) :
    p.handlePdelayResp h rx req ts = .ok (p, []) ∧ p.handlePdelayRespFu h rx req = .ok (p, []) := by
  unfold Port.handlePdelayResp Port.handlePdelayRespFu
  by_cases e : p.id ≠ req
  · simp [e]
  · simp [e, hc]

/-! ### while Faulty: no master traffic, no sync/delay measurement, never Ebest -/

theorem faulty_no_master_traffic (p : Port) (s : InstState) (hf : p.st = .faulty) (q : List FwdTlv) (loose : Bool)
    (h : Header) (ts id : Nat) :
    p.sendSync s = .ok (p, []) ∧ p.sendAnnounce s q loose = .ok (p, [], q) ∧
    p.handleDelayReq h ts = .ok (p, []) ∧ p.handleSyncTs s id ts = .ok (p, []) := by
  unfold Port.sendSync Port.sendAnnounce Port.handleDelayReq Port.handleSyncTs
  simp [hf]

theorem faulty_no_sync_delay_measurement (p : Port) (hf : p.st = .faulty) (h : Header) (o : WireTs) (rx : WireTs)
    (req : PortId) (ts id : Nat) :
    p.handleSync h o ts = .ok (p, []) ∧ p.handleFollowUp h o = .ok (p, []) ∧
    p.handleDelayResp h rx req = .ok (p, []) ∧ p.handleDelayTs id ts = .ok (p, []) := by
  unfold Port.handleSync Port.handleFollowUp Port.handleDelayResp Port.handleDelayTs
  simp [hf]

theorem faulty_not_in_ebest (p : Port) (lb : Option Best) (hf : p.st = .faulty) : bestForBmca p lb = none := by
  simp [bestForBmca, hf]

/-- BMCA never moves a Faulty port, whatever is recommended -/
theorem faulty_bmca_stays (p : Port) (r : Recommended) (d : DefaultDS) (hf : p.st = .faulty) (hm : p.cfg.masterOnly = false) :
    p.setRecommendedPortState r d = .ok (p, [], none) := by
  unfold Port.setRecommendedPortState
  cases r <;> simp [hf, hm, portMove, Recommended.isS1]

/-- the announce receipt timeout leaves a Faulty port Faulty (since the `fix:` commit; before it the
port was forced to Master — known_findings.json) -/
theorem faulty_receipt_timer (p : Port) (s : InstState) (hf : p.st = .faulty) :
    (p.handleReceiptTimer s).1 = p ∧ (p.handleReceiptTimer s).2 = [.reset .receipt .rand] := by
  simp [Port.handleReceiptTimer, hf]

/-- **Recovery.** A Faulty port whose next exchange completes (one responder: any second one would have
been caught by `multi_responder_faulty`) returns to Listening, gets a fresh servo, and hands the
filter the exact link delay. -/
theorem faulty_recovers (p p' : Port) (id : Nat) (resp : PortId) (t1 t2 t3 t4 : Nat) (outs : List Out)
    (hf : p.st = .faulty) (hpeer : p.peer = .measuring id (some resp) (some t1) (some t2) (some t3) (some t4))
    (h : p.timeMeasurement = .ok (p', outs)) :
    ∃ v, Spec.peerDelay t1 t2 t3 t4 = some v ∧ p'.st = .listening ∧ p'.peer = .post id resp ∧
      outs = [.demobilize, .measurement { eventTime := t4, peerDelay := some v }] := by
  obtain ⟨p1, m, o1, hex, hm⟩ := timeMeasurement_spec p p' outs h
  obtain ⟨v, hv, hmm, hpp, hcase⟩ := extract_peer p p1 id resp t1 t2 t3 t4 m o1 hpeer hex
  subst hmm
  simp only at hm
  rcases hcase with ⟨_, hl, ho⟩ | ⟨hnf, _, _⟩
  · refine ⟨v, hv, ?_, ?_, ?_⟩
    · rw [hm.2]; simp only [filterMeanDelay]; split <;> exact hl
    · rw [hm.2]; simp only [filterMeanDelay]; split <;> exact hpp
    · rw [hm.1, ho]; rfl
  · exact absurd hf hnf

end Statime.C14
