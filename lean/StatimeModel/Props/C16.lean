import StatimeModel.Model.Time
import StatimeModel.Lemmas.TimeBasic
/-
C16 — Time arithmetic and wire time conversions are exact.

Property theorems only. All statements are about the bit-pattern model in
`Model/Time.lean`; the tie to the Rust operators is the `TIME` correspondence
stream (every operator, boundary lattice + random operands, bit-exact,
including which operand pairs overflow).
-/
namespace Statime.C16
open Statime

/-- exclusive upper bound of the PTP time range: 2^48 s, in 2^-32 ns units -/
def TMAX : Nat := 1208925819614629174706176000000000
/-- ±2^63 ns, in 2^-32 ns units -/
def DMAX : Nat := 39614081257132168796771975168

example : TMAX = 2 ^ 48 * SEC ∧ DMAX = 2 ^ 63 * F32 := by decide

/-- **Wire round trip.** For every time in the PTP range, `Time → WireTimestamp`
succeeds, yields in-range fields, and `WireTimestamp → Time` plus the
sub-nanosecond correction (`subnano`, 2^-16 ns units) reproduces the time to
strictly less than 2^-16 ns (the 16 low fraction bits are truncated, never
rounded up). -/
theorem wire_roundtrip (t : Nat) (h : t < TMAX) :
    ∃ w b, timeToWire t = some w ∧ w.secs < 2 ^ 48 ∧ w.nanos < NS ∧
      wireToTime w = some b ∧
      (b : Int) + tivToDur (timeSubnano t) ≤ t ∧
      (t : Int) < (b : Int) + tivToDur (timeSubnano t) + F16 := by
  unfold TMAX at h
  refine ⟨⟨t / SEC, timeSubsecNanos t⟩, (t / SEC * NS + timeSubsecNanos t) * F32, ?_⟩
  unfold timeToWire timeSecs wireToTime timeSubsecNanos timeSubnano tivToDur
  unfold SEC NS F32 F16 U64 U128
  have h1 : t / 4294967296000000000 < 18446744073709551616 := by omega
  have h2 : (t / 4294967296000000000 * 1000000000 + t % 4294967296000000000 / 4294967296)
      * 4294967296 < 340282366920938463463374607431768211456 := by omega
  rw [if_pos h1]
  dsimp only
  rw [if_pos h2]
  refine ⟨rfl, by omega, by omega, rfl, ?_, ?_⟩ <;> omega

/-- **Time + Duration never overflows inside the PTP range** and is exact. -/
theorem add_in_range (t : Nat) (d : Int) (ht : t < TMAX)
    (hd : -(DMAX : Int) ≤ d ∧ d ≤ DMAX) (hpos : 0 ≤ (t : Int) + d) :
    timeAddDur t d = some ((t : Int) + d).toNat := by
  unfold TMAX at ht
  unfold DMAX at hd
  rw [timeAddDur_nonneg t d hpos, if_pos]
  rw [inU128_iff]
  omega

/-- **Add then subtract cancels**, wherever the addition is defined and does not saturate at zero
(any time — a `U96F32` bit pattern, hence `< 2^128` —, any duration except the
single non-negatable value `MIN`). -/
theorem add_sub_cancel (t t' : Nat) (d : Int) (ht : t < U128) (hd : -(I127 : Int) < d ∧ d < I127)
    (hpos : 0 ≤ (t : Int) + d) (h : timeAddDur t d = some t') : timeSubDur t' d = some t := by
  unfold I127 at hd
  unfold U128 at ht
  rw [timeAddDur_nonneg t d hpos] at h
  obtain ⟨hr, ht'⟩ := ite_some_eq h
  rw [inU128_iff] at hr
  subst ht'
  have hn : inI128 (-d) = true := by rw [inI128_iff]; omega
  unfold timeSubDur durNeg
  rw [ite_some_of_true hn]
  dsimp only
  have e : ((((t : Int) + d).toNat : Nat) : Int) + -d = t := by omega
  rw [timeAddDur_nonneg _ _ (by omega), e, if_pos (by rw [inU128_iff]; omega)]
  simp

/-- subtract then add cancels as well -/
theorem sub_add_cancel (t t' : Nat) (d : Int) (ht : t < U128) (hd : -(I127 : Int) < d ∧ d < I127)
    (hpos : 0 ≤ (t : Int) - d) (h : timeSubDur t d = some t') : timeAddDur t' d = some t := by
  unfold I127 at hd
  unfold U128 at ht
  have hn : inI128 (-d) = true := by rw [inI128_iff]; omega
  unfold timeSubDur durNeg at h
  rw [ite_some_of_true hn] at h
  dsimp only at h
  rw [timeAddDur_nonneg t (-d) (by omega)] at h
  obtain ⟨hr, ht'⟩ := ite_some_eq h
  rw [inU128_iff] at hr
  subst ht'
  have e : ((((t : Int) + -d).toNat : Nat) : Int) + d = t := by omega
  rw [timeAddDur_nonneg _ _ (by omega), e, if_pos (by rw [inU128_iff]; omega)]
  simp

/-- **Difference of two times is exact** for all times below 2^127 units
(2^95 ns — far beyond the PTP range), and adding it back restores the minuend. -/
theorem time_sub_exact (a b : Nat) (ha : a < I127) (hb : b < I127) :
    timeSub a b = some ((a : Int) - b) ∧ timeAddDur b ((a : Int) - b) = some a := by
  have ha' := ha
  have hb' := hb
  unfold I127 at ha' hb'
  have hn : inI128 (-(b : Int)) = true := by rw [inI128_iff]; omega
  have hs : inI128 ((a : Int) + -(b : Int)) = true := by rw [inI128_iff]; omega
  constructor
  · unfold timeSub durSub durNeg
    rw [if_pos ⟨ha, hb⟩, ite_some_of_true hn]
    dsimp only
    unfold durAdd
    rw [ite_some_of_true hs]
    congr 1
  · have e : (b : Int) + ((a : Int) - b) = a := by omega
    rw [timeAddDur_nonneg _ _ (by omega), e, if_pos (by rw [inU128_iff]; omega)]
    simp

theorem time_sub_in_ptp_range (a b : Nat) (ha : a < TMAX) (hb : b < TMAX) :
    timeSub a b = some ((a : Int) - b) := by
  unfold TMAX at ha hb
  exact (time_sub_exact a b (by unfold I127; omega) (by unfold I127; omega)).1

/-- **Every 64-bit time interval converts to a duration and back unchanged.** -/
theorem interval_roundtrip (x : Int) (h : inI64 x = true) : durToTiv (tivToDur x) = x := by
  unfold durToTiv
  have e : tivToDur x / (F16 : Int) = x := by unfold tivToDur F16; omega
  rw [e]
  exact clampI64_of_inRange x h

/-- the widening direction is exact (multiplication by 2^16, no rounding) and never overflows -/
theorem interval_to_dur_in_range (x : Int) (h : inI64 x = true) : inI128 (tivToDur x) = true := by
  rw [inI64_iff] at h
  rw [inI128_iff]
  unfold tivToDur F16
  omega

/-- **The narrowing direction rounds toward minus infinity to 2^-16 ns** whenever the
result is representable (|d| < 2^47 ns). -/
theorem dur_to_interval_floor (d : Int) (h : inI64 (d / F16) = true) :
    tivToDur (durToTiv d) ≤ d ∧ d < tivToDur (durToTiv d) + F16 ∧
      durToTivChecked d = some (durToTiv d) := by
  have hw : durToTiv d = d / F16 := clampI64_of_inRange _ h
  rw [hw]
  unfold durToTivChecked
  dsimp only
  rw [ite_some_of_true h]
  unfold tivToDur F16
  refine ⟨?_, ?_, rfl⟩ <;> omega

/-- Outside that range the conversion is not representable; `durToTivChecked`
is `none` exactly there (this is the precise no-wrap domain: |d| < 2^79 units = 2^47 ns). -/
theorem dur_to_interval_domain (d : Int) :
    durToTivChecked d = none ↔
      (d < -604462909807314587353088 ∨ 604462909807314587353088 ≤ d) := by
  unfold durToTivChecked
  dsimp only
  cases hb : inI64 (d / F16)
  · have : ¬ (inI64 (d / F16) = true) := by rw [hb]; simp
    rw [inI64_iff] at this
    unfold F16 at this
    simp only [Bool.false_eq_true, if_false, true_iff]
    omega
  · rw [inI64_iff] at hb
    unfold F16 at hb
    simp only [if_true, reduceCtorEq, false_iff]
    omega

/-- **No silent wrap**: outside the representable range the conversion saturates
(largest / smallest `TimeInterval`), it never produces an unrelated value. -/
theorem dur_to_interval_saturates (d : Int) :
    (604462909807314587353088 ≤ d → durToTiv d = 9223372036854775807) ∧
    (d < -604462909807314587353088 → durToTiv d = -9223372036854775808) := by
  unfold durToTiv
  rw [clampI64_def]
  unfold F16
  constructor <;> intro h <;> split <;> (try split) <;> omega

/-- the conversion is monotone (a consequence a wrapping cast does not have) -/
theorem dur_to_interval_mono (a b : Int) (h : a ≤ b) : durToTiv a ≤ durToTiv b := by
  unfold durToTiv
  rw [clampI64_def, clampI64_def]
  unfold F16
  have : a / 65536 ≤ b / 65536 := by omega
  split <;> split <;> (try split) <;> (try split) <;> omega

/-- **log intervals are exactly 2^n s** for −41 ≤ n ≤ 65: 2^n·10^9·2^32 = 5^9·2^(n+41). -/
theorem log_interval_exact :
    ∀ k : Fin 107, durFromLogInterval ((k.val : Int) - 41) = some ((5 ^ 9 * 2 ^ k.val : Nat) : Int) := by
  decide +kernel

/-- below the resolution the result is the nearest representable value (|err| ≤ ½ ulp):
with v the result for n = −42 − k, |v·2^(k+10) − 10^9| ≤ 2^(k+9). -/
theorem log_interval_nearest :
    ∀ k : Fin 87, (match durFromLogInterval (-(k.val : Int) - 42) with
      | some v => decide (0 ≤ v ∧ 2 * (v * 2 ^ (k.val + 10)) ≤ 2 * (NS : Int) + 2 ^ (k.val + 10) ∧
          2 * (NS : Int) ≤ 2 * (v * 2 ^ (k.val + 10)) + 2 ^ (k.val + 10))
      | none => false) = true := by
  decide +kernel

/-- above 2^65 s the value does not fit `I96F32`; the model (and the debug build) refuse -/
theorem log_interval_overflow : ∀ k : Fin 62, durFromLogInterval ((k.val : Int) + 66) = none := by
  decide +kernel

/-! ### Non-vacuity: concrete values meeting the hypotheses -/

example : (1700000000 * SEC + 123456789 * F32 + 0xabcd1234 : Nat) < TMAX := by decide +kernel
example : timeToWire (1700000000 * SEC + 123456789 * F32 + 0xabcd1234) =
    some ⟨1700000000, 123456789⟩ := by decide +kernel
example : timeSubnano (1700000000 * SEC + 123456789 * F32 + 0xabcd1234) = 0xabcd := by decide +kernel
example : timeAddDur (5 * SEC) (-(3 * SEC : Nat) - 7) = some (2 * SEC - 7) := by decide +kernel
example : durToTiv (-1) = -1 ∧ tivToDur (-1) = -65536 := by decide +kernel

/-- **Time never goes negative**: subtracting more than there is stops at zero (since the `fix:` commit; before it
the unsigned subtraction overflowed) -/
theorem add_saturates_at_zero (t : Nat) (d : Int) (h : (t : Int) + d < 0) : timeAddDur t d = some 0 :=
  timeAddDur_neg t d h

end Statime.C16
