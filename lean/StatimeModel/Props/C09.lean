import StatimeModel.Lemmas.Slave
/-
C09 — Offset and delay measurements use one matching exchange, exactly.

The statements are provenance invariants over the history of messages a slave port has been
handed: every stored timestamp comes from a message of the selected parent with the stored
sequence id, and every measurement handed to the filter is the IEEE formula (`Spec/Formulas.lean`,
exact fixed-point arithmetic, 2^-32 ns) of one Sync/Follow_Up pair or one Delay_Req/Delay_Resp
pair with equal sequence ids — whatever the order, duplication or loss of messages.

Tie: the recording filter of the harness receives the real measurements; they are compared
bit-exactly with the model's on generated interleavings (streams `inst`, `slave`).
-/
namespace Statime.C09
open Statime

/-- what a slave port is handed, as far as the Sync / Delay machinery is concerned -/
inductive SEv
  | sync (h : Header) (origin : WireTs) (ts : Nat)        -- event message with receive timestamp
  | followUp (h : Header) (origin : WireTs)
  | delayTs (id : Nat) (ts : Nat)                          -- transmit timestamp of our Delay_Req `id`
  | delayResp (h : Header) (rx : WireTs) (req : PortId)

/-- `x` is the corrected send time t1' of exchange `id` of master `remote` according to history `H` -/
def SendFrom (remote : PortId) (id : Nat) (H : List SEv) (x : Nat) : Prop :=
  (∃ h o, SEv.followUp h o ∈ H ∧ h.src = remote ∧ h.seq = id ∧ Spec.followUpSend h.correction o = some x) ∨
  (∃ h o ts, SEv.sync h o ts ∈ H ∧ h.src = remote ∧ h.seq = id ∧ h.flags.twoStep = false ∧ Spec.oneStepSend o = some x)

/-- `y` is the corrected receive time t2' of the Sync with sequence id `id` from `remote` -/
def RecvFrom (remote : PortId) (id : Nat) (H : List SEv) (y : Nat) : Prop :=
  ∃ h o ts, SEv.sync h o ts ∈ H ∧ h.src = remote ∧ h.seq = id ∧ Spec.syncRecv h.correction ts = some y

/-- the stored Sync state only holds timestamps of messages of the parent with the stored id -/
def SyncProv (remote : PortId) (H : List SEv) : SyncSt → Prop
  | .empty => True
  | .measuring id send recv =>
    (∀ x, send = some x → SendFrom remote id H x) ∧ (∀ y, recv = some y → RecvFrom remote id H y)

/-- measurement `m` is the Sync formula of ONE exchange of `remote` in `H` -/
def ExactSync (remote : PortId) (asym : Int) (meanDelay : Option Int) (H : List SEv) (m : Measurement) : Prop :=
  ∃ id x y raw, SendFrom remote id H x ∧ RecvFrom remote id H y ∧ Spec.rawSync x y asym = some raw ∧
    m.rawSync = some raw ∧ m.eventTime = y ∧ m.rawDelay = none ∧ m.delay = none ∧ m.peerDelay = none ∧
    (∀ md, meanDelay = some md → durSub raw md = m.offset) ∧ (meanDelay = none → m.offset = none)

theorem syncProv_measuring (remote : PortId) (H : List SEv) (id : Nat) (send recv : Option Nat) :
    SyncProv remote H (.measuring id send recv) ↔
      ((∀ x, send = some x → SendFrom remote id H x) ∧ (∀ y, recv = some y → RecvFrom remote id H y)) := Iff.rfl

theorem sendFrom_mono {remote id H x} (e : SEv) (h : SendFrom remote id H x) : SendFrom remote id (e :: H) x := by
  rcases h with ⟨h1, o, hm, r⟩ | ⟨h1, o, ts, hm, r⟩
  · exact Or.inl ⟨h1, o, List.mem_cons_of_mem _ hm, r⟩
  · exact Or.inr ⟨h1, o, ts, List.mem_cons_of_mem _ hm, r⟩

theorem recvFrom_mono {remote id H y} (e : SEv) (h : RecvFrom remote id H y) : RecvFrom remote id (e :: H) y := by
  obtain ⟨h1, o, ts, hm, r⟩ := h
  exact ⟨h1, o, ts, List.mem_cons_of_mem _ hm, r⟩

theorem syncProv_mono {remote H} (e : SEv) (s : SyncSt) (h : SyncProv remote H s) : SyncProv remote (e :: H) s := by
  cases s with
  | empty => trivial
  | measuring id send recv => exact ⟨fun x hx => sendFrom_mono e (h.1 x hx), fun y hy => recvFrom_mono e (h.2 y hy)⟩

/-- after the Sync state of a slave port has been updated, `handle_time_measurement` either emits
the exact measurement of the now complete pair and empties the state, or does nothing -/
theorem measure_after_sync_update (p p' : Port) (remote : PortId) (sy : SyncSt) (dl : DelaySt) (last : Option Int)
    (outs : List Out) (H : List SEv) (hst : p.st = .slave remote sy dl last) (hp : PeerIdle p) (hd : dl.incomplete)
    (hprov : SyncProv remote H sy) (h : p.timeMeasurement = .ok (p', outs)) :
    ∃ sy' last', p'.st = .slave remote sy' dl last' ∧ SyncProv remote H sy' ∧ p'.peer = p.peer ∧ p'.cfg = p.cfg ∧
      (∀ m, Out.measurement m ∈ outs → ExactSync remote p.cfg.delayAsymmetry p.meanDelay H m) ∧
      (∀ o ∈ outs, ∃ m, o = Out.measurement m) := by
  obtain ⟨p1, m, o1, hex, hm⟩ := timeMeasurement_spec p p' outs h
  cases sy with
  | empty =>
    have := extract_none p remote .empty dl last hst (by simp [SyncSt.incomplete]) hd hp
    rw [this] at hex
    simp only [Except.ok.injEq, Prod.mk.injEq] at hex
    obtain ⟨e1, e2, e3⟩ := hex
    subst e1 e2 e3
    simp only at hm
    obtain ⟨rfl, rfl⟩ := hm
    exact ⟨.empty, last, hst, trivial, rfl, rfl, by simp, by simp⟩
  | measuring id send recv =>
    cases send with
    | none =>
      have := extract_none p remote (.measuring id none recv) dl last hst (by simp [SyncSt.incomplete]) hd hp
      rw [this] at hex
      simp only [Except.ok.injEq, Prod.mk.injEq] at hex
      obtain ⟨e1, e2, e3⟩ := hex
      subst e1 e2 e3
      simp only at hm
      obtain ⟨rfl, rfl⟩ := hm
      exact ⟨_, last, hst, hprov, rfl, rfl, by simp, by simp⟩
    | some x =>
      cases recv with
      | none =>
        have := extract_none p remote (.measuring id (some x) none) dl last hst (by simp [SyncSt.incomplete]) hd hp
        rw [this] at hex
        simp only [Except.ok.injEq, Prod.mk.injEq] at hex
        obtain ⟨e1, e2, e3⟩ := hex
        subst e1 e2 e3
        simp only at hm
        obtain ⟨rfl, rfl⟩ := hm
        exact ⟨_, last, hst, hprov, rfl, rfl, by simp, by simp⟩
      | some y =>
        obtain ⟨raw, hraw, ho, hp1, off, hmm, hoff⟩ := extract_sync p p1 remote id x y dl last m o1 hst hp hex
        subst hmm ho
        simp only at hm
        obtain ⟨rfl, hp'⟩ := hm
        refine ⟨.empty, some raw, ?_, trivial, ?_, ?_, ?_, ?_⟩
        · rw [hp', hp1]; simp only [filterMeanDelay]; split <;> rfl
        · rw [hp', hp1]; simp only [filterMeanDelay]; split <;> rfl
        · rw [hp', hp1]; simp only [filterMeanDelay]; split <;> rfl
        · intro mm hmem
          simp only [List.nil_append, List.mem_singleton, Out.measurement.injEq] at hmem
          subst hmem
          exact ⟨id, x, y, raw, hprov.1 x rfl, hprov.2 y rfl, hraw, rfl, rfl, rfl, rfl, rfl, hoff⟩
        · intro o ho
          simp only [List.nil_append, List.mem_singleton] at ho
          exact ⟨_, ho⟩

theorem peerIdle_withSlave (p : Port) (remote : PortId) (sy : SyncSt) (dl : DelaySt) (last : Option Int)
    (hp : PeerIdle p) : PeerIdle (p.withSlave remote sy dl last) := hp

/-- storing the Sync (sender already checked, receive time already corrected) -/
theorem syncStore_exact (p p' : Port) (remote : PortId) (sy : SyncSt) (dl : DelaySt) (last : Option Int)
    (h : Header) (o : WireTs) (ts corrected : Nat) (outs : List Out) (H : List SEv)
    (hp : PeerIdle p) (hd : dl.incomplete) (hprov : SyncProv remote H sy) (hst : p.st = .slave remote sy dl last)
    (hsrc : h.src = remote) (hc : Spec.syncRecv h.correction ts = some corrected)
    (hr : p.syncStore remote sy dl last h o corrected = .ok (p', outs)) :
    ∃ sy' last', p'.st = .slave remote sy' dl last' ∧ SyncProv remote (.sync h o ts :: H) sy' ∧
      p'.peer = p.peer ∧ p'.cfg = p.cfg ∧
      ∀ m, Out.measurement m ∈ outs → ExactSync remote p.cfg.delayAsymmetry p.meanDelay (.sync h o ts :: H) m := by
  have hmono := syncProv_mono (SEv.sync h o ts) sy hprov
  have hrecv : RecvFrom remote h.seq (.sync h o ts :: H) corrected := ⟨h, o, ts, List.mem_cons_self, hsrc, rfl, hc⟩
  have finish : ∀ (sy1 : SyncSt), SyncProv remote (.sync h o ts :: H) sy1 →
      (p.withSlave remote sy1 dl last).timeMeasurement = .ok (p', outs) →
      ∃ sy' last', p'.st = .slave remote sy' dl last' ∧ SyncProv remote (.sync h o ts :: H) sy' ∧
        p'.peer = p.peer ∧ p'.cfg = p.cfg ∧
        ∀ m, Out.measurement m ∈ outs → ExactSync remote p.cfg.delayAsymmetry p.meanDelay (.sync h o ts :: H) m := by
    intro sy1 hp1 hm
    obtain ⟨sy', last', a, b, c, d, e, _⟩ := measure_after_sync_update (p.withSlave remote sy1 dl last) p' remote sy1 dl last
      outs _ rfl (peerIdle_withSlave p remote sy1 dl last hp) hd hp1 hm
    exact ⟨sy', last', a, b, c, d, e⟩
  have stay : (p', outs) = (p, []) → ∃ sy' last', p'.st = .slave remote sy' dl last' ∧ SyncProv remote (.sync h o ts :: H) sy' ∧
        p'.peer = p.peer ∧ p'.cfg = p.cfg ∧
        ∀ m, Out.measurement m ∈ outs → ExactSync remote p.cfg.delayAsymmetry p.meanDelay (.sync h o ts :: H) m := by
    intro e
    simp only [Prod.mk.injEq] at e
    obtain ⟨rfl, rfl⟩ := e
    exact ⟨sy, last, hst, hmono, rfl, rfl, by simp⟩
  have store : ∀ sy1, SyncProv remote (.sync h o ts :: H) sy1 → (p', outs) = (p.withSlave remote sy1 dl last, []) →
      ∃ sy' last', p'.st = .slave remote sy' dl last' ∧ SyncProv remote (.sync h o ts :: H) sy' ∧
        p'.peer = p.peer ∧ p'.cfg = p.cfg ∧
        ∀ m, Out.measurement m ∈ outs → ExactSync remote p.cfg.delayAsymmetry p.meanDelay (.sync h o ts :: H) m := by
    intro sy1 hp1 e
    simp only [Prod.mk.injEq] at e
    obtain ⟨rfl, rfl⟩ := e
    exact ⟨sy1, last, rfl, hp1, rfl, rfl, by simp⟩
  have newRecv : SyncProv remote (.sync h o ts :: H) (.measuring h.seq none (some corrected)) :=
    (syncProv_measuring _ _ _ _ _).2 ⟨(by intro x hx; cases hx), (by intro y hy; cases hy; exact hrecv)⟩
  unfold Port.syncStore at hr
  by_cases h2 : h.flags.twoStep = true
  · rw [if_pos h2] at hr
    cases sy with
    | empty => exact store _ newRecv (Except.ok.inj hr).symm
    | measuring id send recv =>
      simp only at hr
      by_cases hid : id = h.seq
      · rw [if_pos hid] at hr
        subst hid
        cases recv with
        | some _ => exact stay (Except.ok.inj hr).symm
        | none =>
          exact finish _ ((syncProv_measuring _ _ _ _ _).2 ⟨fun x hx => hmono.1 x hx, (by intro y hy; cases hy; exact hrecv)⟩) hr
      · rw [if_neg hid] at hr
        exact store _ newRecv (Except.ok.inj hr).symm
  · rw [if_neg h2] at hr
    have h2' : h.flags.twoStep = false := by cases hb : h.flags.twoStep <;> simp_all
    have one : ∀ (hr' : (orOv (wireToTime o) fun send =>
          (p.withSlave remote (.measuring h.seq (some send) (some corrected)) dl last).timeMeasurement) = .ok (p', outs)),
        ∃ sy' last', p'.st = .slave remote sy' dl last' ∧ SyncProv remote (.sync h o ts :: H) sy' ∧
          p'.peer = p.peer ∧ p'.cfg = p.cfg ∧
          ∀ m, Out.measurement m ∈ outs → ExactSync remote p.cfg.delayAsymmetry p.meanDelay (.sync h o ts :: H) m := by
      intro hr'
      obtain ⟨send, hw, hm⟩ := orOv_ok _ _ _ hr'
      have hsend : SendFrom remote h.seq (.sync h o ts :: H) send :=
        Or.inr ⟨h, o, ts, List.mem_cons_self, hsrc, rfl, h2', hw⟩
      exact finish _ ((syncProv_measuring _ _ _ _ _).2 ⟨(by intro x hx; cases hx; exact hsend), (by intro y hy; cases hy; exact hrecv)⟩) hm
    cases sy with
    | empty => exact one hr
    | measuring id send recv =>
      simp only at hr
      by_cases hid : id = h.seq
      · rw [if_pos hid] at hr
        exact stay (Except.ok.inj hr).symm
      · rw [if_neg hid] at hr
        exact one hr

/-- **Sync side, one step.** Handling a Sync on a slave port keeps the provenance invariant and any
measurement it hands to the filter is the exact formula of one Sync (+ Follow_Up) exchange of the
parent with equal sequence ids. -/
theorem handleSync_exact (p p' : Port) (remote : PortId) (sy : SyncSt) (dl : DelaySt) (last : Option Int)
    (h : Header) (o : WireTs) (ts : Nat) (outs : List Out) (H : List SEv)
    (hst : p.st = .slave remote sy dl last) (hp : PeerIdle p) (hd : dl.incomplete) (hprov : SyncProv remote H sy)
    (hr : p.handleSync h o ts = .ok (p', outs)) :
    ∃ sy' last', p'.st = .slave remote sy' dl last' ∧ SyncProv remote (.sync h o ts :: H) sy' ∧
      p'.peer = p.peer ∧ p'.cfg = p.cfg ∧
      ∀ m, Out.measurement m ∈ outs → ExactSync remote p.cfg.delayAsymmetry p.meanDelay (.sync h o ts :: H) m := by
  unfold Port.handleSync at hr
  rw [hst] at hr
  simp only at hr
  by_cases hsrc : remote ≠ h.src
  · rw [if_pos hsrc] at hr
    simp only [Except.ok.injEq, Prod.mk.injEq] at hr
    obtain ⟨rfl, rfl⟩ := hr
    exact ⟨sy, last, hst, syncProv_mono _ sy hprov, rfl, rfl, by simp⟩
  · rw [if_neg hsrc] at hr
    have hsrc' : h.src = remote := (Classical.not_not.1 hsrc).symm
    obtain ⟨corrected, hc, hs⟩ := orOv_ok _ _ _ hr
    exact syncStore_exact p p' remote sy dl last h o ts corrected outs H hp hd hprov hst hsrc' hc hs

theorem followUpStore_exact (p p' : Port) (remote : PortId) (sy : SyncSt) (dl : DelaySt) (last : Option Int)
    (h : Header) (o : WireTs) (send : Nat) (outs : List Out) (H : List SEv)
    (hp : PeerIdle p) (hd : dl.incomplete) (hprov : SyncProv remote H sy) (hst : p.st = .slave remote sy dl last)
    (hsrc : h.src = remote) (hc : Spec.followUpSend h.correction o = some send)
    (hr : p.followUpStore remote sy dl last h send = .ok (p', outs)) :
    ∃ sy' last', p'.st = .slave remote sy' dl last' ∧ SyncProv remote (.followUp h o :: H) sy' ∧
      p'.peer = p.peer ∧ p'.cfg = p.cfg ∧
      ∀ m, Out.measurement m ∈ outs → ExactSync remote p.cfg.delayAsymmetry p.meanDelay (.followUp h o :: H) m := by
  have hmono := syncProv_mono (SEv.followUp h o) sy hprov
  have hsend : SendFrom remote h.seq (.followUp h o :: H) send := Or.inl ⟨h, o, List.mem_cons_self, hsrc, rfl, hc⟩
  have finish : ∀ (sy1 : SyncSt), SyncProv remote (.followUp h o :: H) sy1 →
      (p.withSlave remote sy1 dl last).timeMeasurement = .ok (p', outs) →
      ∃ sy' last', p'.st = .slave remote sy' dl last' ∧ SyncProv remote (.followUp h o :: H) sy' ∧
        p'.peer = p.peer ∧ p'.cfg = p.cfg ∧
        ∀ m, Out.measurement m ∈ outs → ExactSync remote p.cfg.delayAsymmetry p.meanDelay (.followUp h o :: H) m := by
    intro sy1 hp1 hm
    obtain ⟨sy', last', a, b, c, d, e, _⟩ := measure_after_sync_update (p.withSlave remote sy1 dl last) p' remote sy1 dl last
      outs _ rfl (peerIdle_withSlave p remote sy1 dl last hp) hd hp1 hm
    exact ⟨sy', last', a, b, c, d, e⟩
  have newSend : SyncProv remote (.followUp h o :: H) (.measuring h.seq (some send) none) :=
    (syncProv_measuring _ _ _ _ _).2 ⟨(by intro x hx; cases hx; exact hsend), (by intro y hy; cases hy)⟩
  unfold Port.followUpStore at hr
  cases sy with
  | empty => exact finish _ newSend hr
  | measuring id s recv =>
    simp only at hr
    by_cases hid : id = h.seq
    · rw [if_pos hid] at hr
      subst hid
      cases s with
      | some _ =>
        simp only [Except.ok.injEq, Prod.mk.injEq] at hr
        obtain ⟨rfl, rfl⟩ := hr
        exact ⟨_, last, hst, hmono, rfl, rfl, by simp⟩
      | none =>
        exact finish _ ((syncProv_measuring _ _ _ _ _).2 ⟨(by intro x hx; cases hx; exact hsend), fun y hy => hmono.2 y hy⟩) hr
    · rw [if_neg hid] at hr
      exact finish _ newSend hr

/-- **Follow_Up side, one step.** -/
theorem handleFollowUp_exact (p p' : Port) (remote : PortId) (sy : SyncSt) (dl : DelaySt) (last : Option Int)
    (h : Header) (o : WireTs) (outs : List Out) (H : List SEv)
    (hst : p.st = .slave remote sy dl last) (hp : PeerIdle p) (hd : dl.incomplete) (hprov : SyncProv remote H sy)
    (hr : p.handleFollowUp h o = .ok (p', outs)) :
    ∃ sy' last', p'.st = .slave remote sy' dl last' ∧ SyncProv remote (.followUp h o :: H) sy' ∧
      p'.peer = p.peer ∧ p'.cfg = p.cfg ∧
      ∀ m, Out.measurement m ∈ outs → ExactSync remote p.cfg.delayAsymmetry p.meanDelay (.followUp h o :: H) m := by
  unfold Port.handleFollowUp at hr
  rw [hst] at hr
  simp only at hr
  by_cases hsrc : remote ≠ h.src
  · rw [if_pos hsrc] at hr
    simp only [Except.ok.injEq, Prod.mk.injEq] at hr
    obtain ⟨rfl, rfl⟩ := hr
    exact ⟨sy, last, hst, syncProv_mono _ sy hprov, rfl, rfl, by simp⟩
  · rw [if_neg hsrc] at hr
    have hsrc' : h.src = remote := (Classical.not_not.1 hsrc).symm
    obtain ⟨t0, hw, hr1⟩ := orOv_ok _ _ _ hr
    obtain ⟨send, hc, hs⟩ := orOv_ok _ _ _ hr1
    exact followUpStore_exact p p' remote sy dl last h o send outs H hp hd hprov hst hsrc'
      (by unfold Spec.followUpSend; rw [hw, Option.bind_some, hc]) hs

/-! ### the Delay_Req / Delay_Resp exchange -/

def DelayProv (self remote : PortId) (H : List SEv) : DelaySt → Prop
  | .empty => True
  | .measuring id send recv =>
    (∀ x, send = some x → SEv.delayTs id x ∈ H) ∧
    (∀ y, recv = some y → ∃ h rx, SEv.delayResp h rx self ∈ H ∧ h.src = remote ∧ h.seq = id ∧
        Spec.delayRecv h.correction rx = some y)

/-- measurement `m` is the delay formula of ONE Delay_Req / Delay_Resp exchange in `H` -/
def ExactDelay (self remote : PortId) (asym : Int) (last : Option Int) (H : List SEv) (m : Measurement) : Prop :=
  ∃ id t3 t4 raw h rx, SEv.delayTs id t3 ∈ H ∧ SEv.delayResp h rx self ∈ H ∧ h.src = remote ∧ h.seq = id ∧
    Spec.delayRecv h.correction rx = some t4 ∧ Spec.rawDelay t3 t4 asym = some raw ∧
    m.rawDelay = some raw ∧ m.eventTime = t3 ∧ m.rawSync = none ∧ m.offset = none ∧ m.peerDelay = none ∧
    (∀ rs, last = some rs → Spec.meanDelay rs raw = m.delay) ∧ (last = none → m.delay = none)

theorem delayProv_measuring (self remote : PortId) (H : List SEv) (id : Nat) (send recv : Option Nat) :
    DelayProv self remote H (.measuring id send recv) ↔
      ((∀ x, send = some x → SEv.delayTs id x ∈ H) ∧
       (∀ y, recv = some y → ∃ h rx, SEv.delayResp h rx self ∈ H ∧ h.src = remote ∧ h.seq = id ∧
          Spec.delayRecv h.correction rx = some y)) := Iff.rfl

theorem delayProv_mono {self remote H} (e : SEv) (s : DelaySt) (h : DelayProv self remote H s) :
    DelayProv self remote (e :: H) s := by
  cases s with
  | empty => trivial
  | measuring id send recv =>
    refine ⟨fun x hx => List.mem_cons_of_mem _ (h.1 x hx), fun y hy => ?_⟩
    obtain ⟨hh, rx, hm, r⟩ := h.2 y hy
    exact ⟨hh, rx, List.mem_cons_of_mem _ hm, r⟩

theorem measure_after_delay_update (p p' : Port) (remote : PortId) (sy : SyncSt) (dl : DelaySt) (last : Option Int)
    (outs : List Out) (H : List SEv) (hst : p.st = .slave remote sy dl last) (hp : PeerIdle p) (hs : sy.incomplete)
    (hprov : DelayProv p.id remote H dl) (h : p.timeMeasurement = .ok (p', outs)) :
    ∃ dl', p'.st = .slave remote sy dl' last ∧ DelayProv p.id remote H dl' ∧ p'.peer = p.peer ∧ p'.cfg = p.cfg ∧ p'.id = p.id ∧
      (∀ m, Out.measurement m ∈ outs → ExactDelay p.id remote p.cfg.delayAsymmetry last H m) := by
  obtain ⟨p1, m, o1, hex, hm⟩ := timeMeasurement_spec p p' outs h
  have none_case : ∀ (hdi : dl.incomplete), ∃ dl', p'.st = .slave remote sy dl' last ∧ DelayProv p.id remote H dl' ∧
      p'.peer = p.peer ∧ p'.cfg = p.cfg ∧ p'.id = p.id ∧
      (∀ m, Out.measurement m ∈ outs → ExactDelay p.id remote p.cfg.delayAsymmetry last H m) := by
    intro hdi
    have := extract_none p remote sy dl last hst hs hdi hp
    rw [this] at hex
    simp only [Except.ok.injEq, Prod.mk.injEq] at hex
    obtain ⟨e1, e2, e3⟩ := hex
    subst e1 e2 e3
    simp only at hm
    obtain ⟨rfl, rfl⟩ := hm
    exact ⟨dl, hst, hprov, rfl, rfl, rfl, by simp⟩
  cases dl with
  | empty => exact none_case (by simp [DelaySt.incomplete])
  | measuring id send recv =>
    cases send with
    | none => exact none_case (by simp [DelaySt.incomplete])
    | some x =>
      cases recv with
      | none => exact none_case (by simp [DelaySt.incomplete])
      | some y =>
        obtain ⟨raw, hraw, ho, hp1, dlv, hmm, hdl⟩ := extract_delay p p1 remote sy id x y last m o1 hst hs hp hex
        subst hmm ho
        simp only at hm
        obtain ⟨rfl, hp'⟩ := hm
        refine ⟨.empty, ?_, trivial, ?_, ?_, ?_, ?_⟩
        · rw [hp', hp1]; simp only [filterMeanDelay]; split <;> rfl
        · rw [hp', hp1]; simp only [filterMeanDelay]; split <;> rfl
        · rw [hp', hp1]; simp only [filterMeanDelay]; split <;> rfl
        · rw [hp', hp1]; simp only [filterMeanDelay]; split <;> rfl
        · intro mm hmem
          simp only [List.nil_append, List.mem_singleton, Out.measurement.injEq] at hmem
          subst hmem
          obtain ⟨hh, rx, hmem2, e1, e2, e3⟩ := hprov.2 y rfl
          exact ⟨id, x, y, raw, hh, rx, hprov.1 x rfl, hmem2, e1, e2, e3, hraw, rfl, rfl, rfl, rfl, rfl, hdl⟩

/-- **Delay side: transmit timestamp of our Delay_Req.** -/
theorem handleDelayTs_exact (p p' : Port) (remote : PortId) (sy : SyncSt) (dl : DelaySt) (last : Option Int)
    (tsId ts : Nat) (outs : List Out) (H : List SEv)
    (hst : p.st = .slave remote sy dl last) (hp : PeerIdle p) (hs : sy.incomplete) (hprov : DelayProv p.id remote H dl)
    (hr : p.handleDelayTs tsId ts = .ok (p', outs)) :
    ∃ dl', p'.st = .slave remote sy dl' last ∧ DelayProv p.id remote (.delayTs tsId ts :: H) dl' ∧
      ∀ m, Out.measurement m ∈ outs → ExactDelay p.id remote p.cfg.delayAsymmetry last (.delayTs tsId ts :: H) m := by
  have hmono := delayProv_mono (SEv.delayTs tsId ts) dl hprov
  have stay : (p', outs) = (p, []) → ∃ dl', p'.st = .slave remote sy dl' last ∧ DelayProv p.id remote (.delayTs tsId ts :: H) dl' ∧
      ∀ m, Out.measurement m ∈ outs → ExactDelay p.id remote p.cfg.delayAsymmetry last (.delayTs tsId ts :: H) m := by
    intro e
    simp only [Prod.mk.injEq] at e
    obtain ⟨rfl, rfl⟩ := e
    exact ⟨_, hst, hmono, by simp⟩
  unfold Port.handleDelayTs at hr
  rw [hst] at hr
  cases dl with
  | empty => exact stay (Except.ok.inj hr).symm
  | measuring id send recv =>
    simp only at hr
    by_cases hid : id = tsId
    · rw [if_pos hid] at hr
      subst hid
      cases send with
      | some _ => exact stay (Except.ok.inj hr).symm
      | none =>
        obtain ⟨dl', a, b, _, _, _, e⟩ := measure_after_delay_update
          (p.withSlave remote sy (.measuring id (some ts) recv) last) p' remote sy _ last outs
          (.delayTs id ts :: H) rfl (peerIdle_withSlave p remote sy _ last hp) hs
          ((delayProv_measuring _ _ _ _ _ _).2 ⟨(by intro x hx; cases hx; exact List.mem_cons_self), fun y hy => hmono.2 y hy⟩) hr
        exact ⟨dl', a, b, e⟩
    · rw [if_neg hid] at hr
      exact stay (Except.ok.inj hr).symm

/-- **Delay side: Delay_Resp.** -/
theorem handleDelayResp_exact (p p' : Port) (remote : PortId) (sy : SyncSt) (dl : DelaySt) (last : Option Int)
    (h : Header) (rx : WireTs) (req : PortId) (outs : List Out) (H : List SEv)
    (hst : p.st = .slave remote sy dl last) (hp : PeerIdle p) (hs : sy.incomplete) (hprov : DelayProv p.id remote H dl)
    (hr : p.handleDelayResp h rx req = .ok (p', outs)) :
    ∃ dl', p'.st = .slave remote sy dl' last ∧ DelayProv p.id remote (.delayResp h rx req :: H) dl' ∧
      ∀ m, Out.measurement m ∈ outs → ExactDelay p.id remote p.cfg.delayAsymmetry last (.delayResp h rx req :: H) m := by
  have hmono := delayProv_mono (SEv.delayResp h rx req) dl hprov
  have stay : (p', outs) = (p, []) → ∃ dl', p'.st = .slave remote sy dl' last ∧
      DelayProv p.id remote (.delayResp h rx req :: H) dl' ∧
      ∀ m, Out.measurement m ∈ outs → ExactDelay p.id remote p.cfg.delayAsymmetry last (.delayResp h rx req :: H) m := by
    intro e
    simp only [Prod.mk.injEq] at e
    obtain ⟨rfl, rfl⟩ := e
    exact ⟨_, hst, hmono, by simp⟩
  unfold Port.handleDelayResp at hr
  rw [hst] at hr
  simp only at hr
  by_cases hsrc : p.id ≠ req ∨ remote ≠ h.src
  · rw [if_pos hsrc] at hr
    exact stay (Except.ok.inj hr).symm
  · rw [if_neg hsrc] at hr
    have hreq : req = p.id := by
      by_cases e : p.id = req
      · exact e.symm
      · exact absurd (Or.inl e) hsrc
    have hsrc' : h.src = remote := by
      by_cases e : remote = h.src
      · exact e.symm
      · exact absurd (Or.inr e) hsrc
    cases dl with
    | empty => exact stay (Except.ok.inj hr).symm
    | measuring id send recv =>
      simp only at hr
      by_cases hid : id = h.seq
      · rw [if_pos hid] at hr
        subst hid
        cases recv with
        | some _ => exact stay (Except.ok.inj hr).symm
        | none =>
          obtain ⟨t0, hw, hr1⟩ := orOv_ok _ _ _ hr
          obtain ⟨r, hc, hm⟩ := orOv_ok _ _ _ hr1
          obtain ⟨dl', a, b, _, _, _, e⟩ := measure_after_delay_update
            (p.withSlave remote sy (.measuring h.seq send (some r)) last) p' remote sy _ last outs
            (.delayResp h rx req :: H) rfl (peerIdle_withSlave p remote sy _ last hp) hs
            ((delayProv_measuring _ _ _ _ _ _).2 ⟨fun x hx => hmono.1 x hx, (by
              intro y hy; cases hy
              exact ⟨h, rx, (by show SEv.delayResp h rx p.id ∈ _; rw [← hreq]; exact List.mem_cons_self), hsrc', rfl,
                (by unfold Spec.delayRecv; rw [hw, Option.bind_some, hc])⟩)⟩) hm
          exact ⟨dl', a, b, e⟩
      · rw [if_neg hid] at hr
        exact stay (Except.ok.inj hr).symm

/-! ### Non-vacuity: one clean two-step exchange produces the formula value -/

def slavePort : Port :=
  { cfg := { acceptable := none, p2p := false, delayLog := 0, announceLog := 0, receiptTimeout := 3, syncLog := 0,
             masterOnly := false, delayAsymmetry := 5, minorVersion := 1 },
    id := ⟨7, 1⟩, st := .slave ⟨9, 1⟩ .empty .empty none, fml := { masters := [], interval := 65536000000000, own := ⟨7, 1⟩ },
    multiportDisable := none, annSeq := 0, syncSeq := 0, delaySeq := 0, pdelaySeq := 0, meanDelay := none, peer := .empty }

/-- Sync received at bit pattern 1000·2^16 with correction 10 (2^-16 ns units), Follow_Up origin 0 s 0 ns with
correction 2, asymmetry 5 (2^-32 ns units): raw offset = (1000 − 10)·2^16 − 2·2^16 − 5 -/
example :
    (match slavePort.handleSync { src := ⟨9, 1⟩, seq := 4, flags := { twoStep := true }, correction := 10 } ⟨0, 0⟩ (1000 * 65536) with
     | .ok (p1, _) =>
       (match p1.handleFollowUp { src := ⟨9, 1⟩, seq := 4, correction := 2 } ⟨0, 0⟩ with
        | .ok (_, [.measurement m]) => decide (m.rawSync = some ((1000 - 10) * 65536 - 2 * 65536 - 5) ∧ m.eventTime = 990 * 65536)
        | _ => false)
     | _ => false) = true := by
  decide +kernel

end Statime.C09
