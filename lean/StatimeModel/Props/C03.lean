import StatimeModel.Lemmas.Frames
import StatimeModel.Lemmas.Bounded
import StatimeModel.Lemmas.InstanceInv
import StatimeModel.Props.C08
import StatimeModel.Props.C16
/-
C03 — No input, timing or call order makes the library panic or overflow.

The model marks every panic site of the modelled code with `Except.error`: `.overflow` (checked arithmetic: a
panic in debug builds, a silent wrap in release builds), `.assertDbg` (debug assertion), `.always` (a panic in
every build). Property theorems only.
-/
namespace Statime.C03
open Statime

/-- a computation that can only fail with an arithmetic overflow (no assertion, no unconditional panic) -/
def OnlyOv {α : Type} (x : R α) : Prop := ∀ e, x = .error e → e = .overflow

theorem OnlyOv.ok {α : Type} (v : α) : OnlyOv (.ok v : R α) := by intro e h; cases h

theorem OnlyOv.orOv {α β : Type} (x : Option α) (f : α → R β) (h : ∀ a, OnlyOv (f a)) : OnlyOv (orOv x f) := by
  intro e he
  cases x with
  | none => simp only [Statime.orOv, Except.error.injEq] at he; exact he.symm
  | some a => exact h a e he

theorem OnlyOv.liftOv {α : Type} (x : Option α) : OnlyOv (liftOv x) := by
  intro e he
  cases x with
  | none => simp only [Statime.liftOv, Except.error.injEq] at he; exact he.symm
  | some a => cases he

theorem OnlyOv.map {α β : Type} (x : R α) (g : α → β) (h : OnlyOv x) : OnlyOv (x.map g) := by
  intro e he
  cases x with
  | error e' => simp only [Except.map, Except.error.injEq] at he; rw [← he]; exact h e' rfl
  | ok a => cases he

theorem OnlyOv.bind {α β : Type} (x : R α) (f : α → R β) (h : OnlyOv x) (hf : ∀ a, OnlyOv (f a)) : OnlyOv (x >>= f) := by
  intro e he
  cases x with
  | error e' =>
    have : (Except.error e' >>= f : R β) = .error e' := rfl
    rw [this] at he
    simp only [Except.error.injEq] at he
    rw [← he]; exact h e' rfl
  | ok a => exact hf a e he

theorem extract_onlyOv (p : Port) : OnlyOv p.extract := by
  unfold Port.extract
  split
  · apply OnlyOv.orOv; intro m; split <;> exact OnlyOv.ok _
  · unfold Port.extractSlave
    split
    · split
      · apply OnlyOv.orOv; intro m; exact OnlyOv.ok _
      · split
        · apply OnlyOv.orOv; intro m; exact OnlyOv.ok _
        · exact OnlyOv.ok _
    · exact OnlyOv.ok _

theorem timeMeasurement_onlyOv (p : Port) : OnlyOv p.timeMeasurement := by
  unfold Port.timeMeasurement
  apply OnlyOv.bind _ _ (extract_onlyOv p)
  intro v
  obtain ⟨p1, m, o⟩ := v
  simp only
  split <;> exact OnlyOv.ok _

theorem handleSync_onlyOv (p : Port) (h : Header) (o : WireTs) (ts : Nat) : OnlyOv (p.handleSync h o ts) := by
  unfold Port.handleSync
  split
  · split
    · exact OnlyOv.ok _
    · apply OnlyOv.orOv; intro c
      unfold Port.syncStore
      split
      · split
        · split
          · split
            · exact OnlyOv.ok _
            · exact timeMeasurement_onlyOv _
          · exact OnlyOv.ok _
        · exact OnlyOv.ok _
      · split
        · split
          · exact OnlyOv.ok _
          · apply OnlyOv.orOv; intro s; exact timeMeasurement_onlyOv _
        · apply OnlyOv.orOv; intro s; exact timeMeasurement_onlyOv _
  · exact OnlyOv.ok _

theorem handleFollowUp_onlyOv (p : Port) (h : Header) (o : WireTs) : OnlyOv (p.handleFollowUp h o) := by
  unfold Port.handleFollowUp
  split
  · split
    · exact OnlyOv.ok _
    · apply OnlyOv.orOv; intro t0
      apply OnlyOv.orOv; intro s
      unfold Port.followUpStore
      split
      · split
        · split
          · exact OnlyOv.ok _
          · exact timeMeasurement_onlyOv _
        · exact timeMeasurement_onlyOv _
      · exact timeMeasurement_onlyOv _
  · exact OnlyOv.ok _

theorem handleDelayResp_onlyOv (p : Port) (h : Header) (rx : WireTs) (req : PortId) : OnlyOv (p.handleDelayResp h rx req) := by
  unfold Port.handleDelayResp
  split
  · split
    · exact OnlyOv.ok _
    · split
      · split
        · split
          · exact OnlyOv.ok _
          · apply OnlyOv.orOv; intro t0
            apply OnlyOv.orOv; intro r
            exact timeMeasurement_onlyOv _
        · exact OnlyOv.ok _
      · exact OnlyOv.ok _
  · exact OnlyOv.ok _

/-! ### every port-level call returns normally -/

theorem timeToWire_total (ts : Nat) (h : ts < BH) : ∃ w, timeToWire ts = some w := by
  unfold BH at h
  unfold timeToWire timeSecs SEC U64
  have : ts / 4294967296000000000 < 18446744073709551616 := by omega
  dsimp only
  rw [if_pos this]
  exact ⟨_, rfl⟩

theorem bnd_of_fields (p p' : Port) (h : Bnd p) (h1 : p'.st = p.st) (h2 : p'.peer = p.peer) (h3 : p'.meanDelay = p.meanDelay)
    (h4 : p'.cfg = p.cfg) : Bnd p' := by
  unfold Bnd; rw [h1, h2, h3, h4]; exact h

/-- a port-level result: returns normally, port still bounded -/
def Good3 (x : R (Port × InstState × List Out)) : Prop := ∃ p' s' o, x = .ok (p', s', o) ∧ Bnd p'

theorem good3_of_map (x : R (Port × List Out)) (s : InstState) (h : Good x) :
    Good3 (x.map (fun (p, o) => (p, s, o))) := by
  obtain ⟨p', o, hx, hb⟩ := h
  rw [hx]; exact ⟨p', s, o, rfl, hb⟩

theorem announceUpdate_total (p : Port) (s : InstState) (m : Msg) (a : Ann) : ∃ s1 l, p.announceUpdate s m a = .ok (s1, l) := by
  unfold Port.announceUpdate
  split
  · split
    · exact ⟨_, _, rfl⟩
    · unfold InstState.applyParent
      simp only
      unfold storePath
      split <;> exact ⟨_, _, rfl⟩
  · exact ⟨_, _, rfl⟩

theorem announceRegister_bnd (p : Port) (m : Msg) (a : Ann) (hb : Bnd p) : Bnd (p.announceRegister m a).1 := by
  unfold Port.announceRegister
  split
  · simp only
    split
    · split
      · exact ⟨hb.1, hb.2.1, hb.2.2.1, hb.2.2.2⟩
      · exact ⟨trivial, hb.2.1, hb.2.2.1, hb.2.2.2⟩
    · exact ⟨hb.1, hb.2.1, hb.2.2.1, hb.2.2.2⟩
  · exact hb

theorem handleAnnounce_good (p : Port) (s : InstState) (m : Msg) (ab : AnnounceBody) (hb : Bnd p) :
    Good3 (p.handleAnnounce s m ab) := by
  unfold Port.handleAnnounce
  obtain ⟨s1, l, hu⟩ := announceUpdate_total p s m ⟨m.header, ab⟩
  rw [hu]
  simp only
  split
  · exact ⟨_, _, _, rfl, hb⟩
  · exact ⟨_, _, _, rfl, announceRegister_bnd p m _ hb⟩

theorem handleGeneralInternal_good (p : Port) (s : InstState) (m : Msg) (hb : Bnd p) (hw : m.WF) :
    Good3 (p.handleGeneralInternal s m) := by
  have hc : inI64 m.header.correction = true := by rw [inI64_iff]; exact hw.1.2.2.2.2.1
  unfold Port.handleGeneralInternal
  split
  · exact handleAnnounce_good p s m _ hb
  · rename_i o hbody
    have ho : o.WF := by have := hw.2.1; rw [hbody] at this; exact this
    exact good3_of_map _ s (handleFollowUp_good p m.header o hb ho hc)
  · rename_i rx req hbody
    have ho : rx.WF := by have := hw.2.1; rw [hbody] at this; exact this.1
    exact good3_of_map _ s (handleDelayResp_good p m.header rx req hb ho hc)
  · rename_i o req hbody
    have ho : o.WF := by have := hw.2.1; rw [hbody] at this; exact this.1
    exact good3_of_map _ s (handlePdelayRespFu_good p m.header o req hb ho hc)
  · exact ⟨_, _, _, rfl, hb⟩

/-- **Frames on the general interface**: whatever the bytes (up to 65535 of them), the call returns normally -/
theorem general_receive_total (p : Port) (s : InstState) (data : List UInt8) (hb : Bnd p) (hl : data.length < 65536) :
    Good3 (p.handleGeneralReceive s data) := by
  unfold Port.handleGeneralReceive
  split
  · exact ⟨_, _, _, rfl, hb⟩
  · rename_i m hpf
    exact handleGeneralInternal_good p s m hb (decode_WF (parseAndFilter_spec s data m hpf).1 hl)

theorem handleDelayReq_good (p : Port) (hd : Header) (ts : Nat) (hb : Bnd p) (hts : ts < BH) : Good (p.handleDelayReq hd ts) := by
  unfold Port.handleDelayReq
  split
  · obtain ⟨w, hw⟩ := timeToWire_total ts hts
    unfold msgDelayResp
    rw [hw]
    exact ⟨_, _, rfl, hb⟩
  · exact good_ok _ _ hb

theorem handlePdelayReq_good (p : Port) (s : InstState) (hd : Header) (ts : Nat) (hb : Bnd p) (hts : ts < BH) :
    Good (p.handlePdelayReq s hd ts) := by
  unfold Port.handlePdelayReq
  obtain ⟨w, hw⟩ := timeToWire_total ts hts
  unfold msgPdelayResp
  rw [hw]
  exact ⟨_, _, rfl, hb⟩

/-- **Frames on the event interface**: whatever the bytes, for every receive timestamp below 2^63 ns, the call returns normally -/
theorem event_receive_total (p : Port) (s : InstState) (data : List UInt8) (ts : Nat) (hb : Bnd p)
    (hl : data.length < 65536) (hts : ts < BH) : Good3 (p.handleEventReceive s data ts) := by
  unfold Port.handleEventReceive
  split
  · exact ⟨_, _, _, rfl, hb⟩
  · rename_i m hpf
    have hw : m.WF := decode_WF (parseAndFilter_spec s data m hpf).1 hl
    have hc : inI64 m.header.correction = true := by rw [inI64_iff]; exact hw.1.2.2.2.2.1
    split
    · rename_i o hbody
      have ho : o.WF := by have := hw.2.1; rw [hbody] at this; exact this
      exact good3_of_map _ s (handleSync_good p m.header o ts hb hts ho hc)
    · exact good3_of_map _ s (handleDelayReq_good p m.header ts hb hts)
    · exact good3_of_map _ s (handlePdelayReq_good p s m.header ts hb hts)
    · rename_i rx req hbody
      have ho : rx.WF := by have := hw.2.1; rw [hbody] at this; exact this.1
      exact good3_of_map _ s (handlePdelayResp_good p m.header rx req ts hb hts ho hc)
    · exact handleGeneralInternal_good p s m hb hw

/-- **Transmit timestamps**: every reported timestamp below 2^63 ns, for any context (current, stale, invented) -/
theorem send_timestamp_total (p : Port) (s : InstState) (ctx : TsCtx) (ts : Nat) (hb : Bnd p) (hts : ts < BH) :
    Good (p.handleSendTimestamp s ctx ts) := by
  unfold Port.handleSendTimestamp
  obtain ⟨w, hw⟩ := timeToWire_total ts hts
  split
  · unfold Port.handleSyncTs
    split
    · unfold msgFollowUp; rw [hw]; exact ⟨_, _, rfl, hb⟩
    · exact good_ok _ _ hb
  · exact handleDelayTs_good p _ ts hb hts
  · exact handlePdelayTs_good p _ ts hb hts
  · unfold Port.handlePdelayRespTs msgPdelayRespFu
    rw [hw]; exact ⟨_, _, rfl, hb⟩

/-- **Timers**: every timer expiration, in every state, with any queue of forwarded TLVs, returns normally -/
theorem timers_total (p : Port) (s : InstState) (q : List FwdTlv) (loose : Bool) (hb : Bnd p) :
    (∃ p' o q', p.sendAnnounce s q loose = .ok (p', o, q') ∧ Bnd p') ∧ Good (p.sendSync s) ∧ Good (p.sendDelayRequest s) ∧
    Bnd (p.handleReceiptTimer s).1 := by
  refine ⟨?_, ?_, ?_, ?_⟩
  · unfold Port.sendAnnounce
    split
    · exact ⟨_, _, _, rfl, hb.1, hb.2.1, hb.2.2.1, hb.2.2.2⟩
    · exact ⟨_, _, _, rfl, hb⟩
  · unfold Port.sendSync
    split
    · exact ⟨_, _, rfl, hb.1, hb.2.1, hb.2.2.1, hb.2.2.2⟩
    · exact good_ok _ _ hb
  · unfold Port.sendDelayRequest
    split
    · exact ⟨_, _, rfl, hb.1, ⟨optLt_none _, optLt_none _, optLt_none _, optLt_none _⟩, hb.2.2.1, hb.2.2.2⟩
    · cases hst : p.st with
      | slave remote sy dl last =>
        have hsb := hb.1
        rw [hst] at hsb
        exact ⟨_, _, rfl, ⟨hsb.1, ⟨optLt_none _, optLt_none _⟩, hsb.2.2⟩, hb.2.1, hb.2.2.1, hb.2.2.2⟩
      | faulty | listening | master | passive => exact good_ok _ _ hb
  · unfold Port.handleReceiptTimer
    split
    · exact hb
    · split
      · split
        · exact bnd_setState p _ hb trivial
        · exact hb
      · split
        · exact bnd_setState p _ hb trivial
        · exact hb

/-- a new port is bounded (no timestamps yet) provided the configured asymmetry is -/
theorem new_port_bnd (cfg : PortCfg) (id : PortId) (p : Port) (ha : absLt cfg.delayAsymmetry BA) (h : Port.new cfg id = .ok p) :
    Bnd p := by
  unfold Port.new at h
  obtain ⟨ai, _, h2⟩ := orOv_ok _ _ _ h
  simp only [Except.ok.injEq] at h2
  rw [← h2]
  exact ⟨trivial, trivial, (by intro m e; cases e), ha⟩

/-! ### BMCA runs -/

theorem stBnd_fresh (st st' : PState) (h : FreshOrSame st st') (hb : StBnd st) : StBnd st' := by
  rcases h with h | h | ⟨r, h⟩
  · rw [h]; exact hb
  · cases st' <;> first | trivial | (simp [PState.isSlave] at h)
  · rw [h]; exact ⟨trivial, trivial, by intro x e; cases e⟩

/-- every port of the instance is bounded -/
def AllBnd (i : Inst) : Prop := ∀ (j : Nat) (p : Port), i.ports[j]? = some p → Bnd p

/-- **A BMCA run keeps every port bounded**: it touches no stored timestamp; a port it makes Slave starts with
nothing measured -/
theorem bmca_keeps_bnd (i i' : Inst) (order : List Nat) (obs : Obs) (hnd : order.Nodup) (hb : AllBnd i)
    (h : i.bmca order = .ok (i', obs)) : AllBnd i' := by
  unfold Inst.bmca at h
  split at h
  · cases h
  · obtain ⟨step, _, hw⟩ := orOv_ok _ _ _ h
    obtain ⟨ebest, lbs, hlen, _, _, l5, _⟩ := C08.bmcaWith_ports i i' order step obs hnd hw
    unfold Inst.bmcaWith at hw
    simp only at hw
    obtain ⟨t1, t2, _⟩ := bmcaTakeBest_spec order i.ports []
    generalize bmcaTakeBest order i.ports [] = tb at hw t1 t2
    obtain ⟨ports1, lbs1⟩ := tb
    simp only at hw t1 t2
    generalize (order.filterMap fun k =>
        match portAt ports1 k with
        | some p => bestForBmca p ((lbs1.lookup k).getD none)
        | none => none) = cands at hw
    cases hap : bmcaApply (findBest cands) lbs1 order ports1 i.st [] [] with
    | error e => rw [hap] at hw; cases hw
    | ok v =>
      obtain ⟨ports2, s2, ev2, pend2⟩ := v
      rw [hap] at hw
      simp only at hw
      cases hag : bmcaAge step order ports2 with
      | error e => rw [hag] at hw; cases hw
      | ok ports3 =>
        rw [hag] at hw
        simp only [Except.ok.injEq, Prod.mk.injEq] at hw
        obtain ⟨hi', _⟩ := hw
        have hfr := bmcaApply_fresh (findBest cands) lbs1 order ports1 i.st [] [] ports2 s2 ev2 pend2 hap
        obtain ⟨_, g2⟩ := bmcaAge_spec step order ports2 ports3 hag
        intro j p' hp'
        have hj : j < i.ports.length := by
          rw [← hlen]
          by_cases hl : j < i'.ports.length
          · exact hl
          · rw [List.getElem?_eq_none (Nat.le_of_not_lt hl)] at hp'; cases hp'
        have hp : i.ports[j]? = some i.ports[j] := List.getElem?_eq_getElem hj
        obtain ⟨p1, hp1, _, _, r3, _⟩ := t2 j _ hp
        obtain ⟨p2, hp2, hf⟩ := hfr j p1 hp1
        obtain ⟨p3, hp3, _, _, q3, _⟩ := g2 j p2 hp2
        obtain ⟨p'', hp'', a1, a2, _, _, _, _, a7⟩ := l5 j _ hp
        rw [hp'] at hp''; cases hp''
        have hp3' : i'.ports[j]? = some p3 := by rw [← hi']; exact hp3
        rw [hp'] at hp3'; cases hp3'
        have hold := hb j _ hp
        refine ⟨?_, ?_, ?_, ?_⟩
        · apply stBnd_fresh i.ports[j].st
          · rw [q3]; rw [r3] at hf; exact hf
          · exact hold.1
        · rw [inert_peer a7]; exact hold.2.1
        · rw [inert_meanDelay a7]; exact hold.2.2.1
        · rw [a2]; exact hold.2.2.2

/-- a BMCA run has exactly these failure points: the host passes the wrong number of ports (a contract violation
that `PtpInstance::bmca` asserts), a configured announce interval that no `Duration` can hold, an `S1` decision for
an Announce with stepsRemoved 65535 or for a master-only port (both excluded: C06 qualifies only stepsRemoved < 255,
C08 never issues S1 to a master-only port) — no other assertion and no unconditional panic -/
theorem bmca_failure_kinds (i : Inst) (order : List Nat) (e : Panic) (h : i.bmca order = .error e) :
    e = .overflow ∨ e = .assertDbg := by
  cases e with
  | overflow => exact Or.inl rfl
  | assertDbg => exact Or.inr rfl
  | always =>
    exfalso
    -- no `.always` site is left in the BMCA run
    unfold Inst.bmca at h
    split at h
    · cases h
    · have hov : ∀ step, ∀ e', i.bmcaWith order step = .error e' → e' ≠ .always := by
        intro step e' hw
        unfold Inst.bmcaWith at hw
        simp only at hw
        generalize bmcaTakeBest order i.ports [] = tb at hw
        generalize (order.filterMap fun k =>
          match portAt tb.1 k with
          | some p => bestForBmca p ((tb.2.lookup k).getD none)
          | none => none) = cands at hw
        have happly : ∀ (ord : List Nat) (ports : List Port) (s : InstState) (ev : Obs) (pend : List (Nat × List Out)) (e2 : Panic),
            bmcaApply (findBest cands) tb.2 ord ports s ev pend = .error e2 → e2 ≠ .always := by
          intro ord
          induction ord with
          | nil => intro ports s ev pend e2 hh; simp [bmcaApply] at hh
          | cons k rest ih =>
            intro ports s ev pend e2 hh
            simp only [bmcaApply] at hh
            cases hk : portAt ports k with
            | none => rw [hk] at hh; exact ih _ _ _ _ _ hh
            | some p0 =>
              rw [hk] at hh
              simp only at hh
              cases hrec : recommend s.dflt (findBest cands) ((tb.2.lookup k).getD none) (decide (p0.st = .listening)) with
              | none => rw [hrec] at hh; exact ih _ _ _ _ _ hh
              | some r =>
                rw [hrec] at hh
                simp only [bind, Except.bind] at hh
                cases hset : p0.setRecommendedState r s with
                | error er =>
                  rw [hset] at hh
                  simp only [Except.error.injEq] at hh
                  rw [← hh]
                  -- setRecommendedState fails only by assertDbg (master-only S1) or overflow (S1 steps)
                  unfold Port.setRecommendedState at hset
                  simp only [bind, Except.bind] at hset
                  cases hps : p0.setRecommendedPortState r s.dflt with
                  | error er2 =>
                    rw [hps] at hset
                    simp only [Except.error.injEq] at hset
                    rw [← hset]
                    unfold Port.setRecommendedPortState at hps
                    split at hps
                    · simp only [Except.error.injEq] at hps; rw [← hps]; intro c; cases c
                    · split at hps <;> cases hps
                  | ok v =>
                    rw [hps] at hset
                    obtain ⟨pp, evv, pendd⟩ := v
                    simp only at hset
                    cases r with
                    | m1 dd | m2 dd | m3 dd | p1 dd | p2 dd => cases hset
                    | s1 a =>
                      simp only at hset
                      cases hap : s.applyParentS1 a with
                      | error e3 =>
                        rw [hap] at hset
                        simp only [Except.error.injEq] at hset
                        rw [← hset]
                        unfold InstState.applyParentS1 at hap
                        split at hap
                        · simp only [Except.error.injEq] at hap; rw [← hap]; intro c; cases c
                        · cases hap
                      | ok s3 => rw [hap] at hset; cases hset
                | ok v =>
                  rw [hset] at hh
                  obtain ⟨p1, s1, e1, pd1⟩ := v
                  simp only at hh
                  exact ih _ _ _ _ _ hh
        have hage : ∀ (ord : List Nat) (ports : List Port) (e2 : Panic), bmcaAge step ord ports = .error e2 → e2 ≠ .always := by
          intro ord
          induction ord with
          | nil => intro ports e2 hh; simp [bmcaAge] at hh
          | cons k rest ih =>
            intro ports e2 hh
            simp only [bmcaAge] at hh
            cases hk : portAt ports k with
            | none => rw [hk] at hh; exact ih _ _ hh
            | some p0 =>
              rw [hk] at hh
              simp only [bind, Except.bind] at hh
              cases hs : p0.stepAnnounceAge step with
              | error er =>
                rw [hs] at hh
                simp only [Except.error.injEq] at hh
                rw [← hh]
                unfold Port.stepAnnounceAge at hs
                cases hm : stepMultiport p0.multiportDisable step p0.cfg.announceLog with
                | error er3 =>
                  rw [hm] at hs
                  simp only [Except.error.injEq] at hs
                  rw [← hs]
                  unfold stepMultiport at hm
                  split at hm
                  · cases hm
                  · have := OnlyOv.orOv _ _ (fun age' => OnlyOv.orOv _ _ (fun ai => OnlyOv.ok _)) er3 hm
                    rw [this]; intro c; cases c
                | ok md => rw [hm] at hs; cases hs
              | ok p1 =>
                rw [hs] at hh
                simp only at hh
                exact ih _ _ hh
        cases hap : bmcaApply (findBest cands) tb.2 order tb.1 i.st [] [] with
        | error e2 =>
          rw [hap] at hw
          simp only [Except.error.injEq] at hw
          rw [← hw]; exact happly _ _ _ _ _ _ hap
        | ok v =>
          rw [hap] at hw
          obtain ⟨ports2, s2, ev2, pend2⟩ := v
          simp only at hw
          cases hag : bmcaAge step order ports2 with
          | error e2 =>
            rw [hag] at hw
            simp only [Except.error.injEq] at hw
            rw [← hw]; exact hage _ _ _ hag
          | ok ports3 => rw [hag] at hw; cases hw
      have := OnlyOv.orOv (durFromLogInterval (if i.logBmca > 62 then 62 else i.logBmca)) (fun step => i.bmcaWith order step)
      -- either the interval overflows (.overflow) or bmcaWith fails
      cases hd : durFromLogInterval (if i.logBmca > 62 then 62 else i.logBmca) with
      | none => rw [hd] at h; simp [orOv] at h
      | some step =>
        rw [hd] at h
        exact hov step .always h rfl

end Statime.C03
