import StatimeModel.Lemmas.WireBasic
import StatimeModel.Lemmas.WireRoundtrip
import StatimeModel.Spec.Clause13
import StatimeModel.Generated.Layout
import StatimeModel.Generated.Consts
/-
C04 — the wire codec is total, lossless on defined fields and self-consistent.

`decode : List UInt8 → Except WireError Msg` is total by construction (a Lean
function); the theorems below are about every byte string.

The tie to /repo:
  * `tie_*`: the offset/width/bit tables and enumeration tables the translator
    extracted from today's Rust source equal the Clause 13 tables of
    `Spec/Clause13.lean` (kernel-checked by `decide`);
  * `*_layout`: the model's `decode` reads every field at the offsets of those
    same tables;
  * the `DEC` correspondence stream compares model and Rust codec on generated
    frames (dump of every field, error class, re-encoded bytes).
-/
namespace Statime.C04
open Statime

/-! ### tie obligations: today's source = the standard's tables -/

/-- an extracted item either was not found (translator degraded; falls back to the
correspondence run) or equals the specification -/
def tie {α} [DecidableEq α] (g : Option α) (s : α) : Bool :=
  match g with
  | none => true
  | some v => decide (v = s)

theorem tie_layouts :
    tie Generated.headerRead Spec.headerRead ∧ tie Generated.headerWrite Spec.headerWrite ∧
    tie Generated.flagsRead Spec.flags ∧ tie Generated.flagsWrite Spec.flags ∧
    tie Generated.announceRead Spec.announce ∧ tie Generated.announceWrite Spec.announce ∧
    tie Generated.syncRead Spec.sync ∧ tie Generated.syncWrite Spec.sync ∧
    tie Generated.followUpRead Spec.followUp ∧ tie Generated.followUpWrite Spec.followUp ∧
    tie Generated.delayReqRead Spec.delayReq ∧ tie Generated.delayReqWrite Spec.delayReq ∧
    tie Generated.delayRespRead Spec.delayResp ∧ tie Generated.delayRespWrite Spec.delayResp ∧
    tie Generated.pdelayReqRead Spec.pdelayReqRead ∧ tie Generated.pdelayReqWrite Spec.pdelayReqWrite ∧
    tie Generated.pdelayRespRead Spec.pdelayResp ∧ tie Generated.pdelayRespWrite Spec.pdelayResp ∧
    tie Generated.pdelayRespFuRead Spec.pdelayRespFu ∧ tie Generated.pdelayRespFuWrite Spec.pdelayRespFu ∧
    tie Generated.managementRead Spec.management ∧ tie Generated.managementWrite Spec.management ∧
    tie Generated.signalingRead Spec.signaling ∧ tie Generated.signalingWrite Spec.signaling ∧
    tie Generated.timestampRead Spec.timestamp ∧ tie Generated.timestampWrite Spec.timestamp ∧
    tie Generated.portIdentityRead Spec.portIdentity ∧ tie Generated.portIdentityWrite Spec.portIdentity ∧
    tie Generated.clockQualityRead Spec.clockQuality ∧ tie Generated.clockQualityWrite Spec.clockQuality ∧
    tie Generated.timeIntervalRead Spec.timeInterval ∧ tie Generated.timeIntervalWrite Spec.timeInterval ∧
    Generated.nonBigEndianUses = 0 ∧ Generated.timestampSecondsLow48 = true := by
  decide

theorem tie_tables :
    tie Generated.messageTypes Spec.messageTypes ∧ tie Generated.controlFields Spec.controlFields ∧
    tie Generated.controlFieldOthers Spec.controlFieldOthers ∧
    tie Generated.accuracyNorm Spec.accuracyNorm ∧ tie Generated.timeSourceNorm Spec.timeSourceNorm ∧
    tie Generated.actionNorm Spec.actionNorm ∧
    tie Generated.tlvPropagateRanges Spec.tlvPropagateRanges ∧ tie Generated.tlvPathTrace Spec.tlvPathTrace ∧
    tie Generated.headerSize 34 ∧ tie Generated.maxDataLen 1024 := by
  decide +kernel

/-- the model's own enumeration functions are the specification tables -/
theorem model_tables :
    (∀ v : Fin 256, normAccuracy v.val = Spec.accuracyNorm.getD v.val 0) ∧
    (∀ v : Fin 256, normAction v.val = Spec.actionNorm.getD v.val 0) ∧
    (∀ v : Fin 16, (MsgType.ofNibble v.val).isSome = (Spec.messageTypes.any (fun e => e.1 == v.val))) ∧
    (∀ ty : MsgType, (MsgType.ofNibble ty.toNibble) = some ty) ∧
    (∀ t : Nat, tlvPropagates t = Spec.tlvPropagateRanges.any (fun r => r.1 ≤ t && t ≤ r.2)) := by
  refine ⟨by decide +kernel, by decide +kernel, by decide +kernel, ?_, ?_⟩
  · intro ty; cases ty <;> rfl
  · intro t
    simp only [tlvPropagates, Spec.tlvPropagateRanges, List.any_cons, List.any_nil, Bool.or_false]
    rw [Bool.eq_iff_iff]
    simp only [Bool.or_eq_true, Bool.and_eq_true, decide_eq_true_eq]
    omega

/-! ### decoding never looks beyond `messageLength` -/

/-- **Prefix independence.** Two buffers that agree on the first `messageLength`
octets (and both contain them) decode identically — error class included. -/
theorem decode_prefix (b b' : List UInt8) (hlen : 34 ≤ declaredLen b)
    (h1 : declaredLen b ≤ b.length) (h2 : declaredLen b ≤ b'.length)
    (heq : b.take (declaredLen b) = b'.take (declaredLen b)) : decode b = decode b' := by
  have hb : ∀ i, i < declaredLen b → byteAt b i = byteAt b' i := by
    intro i hi
    rw [← byteAt_take b _ _ hi, ← byteAt_take b' _ _ hi, heq]
  have hv : ∀ i w, i + w ≤ declaredLen b → beVal b i w = beVal b' i w := by
    intro i w hi
    rw [← beVal_take b _ _ _ hi, ← beVal_take b' _ _ _ hi, heq]
  have hd : declaredLen b' = declaredLen b := by
    unfold declaredLen
    exact (hv 2 2 (by omega)).symm
  have hh : readHeader b = readHeader b' := by
    unfold readHeader readFlags readPortId
    rw [hb 0 (by omega), hb 1 (by omega), hb 4 (by omega), hb 5 (by omega), hb 6 (by omega),
      hb 7 (by omega), hb 33 (by omega), hv 8 8 (by omega), hv 20 8 (by omega),
      hv (20 + 8) 2 (by omega), hv 30 2 (by omega)]
  have l1 : decide (b'.length < 34) = decide (b.length < 34) := by
    have : ¬ b.length < 34 := by omega
    have : ¬ b'.length < 34 := by omega
    simp [*]
  have l2 : decide (b'.length < declaredLen b) = decide (b.length < declaredLen b) := by
    have : ¬ b.length < declaredLen b := by omega
    have : ¬ b'.length < declaredLen b := by omega
    simp [*]
  unfold decode
  rw [hd, ← heq, ← hh, ← hb 0 (by omega), l1, l2]

/-- corollary: trailing padding is ignored -/
theorem decode_ignores_padding (b extra : List UInt8) (hlen : 34 ≤ declaredLen b)
    (h1 : declaredLen b ≤ b.length) : decode (b.take (declaredLen b) ++ extra) = decode b := by
  have hl : (b.take (declaredLen b)).length = declaredLen b := by simp [Nat.min_eq_left h1]
  have h4 : 2 + 2 ≤ declaredLen b := Nat.le_trans (by decide) hlen
  have hd : declaredLen (b.take (declaredLen b) ++ extra) = declaredLen b := by
    show beVal (b.take (declaredLen b) ++ extra) 2 2 = beVal b 2 2
    rw [beVal_append_left _ _ _ _ (by rw [hl]; exact h4)]
    exact beVal_take _ _ _ _ h4
  symm
  apply decode_prefix b _ hlen h1
  · simp only [List.length_append, hl]; omega
  · rw [List.take_append_of_le_length (by rw [hl]; exact Nat.le_refl _)]
    rw [List.take_take, Nat.min_self]

/-- and a message shorter than its declared length is always rejected -/
theorem decode_truncated (b : List UInt8) (h : b.length < declaredLen b) :
    ∃ e, decode b = .error e := by
  unfold decode decodeAux
  split
  · exact ⟨_, rfl⟩
  · split
    · exact ⟨_, rfl⟩
    · split
      · exact ⟨_, rfl⟩
      · rw [if_pos (by simpa using h)]; exact ⟨_, rfl⟩

/-! ### re-encoding -/

/-- **Re-encoded length = declared length = `wire_size()`.** -/
theorem reencode_length (b : List UInt8) (m : Msg) (h : decode b = .ok m) :
    (encode m).length = declaredLen b ∧ m.wireSize = declaredLen b := by
  obtain ⟨ty, body, _, _, h34, hle, hbody, _, hm⟩ := decode_inv h
  obtain ⟨hsz, hty⟩ := readBody_inv hbody
  have hc := contentOf_length h34 hle
  rw [encode_length]
  subst hm
  simp only [Msg.wireSize, hty, List.length_drop, hc]
  omega

/-! ### every field is read at the offset, width and byte order of Clause 13

`fieldAt b base t f` is the big-endian value found at the place the
specification table `t` assigns to field `f` of a structure starting at octet
`base` — it is the *independent* reader; the theorems say the model's `decode`
returns exactly those values. (With `tie_layouts` the same tables are what
today's Rust source indexes.) -/

/-- value of field `f` of table `t`, the structure starting at octet `base` -/
def fieldAt (b : List UInt8) (base : Nat) (t : Spec.Table) (f : Spec.F) : Nat :=
  beVal b (base + (Spec.lookup t f).1) (Spec.lookup t f).2

/-- flag `f` of Table 37 -/
def flagAt (b : List UInt8) (f : Spec.F) : Bool :=
  bit (byteAt b (Spec.lookup Spec.flags f).1) (Spec.lookup Spec.flags f).2

/-- a `Timestamp` (5.3.3) located at octet `base` -/
def tsAt (b : List UInt8) (base : Nat) : WireTs :=
  ⟨fieldAt b base Spec.timestamp .seconds, fieldAt b base Spec.timestamp .nanos⟩

/-- a `PortIdentity` (5.3.5) located at octet `base` -/
def pidAt (b : List UInt8) (base : Nat) : PortId :=
  ⟨fieldAt b base Spec.portIdentity .clock_identity, fieldAt b base Spec.portIdentity .port_number⟩

/-- start of field `f` of body table `t` in the message (bodies start at octet 34) -/
def bodyOff (t : Spec.Table) (f : Spec.F) : Nat := 34 + (Spec.lookup t f).1

theorem header_layout (b : List UInt8) (m : Msg) (h : decode b = .ok m) :
    m.header.domain = fieldAt b 0 Spec.headerRead .domain_number ∧
    m.header.seq = fieldAt b 0 Spec.headerRead .sequence_id ∧
    m.header.correction = toSigned 64 (fieldAt b 0 Spec.headerRead .correction_field) ∧
    m.header.logInterval = toSigned 8 (fieldAt b 0 Spec.headerRead .log_message_interval) ∧
    m.header.sdoId = fieldAt b 0 Spec.headerRead .sdo_id / 16 * 256 + fieldAt b 0 Spec.headerRead .sdo_id_1 ∧
    m.header.verMajor = fieldAt b 0 Spec.headerRead .version % 16 ∧
    m.header.verMinor = fieldAt b 0 Spec.headerRead .version / 16 ∧
    m.header.src = pidAt b (Spec.lookup Spec.headerRead .source_port_identity).1 ∧
    m.body.type.toNibble = fieldAt b 0 Spec.headerRead .message_type % 16 ∧
    declaredLen b = fieldAt b 0 Spec.headerRead .message_length := by
  obtain ⟨ty, body, _, hty, _, _, hbody, _, hm⟩ := decode_inv h
  obtain ⟨_, hbt⟩ := readBody_inv hbody
  subst hm
  show (readHeader b).domain = beVal b (0 + 4) 1 ∧
    (readHeader b).seq = beVal b (0 + 30) 2 ∧
    (readHeader b).correction = toSigned 64 (beVal b (0 + 8) 8) ∧
    (readHeader b).logInterval = toSigned 8 (beVal b (0 + 33) 1) ∧
    (readHeader b).sdoId = beVal b (0 + 0) 1 / 16 * 256 + beVal b (0 + 5) 1 ∧
    (readHeader b).verMajor = beVal b (0 + 1) 1 % 16 ∧
    (readHeader b).verMinor = beVal b (0 + 1) 1 / 16 ∧
    (readHeader b).src = ⟨beVal b (20 + 0) 8, beVal b (20 + 8) 2⟩ ∧
    body.type.toNibble = beVal b (0 + 0) 1 % 16 ∧
    declaredLen b = beVal b (0 + 2) 2
  simp only [Nat.zero_add, Nat.add_zero, beVal_one, readHeader, readPortId, declaredLen, hbt, true_and, and_true]
  exact ofNibble_toNibble (Nat.mod_lt _ (by decide)) hty

/-- the twelve flags of Table 37 as read by the independent reader -/
def specFlags (b : List UInt8) : Flags :=
  { alternateMaster := flagAt b .alternate_master_flag, twoStep := flagAt b .two_step_flag,
    unicast := flagAt b .unicast_flag, profile1 := flagAt b .ptp_profile_specific_1,
    profile2 := flagAt b .ptp_profile_specific_2, leap61 := flagAt b .leap61, leap59 := flagAt b .leap59,
    utcValid := flagAt b .current_utc_offset_valid, ptpTimescale := flagAt b .ptp_timescale,
    timeTraceable := flagAt b .time_tracable, freqTraceable := flagAt b .frequency_tracable,
    syncUncertain := flagAt b .synchronization_uncertain }

theorem flags_layout (b : List UInt8) (m : Msg) (h : decode b = .ok m) :
    m.header.flags = specFlags b := by
  obtain ⟨ty, body, _, _, _, _, _, _, hm⟩ := decode_inv h
  subst hm
  rfl

/-- bodies: every field of every message type sits where its Clause 13 table says -/
theorem body_layout (b : List UInt8) (m : Msg) (h : decode b = .ok m) :
    match m.body with
    | .sync o => o = tsAt b (bodyOff Spec.sync .origin_timestamp)
    | .delayReq o => o = tsAt b (bodyOff Spec.delayReq .origin_timestamp)
    | .pdelayReq o => o = tsAt b (bodyOff Spec.pdelayReqRead .origin_timestamp)
    | .followUp o => o = tsAt b (bodyOff Spec.followUp .precise_origin_timestamp)
    | .pdelayResp rx req => rx = tsAt b (bodyOff Spec.pdelayResp .request_receive_timestamp) ∧
        req = pidAt b (bodyOff Spec.pdelayResp .requesting_port_identity)
    | .delayResp rx req => rx = tsAt b (bodyOff Spec.delayResp .receive_timestamp) ∧
        req = pidAt b (bodyOff Spec.delayResp .requesting_port_identity)
    | .pdelayRespFu o req => o = tsAt b (bodyOff Spec.pdelayRespFu .response_origin_timestamp) ∧
        req = pidAt b (bodyOff Spec.pdelayRespFu .requesting_port_identity)
    | .signaling t => t = pidAt b (bodyOff Spec.signaling .target_port_identity)
    | .management t s hp a => t = pidAt b (bodyOff Spec.management .target_port_identity) ∧
        s = fieldAt b 34 Spec.management .starting_boundary_hops ∧
        hp = fieldAt b 34 Spec.management .boundary_hops ∧
        a = normAction (fieldAt b 34 Spec.management .action % 16)
    | .announce a => a.origin = tsAt b (bodyOff Spec.announce .origin_timestamp) ∧
        a.utcOffset = toSigned 16 (fieldAt b 34 Spec.announce .current_utc_offset) ∧
        a.p1 = fieldAt b 34 Spec.announce .grandmaster_priority_1 ∧
        a.clockClass = fieldAt b (bodyOff Spec.announce .grandmaster_clock_quality) Spec.clockQuality .clock_class ∧
        a.accuracy = normAccuracy (fieldAt b (bodyOff Spec.announce .grandmaster_clock_quality) Spec.clockQuality .clock_accuracy) ∧
        a.variance = fieldAt b (bodyOff Spec.announce .grandmaster_clock_quality) Spec.clockQuality .offset_scaled_log_variance ∧
        a.p2 = fieldAt b 34 Spec.announce .grandmaster_priority_2 ∧
        a.gm = fieldAt b 34 Spec.announce .grandmaster_identity ∧
        a.steps = fieldAt b 34 Spec.announce .steps_removed ∧
        a.timeSource = fieldAt b 34 Spec.announce .time_source := by
  obtain ⟨ty, body, _, _, h34, hle, hbody, _, hm⟩ := decode_inv h
  subst hm
  unfold readBody at hbody
  split at hbody
  · cases hbody
  · rename_i hsz
    have hc := contentOf_length h34 hle
    injection hbody with hbody
    subst hbody
    have V : ∀ k w, k + w ≤ ty.bodySize → beVal (contentOf b) k w = beVal b (34 + k) w := by
      intro k w hk; exact content_beVal hle (by omega)
    have B : ∀ k, k < ty.bodySize → byteAt (contentOf b) k = byteAt b (34 + k) := by
      intro k hk; exact content_byteAt hle (by omega)
    cases ty <;> simp only [MsgType.bodySize] at V B
    case sync =>
      show readTs _ 0 = ⟨beVal b (34 + 0 + 0) 6, beVal b (34 + 0 + 6) 4⟩ 
      simp only [readTs, Nat.add_zero, Nat.zero_add]; rw [V 0 6 (by decide), V 6 4 (by decide)]
    case delayReq =>
      show readTs _ 0 = ⟨beVal b (34 + 0 + 0) 6, beVal b (34 + 0 + 6) 4⟩ 
      simp only [readTs, Nat.add_zero, Nat.zero_add]; rw [V 0 6 (by decide), V 6 4 (by decide)]
    case pdelayReq =>
      show readTs _ 0 = ⟨beVal b (34 + 0 + 0) 6, beVal b (34 + 0 + 6) 4⟩ 
      simp only [readTs, Nat.add_zero, Nat.zero_add]; rw [V 0 6 (by decide), V 6 4 (by decide)]
    case followUp =>
      show readTs _ 0 = ⟨beVal b (34 + 0 + 0) 6, beVal b (34 + 0 + 6) 4⟩ 
      simp only [readTs, Nat.add_zero, Nat.zero_add]; rw [V 0 6 (by decide), V 6 4 (by decide)]
    case pdelayResp =>
      show readTs _ 0 = ⟨beVal b (34 + 0 + 0) 6, beVal b (34 + 0 + 6) 4⟩ ∧
        readPortId _ 10 = ⟨beVal b (34 + 10 + 0) 8, beVal b (34 + 10 + 8) 2⟩ 
      simp only [readTs, readPortId, Nat.add_zero, Nat.zero_add]
      rw [V 0 6 (by decide), V 6 4 (by decide), V 10 8 (by decide), V (10 + 8) 2 (by decide)]
      exact ⟨rfl, rfl⟩
    case delayResp =>
      show readTs _ 0 = ⟨beVal b (34 + 0 + 0) 6, beVal b (34 + 0 + 6) 4⟩ ∧
        readPortId _ 10 = ⟨beVal b (34 + 10 + 0) 8, beVal b (34 + 10 + 8) 2⟩ 
      simp only [readTs, readPortId, Nat.add_zero, Nat.zero_add]
      rw [V 0 6 (by decide), V 6 4 (by decide), V 10 8 (by decide), V (10 + 8) 2 (by decide)]
      exact ⟨rfl, rfl⟩
    case pdelayRespFu =>
      show readTs _ 0 = ⟨beVal b (34 + 0 + 0) 6, beVal b (34 + 0 + 6) 4⟩ ∧
        readPortId _ 10 = ⟨beVal b (34 + 10 + 0) 8, beVal b (34 + 10 + 8) 2⟩ 
      simp only [readTs, readPortId, Nat.add_zero, Nat.zero_add]
      rw [V 0 6 (by decide), V 6 4 (by decide), V 10 8 (by decide), V (10 + 8) 2 (by decide)]
      exact ⟨rfl, rfl⟩
    case signaling =>
      show readPortId _ 0 = ⟨beVal b (34 + 0 + 0) 8, beVal b (34 + 0 + 8) 2⟩ 
      simp only [readPortId, Nat.add_zero, Nat.zero_add]
      rw [V 0 8 (by decide), V 8 2 (by decide)]
    case management =>
      show readPortId _ 0 = ⟨beVal b (34 + 0 + 0) 8, beVal b (34 + 0 + 8) 2⟩ ∧
        byteAt _ 10 = beVal b (34 + 10) 1 ∧ byteAt _ 11 = beVal b (34 + 11) 1 ∧
        normAction (byteAt _ 12 % 16) = normAction (beVal b (34 + 12) 1 % 16) 
      simp only [readPortId, Nat.add_zero, Nat.zero_add, beVal_one]
      rw [V 0 8 (by decide), V 8 2 (by decide), B 10 (by decide), B 11 (by decide), B 12 (by decide)]
      exact ⟨rfl, rfl, rfl, rfl⟩
    case announce =>
      show readTs _ 0 = ⟨beVal b (34 + 0 + 0) 6, beVal b (34 + 0 + 6) 4⟩ ∧
        toSigned 16 (beVal _ 10 2) = toSigned 16 (beVal b (34 + 10) 2) ∧
        byteAt _ 13 = beVal b (34 + 13) 1 ∧ byteAt _ 14 = beVal b (34 + 14 + 0) 1 ∧
        normAccuracy (byteAt _ 15) = normAccuracy (beVal b (34 + 14 + 1) 1) ∧
        beVal _ 16 2 = beVal b (34 + 14 + 2) 2 ∧ byteAt _ 18 = beVal b (34 + 18) 1 ∧
        beVal _ 19 8 = beVal b (34 + 19) 8 ∧ beVal _ 27 2 = beVal b (34 + 27) 2 ∧
        byteAt _ 29 = beVal b (34 + 29) 1 
      simp only [readTs, Nat.add_zero, Nat.zero_add, beVal_one]
      rw [V 0 6 (by decide), V 6 4 (by decide), V 10 2 (by decide), V 16 2 (by decide), V 19 8 (by decide),
        V 27 2 (by decide), B 13 (by decide), B 14 (by decide), B 15 (by decide), B 18 (by decide),
        B 29 (by decide)]
      exact ⟨rfl, rfl, rfl, rfl, rfl, rfl, rfl, rfl, rfl, rfl⟩

/-! ### re-encoding decodes to an equal message, and agrees with the input on every defined field -/

/-- **Idempotence.** Re-encoding a decoded message yields bytes that decode to an
equal message (every frame a port can receive is shorter than 2^16 octets: the
daemon passes at most 2048). -/
theorem reencode_idem (b : List UInt8) (m : Msg) (hb : b.length < 65536) (h : decode b = .ok m) :
    decode (encode m) = .ok m :=
  decode_encode m (decode_WF h hb)

/-- **Losslessness of `encode`** on everything it can represent. -/
theorem encode_decode_roundtrip (m : Msg) (hw : m.WF) : decode (encode m) = .ok m :=
  decode_encode m hw

/-- **Agreement on defined fields.** Input and re-encoded bytes carry the same value at
the Clause 13 position of every header field and of the flags (`fieldAt`/`flagAt` are the
independent reader); reserved bits are not mentioned by these tables. The only
normalisations are the two enumerations of `model_tables` (reserved clockAccuracy
octets, reserved management actions). -/
theorem reencode_agrees_header (b : List UInt8) (m : Msg) (hb : b.length < 65536) (h : decode b = .ok m) :
    let e := encode m
    fieldAt e 0 Spec.headerRead .domain_number = fieldAt b 0 Spec.headerRead .domain_number ∧
    fieldAt e 0 Spec.headerRead .sequence_id = fieldAt b 0 Spec.headerRead .sequence_id ∧
    toSigned 64 (fieldAt e 0 Spec.headerRead .correction_field) = toSigned 64 (fieldAt b 0 Spec.headerRead .correction_field) ∧
    toSigned 8 (fieldAt e 0 Spec.headerRead .log_message_interval) = toSigned 8 (fieldAt b 0 Spec.headerRead .log_message_interval) ∧
    pidAt e (Spec.lookup Spec.headerRead .source_port_identity).1 = pidAt b (Spec.lookup Spec.headerRead .source_port_identity).1 ∧
    fieldAt e 0 Spec.headerRead .message_type % 16 = fieldAt b 0 Spec.headerRead .message_type % 16 ∧
    fieldAt e 0 Spec.headerRead .version = fieldAt b 0 Spec.headerRead .version ∧
    fieldAt e 0 Spec.headerRead .message_length = fieldAt b 0 Spec.headerRead .message_length ∧
    specFlags e = specFlags b := by
  intro e
  have h2 : decode e = .ok m := reencode_idem b m hb h
  have A := header_layout b m h
  have B := header_layout e m h2
  have FA := flags_layout b m h
  have FB := flags_layout e m h2
  obtain ⟨a1, a2, a3, a4, _, a6, a7, a8, a9, a10⟩ := A
  obtain ⟨b1, b2, b3, b4, _, b6, b7, b8, b9, b10⟩ := B
  have hl := (reencode_length b m h).1
  have hl2 := (reencode_length e m h2).1
  refine ⟨by rw [← a1, ← b1], by rw [← a2, ← b2], by rw [← a3, ← b3], by rw [← a4, ← b4],
    by rw [← a8, ← b8], by rw [← a9, ← b9], ?_, ?_, ?_⟩
  · -- version octet: both nibbles are fields
    have va : fieldAt b 0 Spec.headerRead .version < 256 := beVal_lt _ _ 1
    have vb : fieldAt e 0 Spec.headerRead .version < 256 := beVal_lt _ _ 1
    omega
  · rw [← a10, ← b10]; omega
  · rw [← FA, ← FB]

/-- bodies and TLV suffix: the decoded value (which `body_layout` locates at the Clause 13
offsets of *both* byte strings) is the same, so every body field agrees; the TLV
suffix is copied octet for octet. -/
theorem reencode_agrees_body (b : List UInt8) (m : Msg) (hb : b.length < 65536) (h : decode b = .ok m) :
    ∃ m', decode (encode m) = .ok m' ∧ m'.body = m.body ∧ m'.suffix = m.suffix ∧
      (encode m).drop (34 + m.body.type.bodySize) = (b.take (declaredLen b)).drop (34 + m.body.type.bodySize) := by
  refine ⟨m, reencode_idem b m hb h, rfl, rfl, ?_⟩
  obtain ⟨ty, body, _, _, h34, hle, hbody, _, hm⟩ := decode_inv h
  obtain ⟨_, hbt⟩ := readBody_inv hbody
  subst hm
  simp only [hbt]
  have hH : ∀ (hd : Header) (n : Nat) (X : List UInt8), (writeHeader hd ty n ++ X).drop 34 = X := by
    intro hd n X
    rw [← writeHeader_length hd ty n]; exact List.drop_left
  have hB : ∀ X : List UInt8, (writeBody body ++ X).drop ty.bodySize = X := by
    intro X; rw [← hbt]; exact drop_writeBody body X
  unfold encode
  rw [List.append_assoc, ← List.drop_drop]
  dsimp only
  rw [hbt, hH, hB]
  unfold contentOf
  rw [List.drop_drop]

/-! ### Non-vacuity -/

/-- a concrete two-step Sync with a PATH_TRACE TLV and two octets of padding decodes, and
re-encodes to the declared-length prefix of the input -/
def sampleFrame : List UInt8 :=
  [0x10, 0x12, 0x00, 0x38, 0x07, 0x23, 0x02, 0x08, 0, 0, 0, 0, 0, 1, 0x80, 0,
   0, 0, 0, 0, 1, 2, 3, 4, 5, 6, 7, 8, 0, 9, 0x12, 0x34, 0, 0xfd,
   0, 0, 0, 0, 0, 5, 0, 0, 0, 7, 0x00, 0x08, 0x00, 0x08, 9, 9, 9, 9, 9, 9, 9, 9, 0xaa, 0xbb]

example :
    (match decode sampleFrame with
      | .ok m => decide (m.header.seq = 0x1234 ∧ m.header.sdoId = 0x123 ∧ m.header.flags.twoStep = true ∧
          m.header.logInterval = -3 ∧ encode m = sampleFrame.take 56 ∧ (tlvs m.suffix).length = 1)
      | .error _ => false) = true := by
  decide +kernel

end Statime.C04
