import StatimeModel.Lemmas.Frames
import StatimeModel.Lemmas.Tlv
import StatimeModel.Lemmas.WireRoundtrip
import StatimeModel.Lemmas.ForwarderH
import StatimeModel.Lemmas.ForwarderPort
import StatimeModel.Generated.ForwarderGlue
/-
C15 — Boundary clocks propagate TLVs faithfully and break path-trace loops.

Property theorems only.
-/
namespace Statime.C15
open Statime

/-- **Which TLVs are handed to the host for forwarding**: exactly the TLVs of propagating type of an Announce that
was accepted into the foreign master list, in arrival order, tagged with the sender — and nothing at all for an
Announce that was not accepted. -/
theorem forward_actions (p : Port) (m : Msg) (a : Ann) :
    (p.announceRegister m a).2.filterMap (fun o => match o with | .forward t s => some (t, s) | _ => none) =
      if (bmcaRegister p.fml p.cfg.acceptable a).2 then
        ((tlvs m.suffix).filter (fun t => tlvPropagates t.ty)).map (fun t => (t, m.header.src))
      else [] := by
  have hmap : ∀ (l : List Tlv), (l.map (fun t => Out.forward t m.header.src)).filterMap
      (fun o => match o with | .forward t s => some (t, s) | _ => none) = l.map (fun t => (t, m.header.src)) := by
    intro l
    induction l with
    | nil => rfl
    | cons x xs ih => simp only [List.map_cons, List.filterMap_cons]; rw [ih]
  have hset : ∀ (q : Port) (st : PState), (q.setState st).2.filterMap
      (fun o => match o with | .forward t s => some (t, s) | _ => none) = [] := by
    intro q st
    simp only [Port.setState]
    split <;> rfl
  unfold Port.announceRegister
  split
  · simp only
    split
    · split
      · rw [List.filterMap_append, hmap]; rfl
      · rw [List.filterMap_append, List.filterMap_append, hmap, hset]; rfl
    · rw [List.filterMap_append, hmap]; rfl
  · rfl

/-! ### what the announce timer puts into the Announce -/

/-- the path trace TLV of this instance: the stored path with the own identity appended -/
def ownPathTlv (s : InstState) : Tlv := ⟨TLV_PATH_TRACE, (s.pathTrace ++ [s.dflt.clockIdentity]).flatMap clockIdBytes⟩

/-- the TLVs (not bytes) of the path trace part of an emitted Announce: none or the own path TLV -/
def pathPart (s : InstState) (p : Port) : List Tlv :=
  if s.pathEnable ∧ s.pathTrace.length < PATH_TRACE_CAP ∧ announceMargin s p > (ownPathTlv s).wireSize then [ownPathTlv s] else []

theorem announcePathTlv_eq (s : InstState) (p : Port) :
    (announcePathTlv s (announceMargin s p)).1 = (pathPart s p).flatMap Tlv.bytes ∧
    (announcePathTlv s (announceMargin s p)).2 = announceMargin s p - ((pathPart s p).map Tlv.wireSize).sum := by
  unfold announcePathTlv pathPart ownPathTlv
  by_cases h1 : s.pathEnable = true
  · by_cases h2 : s.pathTrace.length < PATH_TRACE_CAP
    · by_cases h3 : announceMargin s p > (⟨TLV_PATH_TRACE, (s.pathTrace ++ [s.dflt.clockIdentity]).flatMap clockIdBytes⟩ : Tlv).wireSize
      · rw [if_pos h1, if_pos h2, if_pos h3, if_pos ⟨h1, h2, h3⟩]; simp
      · rw [if_pos h1, if_pos h2, if_neg h3, if_neg (fun h => h3 h.2.2)]; simp
    · rw [if_pos h1, if_neg h2, if_neg (fun h => h2 h.2.1)]; simp
  · rw [if_neg h1, if_neg (fun h => h1 h.1)]; simp

/-- **Forwarding, stated for the emitted Announce.** On the announce timer of a Master port the host's queue `q`
splits into a consumed prefix `taken` and the returned rest `q'`; the TLV suffix of the Announce is the own path
trace TLV (when the option is on and it fits) followed by exactly the consumed TLVs that were sent by the current
parent (and are not PATH_TRACE when the option is on), byte for byte and in queue order. Nothing of another sender
is ever forwarded, nothing is forwarded twice (the consumed prefix is gone from the queue), and what is left behind
starts with a TLV that does not fit the room that remains. -/
theorem announce_suffix (p p' : Port) (s : InstState) (q q' : List FwdTlv) (loose : Bool) (outs : List Out)
    (hm : p.st = .master) (h : p.sendAnnounce s q loose = .ok (p', outs, q')) :
    ∃ (m : Msg) (taken : List FwdTlv),
      outs = [.reset .announce (.exact (intervalNs p.cfg.announceLog)), .sendGeneral (encode m) false] ∧
      q = taken ++ q' ∧ m.body.type = .announce ∧ m.header.src = p.id ∧
      m.suffix = ((pathPart s p) ++ (taken.filter (fwdKeep s.parent.parentPort s.pathEnable)).map (fun t => t.tlv)).flatMap Tlv.bytes ∧
      (∀ t ∈ taken.filter (fwdKeep s.parent.parentPort s.pathEnable), t.sender = s.parent.parentPort) ∧
      ((pathPart s p).map Tlv.wireSize).sum + fwdUsed s.parent.parentPort s.pathEnable taken ≤ announceMargin s p ∧
      (∀ t rest, q' = t :: rest →
        fwdFits loose t.tlv.wireSize
          (announceMargin s p - ((pathPart s p).map Tlv.wireSize).sum - fwdUsed s.parent.parentPort s.pathEnable taken) = false) := by
  rcases sendAnnounce_shape p p' s q q' loose outs h with ⟨_, _, hq', ho⟩ | ⟨hn, _⟩
  · obtain ⟨e1, e2⟩ := announcePathTlv_eq s p
    obtain ⟨taken, h1, h2, h3, h4⟩ := fwdLoop_spec s.parent.parentPort s.pathEnable loose (q.length + 1) q
      (announcePathTlv s (announceMargin s p)).2 [] (Nat.lt_succ_self _)
    have hfw : p.announceFwd s q loose = fwdLoop s.parent.parentPort s.pathEnable loose (q.length + 1) q
      (announcePathTlv s (announceMargin s p)).2 [] := rfl
    rw [← hfw] at h1 h2 h4
    rw [e2] at h3 h4
    refine ⟨p.announceMsg s (p.announceFwd s q loose).1, taken, ho, by rw [hq']; exact h1, rfl, rfl, ?_, ?_, ?_, ?_⟩
    · show (announcePathTlv s (announceMargin s p)).1 ++ (p.announceFwd s q loose).1 = _
      rw [e1, h2, List.flatMap_append, List.nil_append]
    · intro t ht
      have := (List.mem_filter.1 ht).2
      unfold fwdKeep at this
      simp only [Bool.and_eq_true, decide_eq_true_eq] at this
      exact this.1
    · have hle : ((pathPart s p).map Tlv.wireSize).sum ≤ announceMargin s p := by
        unfold pathPart
        split
        · rename_i hc; simp only [List.map_cons, List.map_nil, List.sum_cons, List.sum_nil, Nat.add_zero]; omega
        · simp
      omega
    · intro t rest hq
      exact h4 t rest (by rw [← hq, hq'])
  · exact absurd hm hn

theorem announceMargin_eq (s : InstState) (p : Port) : announceMargin s p = MAX_DATA_LEN - 64 := rfl

theorem sum_map_append (a b : List Tlv) : ((a ++ b).map Tlv.wireSize).sum = (a.map Tlv.wireSize).sum + (b.map Tlv.wireSize).sum := by
  rw [List.map_append, List.sum_append]

/-- **Forwarding never makes the frame exceed the maximum size**: every Announce a Master port emits is at most
1024 octets long (and is always emitted: the announce timer has no failure branch). -/
theorem announce_fits (p p' : Port) (s : InstState) (q q' : List FwdTlv) (loose : Bool) (outs : List Out)
    (hm : p.st = .master) (h : p.sendAnnounce s q loose = .ok (p', outs, q')) :
    ∃ m, outs = [.reset .announce (.exact (intervalNs p.cfg.announceLog)), .sendGeneral (encode m) false] ∧
      (encode m).length ≤ MAX_DATA_LEN := by
  obtain ⟨m, taken, ho, _, hty, _, hs, _, hroom, _⟩ := announce_suffix p p' s q q' loose outs hm h
  refine ⟨m, ho, ?_⟩
  rw [encode_length]
  unfold Msg.wireSize
  rw [hty, hs, flatMap_bytes_length, sum_map_append]
  have : (((taken.filter (fwdKeep s.parent.parentPort s.pathEnable)).map (fun t => t.tlv)).map Tlv.wireSize).sum =
      fwdUsed s.parent.parentPort s.pathEnable taken := by
    unfold fwdUsed; rw [List.map_map]; rfl
  rw [this]
  rw [announceMargin_eq] at hroom
  unfold MAX_DATA_LEN at *
  show 34 + 30 + _ ≤ 1024
  omega

/-- the announce timer of a Master port never fails -/
theorem announce_always_sent (p : Port) (s : InstState) (q : List FwdTlv) (loose : Bool) (hm : p.st = .master) :
    ∃ p' outs q', p.sendAnnounce s q loose = .ok (p', outs, q') ∧ (sentFrames outs).length = 1 := by
  unfold Port.sendAnnounce
  rw [if_pos hm]
  exact ⟨_, _, _, rfl, rfl⟩

/-! ### the emitted Announce decodes under the library's own parser -/

/-- ranges the Rust types guarantee for what goes into an Announce -/
def AnnounceRanges (p : Port) (s : InstState) : Prop :=
  s.dflt.sdoId < 4096 ∧ s.dflt.domain < 256 ∧ p.id.WF ∧ p.cfg.minorVersion < 16 ∧ p.annSeq < 65536 ∧
  (∀ v, s.tp.utcOffset = some v → -32768 ≤ v ∧ v < 32768) ∧ s.parent.gmP1 < 256 ∧ s.parent.gmQuality.clockClass < 256 ∧
  (s.parent.gmQuality.accuracy < 256 ∧ normAccuracy s.parent.gmQuality.accuracy = s.parent.gmQuality.accuracy) ∧
  s.parent.gmQuality.variance < 65536 ∧ s.parent.gmP2 < 256 ∧ s.parent.gmIdentity < 18446744073709551616 ∧
  s.stepsRemoved < 65536 ∧ s.tp.timeSource < 256

theorem clockIdBytes_length (c : Nat) : (clockIdBytes c).length = 8 := by unfold clockIdBytes; simp

theorem flatMap_clockId_length (l : List Nat) : (l.flatMap clockIdBytes).length = 8 * l.length := by
  induction l with
  | nil => rfl
  | cons x xs ih => simp only [List.flatMap_cons, List.length_append, clockIdBytes_length, List.length_cons, ih]; omega

theorem ownPathTlv_WF (s : InstState) (h : s.pathTrace.length < PATH_TRACE_CAP) : (ownPathTlv s).WF := by
  unfold ownPathTlv Tlv.WF PATH_TRACE_CAP at *
  simp only [flatMap_clockId_length, List.length_append, List.length_singleton]
  refine ⟨by decide, by omega, by omega⟩

/-- **Forwarding never makes the frame undecodable by the library's own parser**: with queued TLVs the parser
itself produced (`Tlv.WF`), every Announce a Master port emits decodes to the message it was built from. -/
theorem announce_decodes (p p' : Port) (s : InstState) (q q' : List FwdTlv) (loose : Bool) (outs : List Out)
    (hm : p.st = .master) (hr : AnnounceRanges p s) (hq : ∀ t ∈ q, t.tlv.WF)
    (h : p.sendAnnounce s q loose = .ok (p', outs, q')) :
    ∃ m, outs = [.reset .announce (.exact (intervalNs p.cfg.announceLog)), .sendGeneral (encode m) false] ∧
      decode (encode m) = .ok m := by
  obtain ⟨m0, taken, ho0, hsplit, _, _, hs0, _, _, _⟩ := announce_suffix p p' s q q' loose outs hm h
  obtain ⟨mf, hof, hlen⟩ := announce_fits p p' s q q' loose outs hm h
  rcases sendAnnounce_shape p p' s q q' loose outs h with ⟨_, _, _, ho⟩ | ⟨hn, _⟩
  · refine ⟨p.announceMsg s (p.announceFwd s q loose).1, ho, decode_encode _ ?_⟩
    have hm0 : m0.suffix = (p.announceMsg s (p.announceFwd s q loose).1).suffix := by
      -- both are the suffix computed by announce_suffix for this call
      obtain ⟨e1, e2⟩ := announcePathTlv_eq s p
      obtain ⟨taken2, h1, h2, _, _⟩ := fwdLoop_spec s.parent.parentPort s.pathEnable loose (q.length + 1) q
        (announcePathTlv s (announceMargin s p)).2 [] (Nat.lt_succ_self _)
      have hfw : p.announceFwd s q loose = fwdLoop s.parent.parentPort s.pathEnable loose (q.length + 1) q
        (announcePathTlv s (announceMargin s p)).2 [] := rfl
      rw [← hfw] at h1 h2
      have hq2 : q' = (p.announceFwd s q loose).2 := by
        rcases sendAnnounce_shape p p' s q q' loose outs h with ⟨_, _, x, _⟩ | ⟨hn, _⟩
        · exact x
        · exact absurd hm hn
      have ht : taken2 = taken := by
        rw [← hq2] at h1
        exact List.append_cancel_right (h1.symm.trans hsplit)
      show _ = (announcePathTlv s (announceMargin s p)).1 ++ (p.announceFwd s q loose).1
      rw [hs0, e1, h2, ht, List.flatMap_append, List.nil_append]
    have hsfx := hm0 ▸ hs0
    obtain ⟨r1, r2, r3, r4, r5, r6, r7, r8, r9, r10, r11, r12, r13, r14⟩ := hr
    refine ⟨?_, ?_, ?_, ?_⟩
    · exact ⟨r1, (by show (2 : Nat) < 16; decide), r4, r2,
        ⟨(by show (-9223372036854775808 : Int) ≤ 0; decide), (by show (0 : Int) < 9223372036854775808; decide)⟩, r3, r5,
        ⟨(by show (-128 : Int) ≤ 0; decide), (by show (0 : Int) < 128; decide)⟩⟩
    · show AnnounceBody.WF _
      refine ⟨⟨(by show (0 : Nat) < 281474976710656; decide), (by show (0 : Nat) < 4294967296; decide)⟩, ?_, r7, r8, r9, r10, r11, r12, r13, r14⟩
      show -32768 ≤ s.tp.utcOffset.getD 0 ∧ s.tp.utcOffset.getD 0 < 32768
      cases hu : s.tp.utcOffset with
      | none => exact ⟨(by decide), (by decide)⟩
      | some v => exact r6 v hu
    · rw [hsfx]
      apply tlvCheck_flatMap
      · intro t ht
        rcases List.mem_append.1 ht with h1 | h1
        · unfold pathPart at h1
          split at h1
          · rename_i hc
            simp only [List.mem_singleton] at h1
            rw [h1]; exact ownPathTlv_WF s hc.2.1
          · cases h1
        · obtain ⟨ft, hft, rfl⟩ := List.mem_map.1 h1
          have : ft ∈ q := by
            rw [hsplit]; exact List.mem_append_left _ (List.mem_filter.1 hft).1
          exact hq ft this
      · exact Nat.le_refl _
    · have := hlen
      rw [hof] at ho
      simp only [List.cons.injEq, Out.sendGeneral.injEq, and_true, true_and] at ho
      have e : (encode (p.announceMsg s (p.announceFwd s q loose).1)).length ≤ MAX_DATA_LEN := by rw [← ho]; exact hlen
      rw [encode_length] at e
      unfold MAX_DATA_LEN at e
      omega
  · exact absurd hm hn

/-! ### path trace -/

/-- **With the path-trace option on, an emitted Announce carries the stored path with the own identity appended**
(as its first TLV), whenever the path has room for one more entry and the TLV fits the Announce. -/
theorem announce_path_trace (p p' : Port) (s : InstState) (q q' : List FwdTlv) (loose : Bool) (outs : List Out)
    (hm : p.st = .master) (hpe : s.pathEnable = true) (hlen : s.pathTrace.length < PATH_TRACE_CAP)
    (hroom : announceMargin s p > (ownPathTlv s).wireSize)
    (h : p.sendAnnounce s q loose = .ok (p', outs, q')) :
    ∃ (m : Msg) (rest : List UInt8), outs = [.reset .announce (.exact (intervalNs p.cfg.announceLog)), .sendGeneral (encode m) false] ∧
      m.suffix = (ownPathTlv s).bytes ++ rest ∧
      (ownPathTlv s).ty = TLV_PATH_TRACE ∧ (ownPathTlv s).value = (s.pathTrace ++ [s.dflt.clockIdentity]).flatMap clockIdBytes := by
  obtain ⟨m, taken, ho, _, _, _, hs, _⟩ := announce_suffix p p' s q q' loose outs hm h
  have : pathPart s p = [ownPathTlv s] := by unfold pathPart; rw [if_pos ⟨hpe, hlen, hroom⟩]
  rw [this, List.cons_append, List.flatMap_cons] at hs
  exact ⟨m, _, ho, hs, rfl, rfl⟩

/-- the path TLV fits exactly when the stored path has at most 118 entries (4 + 8·(n+1) < 1024 − 64): with longer
stored paths the Announce is sent without it — there is no room, and the frame must not exceed 1024 octets -/
theorem path_tlv_fits_iff (p : Port) (s : InstState) :
    announceMargin s p > (ownPathTlv s).wireSize ↔ s.pathTrace.length ≤ 118 := by
  rw [announceMargin_eq]
  unfold ownPathTlv Tlv.wireSize MAX_DATA_LEN
  simp only [flatMap_clockId_length, List.length_append, List.length_singleton]
  omega

/-- the stored path is the one received from the parent: an Announce of the parent on the Slave port that is not
looping stores the identities of its (first) PATH_TRACE TLV (the first 128 of them: the capacity of the list) -/
theorem path_trace_stored (p : Port) (s s1 : InstState) (m : Msg) (a : Ann) (t : Tlv)
    (hs : p.st.isSlave = true) (hp : a.hdr.src = s.parent.parentPort) (hpt : pathTlvOf s m = some t)
    (h : p.announceUpdate s m a = .ok (s1, false)) : s1.pathTrace = (pathOf t.value).take PATH_TRACE_CAP := by
  rcases announceUpdate_cases p s s1 m a false h with ⟨hn, _⟩ | ⟨_, _, _, _, hl⟩ | ⟨_, _, _, _, s2, _, hst⟩
  · exact absurd ⟨hs, hp⟩ hn
  · cases hl
  · rw [hpt] at hst
    rcases storePath_spec s2 s1 _ hst with ⟨e, _⟩ | ⟨t', e, e2, _⟩
    · cases e
    · cases e; rw [e2]

/-- … and without a PATH_TRACE TLV in the parent's Announce (or with the option off) the stored path is kept -/
theorem path_trace_kept (p : Port) (s s1 : InstState) (m : Msg) (a : Ann) (loop : Bool)
    (hpt : pathTlvOf s m = none) (h : p.announceUpdate s m a = .ok (s1, loop)) : s1.pathTrace = s.pathTrace := by
  rcases announceUpdate_cases p s s1 m a loop h with ⟨_, e, _⟩ | ⟨_, _, _, e, _⟩ | ⟨_, _, _, _, s2, hap, hst⟩
  · rw [e]
  · rw [e]
  · rw [hpt] at hst
    rcases storePath_spec s2 s1 _ hst with ⟨_, e⟩ | ⟨t', e, _, _⟩
    · rw [e]
      unfold InstState.applyParent at hap
      simp only [Except.ok.injEq] at hap; rw [← hap]; rfl
    · cases e

/-- **An Announce from the parent whose path already contains the instance's identity is discarded**: it changes
no data set, no foreign master record, no port state, arms no timer and is not forwarded. -/
theorem loop_discarded (p p' : Port) (s s' : InstState) (m : Msg) (ab : AnnounceBody) (outs : List Out)
    (hs : p.st.isSlave = true) (hp : m.header.src = s.parent.parentPort)
    (hloop : loopsBack s (pathTlvOf s m) = true)
    (h : p.handleAnnounce s m ab = .ok (p', s', outs)) : p' = p ∧ s' = s ∧ outs = [] := by
  unfold Port.handleAnnounce at h
  split at h
  · cases h
  · rename_i s1 loop hu
    rcases announceUpdate_cases p s s1 m ⟨m.header, ab⟩ loop hu with ⟨hn, _⟩ | ⟨_, _, _, e1, e2⟩ | ⟨_, _, hl, _⟩
    · exact absurd ⟨hs, hp⟩ hn
    · rw [e2] at h
      simp only [if_true, Except.ok.injEq, Prod.mk.injEq] at h
      exact ⟨h.1.symm, by rw [← h.2.1, e1], h.2.2.symm⟩
    · rw [hloop] at hl; cases hl

/-- what "the path contains the own identity" means: one of the 8-octet groups of the first PATH_TRACE TLV -/
theorem loopsBack_iff (s : InstState) (m : Msg) :
    loopsBack s (pathTlvOf s m) = true ↔
      s.pathEnable = true ∧ ∃ t, (tlvs m.suffix).find? (fun t => t.ty = TLV_PATH_TRACE) = some t ∧
        s.dflt.clockIdentity ∈ pathOf t.value := by
  unfold loopsBack pathTlvOf
  by_cases he : s.pathEnable = true
  · rw [if_pos he]
    cases hf : (tlvs m.suffix).find? (fun t => t.ty = TLV_PATH_TRACE) with
    | none => simp
    | some t => simp [he]
  · rw [if_neg he]; simp [he]

/-- **Unmodified**: read back with the library's own TLV iterator, the suffix of the emitted Announce is the own path
TLV followed by the very TLVs (type and value) that were queued by the parent, in queue order. -/
theorem announce_suffix_parses (p p' : Port) (s : InstState) (q q' : List FwdTlv) (loose : Bool) (outs : List Out)
    (hm : p.st = .master) (hq : ∀ t ∈ q, t.tlv.WF) (h : p.sendAnnounce s q loose = .ok (p', outs, q')) :
    ∃ (m : Msg) (taken : List FwdTlv),
      outs = [.reset .announce (.exact (intervalNs p.cfg.announceLog)), .sendGeneral (encode m) false] ∧ q = taken ++ q' ∧
      tlvs m.suffix = pathPart s p ++ (taken.filter (fwdKeep s.parent.parentPort s.pathEnable)).map (fun t => t.tlv) := by
  obtain ⟨m, taken, ho, hsplit, _, _, hs, _⟩ := announce_suffix p p' s q q' loose outs hm h
  refine ⟨m, taken, ho, hsplit, ?_⟩
  unfold tlvs
  rw [hs]
  apply tlvIter_flatMap
  · intro t ht
    rcases List.mem_append.1 ht with h1 | h1
    · unfold pathPart at h1
      split at h1
      · rename_i hc
        simp only [List.mem_singleton] at h1
        rw [h1]; exact ownPathTlv_WF s hc.2.1
      · cases h1
    · obtain ⟨ft, hft, rfl⟩ := List.mem_map.1 h1
      exact hq ft (by rw [hsplit]; exact List.mem_append_left _ (List.mem_filter.1 hft).1)
  · exact Nat.le_refl _

/-- the identities of a serialized path read back as they were written -/
theorem pathOf_roundtrip (l : List Nat) (h : ∀ c ∈ l, c < 18446744073709551616) : pathOf (l.flatMap clockIdBytes) = l := by
  unfold pathOf
  have key : ∀ (l : List Nat) (f : Nat), (∀ c ∈ l, c < 18446744073709551616) → (l.flatMap clockIdBytes).length ≤ f →
      chunks8 f (l.flatMap clockIdBytes) = l := by
    intro l
    induction l with
    | nil => intro f _ _; cases f <;> simp [chunks8]
    | cons c cs ih =>
      intro f hc hf
      simp only [List.flatMap_cons, List.length_append, clockIdBytes_length] at hf
      cases f with
      | zero => omega
      | succ f' =>
        unfold chunks8
        simp only [List.flatMap_cons]
        rw [if_pos (by simp only [List.length_append, clockIdBytes_length]; omega)]
        have h1 : beVal (clockIdBytes c ++ cs.flatMap clockIdBytes) 0 8 = c := by
          unfold clockIdBytes
          rw [beVal_beBytes]
          have : (256 : Nat) ^ 8 = 18446744073709551616 := by decide
          rw [this]
          exact Nat.mod_eq_of_lt (hc c List.mem_cons_self)
        have h2 : (clockIdBytes c ++ cs.flatMap clockIdBytes).drop 8 = cs.flatMap clockIdBytes := by
          have : 8 = (clockIdBytes c).length := (clockIdBytes_length c).symm
          rw [this, List.drop_left]
        rw [h1, h2, ih f' (fun x hx => hc x (List.mem_cons_of_mem _ hx)) (by omega)]
  exact key l _ h (Nat.le_refl _)

/-- **Known finding, stated on the model**: the full-strength claim "a parent TLV that has room is appended to the next
Announce" is false — a TLV that would be dropped anyway but does not fit blocks the queue (witness: room 10, a
20-octet TLV of another sender, then a 4-octet TLV of the parent: nothing is forwarded, nothing is consumed). -/
theorem head_of_line_blocking :
    ∃ (parent other : PortId) (q : List FwdTlv) (margin : Nat),
      parent ≠ other ∧ q = [⟨⟨0x4000, List.replicate 16 0⟩, other⟩, ⟨⟨0x4000, []⟩, parent⟩] ∧
      (4 : Nat) < margin ∧ fwdLoop parent false false (q.length + 1) q margin [] = ([], q) :=
  ⟨⟨1, 1⟩, ⟨2, 1⟩, _, 10, by decide, rfl, by decide, by decide⟩


/-! ### the daemon's queue between the ports (`statime-linux/src/tlvforwarder.rs`, `main.rs`)

The port-level theorems above take the host's queue as a list `q` and a flag `loose`. The theorems below are
about what the daemon really hands to `handle_announce_timer`: one `tokio::sync::broadcast` channel, one
`TlvForwarder` per port task (`Model/Forwarder.lean`; capacity, size test, `resubscribe` and the clearing rule of
each port task are translated from the source on every run). -/

open Statime.Fwd in
/-- the translated constants are the model's: capacity 128, `size <= max_size`, `duplicate` re-subscribes at the tail -/
theorem forwarder_constants :
    Generated.forwarderCapacity = some CAP ∧ Generated.forwarderFitsIsLe = some true ∧
    Generated.forwarderDuplicateResubscribes = true := by decide

/-- the size test of the forwarder is the port model's loose provider -/
theorem forwarder_is_loose (size margin : Nat) : fwdFits true size margin = decide (size ≤ margin) := by
  unfold fwdFits
  by_cases h1 : size < margin
  · simp [h1, Nat.le_of_lt h1]
  · by_cases h2 : size = margin
    · simp [h2]
    · have : ¬ size ≤ margin := by omega
      simp [h1, h2, this]

open Statime.Fwd in
/-- **never larger than asked for** -/
theorem forwarder_hands_out_what_fits (log : List Item) (r : Rx) (m : Nat) (v : Item)
    (h : (nextIfSmaller log r m).1 = some v) : v.size ≤ m := next_fits log r m v h

open Statime.Fwd in
/-- **forwarding reaches every port task**: the value is appended to every forwarder's pending list -/
theorem forwarder_forward_appends (log : List Item) (r : Rx) (v : Item) (h : Wf log r) :
    pending (log ++ [v]) r = pending log r ++ [v] := pending_forward log r v h

open Statime.Fwd in
/-- **the forwarder is a FIFO queue with "take the head if it fits"** — exactly the `q` / `loose = true` of the
port-level theorems — for as long as the port task has not fallen 128 values behind -/
theorem forwarder_is_a_queue (log : List Item) (r : Rx) (m : Nat) (h : Wf log r) (hn : NoLag log r) :
    (pending log r = [] → (nextIfSmaller log r m).1 = none ∧ pending log (nextIfSmaller log r m).2 = []) ∧
    (∀ v rest, pending log r = v :: rest →
      (v.size ≤ m → (nextIfSmaller log r m).1 = some v ∧ pending log (nextIfSmaller log r m).2 = rest) ∧
      (¬ v.size ≤ m → (nextIfSmaller log r m).1 = none ∧ pending log (nextIfSmaller log r m).2 = v :: rest)) :=
  next_refines_queue log r m h hn

open Statime.Fwd in
/-- **At most once per port, in arrival order, unmodified — for every history** of `duplicate`, `forward`,
`next_if_smaller`, `empty` and BMCA hand-backs under any clearing rule, lag and overflow included: what forwarder
`i` has handed out is, position by position, a subsequence of what was sent on the channel. -/
theorem forwarder_history (ops : List Op) (i : Nat) (r : Rx)
    (hr : (run {} ops).1.rxs[i]? = some r) :
    (delivered i ops (run {} ops).2).Sublist ((run {} ops).1.log.take r.readPos) := by
  have := (inv_run ops {} i [] allWf_init (inv_init i)).2
  unfold Fwd.Inv at this
  rw [hr] at this
  simpa using this

open Statime.Fwd in
/-- **The two halves joined.** A master port's announce timer runs the forwarding loop of `send_announce` against
its task's `TlvForwarder`. Whatever TLVs the queue's items stand for (`content`, of the sizes the queue sees), the
bytes the port-level model appends when handed the pending list as `q` (`fwdLoop`, the subject of `announce_suffix`,
`announce_fits`, `announce_decodes` above) are exactly the contents of the items the loop takes from the forwarder
and keeps, in order; and what the model leaves in `q` is what the forwarder still holds. (No lag: the port task is
fewer than 128 values behind.) -/
theorem announce_forwards_from_the_daemons_queue (log : List Item) (r : Rx) (content : Item → FwdTlv)
    (hsize : ∀ x, (content x).tlv.wireSize = x.size) (parent : PortId) (pt : Bool) (margin : Nat)
    (hw : Wf log r) (hn : NoLag log r) :
    let q := (pending log r).map content
    let run := drain log (fun x => keepFwd parent pt (content x)) (q.length + 1) r margin []
    fwdLoop parent pt true (q.length + 1) q margin [] =
      ((run.1.map content).flatMap (·.tlv.bytes), (pending log run.2.1).map content) := by
  intro q run
  have h1 := fwdLoop_eq_drainList parent pt (q.length + 1) q margin [] (Nat.lt_succ_self _)
  simp only [List.flatMap_nil] at h1
  rw [h1]
  have h2 := drainList_map content Item.size (fun x => keepFwd parent pt (content x))
    (·.tlv.wireSize) (keepFwd parent pt) hsize (fun _ => rfl) (pending log r) margin []
  simp only [List.map_nil] at h2
  have hlen : (pending log r).length < q.length + 1 := by simp [q]
  have h3 := drain_eq_drainList log (fun x => keepFwd parent pt (content x)) (q.length + 1) r margin [] hw hn hlen
  show ((drainList (·.tlv.wireSize) (keepFwd parent pt) ((pending log r).map content) margin []).1.flatMap (·.tlv.bytes),
        (drainList (·.tlv.wireSize) (keepFwd parent pt) ((pending log r).map content) margin []).2.1) = _
  rw [h2]
  simp only
  rw [← h3.1, ← h3.2.1]


/-- the keep test of the joined statement is the one of `announce_suffix` -/
theorem keepFwd_is_fwdKeep (parent : PortId) (pt : Bool) (t : FwdTlv) : keepFwd parent pt t = fwdKeep parent pt t := by
  unfold keepFwd fwdKeep
  by_cases h : parent = t.sender
  · simp [h]
  · have : ¬ t.sender = parent := fun e => h e.symm
    simp [h, this]

open Statime.Fwd in
/-- a clearing rule that leaves a master port's forwarder alone when the BMCA hands the port back -/
theorem quiet_rule_keeps_master_queue (pol : ClearPolicy) (h : pol.clears true = false) (log : List Item) (r : Rx) :
    afterBmca pol true log r = r := by
  unfold afterBmca
  rw [h]; rfl

open Statime.Fwd in
/-- **No TLV queued for a master port is thrown away by a BMCA run**: the clearing rules of both port tasks, as
they read in today's `main.rs`, leave the forwarder of a port in the Master state untouched. (A rule that empties
the forwarder of master ports drops every TLV that arrived since the port's last Announce — the property's "appended
to that port's next Announce that has room for it" fails for them.) -/
theorem port_tasks_keep_master_queue :
    (∃ p, Generated.udpPortTaskClear = some p ∧ p.clears true = false) ∧
    (∃ p, Generated.ethernetPortTaskClear = some p ∧ p.clears true = false) := by
  decide

open Statime.Fwd in
/-- the premises are met: a forwarder that has peeked a value that did not fit, then a larger request -/
example :
    let s := (run {} [.dup 0, .forward ⟨20, 1⟩, .forward ⟨8, 2⟩, .next 1 10, .next 1 30, .next 1 30, .next 1 30]).2
    s = [none, none, none, none, some ⟨20, 1⟩, some ⟨8, 2⟩, none] := by decide

end Statime.C15
