import StatimeModel.Lemmas.Frames
/-
C15 — Boundary clocks propagate TLVs faithfully and break path-trace loops.

Property theorems only.
-/
namespace Statime.C15
open Statime

/-- **Which TLVs are handed to the host for forwarding**: exactly the TLVs of propagating type of an Announce that
was accepted into the foreign master list, in arrival order, tagged with the sender — and nothing at all for an
Announce that was not accepted. -/
theorem forward_actions (p : Port) (m : Msg) (a : Ann) :
    (p.announceRegister m a).2.filterMap (fun o => match o with | .forward t s => some (t, s) | _ => none) =
      if (bmcaRegister p.fml p.cfg.acceptable a).2 then
        ((tlvs m.suffix).filter (fun t => tlvPropagates t.ty)).map (fun t => (t, m.header.src))
      else [] := by
  have hmap : ∀ (l : List Tlv), (l.map (fun t => Out.forward t m.header.src)).filterMap
      (fun o => match o with | .forward t s => some (t, s) | _ => none) = l.map (fun t => (t, m.header.src)) := by
    intro l
    induction l with
    | nil => rfl
    | cons x xs ih => simp only [List.map_cons, List.filterMap_cons]; rw [ih]
  have hset : ∀ (q : Port) (st : PState), (q.setState st).2.filterMap
      (fun o => match o with | .forward t s => some (t, s) | _ => none) = [] := by
    intro q st
    simp only [Port.setState]
    split <;> rfl
  unfold Port.announceRegister
  split
  · simp only
    split
    · split
      · rw [List.filterMap_append, hmap]; rfl
      · rw [List.filterMap_append, List.filterMap_append, hmap, hset]; rfl
    · rw [List.filterMap_append, hmap]; rfl
  · rfl

end Statime.C15
