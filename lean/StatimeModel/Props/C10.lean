import StatimeModel.Lemmas.Frames
import StatimeModel.Lemmas.InstanceInv
import StatimeModel.Lemmas.WireRoundtrip
import StatimeModel.Props.C16
import StatimeModel.Props.C08
import StatimeModel.Generated.MsgCtors
/-
C10 — Master-side messages carry exact timestamps and consistent identifiers.

Property theorems only; helper lemmas are in Lemmas/Frames.lean.
-/
namespace Statime.C10
open Statime

/-! ### ranges the Rust types guarantee for configuration and identity (u4 / u8 / u16 / u64 / i8 fields) -/

def PortRanges (p : Port) : Prop :=
  p.id.WF ∧ p.cfg.minorVersion < 16 ∧ (-128 ≤ p.cfg.delayLog ∧ p.cfg.delayLog < 128)

def DfltRanges (d : DefaultDS) : Prop := d.sdoId < 4096 ∧ d.domain < 256

/-- the sequence counters are `u16`s -/
def SeqsWF (p : Port) : Prop := p.annSeq < 65536 ∧ p.syncSeq < 65536 ∧ p.delaySeq < 65536 ∧ p.pdelaySeq < 65536

theorem nextSeq_lt (n : Nat) : nextSeq n < 65536 := by unfold nextSeq; omega

/-! ### Sync and Follow_Up -/

/-- a Master port's sync timer emits exactly one Sync, numbered from the counter, which then advances by one modulo 2^16 -/
theorem sync_emitted (p p' : Port) (s : InstState) (outs : List Out) (hm : p.st = .master)
    (h : p.sendSync s = .ok (p', outs)) :
    outs = [.reset .sync (.exact (intervalNs p.cfg.syncLog)),
            .sendEvent (.sync p.syncSeq) (encode (msgSync s.dflt p.id p.syncSeq p.cfg.minorVersion)) false] ∧
    p' = { p with syncSeq := (p.syncSeq + 1) % 65536 } ∧
    (msgSync s.dflt p.id p.syncSeq p.cfg.minorVersion).header.seq = p.syncSeq ∧
    (msgSync s.dflt p.id p.syncSeq p.cfg.minorVersion).header.flags.twoStep = true := by
  rcases sendSync_shape p p' s outs h with ⟨_, hp, ho⟩ | ⟨hn, _, _⟩
  · exact ⟨ho, hp, rfl, rfl⟩
  · exact absurd hm hn

/-- **Follow_Up exactness**: when the transmit timestamp `ts` of Sync number `id` is reported, a Master port emits
exactly one Follow_Up, numbered `id`, whose origin timestamp plus correction equals `ts` truncated to 2^-16 ns;
for every `ts` in the PTP range (no failure inside the range). -/
theorem followUp_exact (p : Port) (s : InstState) (id ts : Nat) (hm : p.st = .master) (hts : ts < C16.TMAX) :
    ∃ m w b, p.handleSyncTs s id ts = .ok (p, [.sendGeneral (encode m) false]) ∧
      m.body = .followUp w ∧ m.header.seq = id ∧ m.header.src = p.id ∧ m.suffix = [] ∧
      w.secs < 2 ^ 48 ∧ w.nanos < NS ∧ wireToTime w = some b ∧
      (b : Int) + tivToDur m.header.correction ≤ ts ∧ (ts : Int) < (b : Int) + tivToDur m.header.correction + F16 ∧
      0 ≤ m.header.correction ∧ m.header.correction < F16 := by
  obtain ⟨w, b, hw, h1, h2, hb, h3, h4⟩ := C16.wire_roundtrip ts hts
  refine ⟨{ header := { baseHeader s.dflt p.id id p.cfg.minorVersion with correction := timeSubnano ts },
            body := .followUp w, suffix := [] }, w, b, ?_, rfl, rfl, rfl, rfl, h1, h2, hb, h3, h4, ?_, ?_⟩
  · unfold Port.handleSyncTs msgFollowUp
    rw [if_pos hm, hw]
    rfl
  · show (0 : Int) ≤ timeSubnano ts
    unfold timeSubnano; exact Int.natCast_nonneg _
  · show timeSubnano ts < (F16 : Int)
    unfold timeSubnano F32 F16
    omega

/-- a port that is not Master ignores the timestamp of a Sync -/
theorem followUp_only_master (p : Port) (s : InstState) (id ts : Nat) (hm : p.st ≠ .master) :
    p.handleSyncTs s id ts = .ok (p, []) := by
  unfold Port.handleSyncTs
  rw [if_neg hm]

/-! ### Delay_Resp -/

/-- **Delay_Resp exactness**: a Master port answers a Delay_Req received at `ts` with exactly one Delay_Resp that
echoes the requester's port identity and sequence number, whose receive timestamp plus correction equals `ts`
plus the request's correction, truncated to 2^-16 ns — whenever that sum is representable in the 64-bit correction
field (otherwise it saturates: `delayResp_always_answered`). -/
theorem delayResp_exact (p : Port) (hd : Header) (ts : Nat) (hm : p.st = .master) (hts : ts < C16.TMAX)
    (hc : inI64 (hd.correction + timeSubnano ts) = true) :
    ∃ m w b, p.handleDelayReq hd ts = .ok (p, [.sendGeneral (encode m) false]) ∧
      m.body = .delayResp w hd.src ∧ m.header.seq = hd.seq ∧ m.header.src = p.id ∧ m.header.domain = hd.domain ∧
      m.header.sdoId = hd.sdoId ∧ m.header.logInterval = p.cfg.delayLog ∧ m.suffix = [] ∧
      w.secs < 2 ^ 48 ∧ w.nanos < NS ∧ wireToTime w = some b ∧
      (b : Int) + tivToDur m.header.correction ≤ ts + tivToDur hd.correction ∧
      (ts : Int) + tivToDur hd.correction < (b : Int) + tivToDur m.header.correction + F16 := by
  obtain ⟨w, b, hw, h1, h2, hb, h3, h4⟩ := C16.wire_roundtrip ts hts
  refine ⟨{ header := { hd with flags := { hd.flags with twoStep := false }, src := p.id,
                                correction := hd.correction + timeSubnano ts, logInterval := p.cfg.delayLog },
            body := .delayResp w hd.src, suffix := [] }, w, b, ?_, rfl, rfl, rfl, rfl, rfl, rfl, rfl, h1, h2, hb, ?_, ?_⟩
  · unfold Port.handleDelayReq msgDelayResp
    rw [if_pos hm, hw, clampI64_of_inRange _ hc]
    rfl
  · show (b : Int) + tivToDur (hd.correction + timeSubnano ts) ≤ ts + tivToDur hd.correction
    unfold tivToDur at *
    rw [Int.add_mul]; omega
  · show (ts : Int) + tivToDur hd.correction < (b : Int) + tivToDur (hd.correction + timeSubnano ts) + F16
    unfold tivToDur at *
    rw [Int.add_mul]; omega

/-- no correction field, however extreme, makes the answer fail: the correction saturates at the ends of its range -/
theorem delayResp_always_answered (p : Port) (hd : Header) (ts : Nat) (hm : p.st = .master) (hts : ts < C16.TMAX) :
    ∃ m, p.handleDelayReq hd ts = .ok (p, [.sendGeneral (encode m) false]) ∧
      m.header.correction = clampI64 (hd.correction + timeSubnano ts) ∧ inI64 m.header.correction = true := by
  obtain ⟨w, b, hw, _⟩ := C16.wire_roundtrip ts hts
  refine ⟨{ header := { hd with flags := { hd.flags with twoStep := false }, src := p.id,
                                correction := clampI64 (hd.correction + timeSubnano ts), logInterval := p.cfg.delayLog },
            body := .delayResp w hd.src, suffix := [] }, ?_, rfl, ?_⟩
  · unfold Port.handleDelayReq msgDelayResp
    rw [if_pos hm, hw]
    rfl
  · show inI64 (clampI64 _) = true
    rw [inI64_iff, clampI64_def]
    split
    · exact ⟨(by decide), (by decide)⟩
    · split
      · exact ⟨(by decide), (by decide)⟩
      · omega

theorem delayResp_only_master (p : Port) (hd : Header) (ts : Nat) (hm : p.st ≠ .master) :
    p.handleDelayReq hd ts = .ok (p, []) := by
  unfold Port.handleDelayReq
  rw [if_neg hm]

/-! ### Pdelay_Resp and Pdelay_Resp_Follow_Up -/

/-- a wire timestamp is the time truncated to whole nanoseconds -/
theorem wire_floor_ns (ts : Nat) (hts : ts < C16.TMAX) :
    ∃ w b, timeToWire ts = some w ∧ w.secs < 2 ^ 48 ∧ w.nanos < NS ∧ wireToTime w = some b ∧ b ≤ ts ∧ ts < b + F32 := by
  obtain ⟨w, b, hw, h1, h2, hb, h3, h4⟩ := C16.wire_roundtrip ts hts
  unfold tivToDur timeSubnano F32 F16 at h3 h4
  refine ⟨w, b, hw, h1, h2, hb, ?_, ?_⟩
  · omega
  · unfold F32; omega

/-- **Pdelay_Resp exactness**: every Pdelay_Req received at `ts` is answered (in every port state) with exactly one
Pdelay_Resp echoing requester, sequence number and correction and carrying `ts` to the nanosecond; the transmit
timestamp context names the request. -/
theorem pdelayResp_exact (p : Port) (s : InstState) (hd : Header) (ts : Nat) (hts : ts < C16.TMAX) :
    ∃ m w b, p.handlePdelayReq s hd ts = .ok (p, [.sendEvent (.pdelayResp hd.seq hd.src) (encode m) true]) ∧
      m.body = .pdelayResp w hd.src ∧ m.header.seq = hd.seq ∧ m.header.src = p.id ∧ m.header.correction = hd.correction ∧
      m.suffix = [] ∧ w.secs < 2 ^ 48 ∧ w.nanos < NS ∧ wireToTime w = some b ∧ b ≤ ts ∧ ts < b + F32 := by
  obtain ⟨w, b, hw, h1, h2, hb, h3, h4⟩ := wire_floor_ns ts hts
  refine ⟨{ header := { baseHeader s.dflt p.id hd.seq p.cfg.minorVersion with
                         flags := { twoStep := true : Flags }, correction := hd.correction },
            body := .pdelayResp w hd.src, suffix := [] }, w, b, ?_, rfl, rfl, rfl, rfl, rfl, h1, h2, hb, h3, h4⟩
  unfold Port.handlePdelayReq msgPdelayResp
  rw [hw]
  rfl

/-- **Pdelay_Resp_Follow_Up exactness**: the transmit timestamp `ts` of the response to request `id` of `req` yields
exactly one follow-up echoing requester and sequence number and carrying `ts` to the nanosecond. -/
theorem pdelayRespFu_exact (p : Port) (s : InstState) (id : Nat) (req : PortId) (ts : Nat) (hts : ts < C16.TMAX) :
    ∃ m w b, p.handlePdelayRespTs s id req ts = .ok (p, [.sendGeneral (encode m) true]) ∧
      m.body = .pdelayRespFu w req ∧ m.header.seq = id ∧ m.header.src = p.id ∧ m.suffix = [] ∧
      w.secs < 2 ^ 48 ∧ w.nanos < NS ∧ wireToTime w = some b ∧ b ≤ ts ∧ ts < b + F32 := by
  obtain ⟨w, b, hw, h1, h2, hb, h3, h4⟩ := wire_floor_ns ts hts
  refine ⟨{ header := baseHeader s.dflt p.id id p.cfg.minorVersion, body := .pdelayRespFu w req, suffix := [] },
    w, b, ?_, rfl, rfl, rfl, rfl, h1, h2, hb, h3, h4⟩
  unfold Port.handlePdelayRespTs msgPdelayRespFu
  rw [hw]
  rfl

/-! ### every emitted frame decodes under the library's own parser and fits -/

theorem baseHeader_WF (d : DefaultDS) (pid : PortId) (seq minor : Nat) (hd : DfltRanges d) (hp : pid.WF)
    (hs : seq < 65536) (hm : minor < 16) : (baseHeader d pid seq minor).WF :=
  ⟨hd.1, (by show (2 : Nat) < 16; decide), hm, hd.2,
   ⟨(by show (-9223372036854775808 : Int) ≤ 0; decide), (by show (0 : Int) < 9223372036854775808; decide)⟩, hp, hs,
   ⟨(by show (-128 : Int) ≤ 0; decide), (by show (0 : Int) < 128; decide)⟩⟩

theorem wf_of_parts (m : Msg) (h1 : m.header.WF) (h2 : m.body.WF) (h3 : m.suffix = []) : m.WF := by
  refine ⟨h1, h2, ?_, ?_⟩
  · rw [h3]; rfl
  · unfold Msg.wireSize; rw [h3]; cases m.body.type <;> decide

/-- a Sync decodes to itself and is 44 octets long -/
theorem sync_decodes (p : Port) (s : InstState) (hp : PortRanges p) (hd : DfltRanges s.dflt) (hs : SeqsWF p) :
    decode (encode (msgSync s.dflt p.id p.syncSeq p.cfg.minorVersion)) = .ok (msgSync s.dflt p.id p.syncSeq p.cfg.minorVersion) ∧
    (encode (msgSync s.dflt p.id p.syncSeq p.cfg.minorVersion)).length = 44 := by
  refine ⟨decode_encode _ (wf_of_parts _ ?_ ?_ rfl), by rw [encode_length]; rfl⟩
  · have := baseHeader_WF s.dflt p.id p.syncSeq p.cfg.minorVersion hd hp.1 hs.2.1 hp.2.1
    exact this
  · exact ⟨(by decide), (by decide)⟩

/-- a Follow_Up for a transmit timestamp in the PTP range decodes to itself and is 44 octets long -/
theorem followUp_decodes (p : Port) (s : InstState) (id ts : Nat) (m : Msg) (hp : PortRanges p) (hd : DfltRanges s.dflt)
    (hid : id < 65536) (hts : ts < C16.TMAX) (h : msgFollowUp s.dflt p.id id ts p.cfg.minorVersion = .ok m) :
    decode (encode m) = .ok m ∧ (encode m).length = 44 := by
  obtain ⟨w, hw, hm⟩ := msgFollowUp_ok _ _ _ _ _ _ h
  obtain ⟨w', b, hw', h1, h2, _⟩ := C16.wire_roundtrip ts hts
  rw [hw] at hw'; cases hw'
  have hb := baseHeader_WF s.dflt p.id id p.cfg.minorVersion hd hp.1 hid hp.2.1
  have hc : (0 : Int) ≤ timeSubnano ts ∧ timeSubnano ts < 65536 := by
    unfold timeSubnano F32 F16; omega
  rw [hm]
  refine ⟨decode_encode _ (wf_of_parts _ ?_ ?_ rfl), by rw [encode_length]; rfl⟩
  · exact ⟨hb.1, hb.2.1, hb.2.2.1, hb.2.2.2.1, ⟨(by show (-9223372036854775808 : Int) ≤ timeSubnano ts; omega),
      (by show timeSubnano ts < (9223372036854775808 : Int); omega)⟩, hb.2.2.2.2.2.1, hb.2.2.2.2.2.2.1, hb.2.2.2.2.2.2.2⟩
  · show w.WF
    unfold NS at h2
    exact ⟨(by omega), (by omega)⟩

/-- a Delay_Resp to a decoded request decodes to itself and is 54 octets long -/
theorem delayResp_decodes (p : Port) (hd : Header) (ts : Nat) (m : Msg) (hp : PortRanges p) (hh : hd.WF)
    (hts : ts < C16.TMAX) (h : msgDelayResp hd p.id p.cfg.delayLog ts = .ok m) :
    decode (encode m) = .ok m ∧ (encode m).length = 54 := by
  obtain ⟨w, hw, hm⟩ := msgDelayResp_ok _ _ _ _ _ h
  obtain ⟨w', b, hw', h1, h2, _⟩ := C16.wire_roundtrip ts hts
  rw [hw] at hw'; cases hw'
  have hr : -9223372036854775808 ≤ clampI64 (hd.correction + timeSubnano ts) ∧
      clampI64 (hd.correction + timeSubnano ts) < 9223372036854775808 := by
    rw [clampI64_def]
    split
    · exact ⟨(by decide), (by decide)⟩
    · split
      · exact ⟨(by decide), (by decide)⟩
      · omega
  rw [hm]
  refine ⟨decode_encode _ (wf_of_parts _ ?_ ?_ rfl), by rw [encode_length]; rfl⟩
  · exact ⟨hh.1, hh.2.1, hh.2.2.1, hh.2.2.2.1, hr, hp.1, hh.2.2.2.2.2.2.1, hp.2.2⟩
  · show w.WF ∧ hd.src.WF
    unfold NS at h2
    exact ⟨⟨(by omega), (by omega)⟩, hh.2.2.2.2.2.1⟩

/-- a Pdelay_Resp to a decoded request decodes to itself and is 54 octets long -/
theorem pdelayResp_decodes (p : Port) (s : InstState) (hd : Header) (ts : Nat) (m : Msg) (hp : PortRanges p)
    (hdf : DfltRanges s.dflt) (hh : hd.WF) (hts : ts < C16.TMAX)
    (h : msgPdelayResp s.dflt p.id hd ts p.cfg.minorVersion = .ok m) :
    decode (encode m) = .ok m ∧ (encode m).length = 54 := by
  obtain ⟨w, hw, hm⟩ := msgPdelayResp_ok _ _ _ _ _ _ h
  obtain ⟨w', b, hw', h1, h2, _⟩ := C16.wire_roundtrip ts hts
  rw [hw] at hw'; cases hw'
  have hb := baseHeader_WF s.dflt p.id hd.seq p.cfg.minorVersion hdf hp.1 hh.2.2.2.2.2.2.1 hp.2.1
  rw [hm]
  refine ⟨decode_encode _ (wf_of_parts _ ?_ ?_ rfl), by rw [encode_length]; rfl⟩
  · exact ⟨hb.1, hb.2.1, hb.2.2.1, hb.2.2.2.1, hh.2.2.2.2.1, hb.2.2.2.2.2.1, hb.2.2.2.2.2.2.1, hb.2.2.2.2.2.2.2⟩
  · show w.WF ∧ hd.src.WF
    unfold NS at h2
    exact ⟨⟨(by omega), (by omega)⟩, hh.2.2.2.2.2.1⟩

/-- a Pdelay_Resp_Follow_Up decodes to itself and is 54 octets long -/
theorem pdelayRespFu_decodes (p : Port) (s : InstState) (id : Nat) (req : PortId) (ts : Nat) (m : Msg) (hp : PortRanges p)
    (hdf : DfltRanges s.dflt) (hid : id < 65536) (hreq : req.WF) (hts : ts < C16.TMAX)
    (h : msgPdelayRespFu s.dflt p.id req id ts p.cfg.minorVersion = .ok m) :
    decode (encode m) = .ok m ∧ (encode m).length = 54 := by
  obtain ⟨w, hw, hm⟩ := msgPdelayRespFu_ok _ _ _ _ _ _ _ h
  obtain ⟨w', b, hw', h1, h2, _⟩ := C16.wire_roundtrip ts hts
  rw [hw] at hw'; cases hw'
  have hb := baseHeader_WF s.dflt p.id id p.cfg.minorVersion hdf hp.1 hid hp.2.1
  rw [hm]
  refine ⟨decode_encode _ (wf_of_parts _ hb ?_ rfl), by rw [encode_length]; rfl⟩
  show w.WF ∧ req.WF
  unfold NS at h2
  exact ⟨⟨(by omega), (by omega)⟩, hreq⟩

/-- Delay_Req and Pdelay_Req (slave side) decode to themselves -/
theorem requests_decode (p : Port) (s : InstState) (hp : PortRanges p) (hd : DfltRanges s.dflt) (hs : SeqsWF p) :
    decode (encode (msgDelayReq s.dflt p.id p.delaySeq p.cfg.minorVersion)) = .ok (msgDelayReq s.dflt p.id p.delaySeq p.cfg.minorVersion) ∧
    decode (encode (msgPdelayReq s.dflt p.id p.pdelaySeq p.cfg.minorVersion)) = .ok (msgPdelayReq s.dflt p.id p.pdelaySeq p.cfg.minorVersion) := by
  have hb1 := baseHeader_WF s.dflt p.id p.delaySeq p.cfg.minorVersion hd hp.1 hs.2.2.1 hp.2.1
  have hb2 := baseHeader_WF s.dflt p.id p.pdelaySeq p.cfg.minorVersion hd hp.1 hs.2.2.2 hp.2.1
  refine ⟨decode_encode _ (wf_of_parts _ ?_ ?_ rfl), decode_encode _ (wf_of_parts _ hb2 ?_ rfl)⟩
  · exact ⟨hb1.1, hb1.2.1, hb1.2.2.1, hb1.2.2.2.1, hb1.2.2.2.2.1, hb1.2.2.2.2.2.1, hb1.2.2.2.2.2.2.1, ⟨(by show (-128 : Int) ≤ 0x7f; decide), (by show (0x7f : Int) < 128; decide)⟩⟩
  · exact ⟨(by decide), (by decide)⟩
  · exact ⟨(by decide), (by decide)⟩

/-! ### every host call: identity, domain, numbering, at most one frame -/

/-- **Every frame any port-level host call emits** is the encoding of a message bearing the port's identity and the
instance's domain and sdoId, numbered from the port's counter for its type; a call emits at most one frame, and a
counter advances (by one, modulo 2^16) exactly when a frame of its type is emitted. -/
theorem portHandler_frames (i : Inst) (op : Op) (k : Nat) (f : Port → R (Port × InstState × List Out × Nat))
    (hop : i.portHandler op = some (k, f)) (p p' : Port) (s' : InstState) (o : List Out) (q : Nat)
    (h : f p = .ok (p', s', o, q)) : Frames p i.st p' o := by
  cases op with
  | gen kk data =>
    simp only [Inst.portHandler, Option.some.injEq, Prod.mk.injEq] at hop
    obtain ⟨rfl, rfl⟩ := hop
    obtain ⟨r, hx, he⟩ := map_ok _ _ _ h
    simp only [Prod.mk.injEq] at he
    obtain ⟨e1, e2, e3, _⟩ := he
    obtain ⟨r1, r2, r3⟩ := r
    simp only at e1 e2 e3
    subst e1 e2 e3
    exact frames_of_quiet _ _ _ _ (handleGeneralReceive_quiet _ _ _ _ _ _ hx)
  | evt kk data ts =>
    simp only [Inst.portHandler, Option.some.injEq, Prod.mk.injEq] at hop
    obtain ⟨rfl, rfl⟩ := hop
    obtain ⟨r, hx, he⟩ := map_ok _ _ _ h
    simp only [Prod.mk.injEq] at he
    obtain ⟨e1, e2, e3, _⟩ := he
    obtain ⟨r1, r2, r3⟩ := r
    simp only at e1 e2 e3
    subst e1 e2 e3
    exact handleEventReceive_frames _ _ _ _ _ _ _ hx
  | tmrAnnounce kk loose fq =>
    simp only [Inst.portHandler, Option.some.injEq, Prod.mk.injEq] at hop
    obtain ⟨rfl, rfl⟩ := hop
    obtain ⟨r, hx, he⟩ := map_ok _ _ _ h
    simp only [Prod.mk.injEq] at he
    obtain ⟨e1, e2, e3, _⟩ := he
    obtain ⟨r1, r2, r3⟩ := r
    simp only at e1 e2 e3
    subst e1 e2 e3
    exact sendAnnounce_frames _ _ _ _ _ _ _ hx
  | tmr kk t =>
    cases t with
    | announce =>
      simp only [Inst.portHandler, Option.some.injEq, Prod.mk.injEq] at hop
      obtain ⟨rfl, rfl⟩ := hop
      obtain ⟨r, hx, he⟩ := map_ok _ _ _ h
      simp only [Prod.mk.injEq] at he
      obtain ⟨e1, e2, e3, _⟩ := he
      obtain ⟨r1, r2, r3⟩ := r
      simp only at e1 e2 e3
      subst e1 e2 e3
      exact sendAnnounce_frames _ _ _ _ _ _ _ hx
    | sync =>
      simp only [Inst.portHandler, Option.some.injEq, Prod.mk.injEq] at hop
      obtain ⟨rfl, rfl⟩ := hop
      obtain ⟨r, hx, he⟩ := map_ok _ _ _ h
      simp only [Prod.mk.injEq] at he
      obtain ⟨e1, e2, e3, _⟩ := he
      obtain ⟨r1, r2⟩ := r
      simp only at e1 e2 e3
      subst e1 e2 e3
      exact sendSync_frames _ _ _ _ hx
    | delay =>
      simp only [Inst.portHandler, Option.some.injEq, Prod.mk.injEq] at hop
      obtain ⟨rfl, rfl⟩ := hop
      obtain ⟨r, hx, he⟩ := map_ok _ _ _ h
      simp only [Prod.mk.injEq] at he
      obtain ⟨e1, e2, e3, _⟩ := he
      obtain ⟨r1, r2⟩ := r
      simp only at e1 e2 e3
      subst e1 e2 e3
      exact sendDelayRequest_frames _ _ _ _ hx
    | receipt =>
      simp only [Inst.portHandler, Option.some.injEq, Prod.mk.injEq] at hop
      obtain ⟨rfl, rfl⟩ := hop
      simp only [Except.ok.injEq, Prod.mk.injEq] at h
      obtain ⟨e1, e2, e3, _⟩ := h
      subst e1 e2 e3
      exact frames_of_quiet _ _ _ _ (handleReceiptTimer_quiet p i.st)
    | filter => simp [Inst.portHandler] at hop
  | txts kk ctx ts =>
    simp only [Inst.portHandler, Option.some.injEq, Prod.mk.injEq] at hop
    obtain ⟨rfl, rfl⟩ := hop
    obtain ⟨r, hx, he⟩ := map_ok _ _ _ h
    simp only [Prod.mk.injEq] at he
    obtain ⟨e1, e2, e3, _⟩ := he
    obtain ⟨r1, r2⟩ := r
    simp only at e1 e2 e3
    subst e1 e2 e3
    exact handleSendTimestamp_frames _ _ _ _ _ _ hx
  | bmca _ => simp [Inst.portHandler] at hop
  | setSlaveOnly _ => simp [Inst.portHandler] at hop
  | setQuality _ => simp [Inst.portHandler] at hop
  | addPort _ => simp [Inst.portHandler] at hop

/-- **No set of actions contains more than one event-message send** (indeed: more than one frame). -/
theorem at_most_one_event_send (p p' : Port) (s : InstState) (outs : List Out) (h : Frames p s p' outs) :
    (outs.filter Out.isEvent).length ≤ 1 ∧ (sentFrames outs).length ≤ 1 := by
  have h2 : (sentFrames outs).length ≤ 1 := by
    rcases h.2.1 with ⟨e, _⟩ | ⟨b, e, _⟩ <;> rw [e] <;> simp
  refine ⟨?_, h2⟩
  have : ∀ (l : List Out), (l.filter Out.isEvent).length ≤ (sentFrames l).length := by
    intro l
    induction l with
    | nil => simp [sentFrames]
    | cons o os ih =>
      unfold sentFrames at *
      cases o <;> simp [Out.isEvent, Out.frame, List.filter_cons, List.filterMap_cons] <;> omega
  exact Nat.le_trans (this outs) h2

/-! ### sequence numbers along every history -/

theorem seqOf_congr (p p' : Port) (h : p'.seqs = p.seqs) (ty : MsgType) : p'.seqOf ty = p.seqOf ty := by
  unfold Port.seqs at h
  simp only [Prod.mk.injEq] at h
  obtain ⟨h1, h2, h3, h4⟩ := h
  cases ty <;> simp [Port.seqOf, h1, h2, h3, h4]

theorem seqOf_bump_same (p p' : Port) (ty : MsgType) (c : Nat) (hc : p.seqOf ty = some c)
    (h : p'.seqs = p.bump (some ty)) : p'.seqOf ty = some (nextSeq c) := by
  unfold Port.seqs at h
  cases ty <;> simp only [Port.seqOf, Port.bump, Prod.mk.injEq, Option.some.injEq] at hc h ⊢ <;>
    first | (cases hc; done) | (cases hc; first | exact h.1 | exact h.2.1 | exact h.2.2.1 | exact h.2.2.2)

theorem seqOf_bump_other (p p' : Port) (ty : MsgType) (t : Option MsgType) (ht : t ≠ some ty)
    (h : p'.seqs = p.bump t) : p'.seqOf ty = p.seqOf ty := by
  cases t with
  | none => exact seqOf_congr p p' h ty
  | some t' =>
    have hne : t' ≠ ty := fun e => ht (by rw [e])
    unfold Port.seqs at h
    cases t' <;> cases ty <;> simp only [Port.seqOf, Port.bump, Port.seqs, Prod.mk.injEq] at h ⊢ <;>
      first | (exact absurd rfl hne) | rfl | (obtain ⟨h1, h2, h3, h4⟩ := h; simp [h1, h2, h3, h4])

/-- one handler call, one message type: either no frame of that type and the counter stays, or exactly one, numbered
with the counter, which then advances -/
theorem frames_seq (p p' : Port) (s : InstState) (outs : List Out) (hf : Frames p s p' outs) (ty : MsgType) (c : Nat)
    (hc : p.seqOf ty = some c) :
    ((sentFrames outs).filter (fun b => frameType b = some ty) = [] ∧ p'.seqOf ty = some c) ∨
    ∃ m, (sentFrames outs).filter (fun b => frameType b = some ty) = [encode m] ∧ m.header.seq = c ∧ m.body.type = ty ∧
      m.header.src = p.id ∧ p'.seqOf ty = some (nextSeq c) := by
  obtain ⟨hok, hcnt, _, _⟩ := hf
  rcases hcnt with ⟨e, hs⟩ | ⟨b, e, hs⟩
  · left; rw [e]; exact ⟨rfl, by rw [seqOf_congr p p' hs ty]; exact hc⟩
  · have hmem : b ∈ sentFrames outs := by rw [e]; exact List.mem_singleton.2 rfl
    unfold sentFrames at hmem
    obtain ⟨o, ho, hob⟩ := List.mem_filterMap.1 hmem
    obtain ⟨m, hbm, hsrc, _, _, hseq⟩ := hok o ho b hob
    have hft : frameType b = some m.body.type := by rw [hbm]; unfold frameType; exact encode_type m
    by_cases hb : frameType b = some ty
    · right
      have hty : m.body.type = ty := by rw [hft] at hb; exact Option.some.inj hb
      refine ⟨m, ?_, hseq c (by rw [hty]; exact hc), hty, hsrc, ?_⟩
      · rw [e, ← hbm]; simp [hb]
      · rw [hb] at hs; exact seqOf_bump_same p p' ty c hc hs
    · left
      refine ⟨?_, ?_⟩
      · rw [e]; simp [hb]
      · rw [seqOf_bump_other p p' ty _ hb hs]; exact hc

/-- frames of type `ty` emitted by port `k` in an observation list -/
def framesOf (k : Nat) (ty : MsgType) (obs : Obs) : List (List UInt8) :=
  (obs.filterMap (fun x => if x.1 = k then x.2.frame else none)).filter (fun b => frameType b = some ty)

theorem framesOf_append (k : Nat) (ty : MsgType) (a b : Obs) : framesOf k ty (a ++ b) = framesOf k ty a ++ framesOf k ty b := by
  unfold framesOf; rw [List.filterMap_append, List.filter_append]

theorem framesOf_tag_same (k : Nat) (ty : MsgType) (o : List Out) :
    framesOf k ty (tag k o) = (sentFrames o).filter (fun b => frameType b = some ty) := by
  have : (tag k o).filterMap (fun x => if x.1 = k then x.2.frame else none) = sentFrames o := by
    unfold tag sentFrames
    induction o with
    | nil => rfl
    | cons x xs ih => simp only [List.map_cons, List.filterMap_cons, if_true]; rw [ih]
  unfold framesOf
  rw [this]

theorem framesOf_tag_other (k k0 : Nat) (ty : MsgType) (o : List Out) (h : k0 ≠ k) : framesOf k ty (tag k0 o) = [] := by
  unfold framesOf tag
  rw [List.filterMap_map]
  have : List.filterMap ((fun x : Nat × Out => if x.1 = k then x.2.frame else none) ∘ fun x => (k0, x)) o = [] := by
    apply List.filterMap_eq_nil_iff.2
    intro x _
    simp [h]
  rw [this]; rfl

theorem framesOf_plain (k : Nat) (ty : MsgType) (obs : Obs) (h : ∀ x ∈ obs, x.2.plain) : framesOf k ty obs = [] := by
  unfold framesOf
  have : obs.filterMap (fun x => if x.1 = k then x.2.frame else none) = [] := by
    apply List.filterMap_eq_nil_iff.2
    intro x hx
    have := h x hx
    obtain ⟨a, o⟩ := x
    cases o <;> simp_all [Out.plain, Out.frame]
  rw [this]; rfl

/-- **One host call, one port, one message type**: the call either emits no frame of that type from that port and
leaves its counter, or emits exactly one frame, numbered with the counter, and advances it by one modulo 2^16. -/
theorem step_seq (i i' : Inst) (op : Op) (obs : Obs) (q : Nat) (k : Nat) (p : Port) (ty : MsgType) (c : Nat)
    (hb : ∀ order, op = .bmca order → order.Nodup)
    (hk : portAt i.ports k = some p) (hc : p.seqOf ty = some c) (h : i.step op = .ok (i', obs, q)) :
    ∃ p', portAt i'.ports k = some p' ∧ p'.id = p.id ∧
      ((framesOf k ty obs = [] ∧ p'.seqOf ty = some c) ∨
       ∃ m, framesOf k ty obs = [encode m] ∧ m.header.seq = c ∧ m.body.type = ty ∧ m.header.src = p.id ∧
         p'.seqOf ty = some (nextSeq c)) := by
  obtain ⟨k1, hkl, hkg⟩ := portAt_some hk
  cases hph : i.portHandler op with
  | some kf =>
    obtain ⟨k0, f⟩ := kf
    simp only [Inst.step, hph] at h
    unfold Inst.withPort at h
    cases hk0 : portAt i.ports k0 with
    | none =>
      rw [hk0] at h; simp only [Except.ok.injEq, Prod.mk.injEq] at h
      rw [← h.1, ← h.2.1]; exact ⟨p, hk, rfl, Or.inl ⟨rfl, hc⟩⟩
    | some p0 =>
      rw [hk0] at h
      simp only at h
      cases hx : f p0 with
      | error e => rw [hx] at h; cases h
      | ok v =>
        obtain ⟨p0', s', o, q'⟩ := v
        rw [hx] at h
        simp only [Except.ok.injEq, Prod.mk.injEq] at h
        obtain ⟨k01, hk0l, hk0g⟩ := portAt_some hk0
        have hfr := portHandler_frames i op k0 f hph p0 p0' s' o q' hx
        rw [← h.1, ← h.2.1]
        by_cases hkk : k0 = k
        · subst hkk
          rw [hk] at hk0; cases hk0
          refine ⟨p0', ?_, hfr.2.2.1, ?_⟩
          · unfold portAt; rw [if_neg (by omega)]
            simp only
            rw [getElem?_setPort i.ports k0 p0' (k0 - 1) k01 hk0l, if_pos (by omega)]
          · rw [framesOf_tag_same]
            exact frames_seq p p0' i.st o hfr ty c hc
        · refine ⟨p, ?_, rfl, Or.inl ⟨framesOf_tag_other k k0 ty o hkk, hc⟩⟩
          unfold portAt; rw [if_neg (by omega)]
          simp only
          rw [getElem?_setPort i.ports k0 p0' (k - 1) k01 hk0l, if_neg (by omega)]
          exact hkg
  | none =>
    cases op with
    | bmca order =>
      have hnd := hb order rfl
      simp only [Inst.step, hph, Inst.other] at h
      obtain ⟨r, hx, he⟩ := map_ok _ _ _ h
      simp only [Prod.mk.injEq] at he
      unfold Inst.bmca at hx
      split at hx
      · cases hx
      · obtain ⟨step, _, hw⟩ := orOv_ok _ _ _ hx
        obtain ⟨ebest, lbs, _, _, _, l5, l6⟩ := C08.bmcaWith_ports i r.1 order step r.2 hnd hw
        obtain ⟨p', hp', a1, _, _, _, _, _, a7⟩ := l5 (k - 1) p hkg
        rw [← he.1, ← he.2.1]
        refine ⟨p', ?_, a1, Or.inl ⟨framesOf_plain k ty _ l6, by rw [seqOf_congr p p' (inert_seqs a7) ty]; exact hc⟩⟩
        unfold portAt; rw [if_neg (by omega)]; exact hp'
    | setSlaveOnly b =>
      simp only [Inst.step, hph, Inst.other, Except.ok.injEq, Prod.mk.injEq] at h
      rw [← h.1, ← h.2.1]; exact ⟨p, hk, rfl, Or.inl ⟨rfl, hc⟩⟩
    | setQuality qq =>
      simp only [Inst.step, hph, Inst.other, Except.ok.injEq, Prod.mk.injEq] at h
      rw [← h.1, ← h.2.1]; exact ⟨p, hk, rfl, Or.inl ⟨rfl, hc⟩⟩
    | addPort cfg =>
      simp only [Inst.step, hph, Inst.other] at h
      obtain ⟨pn, _, hports, _, _, _, ho⟩ := addPort_ok i i' cfg obs q h
      refine ⟨p, ?_, rfl, Or.inl ⟨?_, hc⟩⟩
      · unfold portAt; rw [if_neg (by omega), hports, List.getElem?_append_left hkl]; exact hkg
      · rw [ho]; apply framesOf_plain
        intro x hx
        simp only [tag, List.map_cons, List.map_nil, List.mem_singleton] at hx
        subst hx; trivial
    | tmr kk t =>
      cases t with
      | filter =>
        simp only [Inst.step, hph, Inst.other, Except.ok.injEq, Prod.mk.injEq] at h
        rw [← h.1, ← h.2.1]; exact ⟨p, hk, rfl, Or.inl ⟨rfl, hc⟩⟩
      | announce => simp [Inst.portHandler] at hph
      | sync => simp [Inst.portHandler] at hph
      | delay => simp [Inst.portHandler] at hph
      | receipt => simp [Inst.portHandler] at hph
    | gen _ _ => simp [Inst.portHandler] at hph
    | evt _ _ _ => simp [Inst.portHandler] at hph
    | tmrAnnounce _ _ _ => simp [Inst.portHandler] at hph
    | txts _ _ _ => simp [Inst.portHandler] at hph

/-- the counter value after `j` further frames -/
def seqAfter : Nat → Nat → Nat
  | c, 0 => c
  | c, j + 1 => seqAfter (nextSeq c) j

/-- … which is plain addition modulo 2^16 -/
theorem seqAfter_eq (c j : Nat) (hc : c < 65536) : seqAfter c j = (c + j) % 65536 := by
  induction j generalizing c with
  | zero => simp only [seqAfter]; omega
  | succ j ih =>
    simp only [seqAfter]
    rw [ih (nextSeq c) (nextSeq_lt c)]
    unfold nextSeq; omega

/-- run a history, collecting everything observed -/
def runObs (i : Inst) : List Op → Option (Inst × Obs)
  | [] => some (i, [])
  | op :: ops =>
    match i.step op with
    | .error _ => none
    | .ok (i', o, _) => (runObs i' ops).map (fun r => (r.1, o ++ r.2))

/-- a host history whose BMCA runs name each port at most once -/
def NodupHistory (ops : List Op) : Prop := ∀ op ∈ ops, ∀ order, op = .bmca order → order.Nodup

/-- **Sequence numbers of each message type increase by one modulo 2^16** — over every host history of any length
(so through every wrap-around), for each of Announce, Sync, Delay_Req and Pdelay_Req and each port: the frames of
that type the port emits are numbered c, c+1, c+2, … (mod 2^16) from the counter's value c at the start, they bear
the port's identity, and nothing else moves the counter (state changes, BMCA runs, other ports' traffic). -/
theorem seq_numbers_consecutive (ty : MsgType) (k : Nat) : ∀ (ops : List Op) (i i' : Inst) (obs : Obs) (p : Port) (c : Nat),
    NodupHistory ops → portAt i.ports k = some p → p.seqOf ty = some c → runObs i ops = some (i', obs) →
    ∃ (ms : List Msg) (p' : Port), framesOf k ty obs = ms.map encode ∧
      (∀ (j : Nat) (hj : j < ms.length), ms[j].header.seq = seqAfter c j ∧ ms[j].body.type = ty ∧ ms[j].header.src = p.id) ∧
      portAt i'.ports k = some p' ∧ p'.id = p.id ∧ p'.seqOf ty = some (seqAfter c ms.length) := by
  intro ops
  induction ops with
  | nil =>
    intro i i' obs p c _ hk hc hr
    simp only [runObs, Option.some.injEq, Prod.mk.injEq] at hr
    rw [← hr.1, ← hr.2]
    exact ⟨[], p, rfl, (by intro j hj; cases hj), hk, rfl, hc⟩
  | cons op ops ih =>
    intro i i' obs p c hnd hk hc hr
    simp only [runObs] at hr
    cases hs : i.step op with
    | error e => rw [hs] at hr; cases hr
    | ok v =>
      obtain ⟨i1, o1, q1⟩ := v
      rw [hs] at hr
      simp only [Option.map_eq_some_iff] at hr
      obtain ⟨⟨i2, o2⟩, hr2, he⟩ := hr
      simp only [Prod.mk.injEq] at he
      obtain ⟨p1, hp1, hid1, hcase⟩ := step_seq i i1 op o1 q1 k p ty c (fun order ho => hnd op List.mem_cons_self order ho) hk hc hs
      have hnd' : NodupHistory ops := fun o ho => hnd o (List.mem_cons_of_mem _ ho)
      rw [← he.1, ← he.2, framesOf_append]
      rcases hcase with ⟨hnone, hc1⟩ | ⟨m, hone, hseq, hty, hsrc, hc1⟩
      · obtain ⟨ms, p', e1, e2, e3, e4, e5⟩ := ih i1 i2 o2 p1 c hnd' hp1 hc1 hr2
        refine ⟨ms, p', by rw [hnone, e1]; rfl, ?_, e3, e4.trans hid1, e5⟩
        intro j hj
        obtain ⟨x, y, z⟩ := e2 j hj
        exact ⟨x, y, z.trans hid1⟩
      · obtain ⟨ms, p', e1, e2, e3, e4, e5⟩ := ih i1 i2 o2 p1 (nextSeq c) hnd' hp1 hc1 hr2
        refine ⟨m :: ms, p', by rw [hone, e1]; rfl, ?_, e3, e4.trans hid1, ?_⟩
        · intro j hj
          cases j with
          | zero => exact ⟨hseq, hty, hsrc⟩
          | succ j' =>
            simp only [List.length_cons, Nat.add_lt_add_iff_right] at hj
            obtain ⟨x, y, z⟩ := e2 j' hj
            simp only [List.getElem_cons_succ, seqAfter]
            exact ⟨x, y, z.trans hid1⟩
        · simp only [List.length_cons, seqAfter]; exact e5

/-! ### the message constructors as translated from the source on this run
(`translator/extract_msgs.py` → `Generated/MsgCtors.lean`, interpreter `Lemmas/MsgGen.lean`): the header each
constructor starts from, every field it overrides and the body, interpreted, are the model's `msgSync`, `msgFollowUp`,
`msgDelayReq`, `msgDelayResp`, `msgPdelayReq` for all arguments (`Env`: default data set, port identity, sequence
number, minor version, request header, timestamp, delay interval) -/
section Translated
open Statime.MsgGen

theorem generated_sync_is_model (e : Env) :
    ∀ c, Generated.syncCtor = some c → c.eval e = some (.ok (msgSync e.d e.pid e.seq e.minor)) := by
  intro c h
  unfold Generated.syncCtor at h
  cases h
  all_goals rfl

theorem generated_delay_req_is_model (e : Env) :
    ∀ c, Generated.delayReqCtor = some c → c.eval e = some (.ok (msgDelayReq e.d e.pid e.seq e.minor)) := by
  intro c h
  unfold Generated.delayReqCtor at h
  cases h
  all_goals rfl

theorem generated_pdelay_req_is_model (e : Env) :
    ∀ c, Generated.pdelayReqCtor = some c → c.eval e = some (.ok (msgPdelayReq e.d e.pid e.seq e.minor)) := by
  intro c h
  unfold Generated.pdelayReqCtor at h
  cases h
  all_goals rfl

theorem generated_follow_up_is_model (e : Env) :
    ∀ c, Generated.followUpCtor = some c → c.eval e = some (msgFollowUp e.d e.pid e.seq e.ts e.minor) := by
  intro c h
  unfold Generated.followUpCtor at h
  cases h
  all_goals (
    unfold Ctor.eval msgFollowUp
    cases hw : timeToWire e.ts <;> simp [setAll, setField, HBase.eval, BodyC.eval, liftOv, hw, Except.map, bind, Except.bind, Option.bind])

theorem generated_delay_resp_is_model (e : Env) :
    ∀ c, Generated.delayRespCtor = some c → c.eval e = some (msgDelayResp e.req e.pid e.ilog e.ts) := by
  intro c h
  unfold Generated.delayRespCtor at h
  cases h
  all_goals (
    unfold Ctor.eval msgDelayResp
    cases hw : timeToWire e.ts <;> simp [setAll, setField, HBase.eval, BodyC.eval, liftOv, hw, Except.map, bind, Except.bind, Option.bind])

theorem generated_pdelay_resp_is_model (e : Env) :
    ∀ c, Generated.pdelayRespCtor = some c → c.eval e = some (msgPdelayResp e.d e.pid e.req e.ts e.minor) := by
  intro c h
  unfold Generated.pdelayRespCtor at h
  cases h
  all_goals (
    unfold Ctor.eval msgPdelayResp
    cases hw : timeToWire e.ts <;> simp [setAll, setField, HBase.eval, BodyC.eval, liftOv, hw, Except.map, bind, Except.bind, Option.bind, baseHeader])

theorem generated_pdelay_resp_follow_up_is_model (e : Env) :
    ∀ c, Generated.pdelayRespFuCtor = some c →
      c.eval e = some (msgPdelayRespFu e.d e.pid e.requestor e.seq e.ts e.minor) := by
  intro c h
  unfold Generated.pdelayRespFuCtor at h
  cases h
  all_goals (
    unfold Ctor.eval msgPdelayRespFu
    cases hw : timeToWire e.ts <;> simp [setAll, setField, HBase.eval, BodyC.eval, liftOv, hw, Except.map, bind, Except.bind, Option.bind])

end Translated

end Statime.C10
