import StatimeModel.Lemmas.Fml
import StatimeModel.Generated.Qualification
import StatimeModel.Lemmas.FmlSteady
import StatimeModel.Lemmas.FmlMulti
import StatimeModel.Generated.Consts
/-
C06 — Foreign masters qualify only by sustained Announces and expire when silent.

The foreign master list of one port as a transition system over the two things that
touch it: an Announce handed to `register_announce_message` and a BMCA run
(`take_best_port_announce_message`, then `step_age`). All theorems are for every history.

Tie: constants are re-extracted from the source (`tie_constants`); the list is driven through
real ports by the `inst`/`fml` streams (arrival patterns, duplicates, stale and wrapping sequence
ids, BMCA phases) and compared with the model after every BMCA run.
-/
namespace Statime.C06
open Statime

def tieC (g : Option Nat) (m : Nat) : Bool := match g with | none => true | some v => v == m

/-- the constants the model uses are the ones in today's source -/
theorem tie_constants :
    tieC Generated.foreignMasterTimeWindow FM_TIME_WINDOW ∧ tieC Generated.foreignMasterThreshold FM_THRESHOLD ∧
    tieC Generated.maxAnnounceMessages MAX_ANNOUNCE_MESSAGES ∧ tieC Generated.maxForeignMasters MAX_FOREIGN_MASTERS ∧
    tieC Generated.seqIdHalfRange SEQ_HALF ∧ tieC Generated.stepsRemovedCutoff STEPS_CUTOFF := by
  decide

inductive FOp
  | announce (a : Ann)        -- `Bmca::register_announce_message`
  | bmca (step : Int)         -- `take_best_port_announce_message` + `step_age(step)`

/-- one step; the second component is the Erbest a BMCA run produced -/
def fmlStep (acc : Option (List Nat)) (l : FML) : FOp → FML × Option Best
  | .announce a => ((bmcaRegister l acc a).1, none)
  | .bmca step => ((takeBest l acc).1.stepAge step, (takeBest l acc).2)

def fmlRun (acc : Option (List Nat)) (l : FML) : List FOp → FML × List (Option Best)
  | [] => (l, [])
  | op :: ops =>
    let (l1, o) := fmlStep acc l op
    let (l2, os) := fmlRun acc l1 ops
    (l2, o :: os)

def emptyFML (interval : Int) (own : PortId) : FML := { masters := [], interval := interval, own := own }

/-! ### never on a single message -/

/-- **A parent candidate always had at least two records** — the newest of which is the
candidate. (`FM_THRESHOLD = 2`.) -/
theorem erbest_needs_threshold (l : FML) (acc : Option (List Nat)) (b : Best)
    (h : (takeBest l acc).2 = some b) :
    ∃ m ∈ l.masters, 2 ≤ m.recs.length ∧ m.recs.getLast? = some ⟨b.ann, b.age⟩ := by
  obtain ⟨_, m, hm, hth, hl⟩ := takeBest_spec l acc b h
  exact ⟨m, hm, hth, hl⟩

/-- every record belongs to the master it is filed under -/
def Filed (l : FML) : Prop := ∀ m ∈ l.masters, ∀ r ∈ m.recs, r.ann.hdr.src = m.id

theorem filed_register (l : FML) (a : Ann) (age : Int) (h : Filed l) : Filed (l.register a age) := by
  intro m hm r hr
  rcases register_mem l a age m hm with h1 | ⟨m0, hm0, he, rfl, _⟩ | ⟨rfl, _, _⟩
  · exact h m h1 r hr
  · rw [register_id]
    rcases register_recs _ _ _ _ r hr with h2 | h2
    · exact h m0 hm0 r h2
    · subst h2; exact he.symm
  · simp only [List.mem_singleton] at hr
    subst hr; rfl

theorem filed_takeQualified (l : FML) (h : Filed l) : Filed l.takeQualified.1 := by
  intro m hm r hr
  obtain ⟨m0, hm0, e1, e2⟩ := (takeQualified_spec l).1 m hm
  rw [e1]; exact h m0 hm0 r (e2 r hr)

theorem filed_stepAge (l : FML) (s : Int) (h : Filed l) : Filed (l.stepAge s) := by
  intro m hm r hr
  simp only [FML.stepAge, List.mem_filter, List.mem_map] at hm
  obtain ⟨⟨m0, hm0, rfl⟩, _⟩ := hm
  have := purge_sub _ _ r hr
  simp only [List.mem_map] at this
  obtain ⟨r0, hr0, rfl⟩ := this
  exact h m0 hm0 r0 hr0

theorem filed_takeBest (l : FML) (acc : Option (List Nat)) (h : Filed l) : Filed (takeBest l acc).1 := by
  unfold takeBest
  cases hq : l.takeQualified with
  | mk l1 qs =>
    have h1 : Filed l1 := by have := filed_takeQualified l h; rw [hq] at this; exact this
    simp only
    split
    · exact h1
    · split
      · exact filed_register _ _ _ h1
      · exact h1

theorem filed_step (acc : Option (List Nat)) (l : FML) (op : FOp) (h : Filed l) : Filed (fmlStep acc l op).1 := by
  cases op with
  | announce a =>
    simp only [fmlStep, bmcaRegister]
    split
    · exact filed_register _ _ _ h
    · exact h
  | bmca s => exact filed_stepAge _ _ (filed_takeBest l acc h)

/-- at most `n` records are filed under `src` -/
def AtMost (l : FML) (src : PortId) (n : Nat) : Prop := ∀ m ∈ l.masters, m.id = src → m.recs.length ≤ n

/-- **Never on the strength of a single message**: a sender with at most one stored record is not
selected as Erbest. -/
theorem single_record_not_selected (l : FML) (acc : Option (List Nat)) (src : PortId) (b : Best)
    (hf : Filed l) (h1 : AtMost l src 1) (h : (takeBest l acc).2 = some b) : b.ann.hdr.src ≠ src := by
  obtain ⟨m, hm, hth, hl⟩ := erbest_needs_threshold l acc b h
  intro hs
  have hr : (⟨b.ann, b.age⟩ : FRec) ∈ m.recs := List.mem_of_getLast? hl
  have hid : m.id = src := by rw [← hf m hm _ hr]; exact hs
  have := h1 m hm hid
  omega

/-- Announces from other senders leave the bound untouched -/
theorem atMost_register_other (l : FML) (src : PortId) (n : Nat) (a : Ann) (age : Int)
    (hne : a.hdr.src ≠ src) (h : AtMost l src n) : AtMost (l.register a age) src n := by
  intro m hm hid
  rcases register_mem l a age m hm with h1 | ⟨m0, hm0, he, rfl, _⟩ | ⟨rfl, _, _⟩
  · exact h m h1 hid
  · rw [register_id] at hid
    exact absurd (he.symm.trans hid) hne
  · exact absurd hid hne

theorem atMost_other_announce (l : FML) (acc : Option (List Nat)) (src : PortId) (n : Nat) (a : Ann)
    (hne : a.hdr.src ≠ src) (h : AtMost l src n) : AtMost (fmlStep acc l (.announce a)).1 src n := by
  simp only [fmlStep, bmcaRegister]
  split
  · exact atMost_register_other l src n a 0 hne h
  · exact h

/-- one Announce from `src` raises the bound by at most one -/
theorem atMost_announce (l : FML) (acc : Option (List Nat)) (src : PortId) (n : Nat) (a : Ann)
    (h : AtMost l src n) : AtMost (fmlStep acc l (.announce a)).1 src (n + 1) := by
  simp only [fmlStep, bmcaRegister]
  have hw : AtMost l src (n + 1) := fun m hm hid => Nat.le_succ_of_le (h m hm hid)
  split
  · intro m hm hid
    rcases register_mem l a 0 m hm with h1 | ⟨m0, hm0, he, rfl, _⟩ | ⟨rfl, _, _⟩
    · exact hw m h1 hid
    · rw [register_id] at hid
      exact Nat.le_trans (register_length_le _ _ _ _) (Nat.succ_le_succ (h m0 hm0 hid))
    · simp
  · exact hw

/-- a BMCA run never adds a record for a sender that is not selected … in particular not for a
sender with at most one record -/
theorem atMost_one_bmca (l : FML) (acc : Option (List Nat)) (src : PortId) (s : Int)
    (hf : Filed l) (h : AtMost l src 1) : AtMost (fmlStep acc l (.bmca s)).1 src 1 := by
  simp only [fmlStep]
  -- stepAge only removes records
  have hstep : ∀ l' : FML, AtMost l' src 1 → AtMost (l'.stepAge s) src 1 := by
    intro l' h' m hm hid
    simp only [FML.stepAge, List.mem_filter, List.mem_map] at hm
    obtain ⟨⟨m0, hm0, rfl⟩, _⟩ := hm
    have h0 := h' m0 hm0 hid
    simp only [ForeignMaster.stepAge, ForeignMaster.purge]
    exact Nat.le_trans (List.length_filter_le _ _) (by simpa using h0)
  apply hstep
  -- takeQualified keeps subsets of the records under the same ids
  have hq : AtMost l.takeQualified.1 src 1 := by
    intro m hm hid
    unfold FML.takeQualified at hm
    -- a master with ≤ 1 record is below the threshold: it is copied unchanged; others keep their id
    have key : ∀ ms : List ForeignMaster, (∀ x ∈ ms, x.id = src → x.recs.length ≤ 1) →
        ∀ x ∈ (ms.foldr tqStep ([], [])).1, x.id = src → x.recs.length ≤ 1 := by
      intro ms
      induction ms with
      | nil => simp
      | cons y ys ih =>
        intro hys x hx hxid
        simp only [List.foldr_cons] at hx
        unfold tqStep at hx
        have ih' := ih (fun z hz => hys z (List.mem_cons_of_mem _ hz))
        split at hx
        · split at hx
          · rcases List.mem_cons.1 hx with e | e
            · subst e
              have := hys y List.mem_cons_self hxid
              simp only [List.length_dropLast]; omega
            · exact ih' x e hxid
          · rcases List.mem_cons.1 hx with e | e
            · subst e; exact hys _ List.mem_cons_self hxid
            · exact ih' x e hxid
        · rcases List.mem_cons.1 hx with e | e
          · subst e; exact hys _ List.mem_cons_self hxid
          · exact ih' x e hxid
    exact key l.masters h m hm hid
  unfold takeBest
  cases hqe : l.takeQualified with
  | mk l1 qs =>
    rw [hqe] at hq
    simp only
    cases hb : findBest (qs.map (fun r => ({ ann := r.ann, age := r.age, identity := l.own } : Best))) with
    | none => exact hq
    | some b =>
      simp only
      have hbsel : (takeBest l acc).2 = some b := by
        unfold takeBest; rw [hqe]; simp only [hb]
      have hne := single_record_not_selected l acc src b hf h hbsel
      split
      · exact atMost_register_other l1 src 1 b.ann b.age hne hq
      · exact hq

/-- **History form.** Starting from a port that has heard nothing of `src`, after exactly one
Announce from `src` and any further history *without* Announces from `src`, no BMCA run
ever yields `src` as Erbest — whatever else arrives, however the runs are phased. -/
theorem single_announce_never_qualifies (acc : Option (List Nat)) (l : FML) (src : PortId) (a : Ann)
    (ops : List FOp) (hf : Filed l) (h0 : AtMost l src 0) (ha : a.hdr.src = src)
    (hops : ∀ op ∈ ops, ∀ a', op = .announce a' → a'.hdr.src ≠ src) :
    ∀ o ∈ (fmlRun acc (fmlStep acc l (.announce a)).1 ops).2, ∀ b, o = some b → b.ann.hdr.src ≠ src := by
  have h1 : AtMost (fmlStep acc l (.announce a)).1 src 1 := atMost_announce l acc src 0 a h0
  have hf1 : Filed (fmlStep acc l (.announce a)).1 := filed_step acc l _ hf
  generalize (fmlStep acc l (.announce a)).1 = l1 at h1 hf1
  clear ha h0 hf
  induction ops generalizing l1 with
  | nil => intro o ho; simp [fmlRun] at ho
  | cons op ops ih =>
    intro o ho b hb
    simp only [fmlRun] at ho
    have hops' : ∀ op' ∈ ops, ∀ a', op' = .announce a' → a'.hdr.src ≠ src :=
      fun op' h' => hops op' (List.mem_cons_of_mem _ h')
    have hnext : AtMost (fmlStep acc l1 op).1 src 1 ∧ Filed (fmlStep acc l1 op).1 := by
      refine ⟨?_, filed_step acc l1 op hf1⟩
      cases op with
      | announce a' => exact atMost_other_announce l1 acc src 1 a' (hops _ List.mem_cons_self a' rfl) h1
      | bmca s => exact atMost_one_bmca l1 acc src s hf1 h1
    rcases List.mem_cons.1 ho with e | e
    · subst e
      cases op with
      | announce a' => simp [fmlStep] at hb
      | bmca s =>
        simp only [fmlStep] at hb
        exact single_record_not_selected l1 acc src b hf1 h1 hb
    · exact ih hops' _ hnext.1 hnext.2 o e b hb

/-! ### never stepsRemoved ≥ 255, never the instance's own clock identity -/

def Clean (l : FML) : Prop := l.All (fun r => r.ann.body.steps < 255 ∧ r.ann.hdr.src.clock ≠ l.own.clock)

theorem qualified_clean (l : FML) (a : Ann) (h : l.qualified a = true) :
    a.body.steps < 255 ∧ a.hdr.src.clock ≠ l.own.clock := by
  obtain ⟨h1, h2⟩ := qualified_inv l a h
  exact ⟨h2, h1⟩

theorem clean_step (acc : Option (List Nat)) (l : FML) (op : FOp) (h : Clean l) : Clean (fmlStep acc l op).1 := by
  have hreg : ∀ (l' : FML) (a : Ann) (age : Int), Clean l' →
      (l'.qualified a = true → a.body.steps < 255 ∧ a.hdr.src.clock ≠ l'.own.clock) → Clean (l'.register a age) := by
    intro l' a age hc hq
    unfold Clean
    rw [(register_own l' a age).1]
    exact FML.register_all (fun x => x.body.steps < 255 ∧ x.hdr.src.clock ≠ l'.own.clock) l' a age hc hq
  cases op with
  | announce a =>
    simp only [fmlStep, bmcaRegister]
    split
    · exact hreg l a 0 h (qualified_clean l a)
    · exact h
  | bmca s =>
    simp only [fmlStep]
    have htb : Clean (takeBest l acc).1 := by
      unfold takeBest
      cases hq : l.takeQualified with
      | mk l1 qs =>
        have hown : l1.own = l.own := by have := (takeQualified_own l).1; rw [hq] at this; exact this
        have h1 : Clean l1 := by
          intro m hm r hr
          have := (takeQualified_spec l).1 m (by rw [hq]; exact hm)
          obtain ⟨m0, hm0, _, e2⟩ := this
          rw [hown]
          exact h m0 hm0 r (e2 r hr)
        simp only
        split
        · exact h1
        · split
          · exact hreg l1 _ _ h1 (qualified_clean l1 _)
          · exact h1
    unfold Clean
    rw [(stepAge_own _ s).1]
    exact FML.stepAge_all (fun x => x.body.steps < 255 ∧ x.hdr.src.clock ≠ (takeBest l acc).1.own.clock) _ s htb

/-- **Never stepsRemoved ≥ 255, never the own clock identity** as a parent candidate. -/
theorem erbest_clean (l : FML) (acc : Option (List Nat)) (b : Best) (hc : Clean l)
    (h : (takeBest l acc).2 = some b) : b.ann.body.steps < 255 ∧ b.ann.hdr.src.clock ≠ l.own.clock := by
  obtain ⟨m, hm, _, hl⟩ := erbest_needs_threshold l acc b h
  exact hc m hm _ (List.mem_of_getLast? hl)

/-- … for every history from an empty list -/
theorem history_clean (acc : Option (List Nat)) (interval : Int) (own : PortId) (ops : List FOp) :
    ∀ o ∈ (fmlRun acc (emptyFML interval own) ops).2, ∀ b, o = some b →
      b.ann.body.steps < 255 ∧ b.ann.hdr.src.clock ≠ own.clock := by
  have hown : ∀ (l : FML) (op : FOp), (fmlStep acc l op).1.own = l.own := by
    intro l op
    cases op with
    | announce a => simp only [fmlStep, bmcaRegister]; split; exact (register_own _ _ _).1; rfl
    | bmca s =>
      simp only [fmlStep]
      rw [(stepAge_own _ s).1]
      unfold takeBest
      cases hq : l.takeQualified with
      | mk l1 qs =>
        have : l1.own = l.own := by have := (takeQualified_own l).1; rw [hq] at this; exact this
        simp only
        split
        · exact this
        · split
          · rw [(register_own _ _ _).1]; exact this
          · exact this
  have key : ∀ (l : FML), Clean l → l.own = own → ∀ o ∈ (fmlRun acc l ops).2, ∀ b, o = some b →
      b.ann.body.steps < 255 ∧ b.ann.hdr.src.clock ≠ own.clock := by
    induction ops with
    | nil => intro l _ _ o ho; simp [fmlRun] at ho
    | cons op ops ih =>
      intro l hc ho o hmem b hb
      simp only [fmlRun] at hmem
      rcases List.mem_cons.1 hmem with e | e
      · subst e
        cases op with
        | announce a => simp [fmlStep] at hb
        | bmca s =>
          simp only [fmlStep] at hb
          rw [← ho]; exact erbest_clean l acc b hc hb
      · exact ih _ (clean_step acc l op hc) ((hown l op).trans ho) o e b hb
  exact key (emptyFML interval own) (by intro m hm; simp [emptyFML] at hm) rfl

/-! ### inside the window; silence expires -/

/-- all stored records are younger than the window (4 announce intervals) -/
def Fresh (l : FML) : Prop := l.All (fun r => r.age < l.cutoff)

theorem cutoff_eq (l l' : FML) (h : l'.interval = l.interval) : l'.cutoff = l.cutoff := by
  unfold FML.cutoff; rw [h]

theorem fresh_stepAge (l : FML) (s : Int) : Fresh (l.stepAge s) := by
  intro m hm r hr
  simp only [FML.stepAge, List.mem_filter, List.mem_map] at hm
  obtain ⟨⟨m0, _, rfl⟩, _⟩ := hm
  rw [cutoff_eq l (l.stepAge s) (stepAge_own l s).2]
  exact purge_age _ _ r hr

/-- **Only Announces inside the window count**: right after any BMCA run every stored record — hence
every record the next run can qualify on — is younger than 4 announce intervals. -/
theorem fresh_after_bmca (acc : Option (List Nat)) (l : FML) (s : Int) : Fresh (fmlStep acc l (.bmca s)).1 :=
  fresh_stepAge _ s

/-- every record of `src` is at least `t` old -/
def MinAge (l : FML) (src : PortId) (t : Int) : Prop := ∀ m ∈ l.masters, m.id = src → ∀ r ∈ m.recs, t ≤ r.age

theorem minAge_bmca (acc : Option (List Nat)) (l : FML) (src : PortId) (t s : Int) (hf : Filed l)
    (h : MinAge l src t) : MinAge (fmlStep acc l (.bmca s)).1 src (t + s) := by
  simp only [fmlStep]
  have htb : MinAge (takeBest l acc).1 src t := by
    unfold takeBest
    cases hq : l.takeQualified with
    | mk l1 qs =>
      have h1 : MinAge l1 src t := by
        intro m hm hid r hr
        obtain ⟨m0, hm0, e1, e2⟩ := (takeQualified_spec l).1 m (by rw [hq]; exact hm)
        exact h m0 hm0 (e1 ▸ hid) r (e2 r hr)
      simp only
      cases hb : findBest (qs.map (fun r => ({ ann := r.ann, age := r.age, identity := l.own } : Best))) with
      | none => exact h1
      | some b =>
        simp only
        have hbsel : (takeBest l acc).2 = some b := by unfold takeBest; rw [hq]; simp only [hb]
        obtain ⟨m0, hm0, _, hl⟩ := erbest_needs_threshold l acc b hbsel
        have hrm : (⟨b.ann, b.age⟩ : FRec) ∈ m0.recs := List.mem_of_getLast? hl
        have hsrc : b.ann.hdr.src = m0.id := hf m0 hm0 _ hrm
        split
        · intro m hm hid r hr
          rcases register_mem l1 b.ann b.age m hm with e | ⟨mm, hmm, he, rfl, _⟩ | ⟨rfl, _, hnone⟩
          · exact h1 m e hid r hr
          · rw [register_id] at hid
            rcases register_recs _ _ _ _ r hr with e | e
            · exact h1 mm hmm hid r e
            · subst e
              -- the re-registered record keeps its age, and it came from a master filed under `src`
              have : m0.id = src := by rw [← hsrc]; exact he.symm.trans hid
              exact h m0 hm0 this _ hrm
          · -- a fresh entry (age 0) is impossible: the master survived takeQualified
            exfalso
            obtain ⟨m', hm', e'⟩ := takeQualified_onto l m0 hm0
            rw [hq] at hm'
            exact hnone ⟨m', hm', by rw [e', hsrc]⟩
        · exact h1
  intro m hm hid r hr
  simp only [FML.stepAge, List.mem_filter, List.mem_map] at hm
  obtain ⟨⟨m0, hm0, rfl⟩, _⟩ := hm
  have := purge_sub _ _ r hr
  simp only [ForeignMaster.stepAge, List.mem_map] at this
  obtain ⟨r0, hr0, rfl⟩ := this
  have := htb m0 hm0 hid r0 hr0
  simp only
  omega

/-- **Silence expires.** If `src` sends nothing while BMCA runs whose steps add up to the window
(4 announce intervals) or more go by, no record of `src` is left — it can no longer be selected. -/
theorem silence_expires (acc : Option (List Nat)) (src : PortId) (steps : List Int) :
    ∀ (l : FML) (t : Int), Filed l → MinAge l src t → (∀ s ∈ steps, 0 ≤ s) → steps ≠ [] →
      l.cutoff ≤ t + steps.sum →
      ∀ m ∈ (fmlRun acc l (steps.map .bmca)).1.masters, m.id ≠ src := by
  induction steps with
  | nil => intro _ _ _ _ _ h; exact absurd rfl h
  | cons s rest ih =>
    intro l t hf hm hpos _ hsum m hmem
    simp only [List.map_cons, fmlRun] at hmem
    have hf1 := filed_step acc l (.bmca s) hf
    have hm1 := minAge_bmca acc l src t s hf hm
    have hint : (fmlStep acc l (.bmca s)).1.interval = l.interval := by
      simp only [fmlStep]
      rw [(stepAge_own _ s).2]
      unfold takeBest
      cases hq : l.takeQualified with
      | mk l1 qs =>
        have : l1.interval = l.interval := by have := (takeQualified_own l).2; rw [hq] at this; exact this
        simp only
        split
        · exact this
        · split
          · rw [(register_own _ _ _).2]; exact this
          · exact this
    cases rest with
    | nil =>
      simp only [List.map_nil, fmlRun] at hmem
      simp only [List.sum_cons, List.sum_nil, Int.add_zero] at hsum
      intro hid
      -- every remaining record of src would be both ≥ t + s ≥ cutoff and < cutoff
      have hfresh := fresh_after_bmca acc l s
      simp only [fmlStep, FML.stepAge, List.mem_filter] at hmem
      have hne : m.recs ≠ [] := by
        intro e; have := hmem.2; simp [e] at this
      obtain ⟨r, hr⟩ := List.exists_mem_of_ne_nil _ hne
      have hm' : m ∈ (fmlStep acc l (.bmca s)).1.masters := by
        simp only [fmlStep, FML.stepAge, List.mem_filter]; exact hmem
      have a1 := hm1 m hm' hid r hr
      have a2 := hfresh m hm' r hr
      rw [cutoff_eq l _ hint] at a2
      omega
    | cons s2 rest2 =>
      have := ih (fmlStep acc l (.bmca s)).1 (t + s) hf1 hm1
        (fun x hx => hpos x (List.mem_cons_of_mem _ hx)) (by simp)
        (by rw [cutoff_eq l _ hint]; simp only [List.sum_cons] at hsum ⊢; omega)
      exact this m hmem

/-- an Announce of clock `clock`, port `port` with sequence number `seq` -/
def annOf' (clock port seq : Nat) : Ann :=
  ⟨{ src := ⟨clock, port⟩, seq := seq },
   { origin := ⟨0, 0⟩, utcOffset := 0, p1 := 128, clockClass := 248, accuracy := 0xfe, variance := 0xffff, p2 := 128, gm := clock,
     steps := 0, timeSource := 0xa0 }⟩

/-! ### a master that keeps announcing is never dropped

Proved for a port that hears one foreign master (the list holds one entry): one Announce per BMCA
period, consecutive sequence numbers modulo 2^16 — so the 65535→0 wrap is inside the statement —
and a BMCA period shorter than the window. Every BMCA run then selects that master, with the
Announce of the round, for ever. With several foreign masters on one port the statement is about
the best of them only (the others lose their newest record on every run and are not re-registered —
`atMost_one_bmca` above is the one-record instance of that): `steady_master_among_others_is_never_dropped`
further down. -/

/-- rounds of `[Announce a, BMCA step s]` -/
def rounds : List (Ann × Int) → List FOp
  | [] => []
  | (a, s) :: rs => .announce a :: .bmca s :: rounds rs

/-- each round's Announce carries the successor of the previous sequence number and each BMCA
period is shorter than the window -/
def Chain (c : Steady.Ctx) (cutoff : Int) : Nat → List (Ann × Int) → Prop
  | _, [] => True
  | q, (a, s) :: rs => Steady.Next c q a ∧ s < cutoff ∧ Chain c cutoff a.hdr.seq rs

/-- what the BMCA runs of the rounds report: nothing for the Announce, the round's Announce as
Erbest for the BMCA run -/
def expected (own : PortId) : List (Ann × Int) → List (Option Best)
  | [] => []
  | (a, _) :: rs => none :: some ⟨a, 0, own⟩ :: expected own rs

theorem steady_from_post (c : Steady.Ctx) (hl : c.Listens) (rs : List (Ann × Int)) :
    ∀ (l : FML) (q : Nat), 0 < l.cutoff → Steady.Post c l q → Chain c l.cutoff q rs →
      (fmlRun c.acc l (rounds rs)).2 = expected c.own rs ∧
      ∃ q', Steady.Post c (fmlRun c.acc l (rounds rs)).1 q' := by
  induction rs with
  | nil => intro l q _ hp _; exact ⟨rfl, q, hp⟩
  | cons r rs ih =>
    intro l q hpos hp hch
    obtain ⟨a, s⟩ := r
    obtain ⟨hn, hs, hrest⟩ := hch
    have hmid := Steady.announce_step c l q a hl hpos hp hn
    have hcut1 : (bmcaRegister l c.acc a).1.cutoff = l.cutoff :=
      Steady.cutoff_congr l _ (by rw [hmid.1, hp.1])
    have hb := Steady.bmca_step c (bmcaRegister l c.acc a).1 a s hl (by rw [hcut1]; exact hs) hn.1 hn.2.2 hmid
    have hcut2 : ((takeBest (bmcaRegister l c.acc a).1 c.acc).1.stepAge s).cutoff = l.cutoff :=
      Steady.cutoff_congr l _ (by rw [hb.2.1, hp.1])
    have := ih _ a.hdr.seq (by rw [hcut2]; exact hpos) hb.2 (by rw [hcut2]; exact hrest)
    simp only [rounds, fmlRun, fmlStep, expected]
    refine ⟨?_, this.2⟩
    rw [this.1, hb.1]

/-- **A master that keeps announcing is never dropped** (one foreign master on the port): starting
from an empty list, after the first Announce every round of "next Announce, BMCA run" — for any
number of rounds, across any number of sequence-number wraps — reports that master as Erbest with
the round's Announce. In particular it qualifies on its second Announce and never loses
qualification. -/
theorem steady_master_is_never_dropped (c : Steady.Ctx) (hl : c.Listens) (a0 : Ann) (rs : List (Ann × Int))
    (hsrc : a0.hdr.src = c.src) (hq : a0.hdr.seq < 65536) (hsteps : a0.body.steps < STEPS_CUTOFF)
    (hpos : 0 < (emptyFML c.interval c.own).cutoff)
    (hch : Chain c (emptyFML c.interval c.own).cutoff a0.hdr.seq rs) :
    (fmlRun c.acc (emptyFML c.interval c.own) (.announce a0 :: rounds rs)).2 = none :: expected c.own rs := by
  have hp : Steady.Post c (bmcaRegister (emptyFML c.interval c.own) c.acc a0).1 a0.hdr.seq :=
    Steady.first_announce c a0 hl hsrc hq hsteps hpos
  have hcut : (bmcaRegister (emptyFML c.interval c.own) c.acc a0).1.cutoff = (emptyFML c.interval c.own).cutoff :=
    Steady.cutoff_congr _ _ (by rw [hp.1]; rfl)
  have := steady_from_post c hl rs _ a0.hdr.seq (by rw [hcut]; exact hpos) hp (by rw [hcut]; exact hch)
  simp only [fmlRun, fmlStep]
  rw [this.1]

/-- the hypotheses are met across the wrap: sequence numbers 65534, 65535, 0, 1 -/
example :
    let c : Steady.Ctx := ⟨65536000000000, ⟨9, 1⟩, none, ⟨5, 1⟩⟩
    c.Listens ∧ 0 < (emptyFML c.interval c.own).cutoff ∧
    Chain c (emptyFML c.interval c.own).cutoff 65534
      [(annOf' 5 1 65535, 1000), (annOf' 5 1 0, 1000), (annOf' 5 1 1, 1000)] := by
  simp only [Chain, Steady.Next, Steady.Ctx.Listens]
  decide +kernel

/-! ### … and among other masters

The same statement for a port that hears several foreign masters, where the steady one is the best of them:
`Lemmas/FmlMulti.lean` splits the list around the steady master's entry and shows that every operation acts on
that entry as in the one-master case while the others keep their shape. -/

theorem fmlRun_append (acc : Option (List Nat)) (xs ys : List FOp) : ∀ (l : FML),
    fmlRun acc l (xs ++ ys) = ((fmlRun acc (fmlRun acc l xs).1 ys).1, (fmlRun acc l xs).2 ++ (fmlRun acc (fmlRun acc l xs).1 ys).2) := by
  induction xs with
  | nil => intro l; simp [fmlRun]
  | cons x xs ih =>
    intro l
    simp only [List.cons_append, fmlRun]
    rw [ih]

/-- a round: Announces of other senders, the steady master's Announce, more Announces of others, a BMCA run -/
structure Round where
  before : List Ann
  a : Ann
  after : List Ann
  s : Int

def Round.ops (r : Round) : List FOp :=
  r.before.map .announce ++ [.announce r.a] ++ r.after.map .announce ++ [.bmca r.s]

def mrounds : List Round → List FOp
  | [] => []
  | r :: rs => r.ops ++ mrounds rs

def mexpected (own : PortId) : List Round → List (Option Best)
  | [] => []
  | r :: rs => List.replicate r.before.length none ++ [none] ++ List.replicate r.after.length none ++ [some ⟨r.a, 0, own⟩] ++ mexpected own rs

def MChain (c : Steady.Ctx) (G : Ann → Prop) (cutoff : Int) : Nat → List Round → Prop
  | _, [] => True
  | q, r :: rs => (∀ a' ∈ r.before ++ r.after, Multi.SOther c G a') ∧ Steady.Next c q r.a ∧ G r.a ∧ r.s < cutoff ∧
      MChain c G cutoff r.a.hdr.seq rs

/-- Announces of other senders: nothing is reported, the shape between rounds is kept -/
theorem others_post (c : Steady.Ctx) (G : Ann → Prop) (as : List Ann) : ∀ (l : FML) (q : Nat),
    Multi.MPost c G l q → (∀ a' ∈ as, Multi.SOther c G a') →
    (fmlRun c.acc l (as.map .announce)).2 = List.replicate as.length none ∧
    Multi.MPost c G (fmlRun c.acc l (as.map .announce)).1 q := by
  induction as with
  | nil => intro l q h _; exact ⟨rfl, h⟩
  | cons a as ih =>
    intro l q h hs
    have h1 := Multi.m_announce_other_post c G l q a h (hs a List.mem_cons_self)
    have := ih _ q h1 (fun x hx => hs x (List.mem_cons_of_mem _ hx))
    simp only [List.map_cons, fmlRun, fmlStep, List.length_cons, List.replicate_succ]
    exact ⟨by rw [this.1], this.2⟩

theorem others_mid (c : Steady.Ctx) (G : Ann → Prop) (a : Ann) (as : List Ann) : ∀ (l : FML),
    Multi.MMid c G l a → (∀ a' ∈ as, Multi.SOther c G a') →
    (fmlRun c.acc l (as.map .announce)).2 = List.replicate as.length none ∧
    Multi.MMid c G (fmlRun c.acc l (as.map .announce)).1 a := by
  induction as with
  | nil => intro l h _; exact ⟨rfl, h⟩
  | cons x as ih =>
    intro l h hs
    have h1 := Multi.m_announce_other_mid c G l a x h (hs x List.mem_cons_self)
    have := ih _ h1 (fun y hy => hs y (List.mem_cons_of_mem _ hy))
    simp only [List.map_cons, fmlRun, fmlStep, List.length_cons, List.replicate_succ]
    exact ⟨by rw [this.1], this.2⟩

theorem cutoff_post (c : Steady.Ctx) (G : Ann → Prop) (l l' : FML) (q q' : Nat) (h : Multi.MPost c G l q)
    (h' : Multi.MPost c G l' q') : l'.cutoff = l.cutoff := Steady.cutoff_congr l l' (by rw [h'.1, h.1])

theorem one_round (c : Steady.Ctx) (G : Ann → Prop) (hl : c.Listens) (r : Round) (l : FML) (q : Nat)
    (hpos : 0 < l.cutoff) (hp : Multi.MPost c G l q)
    (hb : ∀ a' ∈ r.before ++ r.after, Multi.SOther c G a') (hn : Steady.Next c q r.a) (hG : G r.a) (hs : r.s < l.cutoff) :
    (fmlRun c.acc l r.ops).2 =
      List.replicate r.before.length none ++ [none] ++ List.replicate r.after.length none ++ [some ⟨r.a, 0, c.own⟩] ∧
    Multi.MPost c G (fmlRun c.acc l r.ops).1 r.a.hdr.seq := by
  have h1 := others_post c G r.before l q hp (fun x hx => hb x (List.mem_append_left _ hx))
  have hc1 : (fmlRun c.acc l (r.before.map .announce)).1.cutoff = l.cutoff := cutoff_post c G l _ q q hp h1.2
  have h2 := Multi.m_announce_src c G _ q r.a hl (by rw [hc1]; exact hpos) h1.2 hn
  have hc2 : (bmcaRegister (fmlRun c.acc l (r.before.map .announce)).1 c.acc r.a).1.cutoff = l.cutoff :=
    Steady.cutoff_congr l _ (by rw [h2.1, hp.1])
  have h3 := others_mid c G r.a r.after _ h2 (fun x hx => hb x (List.mem_append_right _ hx))
  have hc3 : (fmlRun c.acc (bmcaRegister (fmlRun c.acc l (r.before.map .announce)).1 c.acc r.a).1 (r.after.map .announce)).1.cutoff = l.cutoff :=
    Steady.cutoff_congr l _ (by rw [h3.2.1, hp.1])
  have h4 := Multi.m_bmca c G _ r.a r.s hl (by rw [hc3]; exact hs) hn.1 hn.2.2 hG h3.2
  unfold Round.ops
  rw [fmlRun_append, fmlRun_append, fmlRun_append]
  simp only [fmlRun, fmlStep]
  rw [h1.1, h3.1, h4.1]
  exact ⟨by simp, h4.2⟩

theorem steady_among_others_from_post (c : Steady.Ctx) (G : Ann → Prop) (hl : c.Listens) (rs : List Round) :
    ∀ (l : FML) (q : Nat), 0 < l.cutoff → Multi.MPost c G l q → MChain c G l.cutoff q rs →
      (fmlRun c.acc l (mrounds rs)).2 = mexpected c.own rs := by
  induction rs with
  | nil => intro l q _ _ _; rfl
  | cons r rs ih =>
    intro l q hpos hp hch
    obtain ⟨hb, hn, hG, hs, hrest⟩ := hch
    have h := one_round c G hl r l q hpos hp hb hn hG hs
    have hc : (fmlRun c.acc l r.ops).1.cutoff = l.cutoff := cutoff_post c G l _ q _ hp h.2
    have := ih _ r.a.hdr.seq (by rw [hc]; exact hpos) h.2 (by rw [hc]; exact hrest)
    simp only [mrounds, mexpected]
    rw [fmlRun_append, h.1, this]

/-- a lower priority1 and another grandmaster: better both ways round (Figure 34, first test) -/
theorem dom_of_lower_priority1 (own : PortId) (a a' : Ann) (hgm : a.body.gm ≠ a'.body.gm) (hp : a.body.p1 < a'.body.p1) :
    Multi.Dom own a a' := by
  unfold Multi.Dom CmpDS.compare
  have h1 : ¬ (CmpDS.ofAnnounce a own).gmId = (CmpDS.ofAnnounce a' own).gmId := hgm
  have h2 : ¬ (CmpDS.ofAnnounce a' own).gmId = (CmpDS.ofAnnounce a own).gmId := fun e => hgm e.symm
  rw [if_neg h1, if_neg h2]
  have hlt : (CmpDS.ofAnnounce a own).gmP1 < (CmpDS.ofAnnounce a' own).gmP1 := hp
  have hnlt : ¬ (CmpDS.ofAnnounce a' own).gmP1 < (CmpDS.ofAnnounce a own).gmP1 := by
    have : (CmpDS.ofAnnounce a' own).gmP1 = a'.body.p1 := rfl
    have : (CmpDS.ofAnnounce a own).gmP1 = a.body.p1 := rfl
    omega
  constructor
  · unfold compareDifferent lexCmp
    rw [if_pos hlt]
    rfl
  · unfold compareDifferent lexCmp
    rw [if_neg hnlt, if_pos hlt]
    rfl

/-- **A master that keeps announcing is never dropped — among other masters.** A port hears any number of foreign
masters. One of them (`c.src`) announces once per BMCA period with consecutive sequence numbers modulo 2^16, and
each of its Announces beats, in the data set comparison, everything the others announce (`SOther`; for instance by
a lower priority1, `dom_of_lower_priority1`). The others may announce whatever and whenever they like, between the
rounds and inside them. Then, from the steady master's first Announce on, every BMCA run — for any number of
rounds and sequence-number wraps — reports it as Erbest with the Announce of that round. -/
theorem steady_master_among_others_is_never_dropped (c : Steady.Ctx) (G : Ann → Prop) (hl : c.Listens) (l0 : FML)
    (hint : l0.interval = c.interval) (hown : l0.own = c.own)
    (hothers : Multi.Others c.src (Multi.SOther c G) l0.masters) (hroom : l0.masters.length < MAX_FOREIGN_MASTERS)
    (a0 : Ann) (hsrc : a0.hdr.src = c.src) (hq : a0.hdr.seq < 65536) (hsteps : a0.body.steps < STEPS_CUTOFF)
    (hpos : 0 < l0.cutoff) (rs : List Round) (hch : MChain c G l0.cutoff a0.hdr.seq rs) :
    (fmlRun c.acc l0 (.announce a0 :: mrounds rs)).2 = none :: mexpected c.own rs := by
  have hp := Multi.m_first c G l0 a0 hl hint hown hothers hroom hsrc hq hsteps hpos
  have hc : (bmcaRegister l0 c.acc a0).1.cutoff = l0.cutoff := Steady.cutoff_congr l0 _ (by rw [hp.1, hint])
  have := steady_among_others_from_post c G hl rs _ a0.hdr.seq (by rw [hc]; exact hpos) hp (by rw [hc]; exact hch)
  simp only [fmlRun, fmlStep]
  rw [this]

/-- the hypotheses are met: a steady master with priority1 10 among two others with priority1 200, across the wrap -/
example :
    let c : Steady.Ctx := ⟨65536000000000, ⟨9, 1⟩, none, ⟨5, 1⟩⟩
    let G : Ann → Prop := fun a => a.body.gm = 5 ∧ a.body.p1 = 10
    let good (seq : Nat) : Ann := ⟨{ src := ⟨5, 1⟩, seq := seq }, { (annOf' 5 1 0).body with p1 := 10 }⟩
    let other (clock seq : Nat) : Ann := ⟨{ src := ⟨clock, 1⟩, seq := seq }, { (annOf' clock 1 0).body with p1 := 200 }⟩
    c.Listens ∧ 0 < (emptyFML c.interval c.own).cutoff ∧
    MChain c G (emptyFML c.interval c.own).cutoff 65534
      [⟨[other 7 3], good 65535, [other 8 1], 1000⟩, ⟨[], good 0, [other 7 4, other 8 2], 1000⟩] := by
  intro c G good other
  have hso : ∀ clock seq, clock ≠ 5 → Multi.SOther c G (other clock seq) := by
    intro clock seq hne
    refine ⟨?_, ?_⟩
    · intro h
      have : clock = 5 := by
        have := congrArg PortId.clock h
        simpa [other] using this
      exact hne this
    · intro a hG
      apply dom_of_lower_priority1
      · rw [hG.1]; simp [other, annOf']; omega
      · rw [hG.2]; simp [other]
  refine ⟨by simp only [Steady.Ctx.Listens]; decide +kernel, by decide +kernel, ?_⟩
  simp only [MChain, Steady.Next, List.mem_append, List.mem_cons, List.not_mem_nil, or_false, false_or, forall_eq_or_imp,
    forall_eq]
  refine ⟨⟨hso 7 3 (by decide), hso 8 1 (by decide)⟩, ⟨rfl, by decide, by decide⟩, ⟨rfl, rfl⟩, by decide +kernel,
    ⟨hso 7 4 (by decide), hso 8 2 (by decide)⟩, ⟨rfl, by decide, by decide⟩, ⟨rfl, rfl⟩, by decide +kernel, trivial⟩


/-- the successor sequence number (mod 2^16) is always accepted, across the wrap as well -/
theorem seqStale_next (last : Nat) (h : last < 65536) : seqStale ((last + 1) % 65536) last = false := by
  unfold seqStale SEQ_HALF
  simp only [ge_iff_le, decide_eq_false_iff_not, Nat.not_le]
  omega

/-- and any of the next 32766 numbers is; the same number again (difference 0) is accepted too —
this is the known finding `parent-on-duplicated-single-announce` -/
theorem seqStale_iff (new last : Nat) (hn : new < 65536) (hl : last < 65536) :
    seqStale new last = false ↔ (new + 65536 - last) % 65536 < 32767 := by
  unfold seqStale SEQ_HALF
  simp only [ge_iff_le, decide_eq_false_iff_not, Nat.not_le]

theorem duplicate_accepted (s : Nat) (h : s < 65536) : seqStale s s = false := by
  unfold seqStale SEQ_HALF
  simp only [ge_iff_le, decide_eq_false_iff_not, Nat.not_le]
  omega

/-! ### Non-vacuity -/

def annOf (clock port seq steps : Nat) : Ann :=
  ⟨{ src := ⟨clock, port⟩, seq := seq },
   { origin := ⟨0, 0⟩, utcOffset := 0, p1 := 128, clockClass := 248, accuracy := 0xfe, variance := 0xffff, p2 := 128, gm := clock,
     steps := steps, timeSource := 0xa0 }⟩

def sampleList : FML := emptyFML 65536000000000 ⟨9, 1⟩

def lastQualified (ops : List FOp) : Option Bool := (fmlRun none sampleList ops).2.getLast?.map (·.isSome)

/-- two Announces then a BMCA run do qualify; one does not; a stale sequence id does not count -/
example :
    lastQualified [.announce (annOf 5 1 10 0), .announce (annOf 5 1 11 0), .bmca 1000] = some true ∧
    lastQualified [.announce (annOf 5 1 10 0), .bmca 1000] = some false ∧
    lastQualified [.announce (annOf 5 1 10 0), .announce (annOf 5 1 9 0), .bmca 1000] = some false := by
  decide +kernel

/-! ### the qualification rules as translated from the source on this run
(`translator/extract_qualified.py` → `Generated/Qualification.lean`, interpreter `Lemmas/QualGen.lean`) -/
section Translated
open Statime.QualGen

/-- **`is_announce_message_qualified` as translated on this run is the model's `FML.qualified`**: the own-clock
rule, the sequence-number freshness rule against the last stored message of that master (operator and bound,
`u16::MAX / 2` and named constants evaluated) and the stepsRemoved cut-off (operator and bound), for every foreign
master list and Announce -/
theorem generated_qualification_is_model (l : FML) (a : Ann) :
    ∀ rules, Generated.qualificationRules = some rules → evalQualified rules l a = l.qualified a := by
  intro rules h
  unfold Generated.qualificationRules at h
  cases h
  all_goals (
    unfold evalQualified FML.qualified FML.stale
    simp only [List.all_cons, List.all_nil, Bool.and_true, QRule.rejects, exceeds, seqStale, SEQ_HALF, STEPS_CUTOFF, if_true]
    have e1 : (!decide (a.hdr.src.clock = l.own.clock)) = decide (a.hdr.src.clock ≠ l.own.clock) := by simp
    have e3 : (!decide (255 ≤ a.body.steps)) = decide (a.body.steps < 255) := by
      by_cases h : 255 ≤ a.body.steps
      · have : ¬ a.body.steps < 255 := by omega
        simp [h, this]
      · have : a.body.steps < 255 := by omega
        simp [h, this]
    rw [e1, e3, Bool.and_assoc]
    rfl)

end Translated

end Statime.C06
