import StatimeModel.Props.C11
/-
C17 — Shared instance state is never locked re-entrantly or seen half-updated.

`Inst.lockTrace` (Model/Instance.lean) lists, for every host call, the acquisitions of the instance-state lock
the code performs, in order; the correspondence run compares it with the trace a recording lock sees in the real
library, where a nested acquisition would show up as `rw..` instead of `r.w.`. Property theorems only.
-/
namespace Statime.C17
open Statime

def writes (t : List LockEv) : Nat := (t.filter (fun e => e = .w)).length

theorem writes_replicate_r (n : Nat) : writes (List.replicate n .r) = 0 := by
  induction n with
  | zero => rfl
  | succ n ih => simp only [List.replicate_succ, writes, List.filter_cons] at ih ⊢; simpa using ih

theorem recvLocks_writes (p : Port) (s : InstState) (data : List UInt8) (ev : Bool) : writes (recvLocks p s data ev) ≤ 1 := by
  unfold recvLocks
  split
  · decide
  · split
    · decide
    · split
      · split
        · split
          · split <;> decide
          · decide
        · split <;> decide
        · decide
      · decide

/-- **No host call takes the lock for writing more than once**: everything a call changes in the shared data
sets it changes inside a single critical section (and the sections of a call are strictly one after the other —
the trace is a flat list, there is no acquisition inside another). -/
theorem writes_at_most_once (i : Inst) (op : Op) : writes (i.lockTrace op) ≤ 1 := by
  cases op with
  | gen k data => simp only [Inst.lockTrace]; split; exact recvLocks_writes _ _ _ _; decide
  | evt k data ts => simp only [Inst.lockTrace]; split; exact recvLocks_writes _ _ _ _; decide
  | tmrAnnounce k loose q =>
    simp only [Inst.lockTrace]
    split
    · split
      · have := writes_replicate_r (q.length - (Port.announceFwd ‹Port› i.st q loose).2.length)
        simp only [writes, List.filter_cons] at this ⊢
        simpa using Nat.le_of_eq_of_le this (Nat.zero_le 1)
      · decide
    · decide
  | tmr k t =>
    cases t <;> simp only [Inst.lockTrace] <;> (try decide) <;> split <;> (try decide) <;> split <;> (try decide) <;> split <;> decide
  | txts k ctx ts =>
    cases ctx <;> simp only [Inst.lockTrace] <;> (try decide) <;> split <;> (try decide) <;> split <;> decide
  | bmca _ => simp only [Inst.lockTrace]; decide
  | setSlaveOnly _ => simp only [Inst.lockTrace]; decide
  | setQuality _ => simp only [Inst.lockTrace]; decide
  | addPort _ => simp only [Inst.lockTrace]; decide

theorem mem_w_of_writes {t : List LockEv} (h : LockEv.w ∉ t) : writes t = 0 := by
  unfold writes
  rw [List.length_eq_zero_iff, List.filter_eq_nil_iff]
  intro e he hw
  simp only [decide_eq_true_eq] at hw
  exact h (hw ▸ he)

theorem recv_state (p p' : Port) (s s' : InstState) (data : List UInt8) (o : List Out) (ev : Bool)
    (h : (∃ m, parseAndFilter s data = some m ∧ p.handleGeneralInternal s m = .ok (p', s', o)))
    (hw : LockEv.w ∉ recvLocks p s data ev) : s' = s := by
  obtain ⟨m, hpf, hi⟩ := h
  rcases C11.frames_keep_datasets p p' s s' m o hi with e | ⟨hs, hsrc, ab, hb⟩
  · exact e
  · exfalso
    apply hw
    obtain ⟨hd, hsdo, hdom⟩ := parseAndFilter_spec s data m hpf
    have hc : isCompatible data = true := by
      unfold parseAndFilter at hpf
      cases hcc : isCompatible data with
      | true => rfl
      | false => rw [hcc] at hpf; simp at hpf
    unfold recvLocks
    rw [hc, hd]
    simp only [Bool.not_true, Bool.false_eq_true, if_false]
    rw [if_pos ⟨hsdo, hdom⟩, hb]
    simp only
    rw [if_pos hs, if_pos hsrc]
    simp

/-- **A call that does not take the lock for writing changes nothing in the shared state**: every change to the
parent, current, time-properties, path-trace or default data set happens under the (single) write acquisition. -/
theorem no_write_no_change (i i' : Inst) (op : Op) (obs : Obs) (q : Nat) (h : i.step op = .ok (i', obs, q))
    (hw : LockEv.w ∉ i.lockTrace op) : i'.st = i.st := by
  cases hph : i.portHandler op with
  | none =>
    cases op with
    | bmca _ => exact absurd (by simp [Inst.lockTrace]) hw
    | setSlaveOnly _ => exact absurd (by simp [Inst.lockTrace]) hw
    | setQuality _ => exact absurd (by simp [Inst.lockTrace]) hw
    | addPort _ => exact absurd (by simp [Inst.lockTrace]) hw
    | tmr k t =>
      cases t with
      | filter =>
        simp only [Inst.step, hph, Inst.other, Except.ok.injEq, Prod.mk.injEq] at h
        rw [← h.1]
      | announce | sync | delay | receipt => simp [Inst.portHandler] at hph
    | gen _ _ => simp [Inst.portHandler] at hph
    | evt _ _ _ => simp [Inst.portHandler] at hph
    | tmrAnnounce _ _ _ => simp [Inst.portHandler] at hph
    | txts _ _ _ => simp [Inst.portHandler] at hph
  | some kf =>
    obtain ⟨k, f⟩ := kf
    simp only [Inst.step, hph] at h
    unfold Inst.withPort at h
    cases hk : portAt i.ports k with
    | none => rw [hk] at h; simp only [Except.ok.injEq, Prod.mk.injEq] at h; rw [← h.1]
    | some p =>
      rw [hk] at h
      simp only at h
      cases hx : f p with
      | error e => rw [hx] at h; cases h
      | ok v =>
        obtain ⟨p', s', o, q'⟩ := v
        rw [hx] at h
        simp only [Except.ok.injEq, Prod.mk.injEq] at h
        rw [← h.1]
        show s' = i.st
        cases op with
        | gen kk data =>
          simp only [Inst.portHandler, Option.some.injEq, Prod.mk.injEq] at hph
          obtain ⟨rfl, rfl⟩ := hph
          obtain ⟨r, hr, he⟩ := map_ok _ _ _ hx
          simp only [Prod.mk.injEq] at he
          obtain ⟨r1, r2, r3⟩ := r
          simp only at he
          obtain ⟨e1, e2, e3, _⟩ := he
          subst e1 e2 e3
          simp only [Inst.lockTrace, hk] at hw
          unfold Port.handleGeneralReceive at hr
          split at hr
          · simp only [Except.ok.injEq, Prod.mk.injEq] at hr; exact hr.2.1.symm
          · rename_i m hpf
            exact recv_state p r1 i.st r2 data r3 false ⟨m, hpf, hr⟩ hw
        | evt kk data ts =>
          simp only [Inst.portHandler, Option.some.injEq, Prod.mk.injEq] at hph
          obtain ⟨rfl, rfl⟩ := hph
          obtain ⟨r, hr, he⟩ := map_ok _ _ _ hx
          simp only [Prod.mk.injEq] at he
          obtain ⟨r1, r2, r3⟩ := r
          simp only at he
          obtain ⟨e1, e2, e3, _⟩ := he
          subst e1 e2 e3
          simp only [Inst.lockTrace, hk] at hw
          unfold Port.handleEventReceive at hr
          split at hr
          · simp only [Except.ok.injEq, Prod.mk.injEq] at hr; exact hr.2.1.symm
          · rename_i m hpf
            split at hr
            · obtain ⟨⟨a, b⟩, _, he2⟩ := map_ok _ _ _ hr; simp only [Prod.mk.injEq] at he2; exact he2.2.1.symm
            · obtain ⟨⟨a, b⟩, _, he2⟩ := map_ok _ _ _ hr; simp only [Prod.mk.injEq] at he2; exact he2.2.1.symm
            · obtain ⟨⟨a, b⟩, _, he2⟩ := map_ok _ _ _ hr; simp only [Prod.mk.injEq] at he2; exact he2.2.1.symm
            · obtain ⟨⟨a, b⟩, _, he2⟩ := map_ok _ _ _ hr; simp only [Prod.mk.injEq] at he2; exact he2.2.1.symm
            · exact recv_state p r1 i.st r2 data r3 true ⟨m, hpf, hr⟩ hw
        | tmrAnnounce kk loose fq =>
          exact C11.timers_keep_datasets i _ k f hph ⟨(by intro a b c; cases c), (by intro a b c d; cases d)⟩ p p' s' o q' hx
        | tmr kk t =>
          exact C11.timers_keep_datasets i _ k f hph ⟨(by intro a b c; cases c), (by intro a b c d; cases d)⟩ p p' s' o q' hx
        | txts kk ctx ts =>
          exact C11.timers_keep_datasets i _ k f hph ⟨(by intro a b c; cases c), (by intro a b c d; cases d)⟩ p p' s' o q' hx
        | bmca _ => simp [Inst.portHandler] at hph
        | setSlaveOnly _ => simp [Inst.portHandler] at hph
        | setQuality _ => simp [Inst.portHandler] at hph
        | addPort _ => simp [Inst.portHandler] at hph

/-! ### what a concurrent observer can see -/

/-- one critical section of some thread: what it does to the shared state while it holds the lock -/
abbrev Section := InstState → InstState

/-- the shared state after the sections that have run so far (the lock makes each of them atomic) -/
def after (s0 : InstState) (done : List Section) : InstState := done.foldl (fun s f => f s) s0

/-- **Every snapshot shows the values of whole updates only.** Whatever the interleaving of the critical sections
of all threads, an observer that takes the lock between two of them sees the state left by a prefix of complete
sections — and since each host call does all of its writing in one section (`writes_at_most_once`,
`no_write_no_change`), never a data set with some fields of one update and some of another. -/
theorem snapshot_is_prefix (s0 : InstState) (schedule : List Section) (n : Nat) :
    ∃ done rest, schedule = done ++ rest ∧ done.length = min n schedule.length ∧
      after s0 (schedule.take n) = after s0 done :=
  ⟨schedule.take n, schedule.drop n, (List.take_append_drop n schedule).symm, List.length_take, rfl⟩

/-- the update one section applies is applied entirely or not at all in what the next observer sees -/
theorem section_atomic (s0 : InstState) (done : List Section) (f : Section) :
    after s0 (done ++ [f]) = f (after s0 done) := by
  unfold after; rw [List.foldl_append]; rfl

end Statime.C17
