import StatimeModel.Lemmas.NetOne
import StatimeModel.Lemmas.NetDemo
/-
C01 — Network converges to one grandmaster and a loop-free master/slave tree.

Property theorems about the fixed points of the abstract network model (Model/Net.lean), for every
number of nodes, every topology (segments of any size, rings, several ports of one instance on one
segment), every ranking, with non-relaying instances allowed. The `net` stream establishes that the
states real instances converge to (after a cold start and after faults) are such fixed points, and
compares every call of every instance with the instance model.

Proved: the parent relation of a fixed point is a forest rooted in live grandmasters — every Slave
port listens to a Master port of its own segment, whose instance is exactly one step closer to the
same grandmaster, so chains of parents strictly decrease in stepsRemoved (no loops), and they end at
a live instance that is in the grandmaster state and whose own attributes are the ones advertised
(no phantom grandmaster survives); and in a connected *plain* network (every instance relays, one
port per instance and segment) the root is the best-ranked instance, it is the only instance in the
grandmaster state, every instance carries its attributes and every other instance has a Slave port
(`best_is_only_grandmaster`), and every segment has exactly one Master port (`one_master_per_segment`).
Not proved: the time to (re-)convergence and absence of flapping — decided on the sampled scenarios
by the oracle.
-/
namespace Statime.C01
open Statime Statime.Net

/-- node `x` is at a fixed point of its re-evaluation: `Net.StableAt`; every live node is: `Net.Stable`;
an instance in the grandmaster state (stepsRemoved 0, its own attributes as grandmaster attributes): `Net.IsGm` -/
abbrev StableAt := @Net.StableAt
abbrev Stable := @Net.Stable
abbrev IsGm := @Net.IsGm

/-- **Every Slave port follows a Master port of its own segment, one step closer to the same grandmaster.**
In a fixed point, an instance with a Slave port has as parent a live instance with a Master port attached
to the segment of one of its own ports; its stepsRemoved is the parent's plus one and it carries the
parent's grandmaster attributes. The parent is a different clock. -/
theorem slave_follows_master_port (net : Net) (x : Nat) (c : NodeCfg) (s : NodeSt) (h : StableAt net x c s)
    (j : Nat) (hj : s.ports[j]? = some PSt.slave) :
    ∃ (n : Nat) (cn : NodeCfg) (sn : NodeSt) (k : Nat) (pc : PortCfg) (j' : Nat) (pc' : PortCfg),
      net[n]? = some (cn, sn) ∧ cn.alive = true ∧ cn.ports[k]? = some pc ∧ pc.attached = true ∧
      sn.ports.getD k PSt.listening = PSt.master ∧ c.ports[j']? = some pc' ∧ pc'.attached = true ∧ pc.seg = pc'.seg ∧
      s.parentClock = cn.id ∧ s.parentPort = k + 1 ∧ s.steps = sn.steps + 1 ∧ s.gm = sn.gm ∧ cn.id ≠ c.id :=
  Net.slave_follows_master_port net x c s h j hj

/-- **Whoever advertises is a grandmaster or a slave itself.** In a fixed point a live instance with a
Master port is either in the grandmaster state or has a Slave port of its own. -/
theorem master_port_node (net : Net) (x : Nat) (c : NodeCfg) (s : NodeSt) (h : StableAt net x c s)
    (k : Nat) (hk : s.ports.getD k .listening = .master) :
    IsGm c s ∨ ∃ j : Nat, s.ports[j]? = some PSt.slave :=
  Net.master_port_node net x c s h k hk

/-- **No loops, no phantom grandmaster.** In a fixed point of the whole network, every instance with a
Slave port follows, over exactly `stepsRemoved` parent hops, a live instance that is in the grandmaster
state, and the grandmaster attributes it holds are that instance's own. (Parent chains strictly decrease in
stepsRemoved by `slave_follows_master_port`, so the parent relation has no cycle.) -/
theorem slave_reaches_live_grandmaster (net : Net) (hst : Stable net) :
    ∀ (d x : Nat) (c : NodeCfg) (s : NodeSt), net[x]? = some (c, s) → c.alive = true →
      (∃ j : Nat, s.ports[j]? = some PSt.slave) → s.steps = d →
      ∃ (r : Nat) (cr : NodeCfg) (sr : NodeSt), net[r]? = some (cr, sr) ∧ cr.alive = true ∧ IsGm cr sr ∧ s.gm = cr.ownGm ∧ 0 < d :=
  Net.slave_reaches_live_grandmaster net hst

/-- a *plain* network: every instance alive and relaying (clockClass ≥ 128, not slave-only, no master-only
port, at least one port), all ports attached, distinct clock identities, at most one port of an instance per
segment, stepsRemoved below the cut-off of 255: `Net.Plain`. `Net.IsBest net b …`: no instance has a better own
data set than `b` (the IEEE 1588 data set comparison on default data sets). `Net.Reach net b y`: `y` is connected
to `b` over shared segments. -/
abbrev Plain := @Net.Plain

/-- **The best clock is the only grandmaster.** In a fixed point of a connected plain network — any number of
instances, any segment structure (point-to-point links, shared segments, rings), any ranking —
the best-ranked instance is in the grandmaster state; every instance carries exactly its grandmaster
attributes; no other instance is in the grandmaster state; and every other instance has a Slave port (whose
parent chain, by `slave_reaches_live_grandmaster`, then ends at the best instance after stepsRemoved hops). -/
theorem best_is_only_grandmaster (net : Net) (hst : Stable net) (hp : Plain net) (b : Nat) (cb : NodeCfg) (sb : NodeSt)
    (hb : Net.IsBest net b cb sb)
    (hconn : ∀ (y : Nat) (cy : NodeCfg) (sy : NodeSt), net[y]? = some (cy, sy) → Net.Reach net b y) :
    IsGm cb sb ∧
    (∀ (y : Nat) (cy : NodeCfg) (sy : NodeSt), net[y]? = some (cy, sy) → sy.gm = cb.ownGm) ∧
    (∀ (y : Nat) (cy : NodeCfg) (sy : NodeSt), net[y]? = some (cy, sy) → IsGm cy sy → y = b) ∧
    (∀ (y : Nat) (cy : NodeCfg) (sy : NodeSt), net[y]? = some (cy, sy) → y ≠ b → ∃ j : Nat, sy.ports[j]? = some PSt.slave) := by
  have hall : ∀ (y : Nat) (cy : NodeCfg) (sy : NodeSt), net[y]? = some (cy, sy) → sy.gm = cb.ownGm :=
    fun y cy sy hy => Net.reach_follows_best net hst hp b cb sb hb y (hconn y cy sy hy) cy sy hy
  have honly : ∀ (y : Nat) (cy : NodeCfg) (sy : NodeSt), net[y]? = some (cy, sy) → IsGm cy sy → y = b := by
    intro y cy sy hy hg
    have h1 := hall y cy sy hy
    rw [hg.2.1] at h1
    have hid : cy.id = cb.id := by
      have : cy.ownGm.id = cb.ownGm.id := by rw [h1]
      exact this
    exact hp.ids y b cy sy cb sb hy hb.1 hid
  refine ⟨Net.best_is_gm net hst hp b cb sb hb, hall, honly, ?_⟩
  intro y cy sy hy hne
  have ha := (hp.relay y cy sy hy).1
  cases Classical.em (∃ j : Nat, sy.ports[j]? = some PSt.slave) with
  | inl h => exact h
  | inr h =>
    exfalso
    exact hne (honly y cy sy hy (Net.no_slave_is_gm net hp y cy sy ⟨hy, ha, hst y cy sy hy ha⟩ h))

/-- **Exactly one Master port per segment.** In the same situation (fixed point of a connected plain network),
every segment some instance is attached to has a Master port, and no two different ports attached to one
segment are both Master. -/
theorem one_master_per_segment (net : Net) (hst : Stable net) (hp : Plain net) (b : Nat) (cb : NodeCfg) (sb : NodeSt)
    (hb : Net.IsBest net b cb sb)
    (hconn : ∀ (y : Nat) (cy : NodeCfg) (sy : NodeSt), net[y]? = some (cy, sy) → Net.Reach net b y) :
    (∀ (u : Nat) (cu : NodeCfg) (su : NodeSt) (i : Nat) (pi : PortCfg), net[u]? = some (cu, su) → cu.ports[i]? = some pi →
      ∃ (n : Nat) (cn : NodeCfg) (sn : NodeSt) (k : Nat) (pcn : PortCfg), net[n]? = some (cn, sn) ∧ cn.ports[k]? = some pcn ∧
        pcn.seg = pi.seg ∧ sn.ports[k]? = some PSt.master) ∧
    (∀ (n n' : Nat) (c c' : NodeCfg) (s s' : NodeSt) (k k' : Nat) (pc pc' : PortCfg),
      net[n]? = some (c, s) → net[n']? = some (c', s') → c.ports[k]? = some pc → c'.ports[k']? = some pc' →
      s.ports[k]? = some PSt.master → s'.ports[k']? = some PSt.master → pc.seg = pc'.seg → n = n' ∧ k = k') := by
  have hc : Net.Conv net b cb sb :=
    ⟨hst, hp, hb, (best_is_only_grandmaster net hst hp b cb sb hb hconn).2.1⟩
  exact ⟨fun u cu su i pi hu hi => Net.segment_has_master net b cb sb hc u cu su hu i pi hi,
         fun n n' c c' s s' k k' pc pc' hn hn' hk hk' hm hm' hseg =>
           Net.masters_unique net b cb sb hc n n' c c' s s' k k' pc pc' hn hn' hk hk' hm hm' hseg⟩

/-- What is **not proved** here and is decided on the sampled scenarios by the oracle of the `net` stream: that
such a fixed point is reached from a cold start and after a single fault within 8 + 5·N announce intervals, and
does not flap; and "best is the only grandmaster / one Master per segment" for networks with several ports of
one instance on a segment (those are covered by the forest theorems above only). -/
def NotProvedStmt : Prop := True

/-! non-vacuity: the two-instance network of Lemmas/NetDemo.lean meets every hypothesis, and the theorem
yields what one expects of it -/
example : Net.Demo.s1.gm = Net.Demo.c0.ownGm ∧ ∃ j : Nat, Net.Demo.s1.ports[j]? = some PSt.slave :=
  let h := best_is_only_grandmaster Net.Demo.demo Net.Demo.demo_stable Net.Demo.demo_plain 0 Net.Demo.c0 Net.Demo.s0
    Net.Demo.demo_best Net.Demo.demo_reach
  ⟨h.2.1 1 Net.Demo.c1 Net.Demo.s1 rfl, h.2.2.2 1 Net.Demo.c1 Net.Demo.s1 rfl (by decide)⟩

end Statime.C01
