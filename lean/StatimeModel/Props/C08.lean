import StatimeModel.Lemmas.InstanceInv
import StatimeModel.Generated.ReceiptTimer
import StatimeModel.Props.C05
/-
C08 — Ports act only within their role; at most one port steers the clock.

`Inst.step` is the whole host-call alphabet. The invariants below are proved for one step from any
state satisfying them, hence for every reachable state (`reachable_inv`).

Tie: the `inst` stream (1–3 ports, every combination of master-only / slave-only / E2E / P2P, runtime
slave-only and quality changes) compares port states, emitted message types and servo input with the
model; the role oracle checks the same predicates on the implementation's observations.
-/
namespace Statime.C08
open Statime

/-- structural well-formedness of an instance: port k has port number k, files its foreign masters
under its own identity, and `numberPorts` counts the ports -/
def PortsWF (i : Inst) : Prop :=
  i.st.dflt.numberPorts = i.ports.length ∧
  ∀ (j : Nat) (p : Port), i.ports[j]? = some p → p.id = ⟨i.st.dflt.clockIdentity, j + 1⟩ ∧ p.fml.own = p.id

def AtMostOneSlave (ports : List Port) : Prop :=
  ∀ (j j' : Nat) (p p' : Port), ports[j]? = some p → ports[j']? = some p' →
    p.st.isSlave = true → p'.st.isSlave = true → j = j'

def NoMasterOnlySlave (ports : List Port) : Prop :=
  ∀ (j : Nat) (p : Port), ports[j]? = some p → p.cfg.masterOnly = true → p.st.isSlave = false

/-- the invariant of C08 -/
def Inv (i : Inst) : Prop := PortsWF i ∧ AtMostOneSlave i.ports ∧ NoMasterOnlySlave i.ports

/-! ### the BMCA run -/

/-- what a BMCA run does to every port: identity and configuration stay; a port is Slave afterwards
only if it was recommended S1 for the Ebest of this run (or was not passed to the run at all) -/
def AfterBmca (dflt : DefaultDS) (ebest : Option Best) (lbs : List (Nat × Option Best)) (order : List Nat)
    (j : Nat) (p p' : Port) : Prop :=
  p'.id = p.id ∧ p'.cfg = p.cfg ∧ p'.fml.own = p.fml.own ∧
  (p'.st.isSlave = true →
    (∃ a, recommend dflt ebest ((lbs.lookup (j + 1)).getD none) (decide (p.st = .listening)) = some (.s1 a) ∧
        p.cfg.masterOnly = false)
    ∨ (j + 1 ∉ order ∧ p'.st = p.st)) ∧
  (p'.st = .master → p.st = .master ∨ dflt.slaveOnly = false) ∧
  (j + 1 ∈ order → dflt.slaveOnly = true → p'.st ≠ .master) ∧ p'.inert = p.inert

theorem bmcaWith_ports (i i' : Inst) (order : List Nat) (step : Int) (obs : Obs) (hnd : order.Nodup)
    (h : i.bmcaWith order step = .ok (i', obs)) :
    ∃ (ebest : Option Best) (lbs : List (Nat × Option Best)),
      i'.ports.length = i.ports.length ∧ i'.st.dflt = i.st.dflt ∧
      (∀ (k : Nat) (ob : Option Best), (k, ob) ∈ lbs → ∃ p, portAt i.ports k = some p ∧ ∀ b, ob = some b → b.identity = p.fml.own) ∧
      (∀ (j : Nat) (p : Port), i.ports[j]? = some p → ∃ p', i'.ports[j]? = some p' ∧ AfterBmca i.st.dflt ebest lbs order j p p') ∧
      (∀ x ∈ obs, x.2.plain) := by
  unfold Inst.bmcaWith at h
  simp only at h
  obtain ⟨t1, t2, t3⟩ := bmcaTakeBest_spec order i.ports []
  generalize bmcaTakeBest order i.ports [] = tb at h t1 t2 t3
  obtain ⟨ports1, lbs⟩ := tb
  simp only at h t1 t2 t3
  generalize (order.filterMap fun k =>
      match portAt ports1 k with
      | some p => bestForBmca p ((lbs.lookup k).getD none)
      | none => none) = cands at h
  cases hap : bmcaApply (findBest cands) lbs order ports1 i.st [] [] with
  | error e => rw [hap] at h; cases h
  | ok v =>
    obtain ⟨ports2, s2, ev2, pend2⟩ := v
    rw [hap] at h
    simp only at h
    cases hag : bmcaAge step order ports2 with
    | error e => rw [hag] at h; cases h
    | ok ports3 =>
      rw [hag] at h
      simp only [Except.ok.injEq, Prod.mk.injEq] at h
      obtain ⟨hi', hobs⟩ := h
      obtain ⟨a1, a2, a3, a4, a5⟩ := bmcaApply_spec (findBest cands) lbs order hnd ports1 i.st [] [] ports2 s2 ev2 pend2 hap
      obtain ⟨g1, g2⟩ := bmcaAge_spec step order ports2 ports3 hag
      refine ⟨findBest cands, lbs, ?_, ?_, ?_, ?_, ?_⟩
      · rw [← hi']; simp only; rw [g1, a1, t1]
      · rw [← hi']; exact a2
      · intro k ob hmem
        rcases t3 k ob hmem with hh | hh
        · cases hh
        · exact hh
      · intro j p hp
        obtain ⟨p1, hp1, r1, r2, r3, r4, r5⟩ := t2 j p hp
        obtain ⟨p2, hp2, b1, b2, b3, b4, b5, b6, _, b8⟩ := a3 j p1 hp1
        obtain ⟨p3, hp3, q1, q2, q3, q4, q5⟩ := g2 j p2 hp2
        refine ⟨p3, by rw [← hi']; exact hp3, q1.trans (b1.trans r1), q2.trans (b2.trans r2),
          q4.trans ((congrArg FML.own b3).trans r4), ?_, ?_, ?_, q5.trans (b8.trans r5)⟩
        · intro hs
          rw [q3] at hs ⊢
          rcases b4 hs with ⟨_, a, ha, hmo⟩ | ⟨m0, m⟩
          · exact Or.inl ⟨a, by rw [← r3]; exact ha, by rw [← r2]; exact hmo⟩
          · exact Or.inr ⟨m0, m.trans r3⟩
        · intro hm
          rw [q3] at hm
          rcases b5 hm with e | e
          · exact Or.inl (by rw [← r3]; exact e)
          · exact Or.inr e
        · intro hm hso
          rw [q3]
          exact b6 hm hso
      · rw [← hobs]
        intro x hx
        rcases List.mem_append.1 hx with h1 | h1
        · exact a4 (by intro y hy; cases hy) x h1
        · simp only [List.mem_flatMap, List.mem_range] at h1
          obtain ⟨jj, _, hxx⟩ := h1
          simp only [tag, List.mem_map] at hxx
          obtain ⟨o, ho, rfl⟩ := hxx
          cases hl : pend2.lookup (jj + 1) with
          | none => rw [hl] at ho; simp at ho
          | some l =>
            rw [hl] at ho
            simp only [Option.getD_some] at ho
            exact a5 (by intro y hy; cases hy) (jj + 1, l) (lookup_mem _ _ _ hl) o ho

theorem bmca_inv_with (i i' : Inst) (order : List Nat) (step : Int) (obs : Obs) (hnd : order.Nodup)
    (hcov : ∀ j, j < i.ports.length → j + 1 ∈ order) (hinv : Inv i)
    (h : i.bmcaWith order step = .ok (i', obs)) : Inv i' ∧ (∀ x ∈ obs, x.2.plain) ∧
      (i.st.dflt.slaveOnly = true → ∀ (j : Nat) (p' : Port), i'.ports[j]? = some p' → p'.st ≠ .master) ∧
      i'.st.dflt = i.st.dflt := by
  obtain ⟨⟨w1, w2⟩, _, hmo⟩ := hinv
  obtain ⟨ebest, lbs, l1, l2, l4, l5, l6⟩ := bmcaWith_ports i i' order step obs hnd h
  have getOld : ∀ (j : Nat) (p' : Port), i'.ports[j]? = some p' → ∃ p, i.ports[j]? = some p ∧ j < i.ports.length := by
    intro j p' hp'
    have hj : j < i.ports.length := by
      rw [← l1]
      by_cases hl : j < i'.ports.length
      · exact hl
      · rw [List.getElem?_eq_none (Nat.le_of_not_lt hl)] at hp'; cases hp'
    exact ⟨i.ports[j], List.getElem?_eq_getElem hj, hj⟩
  -- a port that is Slave after the run was recommended S1 for Ebest, which it received itself
  have slaveS1 : ∀ (j : Nat) (p' : Port), i'.ports[j]? = some p' → p'.st.isSlave = true →
      ∃ p g, i.ports[j]? = some p ∧ ebest = some g ∧ g.identity = p.id ∧ p.cfg.masterOnly = false ∧ p'.cfg = p.cfg := by
    intro j p' hp' hs
    obtain ⟨p, hp, hj⟩ := getOld j p' hp'
    obtain ⟨p'', hp'', _, c2, _, c4, _, _⟩ := l5 j p hp
    rw [hp'] at hp''; cases hp''
    rcases c4 hs with ⟨a, ha, hmo'⟩ | ⟨hnot, _⟩
    · obtain ⟨g, hg1, hg2, _⟩ := C05.decision_payload _ _ _ _ a ha
      refine ⟨p, g, hp, hg1, ?_, hmo', c2⟩
      cases hl : lbs.lookup (j + 1) with
      | none => rw [hl] at hg2; simp at hg2
      | some ob =>
        rw [hl] at hg2
        simp only [Option.getD_some] at hg2
        obtain ⟨q, hq, hb⟩ := l4 (j + 1) ob (lookup_mem _ _ _ hl)
        rw [portAt_succ, hp] at hq; cases hq
        rw [hb g hg2]
        exact (w2 j p hp).2
    · exact absurd (hcov j hj) hnot
  refine ⟨⟨⟨?_, ?_⟩, ?_, ?_⟩, l6, ?_, l2⟩
  · rw [l2, l1]; exact w1
  · intro j p' hp'
    obtain ⟨p, hp, _⟩ := getOld j p' hp'
    obtain ⟨p'', hp'', c1, _, c3, _, _, _⟩ := l5 j p hp
    rw [hp'] at hp''; cases hp''
    rw [l2, c1, c3]
    exact w2 j p hp
  · intro j j' p p' hp hp' hs hs'
    obtain ⟨q, g, hq, hg, hid, _, _⟩ := slaveS1 j p hp hs
    obtain ⟨q', g', hq', hg', hid', _, _⟩ := slaveS1 j' p' hp' hs'
    rw [hg] at hg'; cases hg'
    have e1 := (w2 j q hq).1
    have e2 := (w2 j' q' hq').1
    rw [← hid, hid', e2] at e1
    simp only [PortId.mk.injEq, true_and] at e1
    omega
  · intro j p' hp' hmo'
    cases hs : p'.st.isSlave with
    | false => rfl
    | true =>
      obtain ⟨q, g, hq, _, _, hm, hc⟩ := slaveS1 j p' hp' hs
      rw [hc, hm] at hmo'; cases hmo'
  · intro hso j p' hp'
    obtain ⟨p, hp, hj⟩ := getOld j p' hp'
    obtain ⟨p'', hp'', _, _, _, _, _, c6⟩ := l5 j p hp
    rw [hp'] at hp''; cases hp''
    exact c6.1 (hcov j hj) hso

/-- **At most one Slave after every BMCA run**, **a master-only port is never Slave**, and — runtime
slave-only — **no Master port is left once a BMCA run has completed** on a slave-only instance.
(The host passes every port exactly once, as `PtpInstance::bmca` requires.) -/
theorem bmca_inv (i i' : Inst) (order : List Nat) (obs : Obs) (hnd : order.Nodup)
    (hcov : ∀ j, j < i.ports.length → j + 1 ∈ order) (hinv : Inv i)
    (h : i.bmca order = .ok (i', obs)) : Inv i' ∧ (∀ x ∈ obs, x.2.plain) ∧
      (i.st.dflt.slaveOnly = true → ∀ (j : Nat) (p' : Port), i'.ports[j]? = some p' → p'.st ≠ .master) ∧
      i'.st.dflt = i.st.dflt := by
  unfold Inst.bmca at h
  split at h
  · cases h
  · obtain ⟨step, _, hw⟩ := orOv_ok _ _ _ h
    exact bmca_inv_with i i' order step obs hnd hcov hinv hw

/-! ### every other host call -/

theorem announceUpdate_dflt (p : Port) (s s1 : InstState) (m : Msg) (a : Ann) (l : Bool)
    (h : p.announceUpdate s m a = .ok (s1, l)) : s1.dflt = s.dflt := by
  rcases announceUpdate_cases p s s1 m a l h with ⟨_, e, _⟩ | ⟨_, _, _, e, _⟩ | ⟨_, _, _, _, s2, hap, hst⟩
  · rw [e]
  · rw [e]
  · have hd := (applyParent_dflt s s2 a hap).1
    rcases storePath_spec s2 s1 _ hst with ⟨_, e⟩ | ⟨t, _, e, _⟩
    · rw [e]; exact hd
    · rw [e]; exact hd

theorem handleAnnounce_dflt (p p' : Port) (s s' : InstState) (m : Msg) (ab : AnnounceBody) (o : List Out)
    (h : p.handleAnnounce s m ab = .ok (p', s', o)) : s'.dflt = s.dflt := by
  unfold Port.handleAnnounce at h
  split at h
  · cases h
  · rename_i s1 l hu
    have := announceUpdate_dflt p s s1 m _ l hu
    split at h <;> (simp only [Except.ok.injEq, Prod.mk.injEq] at h; rw [← h.2.1]; exact this)

theorem handleGeneralInternal_dflt (p p' : Port) (s s' : InstState) (m : Msg) (o : List Out)
    (h : p.handleGeneralInternal s m = .ok (p', s', o)) : s'.dflt = s.dflt := by
  unfold Port.handleGeneralInternal at h
  split at h
  · exact handleAnnounce_dflt _ _ _ _ _ _ _ h
  · obtain ⟨⟨q, oo⟩, _, he⟩ := map_ok _ _ _ h; simp only [Prod.mk.injEq] at he; rw [← he.2.1]
  · obtain ⟨⟨q, oo⟩, _, he⟩ := map_ok _ _ _ h; simp only [Prod.mk.injEq] at he; rw [← he.2.1]
  · obtain ⟨⟨q, oo⟩, _, he⟩ := map_ok _ _ _ h; simp only [Prod.mk.injEq] at he; rw [← he.2.1]
  · simp only [Except.ok.injEq, Prod.mk.injEq] at h; rw [← h.2.1]

theorem handleGeneralReceive_dflt (p p' : Port) (s s' : InstState) (d : List UInt8) (o : List Out)
    (h : p.handleGeneralReceive s d = .ok (p', s', o)) : s'.dflt = s.dflt := by
  unfold Port.handleGeneralReceive at h
  split at h
  · simp only [Except.ok.injEq, Prod.mk.injEq] at h; rw [← h.2.1]
  · exact handleGeneralInternal_dflt _ _ _ _ _ _ h

theorem handleEventReceive_dflt (p p' : Port) (s s' : InstState) (d : List UInt8) (ts : Nat) (o : List Out)
    (h : p.handleEventReceive s d ts = .ok (p', s', o)) : s'.dflt = s.dflt := by
  unfold Port.handleEventReceive at h
  split at h
  · simp only [Except.ok.injEq, Prod.mk.injEq] at h; rw [← h.2.1]
  · split at h
    · obtain ⟨⟨q, oo⟩, _, he⟩ := map_ok _ _ _ h; simp only [Prod.mk.injEq] at he; rw [← he.2.1]
    · obtain ⟨⟨q, oo⟩, _, he⟩ := map_ok _ _ _ h; simp only [Prod.mk.injEq] at he; rw [← he.2.1]
    · obtain ⟨⟨q, oo⟩, _, he⟩ := map_ok _ _ _ h; simp only [Prod.mk.injEq] at he; rw [← he.2.1]
    · obtain ⟨⟨q, oo⟩, _, he⟩ := map_ok _ _ _ h; simp only [Prod.mk.injEq] at he; rw [← he.2.1]
    · exact handleGeneralInternal_dflt _ _ _ _ _ _ h

/-- replacing one port by a port that keeps identity and configuration and is not newly Slave -/
theorem inv_setPort (i : Inst) (k : Nat) (p p' : Port) (s' : InstState) (hk : portAt i.ports k = some p)
    (hkeep : KeepsW p p') (hd1 : s'.dflt.clockIdentity = i.st.dflt.clockIdentity)
    (hd2 : s'.dflt.numberPorts = i.st.dflt.numberPorts) (hinv : Inv i) :
    Inv { i with st := s', ports := setPort i.ports k p' } := by
  obtain ⟨⟨w1, w2⟩, hone, hmo⟩ := hinv
  obtain ⟨k1, hkl, hkg⟩ := portAt_some hk
  obtain ⟨c1, c2, c3, c4⟩ := hkeep
  have hlen : (setPort i.ports k p').length = i.ports.length := by simp [setPort]
  have hget : ∀ j, (setPort i.ports k p')[j]? = if j + 1 = k then some p' else i.ports[j]? :=
    fun j => getElem?_setPort i.ports k p' j k1 hkl
  have hold : ∀ j, j + 1 = k → i.ports[j]? = some p := by
    intro j hj; have : j = k - 1 := by omega
    rw [this]; exact hkg
  refine ⟨⟨?_, ?_⟩, ?_, ?_⟩
  · simp only; rw [hd2, hlen]; exact w1
  · intro j q hq
    simp only at hq
    rw [hget j] at hq
    by_cases hj : j + 1 = k
    · rw [if_pos hj] at hq; cases hq
      obtain ⟨e1, e2⟩ := w2 j p (hold j hj)
      simp only
      rw [hd1, c2, c4]
      exact ⟨e1, e2⟩
    · rw [if_neg hj] at hq
      simp only; rw [hd1]; exact w2 j q hq
  · intro j j' q q' hq hq' hs hs'
    simp only at hq hq'
    rw [hget j] at hq; rw [hget j'] at hq'
    -- map both back to the old list: a new Slave at k was Slave there before
    have back : ∀ (x : Nat) (y : Port), (if x + 1 = k then some p' else i.ports[x]?) = some y → y.st.isSlave = true →
        ∃ y0, i.ports[x]? = some y0 ∧ y0.st.isSlave = true := by
      intro x y hy hys
      by_cases hx : x + 1 = k
      · rw [if_pos hx] at hy; cases hy
        exact ⟨p, hold x hx, c3 hys⟩
      · rw [if_neg hx] at hy; exact ⟨y, hy, hys⟩
    obtain ⟨y0, h0, hs0⟩ := back j q hq hs
    obtain ⟨y1, h1, hs1⟩ := back j' q' hq' hs'
    exact hone j j' y0 y1 h0 h1 hs0 hs1
  · intro j q hq hm
    simp only at hq
    rw [hget j] at hq
    by_cases hj : j + 1 = k
    · rw [if_pos hj] at hq; cases hq
      have := hmo j p (hold j hj) (by rw [← c1]; exact hm)
      cases hs : p'.st.isSlave with
      | false => rfl
      | true => rw [c3 hs] at this; cases this
    · rw [if_neg hj] at hq; exact hmo j q hq hm

/-- every port-level handler keeps identity, configuration, the instance's clock identity and port
count, and never makes its port newly Slave -/
theorem portHandler_keeps (i : Inst) (op : Op) (k : Nat) (f : Port → R (Port × InstState × List Out × Nat))
    (hop : i.portHandler op = some (k, f)) (p p' : Port) (s' : InstState) (o : List Out) (q : Nat)
    (h : f p = .ok (p', s', o, q)) :
    KeepsW p p' ∧ s'.dflt = i.st.dflt ∧ Guarded p.st.isMaster p.st.isSlave o ∧
    (p'.st.isMaster = true → p.st.isMaster = true ∨ i.st.dflt.slaveOnly = false) := by
  cases op with
  | gen kk data =>
    simp only [Inst.portHandler, Option.some.injEq, Prod.mk.injEq] at hop
    obtain ⟨rfl, rfl⟩ := hop
    obtain ⟨r, hx, he⟩ := map_ok _ _ _ h
    simp only [Prod.mk.injEq] at he
    obtain ⟨e1, e2, e3, _⟩ := he
    obtain ⟨r1, r2, r3⟩ := r
    simp only at e1 e2 e3
    subst e1 e2 e3
    exact ⟨(handleGeneralReceive_roles _ _ _ _ _ _ hx).2.weak, handleGeneralReceive_dflt _ _ _ _ _ _ hx, (handleGeneralReceive_roles _ _ _ _ _ _ hx).1, fun hh => Or.inl ((handleGeneralReceive_roles _ _ _ _ _ _ hx).2.2.2.2.2 hh)⟩
  | evt kk data ts =>
    simp only [Inst.portHandler, Option.some.injEq, Prod.mk.injEq] at hop
    obtain ⟨rfl, rfl⟩ := hop
    obtain ⟨r, hx, he⟩ := map_ok _ _ _ h
    simp only [Prod.mk.injEq] at he
    obtain ⟨e1, e2, e3, _⟩ := he
    obtain ⟨r1, r2, r3⟩ := r
    simp only at e1 e2 e3
    subst e1 e2 e3
    exact ⟨(handleEventReceive_roles _ _ _ _ _ _ _ hx).2.weak, handleEventReceive_dflt _ _ _ _ _ _ _ hx, (handleEventReceive_roles _ _ _ _ _ _ _ hx).1, fun hh => Or.inl ((handleEventReceive_roles _ _ _ _ _ _ _ hx).2.2.2.2.2 hh)⟩
  | tmrAnnounce kk loose fq =>
    simp only [Inst.portHandler, Option.some.injEq, Prod.mk.injEq] at hop
    obtain ⟨rfl, rfl⟩ := hop
    obtain ⟨r, hx, he⟩ := map_ok _ _ _ h
    simp only [Prod.mk.injEq] at he
    obtain ⟨e1, e2, e3, _⟩ := he
    obtain ⟨r1, r2, r3⟩ := r
    simp only at e1 e2 e3
    subst e1 e2 e3
    exact ⟨(sendAnnounce_roles _ _ _ _ _ _ _ hx).2.weak, rfl, (sendAnnounce_roles _ _ _ _ _ _ _ hx).1, fun hh => Or.inl ((sendAnnounce_roles _ _ _ _ _ _ _ hx).2.2.2.2.2 hh)⟩
  | tmr kk t =>
    cases t with
    | announce =>
      simp only [Inst.portHandler, Option.some.injEq, Prod.mk.injEq] at hop
      obtain ⟨rfl, rfl⟩ := hop
      obtain ⟨r, hx, he⟩ := map_ok _ _ _ h
      simp only [Prod.mk.injEq] at he
      obtain ⟨e1, e2, e3, _⟩ := he
      obtain ⟨r1, r2, r3⟩ := r
      simp only at e1 e2 e3
      subst e1 e2 e3
      exact ⟨(sendAnnounce_roles _ _ _ _ _ _ _ hx).2.weak, rfl, (sendAnnounce_roles _ _ _ _ _ _ _ hx).1, fun hh => Or.inl ((sendAnnounce_roles _ _ _ _ _ _ _ hx).2.2.2.2.2 hh)⟩
    | sync =>
      simp only [Inst.portHandler, Option.some.injEq, Prod.mk.injEq] at hop
      obtain ⟨rfl, rfl⟩ := hop
      obtain ⟨r, hx, he⟩ := map_ok _ _ _ h
      simp only [Prod.mk.injEq] at he
      obtain ⟨e1, e2, e3, _⟩ := he
      obtain ⟨r1, r2⟩ := r
      simp only at e1 e2 e3
      subst e1 e2 e3
      exact ⟨(sendSync_roles _ _ _ _ hx).2.weak, rfl, (sendSync_roles _ _ _ _ hx).1, fun hh => Or.inl ((sendSync_roles _ _ _ _ hx).2.2.2.2.2 hh)⟩
    | delay =>
      simp only [Inst.portHandler, Option.some.injEq, Prod.mk.injEq] at hop
      obtain ⟨rfl, rfl⟩ := hop
      obtain ⟨r, hx, he⟩ := map_ok _ _ _ h
      simp only [Prod.mk.injEq] at he
      obtain ⟨e1, e2, e3, _⟩ := he
      obtain ⟨r1, r2⟩ := r
      simp only at e1 e2 e3
      subst e1 e2 e3
      exact ⟨(sendDelayRequest_roles _ _ _ _ hx).2.weak, rfl, (sendDelayRequest_roles _ _ _ _ hx).1, fun hh => Or.inl ((sendDelayRequest_roles _ _ _ _ hx).2.2.2.2.2 hh)⟩
    | receipt =>
      simp only [Inst.portHandler, Option.some.injEq, Prod.mk.injEq] at hop
      obtain ⟨rfl, rfl⟩ := hop
      simp only [Except.ok.injEq, Prod.mk.injEq] at h
      obtain ⟨e1, e2, e3, _⟩ := h
      subst e1 e2 e3
      exact ⟨(handleReceiptTimer_roles p i.st).2.1, rfl, (handleReceiptTimer_roles p i.st).1, (handleReceiptTimer_roles p i.st).2.2⟩
    | filter => simp [Inst.portHandler] at hop
  | txts kk ctx ts =>
    simp only [Inst.portHandler, Option.some.injEq, Prod.mk.injEq] at hop
    obtain ⟨rfl, rfl⟩ := hop
    obtain ⟨r, hx, he⟩ := map_ok _ _ _ h
    simp only [Prod.mk.injEq] at he
    obtain ⟨e1, e2, e3, _⟩ := he
    obtain ⟨r1, r2⟩ := r
    simp only at e1 e2 e3
    subst e1 e2 e3
    exact ⟨(handleSendTimestamp_roles _ _ _ _ _ _ hx).2.weak, rfl, (handleSendTimestamp_roles _ _ _ _ _ _ hx).1, fun hh => Or.inl ((handleSendTimestamp_roles _ _ _ _ _ _ hx).2.2.2.2.2 hh)⟩
  | bmca _ => simp [Inst.portHandler] at hop
  | setSlaveOnly _ => simp [Inst.portHandler] at hop
  | setQuality _ => simp [Inst.portHandler] at hop
  | addPort _ => simp [Inst.portHandler] at hop

theorem withPort_inv (i i' : Inst) (k : Nat) (f : Port → R (Port × InstState × List Out × Nat)) (obs : Obs) (q : Nat)
    (hf : ∀ p p' s' o q', f p = .ok (p', s', o, q') → KeepsW p p' ∧ s'.dflt = i.st.dflt)
    (hinv : Inv i) (h : i.withPort k f = .ok (i', obs, q)) : Inv i' := by
  unfold Inst.withPort at h
  cases hk : portAt i.ports k with
  | none => rw [hk] at h; simp only [Except.ok.injEq, Prod.mk.injEq] at h; rw [← h.1]; exact hinv
  | some p =>
    rw [hk] at h
    simp only at h
    cases hx : f p with
    | error e => rw [hx] at h; cases h
    | ok v =>
      obtain ⟨p', s', o, q'⟩ := v
      rw [hx] at h
      simp only [Except.ok.injEq, Prod.mk.injEq] at h
      rw [← h.1]
      obtain ⟨hk1, hd⟩ := hf p p' s' o q' hx
      exact inv_setPort i k p p' s' hk hk1 (by rw [hd]) (by rw [hd]) hinv

theorem addPort_inv (i i' : Inst) (cfg : PortCfg) (obs : Obs) (q : Nat) (hinv : Inv i)
    (h : i.step (.addPort cfg) = .ok (i', obs, q)) : Inv i' := by
  simp only [Inst.step, Inst.portHandler, Inst.other] at h
  obtain ⟨pn, hn, hports, hnp, hci, hso, _⟩ := addPort_ok i i' cfg obs q h
  obtain ⟨⟨w1, w2⟩, hone, hmo⟩ := hinv
  have hnew := Port.new_spec _ _ _ hn
  have hget : ∀ j, (i.ports ++ [pn])[j]? = if j < i.ports.length then i.ports[j]? else if j = i.ports.length then some pn else none := by
    intro j
    by_cases hj : j < i.ports.length
    · rw [if_pos hj, List.getElem?_append_left hj]
    · rw [if_neg hj, List.getElem?_append_right (Nat.le_of_not_lt hj)]
      by_cases hj2 : j = i.ports.length
      · rw [if_pos hj2, hj2]; simp
      · rw [if_neg hj2]
        have : j - i.ports.length ≠ 0 := by omega
        cases hx : j - i.ports.length with
        | zero => exact absurd hx this
        | succ n => rfl
  unfold Inv PortsWF AtMostOneSlave NoMasterOnlySlave
  rw [hports, hnp, hci]
  refine ⟨⟨?_, ?_⟩, ?_, ?_⟩
  · simp only [List.length_append, List.length_singleton]; rw [w1]
  · intro j p hp
    rw [hget j] at hp
    split at hp
    · exact w2 j p hp
    · split at hp
      · rename_i _ hj2
        cases hp
        rw [hnew.2.1, hnew.1, hj2, w1]; exact ⟨rfl, rfl⟩
      · cases hp
  · intro j j' p p' hp hp' hs hs'
    rw [hget j] at hp; rw [hget j'] at hp'
    have old : ∀ (x : Nat) (y : Port), (if x < i.ports.length then i.ports[x]? else if x = i.ports.length then some pn else none) = some y →
        y.st.isSlave = true → i.ports[x]? = some y := by
      intro x y hy hys
      split at hy
      · exact hy
      · split at hy
        · cases hy; rw [hnew.2.2] at hys; cases hys
        · cases hy
    exact hone j j' p p' (old j p hp hs) (old j' p' hp' hs') hs hs'
  · intro j p hp hm
    rw [hget j] at hp
    split at hp
    · exact hmo j p hp hm
    · split at hp
      · cases hp; rw [hnew.2.2]; rfl
      · cases hp

/-- **The invariant is preserved by every host call**: frames on either interface, every timer, transmit
timestamps, run-time setting changes, adding a port — and BMCA runs that are passed every port once. -/
theorem step_inv (i i' : Inst) (op : Op) (obs : Obs) (q : Nat) (hinv : Inv i)
    (hb : ∀ order, op = .bmca order → order.Nodup ∧ ∀ j, j < i.ports.length → j + 1 ∈ order)
    (h : i.step op = .ok (i', obs, q)) : Inv i' := by
  cases hph : i.portHandler op with
  | some kf =>
    obtain ⟨k, f⟩ := kf
    simp only [Inst.step, hph] at h
    refine withPort_inv i i' k f obs q ?_ hinv h
    intro p p' s' o q' hx
    obtain ⟨a, b, _⟩ := portHandler_keeps i op k f hph p p' s' o q' hx
    exact ⟨a, b⟩
  | none =>
    cases op with
    | bmca order =>
      obtain ⟨hnd, hcov⟩ := hb order rfl
      simp only [Inst.step, hph, Inst.other] at h
      obtain ⟨r, hx, he⟩ := map_ok _ _ _ h
      simp only [Prod.mk.injEq] at he
      rw [← he.1]
      exact (bmca_inv i r.1 order r.2 hnd hcov hinv hx).1
    | setSlaveOnly b =>
      simp only [Inst.step, hph, Inst.other, Except.ok.injEq, Prod.mk.injEq] at h
      rw [← h.1]; exact hinv
    | setQuality qq =>
      simp only [Inst.step, hph, Inst.other, Except.ok.injEq, Prod.mk.injEq] at h
      rw [← h.1]; exact hinv
    | addPort cfg => exact addPort_inv i i' cfg obs q hinv h
    | tmr k t =>
      cases t with
      | filter =>
        simp only [Inst.step, hph, Inst.other, Except.ok.injEq, Prod.mk.injEq] at h
        rw [← h.1]; exact hinv
      | announce => simp [Inst.portHandler] at hph
      | sync => simp [Inst.portHandler] at hph
      | delay => simp [Inst.portHandler] at hph
      | receipt => simp [Inst.portHandler] at hph
    | gen _ _ => simp [Inst.portHandler] at hph
    | evt _ _ _ => simp [Inst.portHandler] at hph
    | tmrAnnounce _ _ _ => simp [Inst.portHandler] at hph
    | txts _ _ _ => simp [Inst.portHandler] at hph

/-- **Role discipline of every action**: whatever a host call makes port k emit, Announce, Sync, Follow_Up and
Delay_Resp come only from a port that was Master when it handled the call, an end-to-end Delay_Req only from the
Slave port, and sync/delay measurements reach a filter only on the Slave port. BMCA runs emit no frames at all. -/
theorem emitters_guarded (i i' : Inst) (op : Op) (obs : Obs) (q : Nat) (hinv : Inv i)
    (hb : ∀ order, op = .bmca order → order.Nodup ∧ ∀ j, j < i.ports.length → j + 1 ∈ order)
    (h : i.step op = .ok (i', obs, q)) :
    ∀ x ∈ obs, x.2.plain ∨ ∃ p, portAt i.ports x.1 = some p ∧ Guarded p.st.isMaster p.st.isSlave [x.2] := by
  cases hph : i.portHandler op with
  | some kf =>
    obtain ⟨k, f⟩ := kf
    simp only [Inst.step, hph] at h
    unfold Inst.withPort at h
    cases hk : portAt i.ports k with
    | none =>
      rw [hk] at h; simp only [Except.ok.injEq, Prod.mk.injEq] at h
      rw [← h.2.1]; intro x hx; cases hx
    | some p =>
      rw [hk] at h
      simp only at h
      cases hx : f p with
      | error e => rw [hx] at h; cases h
      | ok v =>
        obtain ⟨p', s', o, q'⟩ := v
        rw [hx] at h
        simp only [Except.ok.injEq, Prod.mk.injEq] at h
        obtain ⟨_, _, hg, _⟩ := portHandler_keeps i op k f hph p p' s' o q' hx
        rw [← h.2.1]
        intro x hxm
        simp only [tag, List.mem_map] at hxm
        obtain ⟨oo, hoo, hxe⟩ := hxm
        subst hxe
        right
        refine ⟨p, hk, ?_⟩
        intro y hy
        simp only [List.mem_singleton] at hy
        rw [hy]
        exact hg oo hoo
  | none =>
    cases op with
    | bmca order =>
      obtain ⟨hnd, hcov⟩ := hb order rfl
      simp only [Inst.step, hph, Inst.other] at h
      obtain ⟨r, hx, he⟩ := map_ok _ _ _ h
      simp only [Prod.mk.injEq] at he
      rw [← he.2.1]
      intro x hxm
      exact Or.inl ((bmca_inv i r.1 order r.2 hnd hcov hinv hx).2.1 x hxm)
    | setSlaveOnly b =>
      simp only [Inst.step, hph, Inst.other, Except.ok.injEq, Prod.mk.injEq] at h
      rw [← h.2.1]; intro x hx; cases hx
    | setQuality qq =>
      simp only [Inst.step, hph, Inst.other, Except.ok.injEq, Prod.mk.injEq] at h
      rw [← h.2.1]; intro x hx; cases hx
    | addPort cfg =>
      simp only [Inst.step, hph, Inst.other] at h
      obtain ⟨pn, _, _, _, _, _, ho⟩ := addPort_ok i i' cfg obs q h
      · rw [ho]
        intro x hx
        simp only [tag, List.map_cons, List.map_nil, List.mem_singleton] at hx
        subst hx; left; trivial
    | tmr k t =>
      cases t with
      | filter =>
        simp only [Inst.step, hph, Inst.other, Except.ok.injEq, Prod.mk.injEq] at h
        rw [← h.2.1]; intro x hx; cases hx
      | announce => simp [Inst.portHandler] at hph
      | sync => simp [Inst.portHandler] at hph
      | delay => simp [Inst.portHandler] at hph
      | receipt => simp [Inst.portHandler] at hph
    | gen _ _ => simp [Inst.portHandler] at hph
    | evt _ _ _ => simp [Inst.portHandler] at hph
    | tmrAnnounce _ _ _ => simp [Inst.portHandler] at hph
    | txts _ _ _ => simp [Inst.portHandler] at hph

/-- a freshly created instance satisfies the invariant -/
theorem init_inv (d : DefaultDS) (pt : Bool) (tp : TimeProps) : Inv (Inst.new d pt tp) := by
  refine ⟨⟨rfl, ?_⟩, ?_, ?_⟩
  · intro j p hp; simp [Inst.new] at hp
  · intro j j' p p' hp; simp [Inst.new] at hp
  · intro j p hp; simp [Inst.new] at hp

/-- a host history in which every BMCA run is passed every port exactly once -/
def GoodHistory : Inst → List Op → Prop
  | _, [] => True
  | i, op :: ops =>
    (∀ order, op = .bmca order → order.Nodup ∧ ∀ j, j < i.ports.length → j + 1 ∈ order) ∧
    ∀ i' obs q, i.step op = .ok (i', obs, q) → GoodHistory i' ops

/-- run a history to its end (or first panic) -/
def runTo (i : Inst) : List Op → Option Inst
  | [] => some i
  | op :: ops =>
    match i.step op with
    | .error _ => none
    | .ok (i', _, _) => runTo i' ops

/-- **Every reachable state**: at most one port is Slave, and a master-only port never is. -/
theorem reachable_inv (d : DefaultDS) (pt : Bool) (tp : TimeProps) (ops : List Op) (i' : Inst)
    (hg : GoodHistory (Inst.new d pt tp) ops) (h : runTo (Inst.new d pt tp) ops = some i') : Inv i' := by
  have key : ∀ (ops : List Op) (i : Inst), Inv i → GoodHistory i ops → runTo i ops = some i' → Inv i' := by
    intro ops
    induction ops with
    | nil => intro i hi _ hr; simp only [runTo, Option.some.injEq] at hr; rw [← hr]; exact hi
    | cons op ops ih =>
      intro i hi hgh hr
      simp only [runTo] at hr
      cases hs : i.step op with
      | error e => rw [hs] at hr; cases hr
      | ok v =>
        obtain ⟨i2, obs, q⟩ := v
        rw [hs] at hr
        simp only at hr
        exact ih i2 (step_inv i i2 op obs q hi hgh.1 hs) (hgh.2 i2 obs q hs) hr
  exact key ops _ (init_inv d pt tp) hg h

/-! ### slave-only instances -/

/-- no port is Master while the instance is slave-only -/
def SlaveOnlyNoMaster (i : Inst) : Prop :=
  i.st.dflt.slaveOnly = true → ∀ (j : Nat) (p : Port), i.ports[j]? = some p → p.st ≠ .master

/-- **No host call other than switching slave-only on creates a Master port on a slave-only instance**, and
only `setSlaveOnly` changes the setting. -/
theorem step_slaveOnly (i i' : Inst) (op : Op) (obs : Obs) (q : Nat) (hinv : Inv i)
    (hb : ∀ order, op = .bmca order → order.Nodup ∧ ∀ j, j < i.ports.length → j + 1 ∈ order)
    (hso : SlaveOnlyNoMaster i) (hns : op ≠ .setSlaveOnly true)
    (h : i.step op = .ok (i', obs, q)) :
    SlaveOnlyNoMaster i' ∧ ((∀ b, op ≠ .setSlaveOnly b) → i'.st.dflt.slaveOnly = i.st.dflt.slaveOnly) := by
  cases hph : i.portHandler op with
  | some kf =>
    obtain ⟨k, f⟩ := kf
    simp only [Inst.step, hph] at h
    unfold Inst.withPort at h
    cases hk : portAt i.ports k with
    | none =>
      rw [hk] at h; simp only [Except.ok.injEq, Prod.mk.injEq] at h
      rw [← h.1]; exact ⟨hso, fun _ => rfl⟩
    | some p =>
      rw [hk] at h
      simp only at h
      cases hx : f p with
      | error e => rw [hx] at h; cases h
      | ok v =>
        obtain ⟨p', s', o, q'⟩ := v
        rw [hx] at h
        simp only [Except.ok.injEq, Prod.mk.injEq] at h
        obtain ⟨_, hd, _, hm⟩ := portHandler_keeps i op k f hph p p' s' o q' hx
        obtain ⟨k1, hkl, hkg⟩ := portAt_some hk
        rw [← h.1]
        refine ⟨?_, fun _ => by rw [hd]⟩
        intro hs j pp hpp
        simp only at hs hpp
        rw [hd] at hs
        rw [getElem?_setPort i.ports k p' j k1 hkl] at hpp
        by_cases hj : j + 1 = k
        · rw [if_pos hj] at hpp; cases hpp
          intro hmm
          rcases hm ((isMaster_iff _).2 hmm) with h1 | h1
          · have : j = k - 1 := by omega
            exact hso hs (k - 1) p hkg ((isMaster_iff _).1 h1)
          · rw [hs] at h1; cases h1
        · rw [if_neg hj] at hpp; exact hso hs j pp hpp
  | none =>
    cases op with
    | bmca order =>
      obtain ⟨hnd, hcov⟩ := hb order rfl
      simp only [Inst.step, hph, Inst.other] at h
      obtain ⟨r, hx, he⟩ := map_ok _ _ _ h
      simp only [Prod.mk.injEq] at he
      obtain ⟨_, _, hnm, hd⟩ := bmca_inv i r.1 order r.2 hnd hcov hinv hx
      rw [← he.1]
      exact ⟨fun hs => hnm (by rw [← hd]; exact hs), fun _ => by rw [hd]⟩
    | setSlaveOnly b =>
      cases b with
      | true => exact absurd rfl hns
      | false =>
        simp only [Inst.step, hph, Inst.other, Except.ok.injEq, Prod.mk.injEq] at h
        rw [← h.1]
        exact ⟨(fun hs => by cases hs), (fun hh => absurd rfl (hh false))⟩
    | setQuality qq =>
      simp only [Inst.step, hph, Inst.other, Except.ok.injEq, Prod.mk.injEq] at h
      rw [← h.1]; exact ⟨hso, fun _ => rfl⟩
    | addPort cfg =>
      simp only [Inst.step, hph, Inst.other] at h
      obtain ⟨pn, hn, hports, _, _, hsoe, _⟩ := addPort_ok i i' cfg obs q h
      have hnew := Port.new_spec _ _ _ hn
      refine ⟨?_, fun _ => hsoe⟩
      intro hs j pp hpp
      rw [hsoe] at hs
      rw [hports] at hpp
      by_cases hj : j < i.ports.length
      · rw [List.getElem?_append_left hj] at hpp; exact hso hs j pp hpp
      · rw [List.getElem?_append_right (Nat.le_of_not_lt hj)] at hpp
        cases hx : j - i.ports.length with
        | zero =>
          rw [hx] at hpp
          simp only [List.getElem?_cons_zero, Option.some.injEq] at hpp
          rw [← hpp, hnew.2.2]; intro e; cases e
        | succ n => rw [hx] at hpp; cases hpp
    | tmr k t =>
      cases t with
      | filter =>
        simp only [Inst.step, hph, Inst.other, Except.ok.injEq, Prod.mk.injEq] at h
        rw [← h.1]; exact ⟨hso, fun _ => rfl⟩
      | announce => simp [Inst.portHandler] at hph
      | sync => simp [Inst.portHandler] at hph
      | delay => simp [Inst.portHandler] at hph
      | receipt => simp [Inst.portHandler] at hph
    | gen _ _ => simp [Inst.portHandler] at hph
    | evt _ _ _ => simp [Inst.portHandler] at hph
    | tmrAnnounce _ _ _ => simp [Inst.portHandler] at hph
    | txts _ _ _ => simp [Inst.portHandler] at hph

/-- from any state of a well-formed instance: a history without `setSlaveOnly` keeps the setting, keeps `Inv`,
and keeps "no Master while slave-only" -/
theorem run_slaveOnly (ops : List Op) : ∀ (i i' : Inst), Inv i → SlaveOnlyNoMaster i → GoodHistory i ops →
    (∀ op ∈ ops, ∀ b, op ≠ .setSlaveOnly b) → runTo i ops = some i' →
    Inv i' ∧ SlaveOnlyNoMaster i' ∧ i'.st.dflt.slaveOnly = i.st.dflt.slaveOnly := by
  induction ops with
  | nil => intro i i' hi hs _ _ hr; simp only [runTo, Option.some.injEq] at hr; rw [← hr]; exact ⟨hi, hs, rfl⟩
  | cons op ops ih =>
    intro i i' hi hs hgh hno hr
    simp only [runTo] at hr
    cases hst : i.step op with
    | error e => rw [hst] at hr; cases hr
    | ok v =>
      obtain ⟨i2, obs, q⟩ := v
      rw [hst] at hr
      simp only at hr
      have hop := hno op (List.mem_cons_self ..)
      obtain ⟨s2, e2⟩ := step_slaveOnly i i2 op obs q hi hgh.1 hs (hop true) hst
      obtain ⟨a, b, c⟩ := ih i2 i' (step_inv i i2 op obs q hi hgh.1 hst) s2 (hgh.2 i2 obs q hst)
        (fun o ho => hno o (List.mem_cons_of_mem _ ho)) hr
      exact ⟨a, b, c.trans (e2 hop)⟩

/-- **An instance configured slave-only from the start never has a Master port**: in every state reachable
through host calls that do not touch the slave-only setting. -/
theorem slave_only_from_start (d : DefaultDS) (pt : Bool) (tp : TimeProps) (ops : List Op) (i' : Inst)
    (hd : d.slaveOnly = true) (hg : GoodHistory (Inst.new d pt tp) ops)
    (hno : ∀ op ∈ ops, ∀ b, op ≠ .setSlaveOnly b) (h : runTo (Inst.new d pt tp) ops = some i') :
    ∀ (j : Nat) (p : Port), i'.ports[j]? = some p → p.st ≠ .master := by
  have h0 : SlaveOnlyNoMaster (Inst.new d pt tp) := by
    intro _ j p hp; simp [Inst.new] at hp
  obtain ⟨_, b, c⟩ := run_slaveOnly ops _ i' (init_inv d pt tp) h0 hg hno h
  exact b (by rw [c]; exact hd)

/-- **Slave-only switched on at run time**: once the next BMCA run has completed, no port is Master — and none
becomes Master afterwards (until the setting is changed again). -/
theorem slave_only_at_runtime (i i1 i2 i3 : Inst) (order : List Nat) (pre post : List Op) (obs : Obs) (q : Nat)
    (hinv : Inv i) (hpre : runTo (i.setSlaveOnly true) pre = some i1)
    (hgpre : GoodHistory (i.setSlaveOnly true) pre) (hnopre : ∀ op ∈ pre, ∀ b, op ≠ .setSlaveOnly b)
    (hord : order.Nodup ∧ ∀ j, j < i1.ports.length → j + 1 ∈ order)
    (hb : i1.step (.bmca order) = .ok (i2, obs, q))
    (hgpost : GoodHistory i2 post) (hnopost : ∀ op ∈ post, ∀ b, op ≠ .setSlaveOnly b)
    (hpost : runTo i2 post = some i3) :
    ∀ (j : Nat) (p : Port), i3.ports[j]? = some p → p.st ≠ .master := by
  -- before the BMCA run Master ports may exist: carry only `Inv` and the setting through `pre`
  have key : ∀ (ops : List Op) (a b : Inst), Inv a → GoodHistory a ops → (∀ op ∈ ops, ∀ bb, op ≠ .setSlaveOnly bb) →
      runTo a ops = some b → Inv b ∧ b.st.dflt.slaveOnly = a.st.dflt.slaveOnly := by
    intro ops
    induction ops with
    | nil => intro a b ha _ _ hr; simp only [runTo, Option.some.injEq] at hr; rw [← hr]; exact ⟨ha, rfl⟩
    | cons op ops ih =>
      intro a b ha hgh hno hr
      simp only [runTo] at hr
      cases hst : a.step op with
      | error e => rw [hst] at hr; cases hr
      | ok v =>
        obtain ⟨a2, obs, q⟩ := v
        rw [hst] at hr
        simp only at hr
        have hop := hno op (List.mem_cons_self ..)
        have hkeep : a2.st.dflt.slaveOnly = a.st.dflt.slaveOnly := by
          -- "no Master while slave-only" is not needed for the setting: use the vacuous instance
          cases hph : a.portHandler op with
          | some kf =>
            obtain ⟨k, f⟩ := kf
            simp only [Inst.step, hph] at hst
            unfold Inst.withPort at hst
            cases hk : portAt a.ports k with
            | none => rw [hk] at hst; simp only [Except.ok.injEq, Prod.mk.injEq] at hst; rw [← hst.1]
            | some p =>
              rw [hk] at hst
              simp only at hst
              cases hx : f p with
              | error e => rw [hx] at hst; cases hst
              | ok v =>
                obtain ⟨p', s', o, q'⟩ := v
                rw [hx] at hst
                simp only [Except.ok.injEq, Prod.mk.injEq] at hst
                obtain ⟨_, hd, _, _⟩ := portHandler_keeps a op k f hph p p' s' o q' hx
                rw [← hst.1]; simp only; rw [hd]
          | none =>
            cases op with
            | bmca order =>
              obtain ⟨hnd, hcov⟩ := hgh.1 order rfl
              simp only [Inst.step, hph, Inst.other] at hst
              obtain ⟨r, hx, he⟩ := map_ok _ _ _ hst
              simp only [Prod.mk.injEq] at he
              obtain ⟨_, _, _, hd⟩ := bmca_inv a r.1 order r.2 hnd hcov ha hx
              rw [← he.1, hd]
            | setSlaveOnly bb => exact absurd rfl (hop bb)
            | setQuality qq =>
              simp only [Inst.step, hph, Inst.other, Except.ok.injEq, Prod.mk.injEq] at hst
              rw [← hst.1]; rfl
            | addPort cfg =>
              simp only [Inst.step, hph, Inst.other] at hst
              obtain ⟨pn, _, _, _, _, hsoe, _⟩ := addPort_ok a a2 cfg obs q hst
              exact hsoe
            | tmr k t =>
              cases t with
              | filter =>
                simp only [Inst.step, hph, Inst.other, Except.ok.injEq, Prod.mk.injEq] at hst
                rw [← hst.1]
              | announce => simp [Inst.portHandler] at hph
              | sync => simp [Inst.portHandler] at hph
              | delay => simp [Inst.portHandler] at hph
              | receipt => simp [Inst.portHandler] at hph
            | gen _ _ => simp [Inst.portHandler] at hph
            | evt _ _ _ => simp [Inst.portHandler] at hph
            | tmrAnnounce _ _ _ => simp [Inst.portHandler] at hph
            | txts _ _ _ => simp [Inst.portHandler] at hph
        obtain ⟨x, y⟩ := ih a2 b (step_inv a a2 op obs q ha hgh.1 hst) (hgh.2 a2 obs q hst)
          (fun o ho => hno o (List.mem_cons_of_mem _ ho)) hr
        exact ⟨x, y.trans hkeep⟩
  have hinv0 : Inv (i.setSlaveOnly true) := hinv
  obtain ⟨hinv1, hso1⟩ := key pre _ i1 hinv0 hgpre hnopre hpre
  have hso1' : i1.st.dflt.slaveOnly = true := by rw [hso1]; rfl
  -- the BMCA run
  simp only [Inst.step, Inst.portHandler, Inst.other] at hb
  obtain ⟨r, hx, he⟩ := map_ok _ _ _ hb
  simp only [Prod.mk.injEq] at he
  obtain ⟨hinv2, _, hnm, hd⟩ := bmca_inv i1 r.1 order r.2 hord.1 hord.2 hinv1 hx
  rw [he.1] at hinv2 hnm hd
  have hs2 : SlaveOnlyNoMaster i2 := fun _ => hnm hso1'
  obtain ⟨_, b, c⟩ := run_slaveOnly post i2 i3 hinv2 hs2 hgpost hnopost hpost
  exact b (by rw [c, hd]; exact hso1')

/-- **What a port that is not Slave hands to its servo is a peer delay result and nothing else**: no Sync offset and
no Delay_Resp offset, on any host call, in any reachable state. -/
theorem non_slave_port_feeds_peer_delay_only (i i' : Inst) (op : Op) (obs : Obs) (q : Nat) (hinv : Inv i)
    (hb : ∀ order, op = .bmca order → order.Nodup ∧ ∀ j, j < i.ports.length → j + 1 ∈ order)
    (h : i.step op = .ok (i', obs, q)) :
    ∀ (k : Nat) (m : Measurement) (p : Port), (k, Out.measurement m) ∈ obs → portAt i.ports k = some p →
      p.st.isSlave = false → m.rawSync = none ∧ m.rawDelay = none := by
  intro k m p hm hp hs
  rcases emitters_guarded i i' op obs q hinv hb h (k, .measurement m) hm with hpl | ⟨p', hp', hg⟩
  · simp [Out.plain] at hpl
  · simp only at hp'
    rw [hp] at hp'; cases hp'
    have := (hg (.measurement m) (List.mem_singleton.2 rfl)).2 m rfl
    rw [hs] at this
    constructor
    · cases hr : m.rawSync with
      | none => rfl
      | some v => exact absurd (this (Or.inl (by simp [hr]))) (by simp)
    · cases hr : m.rawDelay with
      | none => rfl
      | some v => exact absurd (this (Or.inr (by simp [hr]))) (by simp)

/-! ### the announce receipt timeout as translated from the source on this run
(`translator/extract_receipt.py` → `Generated/ReceiptTimer.lean`, interpreter `Lemmas/ReceiptGen.lean`) -/
section Translated
open Statime.RcptGen

/-- **`handle_announce_receipt_timer` as translated on this run is the model's `handleReceiptTimer`**: which
condition is tested first (a Faulty port only re-arms the timer), that a slave-only instance goes back to Listening and
everything else becomes Master, and the timer actions of each branch - for every port and instance state. With
`role_invariants` above: a slave-only instance never gets a Master port this way, whatever the port's own flags. -/
theorem generated_receipt_timer_is_model (p : Port) (s : InstState) :
    ∀ t, Generated.receiptTimerTable = some t → evalReceipt t p s = p.handleReceiptTimer s := by
  intro t h
  unfold Generated.receiptTimerTable at h
  cases h
  all_goals (
    unfold evalReceipt Port.handleReceiptTimer
    simp only [evalEarly, Cond.holds, St.toP, Branch.eval, List.map, Act.out, decide_eq_true_eq]
    by_cases h1 : p.st = .faulty <;> by_cases h2 : p.st = .listening <;> by_cases h3 : p.st = .master <;>
      by_cases h4 : s.dflt.slaveOnly = true <;> by_cases h5 : p.cfg.masterOnly = true <;> simp_all)

end Translated

end Statime.C08
