import StatimeModel.Model.Overlay
import StatimeModel.Lemmas.TimeBasic
/-
C18 — The overlay clock behaves like a clock.

Property theorems only. Statements are about the bit-pattern model in Model/Overlay.lean (exact integer
arithmetic on `U96F32` / `I96F32` values, units of 2^-32 ns); the tie to `statime/src/overlay_clock.rs` is the OVL
correspondence stream (bit-exact readings).
-/
namespace Statime.C18
open Statime

theorem bind_some {α β} {x : Option α} {f : α → Option β} {b : β} (h : x.bind f = some b) :
    ∃ a, x = some a ∧ f a = some b := by
  cases x with
  | none => cases h
  | some a => exact ⟨a, rfl, h⟩

theorem map_some {α β} {x : Option α} {f : α → β} {b : β} (h : x.map f = some b) : ∃ a, x = some a ∧ f a = b := by
  cases x with
  | none => cases h
  | some a => exact ⟨a, rfl, by simpa using h⟩

theorem timeSub_val (a b : Nat) (d : Int) (h : timeSub a b = some d) : d = (a : Int) - b := by
  unfold timeSub at h
  split at h
  · unfold durSub durNeg at h
    split at h
    · cases h
    · rename_i nb hnb
      split at hnb
      · cases hnb
        unfold durAdd at h
        split at h
        · cases h; omega
        · cases h
      · cases hnb
  · cases h

theorem timeAddDur_val (t : Nat) (d : Int) (r : Nat) (h : timeAddDur t d = some r) (hp : 0 ≤ (t : Int) + d) :
    (r : Int) = t + d := by
  rw [timeAddDur_nonneg t d hp] at h
  split at h
  · cases h; omega
  · cases h

/-- at the anchor itself no frequency correction has accrued -/
theorem corr_at_anchor (o : Overlay) (h : o.lastSync < I127) : o.corr o.lastSync = some 0 := by
  unfold Overlay.corr
  have e : timeSub o.lastSync o.lastSync = some 0 := by
    unfold timeSub durSub durNeg durAdd
    rw [if_pos ⟨h, h⟩]
    have hn : inI128 (-(o.lastSync : Int)) = true := by rw [inI128_iff]; unfold I127 at h; omega
    rw [if_pos hn]
    dsimp only
    have : inI128 ((o.lastSync : Int) + -(o.lastSync : Int)) = true := by rw [inI128_iff]; omega
    rw [if_pos this]
    congr 1; omega
  rw [e, Option.bind_some]
  unfold durMulFix
  simp only [Int.zero_mul, Int.zero_ediv]
  have h0 : inI128 0 = true := by rw [inI128_iff]; decide
  rw [if_pos h0, Option.bind_some]
  unfold durDivFix
  rw [if_neg (by unfold F32; decide)]
  simp only [Int.zero_mul, Int.zero_tdiv]
  rw [if_pos h0]

/-- **Continuous across every frequency change**: `set_frequency` returns the reading at that instant, and the
re-anchored clock reads exactly the same at that instant — whatever the old and the new frequency. -/
theorem frequency_change_continuous (o o' : Overlay) (now : Nat) (p : Int) (r : Nat)
    (h : o.setFrequency now p = some (o', r)) :
    o.timeFromUnderlying now = some r ∧ o'.timeFromUnderlying now = some r ∧ o'.ppmBits = p := by
  unfold Overlay.setFrequency at h
  obtain ⟨loc, hl, h2⟩ := bind_some h
  obtain ⟨sh, hs, h3⟩ := map_some h2
  simp only [Prod.mk.injEq] at h3
  obtain ⟨ho, hr⟩ := h3
  subst hr
  refine ⟨hl, ?_, by rw [← ho]⟩
  have hsv := timeSub_val loc now sh hs
  have hnow : now < I127 := by
    unfold timeSub at hs
    split at hs
    · rename_i hc; exact hc.2
    · cases hs
  have hloc : loc < I127 := by
    unfold timeSub at hs
    split at hs
    · rename_i hc; exact hc.1
    · cases hs
  rw [← ho]
  unfold Overlay.timeFromUnderlying
  have hc := corr_at_anchor { lastSync := now, shift := sh, ppmBits := p } hnow
  simp only at hc
  rw [hc, Option.bind_some]
  have e1 : timeAddDur now sh = some loc := by
    rw [timeAddDur_nonneg now sh (by omega)]
    have : inU128 ((now : Int) + sh) = true := by rw [inU128_iff]; unfold I127 at hloc; omega
    rw [if_pos this]
    congr 1; omega
  rw [e1, Option.bind_some]
  rw [timeAddDur_nonneg loc 0 (by omega)]
  have : inU128 ((loc : Int) + 0) = true := by rw [inU128_iff]; unfold I127 at hloc; omega
  rw [if_pos this]
  first | rfl | (congr 1; omega) | (congr 1)

/-- **Jumps by exactly the requested amount at every step**: `step_clock` returns the new reading, which is the old
reading plus the offset — exactly, whatever frequency is in force and however long ago the last adjustment was
(as long as the result is not negative: time is unsigned). -/
theorem step_exact (o o' : Overlay) (now : Nat) (off : Int) (r : Nat) (h : o.stepClock now off = some (o', r)) :
    ∃ b, o.timeFromUnderlying now = some b ∧ o'.timeFromUnderlying now = some r ∧ o'.ppmBits = o.ppmBits ∧
      (0 ≤ (b : Int) + off → (r : Int) = b + off) := by
  unfold Overlay.stepClock at h
  obtain ⟨loc, hl, h2⟩ := bind_some h
  obtain ⟨sh0, hs0, h3⟩ := bind_some h2
  obtain ⟨sh, hs, h4⟩ := bind_some h3
  obtain ⟨rr, hrr, h5⟩ := map_some h4
  simp only [Prod.mk.injEq] at h5
  obtain ⟨ho, hr⟩ := h5
  subst hr
  refine ⟨loc, hl, by rw [← ho]; exact hrr, by rw [← ho], ?_⟩
  intro hpos
  have hsv := timeSub_val loc now sh0 hs0
  have hshv : sh = sh0 + off := by
    unfold durAdd at hs
    split at hs
    · cases hs; rfl
    · cases hs
  have hnow : now < I127 := by
    unfold timeSub at hs0
    split at hs0
    · rename_i hc; exact hc.2
    · cases hs0
  unfold Overlay.timeFromUnderlying at hrr
  have hc := corr_at_anchor { lastSync := now, shift := sh, ppmBits := o.ppmBits } hnow
  simp only at hc hrr
  rw [hc, Option.bind_some] at hrr
  obtain ⟨t1, ht1, ht2⟩ := bind_some hrr
  have v1 := timeAddDur_val now sh t1 ht1 (by omega)
  have v2 := timeAddDur_val t1 0 rr ht2 (by omega)
  omega

/-- **Otherwise advances at (1 + ppm/10^6) times the rate of the underlying clock**: between adjustments the reading
is the underlying time plus a constant plus a frequency correction `c`, and `c` is the exact product
`elapsed · ppm / 10^6` to within (1 + 10^-6) units of 2^-32 ns. -/
theorem rate (o : Overlay) (u r : Nat) (h : o.timeFromUnderlying u = some r) :
    ∃ c : Int, o.corr u = some c ∧
      (0 ≤ (u : Int) + o.shift → 0 ≤ (u : Int) + o.shift + c → (r : Int) = u + o.shift + c) ∧
      (c * (1000000 * (F32 : Int)) - ((u : Int) - o.lastSync) * o.ppmBits < (F32 : Int) * 1000001 ∧
       ((u : Int) - o.lastSync) * o.ppmBits - c * (1000000 * (F32 : Int)) < (F32 : Int) * 1000001) := by
  unfold Overlay.timeFromUnderlying at h
  obtain ⟨c, hc, h2⟩ := bind_some h
  obtain ⟨t1, ht1, ht2⟩ := bind_some h2
  refine ⟨c, hc, ?_, ?_⟩
  · intro p1 p2
    have v1 := timeAddDur_val u o.shift t1 ht1 p1
    have v2 := timeAddDur_val t1 c r ht2 (by omega)
    omega
  · unfold Overlay.corr at hc
    obtain ⟨el, hel, h3⟩ := bind_some hc
    obtain ⟨c1, hc1, h4⟩ := bind_some h3
    have elv := timeSub_val u o.lastSync el hel
    -- c1 = floor(el·P / 2^32)
    have hc1v : c1 = (el * o.ppmBits) / (F32 : Int) := by
      unfold durMulFix at hc1
      dsimp only at hc1
      split at hc1
      · exact (Option.some.inj hc1).symm
      · cases hc1
    -- c = trunc(c1·2^32 / (10^6·2^32)) = trunc(c1 / 10^6)
    have hcv : c = Int.tdiv c1 1000000 := by
      unfold durDivFix at h4
      rw [if_neg (by unfold F32; decide)] at h4
      dsimp only at h4
      have e : Int.tdiv (c1 * (F32 : Int)) (1000000 * (F32 : Int)) = Int.tdiv c1 1000000 := by
        unfold F32
        exact Int.mul_tdiv_mul_of_pos_left c1 1000000 (by decide : (0 : Int) < ((4294967296 : Nat) : Int))
      rw [e] at h4
      split at h4
      · exact (Option.some.inj h4).symm
      · cases h4
    rw [← elv]
    -- |c1·2^32 − el·P| < 2^32 and |c·10^6 − c1| < 10^6
    have f1 : 0 ≤ el * o.ppmBits - c1 * (F32 : Int) ∧ el * o.ppmBits - c1 * (F32 : Int) < (F32 : Int) := by
      rw [hc1v]
      have hpos : (0 : Int) < (F32 : Int) := by unfold F32; decide
      have := Int.emod_nonneg (el * o.ppmBits) (Int.ne_of_gt hpos)
      have h2 := Int.emod_lt_of_pos (el * o.ppmBits) hpos
      have h3 := Int.emod_def (el * o.ppmBits) (F32 : Int)
      have h4 : (F32 : Int) * (el * o.ppmBits / (F32 : Int)) = el * o.ppmBits / (F32 : Int) * (F32 : Int) := Int.mul_comm _ _
      omega
    have f2 : -1000000 < c1 - c * 1000000 ∧ c1 - c * 1000000 < 1000000 := by
      rw [hcv]
      rcases Int.le_total 0 c1 with h0 | h0
      · rw [Int.tdiv_eq_ediv_of_nonneg h0]; omega
      · have : Int.tdiv c1 1000000 = -((-c1) / 1000000) := by
          rw [← Int.tdiv_eq_ediv_of_nonneg (by omega : 0 ≤ -c1), Int.neg_tdiv, Int.neg_neg]
        omega
    have hF : (F32 : Int) = 4294967296 := by unfold F32; rfl
    rw [hF] at f1 ⊢
    constructor
    · have : c * (1000000 * 4294967296) = (c * 1000000) * 4294967296 := by rw [Int.mul_assoc]
      rw [this]
      have e2 : (c * 1000000) * 4294967296 - el * o.ppmBits = ((c * 1000000 - c1) * 4294967296) - (el * o.ppmBits - c1 * 4294967296) := by
        rw [Int.sub_mul]; omega
      rw [e2]
      have : (c * 1000000 - c1) * 4294967296 < 1000000 * 4294967296 := by
        apply Int.mul_lt_mul_of_pos_right (by omega) (by decide)
      omega
    · have : c * (1000000 * 4294967296) = (c * 1000000) * 4294967296 := by rw [Int.mul_assoc]
      rw [this]
      have e2 : el * o.ppmBits - (c * 1000000) * 4294967296 = (el * o.ppmBits - c1 * 4294967296) + ((c1 - c * 1000000) * 4294967296) := by
        rw [Int.sub_mul]; omega
      rw [e2]
      have : (c1 - c * 1000000) * 4294967296 < 1000000 * 4294967296 := by
        apply Int.mul_lt_mul_of_pos_right (by omega) (by decide)
      omega

/-- the time each adjusting call returns is the reading at that instant (`frequency_change_continuous`, `step_exact`),
and the reading itself is by definition the conversion of the underlying clock's current time: `now()` is
`time_from_underlying(roclock.now())`, in the model as in the code — there is only one map -/
theorem conversion_is_reading (o : Overlay) (under : Nat) (r : Nat) (h : o.timeFromUnderlying under = some r) :
    ∀ o' v, (o.setFrequency under o.ppmBits = some (o', v)) → v = r := by
  intro o' v hs
  have := (frequency_change_continuous o o' under o.ppmBits v hs).1
  rw [h] at this
  exact (Option.some.inj this).symm

end Statime.C18
