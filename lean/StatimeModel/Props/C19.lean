import StatimeModel.Model.Metrics
import StatimeModel.Lemmas.F64L
/-
C19 — Observability data reaches the metrics endpoint unaltered.

Property theorems only, about the model of the exporter's formatter (Model/Metrics.lean), which the
`metrics` stream compares byte for byte with the HTTP response of the real exporter process fed through
the real serde representations and the observation socket.

Not modelled in Lean: serde_json (the JSON hop is exercised end to end by the stream: a state goes in
on the daemon side of the socket, the samples that come out of the HTTP response are compared with it),
and the snapshot getters of PtpInstance (C11's view theorems and stream).
-/
namespace Statime.C19
open Statime Statime.Metrics

/-- **HTTP framing.** The response is the header announcing exactly the body's length in octets,
followed by the body. -/
theorem content_length_matches_body (s : MState) :
    response s =
      "HTTP/1.1 200 OK\r\ncontent-type: text/plain\r\ncontent-length: " ++ toString (body s).utf8ByteSize ++ "\r\n\r\n" ++ body s := by
  unfold response header; rfl

/-- **Label values survive.** Whatever a label value contains (quotes, backslashes, line feeds, any
Unicode), a scraper that undoes the exposition format's escapes reads back exactly that value. -/
theorem label_escape_roundtrip (cs : List Char) : unescapeChars (escapeChars cs) = some cs := by
  induction cs with
  | nil => rfl
  | cons c cs ih =>
    by_cases h1 : c = '\\'
    · subst h1; simp [escapeChars, unescapeChars, ih]
    · by_cases h2 : c = '"'
      · subst h2; simp [escapeChars, unescapeChars, ih]
      · by_cases h3 : c = '\n'
        · subst h3; simp [escapeChars, unescapeChars, ih]
        · have e : escapeChars (c :: cs) = c :: escapeChars cs := by
            rw [escapeChars]
            · exact fun h => h1 h
            · exact fun h => h2 h
            · exact fun h => h3 h
          rw [e]
          have u : unescapeChars (c :: escapeChars cs) = (unescapeChars (escapeChars cs)).map (c :: ·) := by
            rw [unescapeChars]
            all_goals (intros; simp_all)
          rw [u, ih]; rfl

/-- an escaped label value contains no raw line feed, so a sample stays on one line -/
theorem escaped_has_no_newline (cs : List Char) : '\n' ∉ escapeChars cs := by
  induction cs with
  | nil => simp [escapeChars]
  | cons c cs ih =>
    by_cases h1 : c = '\\'
    · subst h1; simp [escapeChars, ih]
    · by_cases h2 : c = '"'
      · subst h2; simp [escapeChars, ih]
      · by_cases h3 : c = '\n'
        · subst h3; simp [escapeChars, ih]
        · have e : escapeChars (c :: cs) = c :: escapeChars cs := by
            rw [escapeChars]
            · exact fun h => h1 h
            · exact fun h => h2 h
            · exact fun h => h3 h
          rw [e]; simp [ih]; exact fun h => h3 h.symm

/-- **True as 1.** -/
theorem bool_true_is_one (b : Bool) : (boolVal b = .int 1 ↔ b = true) ∧ (boolVal b = .int 0 ↔ b = false) := by
  cases b <;> simp [boolVal]

def baseLabels (s : MState) : Labels := [("clock_identity", cidStr s.cid)]

/-- the four boolean metrics carry their field, as 1 / 0, under the instance's clock identity -/
theorem boolean_metrics (s : MState) :
    ({ name := "time_traceable", help := "Whether the timescale is traceable to a primary reference",
       samples := [(baseLabels s, boolVal s.timeTraceable)] } : Metric) ∈ metrics s ∧
    ({ name := "frequency_traceable",
       help := "Whether the frequency determining the timescale is traceable to a primary reference",
       samples := [(baseLabels s, boolVal s.freqTraceable)] } : Metric) ∈ metrics s ∧
    ({ name := "ptp_timescale", help := "Whether the timescale of the Grandmaster PTP Instance is PTP",
       samples := [(baseLabels s, boolVal s.ptpTimescale)] } : Metric) ∈ metrics s ∧
    ({ name := "path_trace_enable", help := "1 if path trace options is enabled, 0 otherwise",
       samples := [(baseLabels s, boolVal s.pathTraceEnable)] } : Metric) ∈ metrics s := by
  unfold metrics baseLabels
  simp

/-- **Units.** The two metrics of the current data set that are declared in nanoseconds carry the
`I96F32` nanosecond value converted to binary64 (not seconds), and the exposition name ends in the unit. -/
theorem nanosecond_metrics (s : MState) :
    ({ name := "offset_from_master",
       help := "Time difference between a Master PTP Instance as calculated by the Slave instance",
       unit := some "nanoseconds", samples := [(baseLabels s, .float (fixed32ToF64 s.offset))] } : Metric) ∈ metrics s ∧
    ({ name := "mean_delay",
       help := "Packet delay between a Master PTP Instance as calculated by the Slave instance",
       unit := some "nanoseconds", samples := [(baseLabels s, .float (fixed32ToF64 s.meanDelay))] } : Metric) ∈ metrics s := by
  unfold metrics baseLabels
  simp

/-- … and exactly so while the bit pattern stays below 2^53 (offsets and delays up to about 2 ms): the exported
binary64 value, read as a multiple of 2^-1074, is the `I96F32` pattern times 2^1042, i.e. `bits · 2^-32` ns -/
theorem nanosecond_value_exact (x : Int) (hp : 0 < x) (hs : x < 9007199254740992) :
    f64Scaled (fixed32ToF64 x) = x.natAbs * 2 ^ 1042 := by
  unfold fixed32ToF64 natFixed32ToF64
  have : ¬ x < 0 := by omega
  simp only [this, if_false]
  exact natFixedToF64_exact 32 x.natAbs (by omega) (by unfold P53; omega) (by decide)

theorem unit_is_name_suffix (m : Metric) (u : String) (h : m.unit = some u) :
    fullName m = "statime_" ++ m.name ++ "_" ++ u := by
  unfold fullName; rw [h]

/-- every port appears once in `port_state`, in order, with its state number -/
theorem port_states (s : MState) :
    ({ name := "port_state", help := "The current state of the port",
       samples := s.ports.map fun p => (baseLabels s ++ [("port", toString p.number)], nat p.state) } : Metric) ∈ metrics s := by
  unfold metrics baseLabels
  simp

/-- the path trace list has one sample per entry, numbered from the grandmaster, and the instance itself last -/
theorem path_trace_samples (s : MState) :
    ({ name := "path_trace_list", help := "list of clocks from grandmaster to local clock",
       samples := (s.path.zipIdx.map fun (c, i) => (baseLabels s ++ [("node", cidStr c)], nat i))
                 ++ [(baseLabels s ++ [("node", "self")], nat s.path.length)] } : Metric) ∈ metrics s := by
  unfold metrics baseLabels
  simp

/-- the body is the metric blocks followed by the end marker, each block opening with its HELP and TYPE lines -/
theorem body_layout (s : MState) :
    body s = String.join ((metrics s).map renderMetric) ++ "# EOF\n" ∧
    ∀ m, renderMetric m =
      "# HELP " ++ fullName m ++ " " ++ m.help ++ ".\n" ++ "# TYPE " ++ fullName m ++ " gauge\n" ++
      (match m.unit with | some u => "# UNIT " ++ fullName m ++ " " ++ u ++ "\n" | none => "") ++
      String.join (m.samples.map (renderSample (fullName m))) := by
  exact ⟨rfl, fun m => rfl⟩

end Statime.C19
