import StatimeModel.Lemmas.ServoL
import StatimeModel.Lemmas.ServoUnarmed
import StatimeModel.Model.Port
import StatimeModel.Generated.ServoConsts
/-
C13 — Clock control commands stay finite and within configured bounds.

Property theorems only. The servo model (Model/Servo.lean) applies the rounding operations of
binary64 as a parameter `A`; every theorem below is for every `A`, every configuration with a usable
bound, every history of calls and every pattern of clock refusals. Comparisons and the f64 <->
Duration conversions are the bit-level definitions of Model/F64.lean.

What is *not* proved: that the estimator never produces a NaN (frequency commands are "finite unless
NaN"), anything about the basic filter's frequency, which has no bound to clamp to, and that a servo which
has not programmed a frequency yet never *steps* (it provably programs no frequency). Those rest on
the bit-exact correspondence and the oracles of the `filt` and `kports` streams.
-/
namespace Statime.C13
open Statime Statime.Servo

/-- every command of a history is one the property allows -/
def AllOK (A : Arith) (c : Cfg) (css : List (List Cmd)) : Prop := ∀ cs ∈ css, ∀ cmd ∈ cs, CmdOK A c cmd

theorem kstep_ok (A : Arith) (c : Cfg) (hg : GoodBound c.mf) (s : Option Kalman) (op : KOp)
    (hs : ∀ k, s = some k → k.cfg = c) :
    (∀ k', (kstep A s op).1 = some k' → k'.cfg = c) ∧ ∀ cmd ∈ (kstep A s op).2, CmdOK A c cmd := by
  cases s with
  | none => exact ⟨(fun k' h => by cases h), (fun cmd h => by cases h)⟩
  | some k =>
    have hc : k.cfg = c := hs k rfl
    have hgk : GoodBound k.cfg.mf := by rw [hc]; exact hg
    cases op with
    | meas m clk =>
      unfold kstep
      simp only
      cases hm : k.measurement A m clk with
      | none => exact ⟨(fun k' h => by cases h), (fun cmd h => by cases h)⟩
      | some r =>
        obtain ⟨k', cs, u⟩ := r
        obtain ⟨e, a⟩ := measurement_spec A k k' m clk cs u hgk hm
        simp only
        refine ⟨(fun k2 h => by cases h; rw [e, hc]), fun cmd h => ?_⟩
        have := a cmd h; rw [hc] at this; exact this
    | upd clk =>
      unfold kstep
      simp only
      cases hm : k.update A clk with
      | none => exact ⟨(fun k' h => by cases h), (fun cmd h => by cases h)⟩
      | some r =>
        obtain ⟨k', cs, u⟩ := r
        obtain ⟨e, _, a, _⟩ := update_spec A k k' clk cs u hgk hm
        simp only
        refine ⟨(fun k2 h => by cases h; rw [e, hc]), fun cmd h => ?_⟩
        have := a cmd h; rw [hc] at this; exact this
    | demob clk =>
      unfold kstep
      simp only
      cases hm : k.demobilize A clk with
      | none => exact ⟨(fun k' h => by cases h), (fun cmd h => by cases h)⟩
      | some cs =>
        obtain ⟨a, _⟩ := demobilize_spec A k clk cs hgk hm
        simp only
        refine ⟨(fun k2 h => by cases h), fun cmd h => ?_⟩
        rcases a with e | ⟨f, ok, e, fok⟩
        · rw [e] at h; cases h
        · rw [e] at h; simp at h; subst h; rw [hc] at fok; exact fok

theorem krun_ok (A : Arith) (c : Cfg) (hg : GoodBound c.mf) (ops : List KOp) :
    ∀ (s : Option Kalman), (∀ k, s = some k → k.cfg = c) → AllOK A c (krun A s ops) := by
  induction ops with
  | nil => intro s _ cs h; cases h
  | cons op rest ih =>
    intro s hs cs h
    obtain ⟨h1, h2⟩ := kstep_ok A c hg s op hs
    unfold krun at h
    simp only [List.mem_cons] at h
    rcases h with e | h
    · subst e; exact h2
    · exact ih _ h1 cs h

theorem new_cfg (A : Arith) (c : Cfg) (k : Kalman) (h : Kalman.new A c = some k) : k.cfg = c ∧ k.cur = none := by
  unfold Kalman.new at h
  obtain ⟨v, _, h⟩ := omap h
  cases h; exact ⟨rfl, rfl⟩

/-- **Frequency bound.** Along every history of a Kalman servo created with a usable maximum
frequency offset, whatever the measurements, the clock's refusals and the floating-point
arithmetic do, every frequency given to the clock compares within `-max ..= max`, and is finite
unless it is a NaN. -/
theorem frequency_within_bound (A : Arith) (c : Cfg) (hg : GoodBound c.mf) (k0 : Kalman)
    (h0 : Kalman.new A c = some k0) (ops : List KOp) :
    ∀ cs ∈ krun A (some k0) ops, ∀ f ok, Cmd.freq f ok ∈ cs →
      Within c.mf f ∧ (f64IsNaN f = false → f64IsFinite f = true) := by
  intro cs hcs f ok hf
  have := krun_ok A c hg ops (some k0) (fun k hk => by cases hk; exact (new_cfg A c k0 h0).1) cs hcs _ hf
  exact this

/-- **Step threshold.** Every step given to the clock is, in magnitude, at least the step threshold
(both as `Duration`s: the threshold in seconds as the servo compares it, converted the way the step is).
In particular it is a representable, finite duration. -/
theorem step_at_least_threshold (A : Arith) (c : Cfg) (hg : GoodBound c.mf) (k0 : Kalman)
    (h0 : Kalman.new A c = some k0) (ops : List KOp) :
    ∀ cs ∈ krun A (some k0) ops, ∀ d ok, Cmd.step d ok ∈ cs →
      ∀ dthr, durFromSeconds (durSeconds A c.thr) = some dthr → dthr ≤ (d.natAbs : Int) := by
  intro cs hcs d ok hd
  have := krun_ok A c hg ops (some k0) (fun k hk => by cases hk; exact (new_cfg A c k0 h0).1) cs hcs _ hd
  exact this

/-- **Demobilisation.** The call that ends a servo gives the clock at most one command, and that
command is a frequency within the bound. -/
theorem demobilize_at_most_one_command (A : Arith) (k : Kalman) (hg : GoodBound k.cfg.mf) (clk : ClockIn) :
    (kstep A (some k) (.demob clk)).1 = none ∧
    ((kstep A (some k) (.demob clk)).2 = [] ∨
      ∃ f ok, (kstep A (some k) (.demob clk)).2 = [.freq f ok] ∧ FreqOK k.cfg f) := by
  unfold kstep
  simp only
  cases hm : k.demobilize A clk with
  | none => exact ⟨rfl, Or.inl rfl⟩
  | some cs => exact ⟨rfl, (demobilize_spec A k clk cs hg hm).1⟩

/-- … and none thereafter: a servo that is gone gives no command, whatever is called on it. -/
theorem nothing_after_demobilize (A : Arith) (ops : List KOp) : ∀ cs ∈ krun A none ops, cs = [] := by
  induction ops with
  | nil => intro cs h; cases h
  | cons op rest ih =>
    intro cs h
    unfold krun at h
    simp only [List.mem_cons] at h
    rcases h with e | h
    · subst e; rfl
    · exact ih cs h

/-- The filter a port installs in place of the demobilised one has programmed nothing yet, and stays
silent on `update` and `demobilize` until a measurement arrives (which only a slave port feeds it). -/
theorem fresh_filter_is_silent (A : Arith) (c : Cfg) (hg : GoodBound c.mf) (k : Kalman) (h : Kalman.new A c = some k)
    (clk : ClockIn) : (kstep A (some k) (.upd clk)).2 = [] ∧ (kstep A (some k) (.demob clk)).2 = [] := by
  obtain ⟨ec, en⟩ := new_cfg A c k h
  have hgk : GoodBound k.cfg.mf := by rw [ec]; exact hg
  constructor
  · unfold kstep
    simp only
    cases hm : k.update A clk with
    | none => rfl
    | some r =>
      obtain ⟨k', cs, u⟩ := r
      exact (update_spec A k k' clk cs u hgk hm).2.2.2 en
  · unfold kstep
    simp only
    cases hm : k.demobilize A clk with
    | none => rfl
    | some cs => exact (demobilize_spec A k clk cs hgk hm).2 en

/-- **A servo that has not programmed a frequency yet never programs one unless it is handed a Sync or Delay_Resp
offset** (which only the Slave port hands to its servo: C08.non_slave_port_feeds_peer_delay_only). Along every history
of peer delay results, filter update timers and a final demobilisation, for every rounding arithmetic and every
pattern of clock refusals, no call issues a frequency command.

Partial with respect to "issues no command at all": `steer` would still *step* if the servo's own offset estimate
exceeded the step threshold. That estimate starts at zero and no offset is ever absorbed on such a history, so it
moves only if the arithmetic makes `0 · x` non-zero; the theorem is for every arithmetic and therefore cannot exclude
it. With the real binary64 operations this is sampled (stream `kports`: no clock call of any kind from a port that
is not Slave). -/
theorem unarmed_servo_never_programs_a_frequency_partial (A : Arith) (k : Kalman) (hc : k.cur = none) (ops : List KOp)
    (hq : ∀ op ∈ ops, Quiet op) : ∀ cs ∈ krun A (some k) ops, NoFreq cs :=
  krun_unarmed A ops (some k) (fun k' h => by cases h; exact hc) hq

/-- the servo a port installs when it leaves the slave state is such a servo -/
theorem fresh_servo_never_programs_a_frequency_partial (A : Arith) (c : Cfg) (k : Kalman) (h : Kalman.new A c = some k)
    (ops : List KOp) (hq : ∀ op ∈ ops, Quiet op) : ∀ cs ∈ krun A (some k) ops, NoFreq cs :=
  unarmed_servo_never_programs_a_frequency_partial A k (new_cfg A c k h).2 ops hq

/-- a history the hypotheses admit: peer delay results, an update, the demobilisation -/
example : ∀ op ∈ ([.meas ⟨5, none, none, some 100, none, none⟩ ⟨7, false, false⟩, .upd ⟨8, false, false⟩,
    .demob ⟨9, false, false⟩] : List KOp), Quiet op := by
  intro op h
  simp only [List.mem_cons, List.not_mem_nil, or_false] at h
  rcases h with h | h | h <;> subst h <;> simp [Quiet, PeerOnly]

/-- Port level: a port that leaves the slave state (or enters or leaves Faulty) demobilises its filter
exactly once; any other transition leaves the filter alone. -/
theorem leaving_slave_demobilizes_once (p : Port) (st : PState) :
    (p.setState st).2 = (if p.st.isSlave || p.st = .faulty || st = .faulty then [.demobilize] else []) := by
  unfold Port.setState; rfl

/-- the clamp never moves a frequency that already lies within the bound -/
theorem clamp_is_identity_inside (A : Arith) (cur err b : Nat) (h : Within b (A.add cur err)) :
    clampFrequency A cur err b = A.add cur err := by
  unfold clampFrequency
  simp only [h.1, h.2]; simp

/-! non-vacuity: the default bound 400.0 and the test-suite bound 10.0 are usable bounds; 400.00000000000006
(the value the code programmed before the `fix:` commit) is outside of 400.0 -/
example : GoodBound 0x4079000000000000 := by unfold GoodBound; decide
example : GoodBound 0x4024000000000000 := by unfold GoodBound; decide
example : ¬ Within 0x4079000000000000 0x4079000000000001 := by unfold Within; decide
example : Within 0x4079000000000000 0xC079000000000000 := by unfold Within; decide

/-! tie to the source: the constants of `chi_1` and the sample buffer size, as extracted from kalman.rs -/
theorem chi_constants_match_source :
    Generated.chiConsts = some [chiP, chiA1, chiA2, chiA3, chiA4, chiA5] ∧ Generated.estimatorSamples = some 32 := by
  decide

end Statime.C13
