import StatimeModel.Lemmas.TimersBmca
import StatimeModel.Props.C08
/-
C12 — No stuck states: ports keep progressing when the host obeys timer actions.

Property theorems only; the per-handler lemmas are in Lemmas/Timers.lean and Lemmas/TimersBmca.lean.
-/
namespace Statime.C12
open Statime

/-! ### a host that obeys the timer actions -/

/-- which timers of one port are armed (the filter update timer belongs to the filter) -/
structure Armed where
  ann : Bool := false
  sync : Bool := false
  delay : Bool := false
  rcpt : Bool := false
  deriving DecidableEq, Repr

def Armed.get (a : Armed) : Timer → Bool
  | .announce => a.ann
  | .sync => a.sync
  | .delay => a.delay
  | .receipt => a.rcpt
  | .filter => false

def Armed.set (a : Armed) (k : Timer) (b : Bool) : Armed :=
  match k with
  | .announce => { a with ann := b }
  | .sync => { a with sync := b }
  | .delay => { a with delay := b }
  | .receipt => { a with rcpt := b }
  | .filter => a

/-- a `Reset…Timer` action arms the timer -/
def Armed.arm (a : Armed) : Out → Armed
  | .reset k _ => a.set k true
  | _ => a

def Armed.after (a : Armed) (outs : List Out) : Armed := outs.foldl Armed.arm a

/-- a timer that fires is no longer armed -/
def Armed.fire (a : Armed) : Option Timer → Armed
  | some k => a.set k false
  | none => a

theorem get_set (a : Armed) (k k' : Timer) (b : Bool) (hk : k' ≠ .filter) :
    (a.set k b).get k' = if k' = k then b else a.get k' := by
  cases k <;> cases k' <;> simp_all [Armed.set, Armed.get]

theorem after_get (outs : List Out) : ∀ (a : Armed) (k : Timer), k ≠ .filter →
    ((a.after outs).get k = true ↔ a.get k = true ∨ ∃ d, Out.reset k d ∈ outs) := by
  induction outs with
  | nil => intro a k _; simp [Armed.after]
  | cons o os ih =>
    intro a k hk
    unfold Armed.after at ih ⊢
    rw [List.foldl_cons, ih (a.arm o) k hk]
    constructor
    · rintro (h | ⟨d, hd⟩)
      · cases o with
        | reset k' d' =>
          simp only [Armed.arm] at h
          rw [get_set a k' k true hk] at h
          by_cases e : k = k'
          · subst e; exact Or.inr ⟨d', List.mem_cons_self⟩
          · rw [if_neg e] at h; exact Or.inl h
        | _ => exact Or.inl h
      · exact Or.inr ⟨d, List.mem_cons_of_mem _ hd⟩
    · rintro (h | ⟨d, hd⟩)
      · left
        cases o with
        | reset k' d' =>
          simp only [Armed.arm]
          rw [get_set a k' k true hk]
          by_cases e : k = k'
          · rw [if_pos e]
          · rw [if_neg e]; exact h
        | _ => exact h
      · rcases List.mem_cons.1 hd with e | e
        · left
          rw [← e]
          simp only [Armed.arm]
          rw [get_set a k k true hk, if_pos rfl]
        · exact Or.inr ⟨d, e⟩

/-- the port has armed everything its state waits on -/
def Waits (p : Port) (a : Armed) : Prop := ∀ k, p.needs k = true → a.get k = true

theorem needs_not_filter (p : Port) (k : Timer) (h : p.needs k = true) : k ≠ .filter := by
  intro e; subst e; cases h

/-- **One handler call keeps the port supplied with timers** (unless it is the recovery from a peer-delay fault) -/
theorem waits_step (p p' : Port) (a : Armed) (outs : List Out) (fired : Option Timer)
    (hw : Waits p a) (hr : Rearm p p' outs fired) (hnr : ¬ (p.st = .faulty ∧ p'.st = .listening)) :
    Waits p' ((a.fire fired).after outs) := by
  intro k hk
  have hkf := needs_not_filter p' k hk
  rw [after_get outs _ k hkf]
  rcases hr k hk with ⟨h1, h2⟩ | h | h
  · left
    cases fired with
    | none => exact hw k h1
    | some f =>
      simp only [Armed.fire]
      rw [get_set a f k false hkf, if_neg (fun e => h2 (by rw [e]))]
      exact hw k h1
  · exact Or.inr h
  · exact absurd h hnr

/-! ### the instance under such a host -/

/-- an instance together with the armed timers of each port (by port number) -/
structure TInst where
  i : Inst
  armed : Nat → Armed

def outsOf (k : Nat) (obs : Obs) : List Out := (obs.filter (fun x => x.1 = k)).map (fun x => x.2)

/-- the timer of port `k` whose firing this host call is -/
def firedOn (op : Op) (k : Nat) : Option Timer :=
  match op with
  | .tmr j t => if j = k then some t else none
  | .tmrAnnounce j _ _ => if j = k then some .announce else none
  | _ => none

/-- the host fires only timers that are armed -/
def Enabled (t : TInst) (op : Op) : Prop :=
  ∀ k tm, firedOn op k = some tm → tm ≠ .filter → (t.armed k).get tm = true

def TInst.step (t : TInst) (op : Op) : R (TInst × Obs) :=
  (t.i.step op).map fun r =>
    ({ i := r.1, armed := fun k => ((t.armed k).fire (firedOn op k)).after (outsOf k r.2.1) }, r.2.1)

def TInst.new (d : DefaultDS) (pt : Bool) (tp : TimeProps) : TInst := { i := Inst.new d pt tp, armed := fun _ => {} }

/-- every port has armed what its state waits on -/
def AllWait (t : TInst) : Prop := ∀ (j : Nat) (p : Port), t.i.ports[j]? = some p → Waits p (t.armed (j + 1))

theorem outsOf_tag_same (k : Nat) (o : List Out) : outsOf k (tag k o) = o := by
  unfold outsOf tag
  induction o with
  | nil => rfl
  | cons x xs ih => simp only [List.map_cons, List.filter_cons, decide_true, if_true]; rw [ih]

theorem outsOf_tag_other (k k0 : Nat) (o : List Out) (h : k0 ≠ k) : outsOf k (tag k0 o) = [] := by
  unfold outsOf tag
  induction o with
  | nil => rfl
  | cons x xs ih => simp only [List.map_cons, List.filter_cons, h, decide_false, Bool.false_eq_true, if_false]; exact ih

theorem outsOf_append (k : Nat) (a b : Obs) : outsOf k (a ++ b) = outsOf k a ++ outsOf k b := by
  unfold outsOf; rw [List.filter_append, List.map_append]

theorem mem_outsOf (k : Nat) (obs : Obs) (o : Out) : o ∈ outsOf k obs ↔ (k, o) ∈ obs := by
  unfold outsOf
  constructor
  · intro h
    obtain ⟨x, hx, rfl⟩ := List.mem_map.1 h
    have := List.mem_filter.1 hx
    simp only [decide_eq_true_eq] at this
    obtain ⟨x1, x2⟩ := x
    simp only at this
    rw [← this.2]; exact this.1
  · intro h
    exact List.mem_map.2 ⟨(k, o), List.mem_filter.2 ⟨h, by simp⟩, rfl⟩

/-- every port-level host call re-arms what its port waits on afterwards -/
theorem portHandler_rearm (i : Inst) (op : Op) (k : Nat) (f : Port → R (Port × InstState × List Out × Nat))
    (hop : i.portHandler op = some (k, f)) (p p' : Port) (s' : InstState) (o : List Out) (q : Nat)
    (h : f p = .ok (p', s', o, q)) : Rearm p p' o (firedOn op k) := by
  cases op with
  | gen kk data =>
    simp only [Inst.portHandler, Option.some.injEq, Prod.mk.injEq] at hop
    obtain ⟨rfl, rfl⟩ := hop
    obtain ⟨r, hx, he⟩ := map_ok _ _ _ h
    simp only [Prod.mk.injEq] at he
    obtain ⟨e1, e2, e3, _⟩ := he
    obtain ⟨r1, r2, r3⟩ := r
    simp only at e1 e2 e3
    subst e1 e2 e3
    exact handleGeneralReceive_rearm _ _ _ _ _ _ hx
  | evt kk data ts =>
    simp only [Inst.portHandler, Option.some.injEq, Prod.mk.injEq] at hop
    obtain ⟨rfl, rfl⟩ := hop
    obtain ⟨r, hx, he⟩ := map_ok _ _ _ h
    simp only [Prod.mk.injEq] at he
    obtain ⟨e1, e2, e3, _⟩ := he
    obtain ⟨r1, r2, r3⟩ := r
    simp only at e1 e2 e3
    subst e1 e2 e3
    exact handleEventReceive_rearm _ _ _ _ _ _ _ hx
  | tmrAnnounce kk loose fq =>
    simp only [Inst.portHandler, Option.some.injEq, Prod.mk.injEq] at hop
    obtain ⟨rfl, rfl⟩ := hop
    obtain ⟨r, hx, he⟩ := map_ok _ _ _ h
    simp only [Prod.mk.injEq] at he
    obtain ⟨e1, e2, e3, _⟩ := he
    obtain ⟨r1, r2, r3⟩ := r
    simp only at e1 e2 e3
    subst e1 e2 e3
    simp only [firedOn, if_true]
    exact sendAnnounce_rearm _ _ _ _ _ _ _ hx
  | tmr kk t =>
    cases t with
    | announce =>
      simp only [Inst.portHandler, Option.some.injEq, Prod.mk.injEq] at hop
      obtain ⟨rfl, rfl⟩ := hop
      obtain ⟨r, hx, he⟩ := map_ok _ _ _ h
      simp only [Prod.mk.injEq] at he
      obtain ⟨e1, e2, e3, _⟩ := he
      obtain ⟨r1, r2, r3⟩ := r
      simp only at e1 e2 e3
      subst e1 e2 e3
      simp only [firedOn, if_true]
      exact sendAnnounce_rearm _ _ _ _ _ _ _ hx
    | sync =>
      simp only [Inst.portHandler, Option.some.injEq, Prod.mk.injEq] at hop
      obtain ⟨rfl, rfl⟩ := hop
      obtain ⟨r, hx, he⟩ := map_ok _ _ _ h
      simp only [Prod.mk.injEq] at he
      obtain ⟨e1, e2, e3, _⟩ := he
      obtain ⟨r1, r2⟩ := r
      simp only at e1 e2 e3
      subst e1 e2 e3
      simp only [firedOn, if_true]
      exact sendSync_rearm _ _ _ _ hx
    | delay =>
      simp only [Inst.portHandler, Option.some.injEq, Prod.mk.injEq] at hop
      obtain ⟨rfl, rfl⟩ := hop
      obtain ⟨r, hx, he⟩ := map_ok _ _ _ h
      simp only [Prod.mk.injEq] at he
      obtain ⟨e1, e2, e3, _⟩ := he
      obtain ⟨r1, r2⟩ := r
      simp only at e1 e2 e3
      subst e1 e2 e3
      simp only [firedOn, if_true]
      exact sendDelayRequest_rearm _ _ _ _ hx
    | receipt =>
      simp only [Inst.portHandler, Option.some.injEq, Prod.mk.injEq] at hop
      obtain ⟨rfl, rfl⟩ := hop
      simp only [Except.ok.injEq, Prod.mk.injEq] at h
      obtain ⟨e1, e2, e3, _⟩ := h
      subst e1 e2 e3
      simp only [firedOn, if_true]
      exact handleReceiptTimer_rearm p i.st
    | filter => simp [Inst.portHandler] at hop
  | txts kk ctx ts =>
    simp only [Inst.portHandler, Option.some.injEq, Prod.mk.injEq] at hop
    obtain ⟨rfl, rfl⟩ := hop
    obtain ⟨r, hx, he⟩ := map_ok _ _ _ h
    simp only [Prod.mk.injEq] at he
    obtain ⟨e1, e2, e3, _⟩ := he
    obtain ⟨r1, r2⟩ := r
    simp only at e1 e2 e3
    subst e1 e2 e3
    exact handleSendTimestamp_rearm _ _ _ _ _ _ hx
  | bmca _ => simp [Inst.portHandler] at hop
  | setSlaveOnly _ => simp [Inst.portHandler] at hop
  | setQuality _ => simp [Inst.portHandler] at hop
  | addPort _ => simp [Inst.portHandler] at hop

theorem rearm_congr {p0 p1 p2 p3 : Port} {outs : List Out} {f : Option Timer} (h01 : p1.st = p0.st) (h23 : p3.st = p2.st)
    (h : Rearm p1 p2 outs f) : Rearm p0 p3 outs f := by
  intro k hk
  rw [needs_congr p2 p3 h23 k] at hk
  rcases h k hk with ⟨a, b⟩ | a | ⟨a, b⟩
  · exact Or.inl ⟨by rw [← needs_congr p0 p1 h01 k]; exact a, b⟩
  · exact Or.inr (Or.inl a)
  · exact Or.inr (Or.inr ⟨by rw [← h01]; exact a, by rw [h23]; exact b⟩)

/-- a BMCA run hands every port pending actions that re-arm what its new state waits on -/
theorem bmca_rearm (i i' : Inst) (order : List Nat) (obs : Obs) (hnd : order.Nodup)
    (h : i.bmca order = .ok (i', obs)) :
    i'.ports.length = i.ports.length ∧
    ∀ (j : Nat) (p : Port), i.ports[j]? = some p → ∃ p', i'.ports[j]? = some p' ∧ Rearm p p' (outsOf (j + 1) obs) none := by
  unfold Inst.bmca at h
  split at h
  · cases h
  · obtain ⟨step, _, hw⟩ := orOv_ok _ _ _ h
    obtain ⟨_, _, hlen, _⟩ := C08.bmcaWith_ports i i' order step obs hnd hw
    refine ⟨hlen, ?_⟩
    unfold Inst.bmcaWith at hw
    simp only at hw
    obtain ⟨t1, t2, _⟩ := bmcaTakeBest_spec order i.ports []
    generalize bmcaTakeBest order i.ports [] = tb at hw t1 t2
    obtain ⟨ports1, lbs⟩ := tb
    simp only at hw t1 t2
    generalize (order.filterMap fun k =>
        match portAt ports1 k with
        | some p => bestForBmca p ((lbs.lookup k).getD none)
        | none => none) = cands at hw
    cases hap : bmcaApply (findBest cands) lbs order ports1 i.st [] [] with
    | error e => rw [hap] at hw; cases hw
    | ok v =>
      obtain ⟨ports2, s2, ev2, pend2⟩ := v
      rw [hap] at hw
      simp only at hw
      cases hag : bmcaAge step order ports2 with
      | error e => rw [hag] at hw; cases hw
      | ok ports3 =>
        rw [hag] at hw
        simp only [Except.ok.injEq, Prod.mk.injEq] at hw
        obtain ⟨hi', hobs⟩ := hw
        obtain ⟨_, a2⟩ := bmcaApply_rearm (findBest cands) lbs order hnd ports1 i.st [] [] ports2 s2 ev2 pend2 hap
        obtain ⟨g1, g2⟩ := bmcaAge_spec step order ports2 ports3 hag
        intro j p hp
        obtain ⟨p1, hp1, _, _, r3, _⟩ := t2 j p hp
        obtain ⟨p2, hp2, b1, b2⟩ := a2 j p1 hp1
        obtain ⟨p3, hp3, _, _, q3, _⟩ := g2 j p2 hp2
        refine ⟨p3, by rw [← hi']; exact hp3, ?_⟩
        have hj3 : j < ports3.length := by
          by_cases hl : j < ports3.length
          · exact hl
          · rw [List.getElem?_eq_none (Nat.le_of_not_lt hl)] at hp3; cases hp3
        have hcore : Rearm p1 p2 (outsOf (j + 1) obs) none := by
          by_cases hin : j + 1 ∈ order
          · have := b1 hin [] (by intro o ho; simp at ho)
            rw [List.append_nil] at this
            apply rearm_mono this
            intro o ho
            rw [mem_outsOf, ← hobs]
            apply List.mem_append_right
            simp only [List.mem_flatMap, List.mem_range]
            exact ⟨j, hj3, by simp only [tag, List.mem_map]; exact ⟨o, ho, rfl⟩⟩
          · rw [b2 hin]; exact rearm_refl _ _
        exact rearm_congr r3 q3 hcore

theorem firedOn_other (i : Inst) (op : Op) (k0 : Nat) (f : Port → R (Port × InstState × List Out × Nat))
    (hop : i.portHandler op = some (k0, f)) (k : Nat) (hk : k ≠ k0) : firedOn op k = none := by
  cases op with
  | tmr j t =>
    cases t <;> simp only [Inst.portHandler, Option.some.injEq, Prod.mk.injEq, reduceCtorEq] at hop <;>
      (try (obtain ⟨rfl, _⟩ := hop; simp only [firedOn]; rw [if_neg (fun e => hk e.symm)]))
  | tmrAnnounce j l q =>
    simp only [Inst.portHandler, Option.some.injEq, Prod.mk.injEq] at hop
    obtain ⟨rfl, _⟩ := hop
    simp only [firedOn]; rw [if_neg (fun e => hk e.symm)]
  | _ => rfl

theorem firedOn_noHandler (i : Inst) (op : Op) (hop : i.portHandler op = none) (k : Nat) (tm : Timer)
    (h : firedOn op k = some tm) : tm = .filter := by
  cases op with
  | tmr j t =>
    cases t with
    | filter =>
      simp only [firedOn] at h
      split at h
      · cases h; rfl
      · cases h
    | announce | sync | delay | receipt => simp [Inst.portHandler] at hop
  | tmrAnnounce j l q => simp [Inst.portHandler] at hop
  | _ => cases h

theorem rearm_filter (p : Port) (outs : List Out) (f : Option Timer) (h : ∀ tm, f = some tm → tm = .filter) :
    Rearm p p outs f := by
  intro k hk
  refine Or.inl ⟨hk, ?_⟩
  intro e
  have := h k e
  subst this
  cases hk

/-- **Every host call keeps every port supplied with the timers it waits on** — frames, transmit timestamps, BMCA runs,
setting changes, new ports, and the firing of any armed timer — except the step on which a port recovers from a
peer-delay fault (known finding `recovered-port-receipt-timer-not-armed`). -/
theorem step_allwait (t t' : TInst) (op : Op) (obs : Obs) (hw : AllWait t) (hinv : C08.Inv t.i)
    (hb : ∀ order, op = .bmca order → order.Nodup)
    (hnr : ∀ (j : Nat) (p p' : Port), t.i.ports[j]? = some p → t'.i.ports[j]? = some p' → ¬ (p.st = .faulty ∧ p'.st = .listening))
    (h : t.step op = .ok (t', obs)) : AllWait t' := by
  unfold TInst.step at h
  obtain ⟨r, hs, he⟩ := map_ok _ _ _ h
  obtain ⟨i', obs', q⟩ := r
  simp only [Prod.mk.injEq] at he
  obtain ⟨ht', hobs⟩ := he
  subst hobs
  have hti : t'.i = i' := by rw [← ht']
  have hta : ∀ k, t'.armed k = ((t.armed k).fire (firedOn op k)).after (outsOf k obs') := by intro k; rw [← ht']
  -- it suffices to give, for every port after the step, the port before (or none: a new port) and a Rearm fact
  suffices key : ∀ (j : Nat) (p' : Port), i'.ports[j]? = some p' →
      (∃ p, t.i.ports[j]? = some p ∧ Rearm p p' (outsOf (j + 1) obs') (firedOn op (j + 1))) ∨
      (t.i.ports[j]? = none ∧ p'.st = .listening ∧ ∃ d, Out.reset .receipt d ∈ outsOf (j + 1) obs') by
    intro j p' hp'
    rw [hti] at hp'
    rw [hta]
    rcases key j p' hp' with ⟨p, hp, hr⟩ | ⟨_, hl, d, hd⟩
    · exact waits_step p p' _ _ _ (hw j p hp) hr (hnr j p p' hp (by rw [hti]; exact hp'))
    · intro k hk
      have hkf := needs_not_filter p' k hk
      rw [after_get _ _ k hkf]
      cases k with
      | receipt => exact Or.inr ⟨d, hd⟩
      | announce | sync | delay => simp [Port.needs, hl, PState.isMaster, PState.isSlave] at hk
      | filter => cases hk
  intro j p' hp'
  cases hph : t.i.portHandler op with
  | some kf =>
    obtain ⟨k0, f⟩ := kf
    simp only [Inst.step, hph] at hs
    unfold Inst.withPort at hs
    cases hk0 : portAt t.i.ports k0 with
    | none =>
      rw [hk0] at hs; simp only [Except.ok.injEq, Prod.mk.injEq] at hs
      obtain ⟨e1, e2, _⟩ := hs
      subst e1 e2
      left
      refine ⟨p', hp', ?_⟩
      have hne : j + 1 ≠ k0 := by
        intro e; subst e; rw [portAt_succ, hp'] at hk0; cases hk0
      rw [firedOn_other t.i op k0 f hph (j + 1) hne]
      exact rearm_refl _ _
    | some p0 =>
      rw [hk0] at hs
      simp only at hs
      cases hx : f p0 with
      | error e => rw [hx] at hs; cases hs
      | ok v =>
        obtain ⟨p0', s', o, q'⟩ := v
        rw [hx] at hs
        simp only [Except.ok.injEq, Prod.mk.injEq] at hs
        obtain ⟨e1, e2, _⟩ := hs
        obtain ⟨k1, hkl, hkg⟩ := portAt_some hk0
        rw [← e1] at hp'
        simp only at hp'
        rw [getElem?_setPort t.i.ports k0 p0' j k1 hkl] at hp'
        left
        by_cases hj : j + 1 = k0
        · rw [if_pos hj] at hp'; cases hp'
          have hjj : j = k0 - 1 := by omega
          refine ⟨p0, by rw [hjj]; exact hkg, ?_⟩
          rw [← e2, hj, outsOf_tag_same]
          exact portHandler_rearm t.i op k0 f hph p0 p' s' o q' hx
        · rw [if_neg hj] at hp'
          refine ⟨p', hp', ?_⟩
          rw [← e2, outsOf_tag_other (j + 1) k0 o (fun e => hj e.symm), firedOn_other t.i op k0 f hph (j + 1) hj]
          exact rearm_refl _ _
  | none =>
    have hfil : ∀ tm, firedOn op (j + 1) = some tm → tm = .filter := fun tm => firedOn_noHandler t.i op hph (j + 1) tm
    cases op with
    | bmca order =>
      have hnd := hb order rfl
      simp only [Inst.step, hph, Inst.other] at hs
      obtain ⟨r, hx, he⟩ := map_ok _ _ _ hs
      simp only [Prod.mk.injEq] at he
      obtain ⟨e1, e2, _⟩ := he
      obtain ⟨r1, r2⟩ := r
      simp only at e1 e2
      subst e1 e2
      left
      obtain ⟨hlen, hall⟩ := bmca_rearm t.i r1 order r2 hnd hx
      have hj : j < t.i.ports.length := by
        rw [← hlen]
        by_cases hl : j < r1.ports.length
        · exact hl
        · rw [List.getElem?_eq_none (Nat.le_of_not_lt hl)] at hp'; cases hp'
      obtain ⟨p'', hp'', hr⟩ := hall j (t.i.ports[j]) (List.getElem?_eq_getElem hj)
      rw [hp'] at hp''; cases hp''
      refine ⟨t.i.ports[j], List.getElem?_eq_getElem hj, ?_⟩
      have : firedOn (Op.bmca order) (j + 1) = none := rfl
      rw [this]; exact hr
    | setSlaveOnly b =>
      simp only [Inst.step, hph, Inst.other, Except.ok.injEq, Prod.mk.injEq] at hs
      obtain ⟨e1, e2, _⟩ := hs
      subst e1 e2
      exact Or.inl ⟨p', hp', rearm_filter _ _ _ hfil⟩
    | setQuality qq =>
      simp only [Inst.step, hph, Inst.other, Except.ok.injEq, Prod.mk.injEq] at hs
      obtain ⟨e1, e2, _⟩ := hs
      subst e1 e2
      exact Or.inl ⟨p', hp', rearm_filter _ _ _ hfil⟩
    | addPort cfg =>
      simp only [Inst.step, hph, Inst.other] at hs
      obtain ⟨pn, hn, hports, _, _, _, ho⟩ := addPort_ok t.i i' cfg obs' q hs
      have hnew := Port.new_spec _ _ _ hn
      rw [hports] at hp'
      by_cases hj : j < t.i.ports.length
      · rw [List.getElem?_append_left hj] at hp'
        exact Or.inl ⟨p', hp', rearm_filter _ _ _ hfil⟩
      · rw [List.getElem?_append_right (Nat.le_of_not_lt hj)] at hp'
        cases hxx : j - t.i.ports.length with
        | zero =>
          rw [hxx] at hp'
          simp only [List.getElem?_cons_zero, Option.some.injEq] at hp'
          right
          refine ⟨List.getElem?_eq_none (Nat.le_of_not_lt hj), by rw [← hp']; exact hnew.2.2, .rand, ?_⟩
          rw [mem_outsOf, ho]
          have hw1 := hinv.1.1
          have : j + 1 = t.i.st.dflt.numberPorts + 1 := by omega
          rw [this]
          simp [tag]
        | succ n => rw [hxx] at hp'; cases hp'
    | tmr kk tt =>
      cases tt with
      | filter =>
        simp only [Inst.step, hph, Inst.other, Except.ok.injEq, Prod.mk.injEq] at hs
        obtain ⟨e1, e2, _⟩ := hs
        subst e1 e2
        exact Or.inl ⟨p', hp', rearm_filter _ _ _ hfil⟩
      | announce => simp [Inst.portHandler] at hph
      | sync => simp [Inst.portHandler] at hph
      | delay => simp [Inst.portHandler] at hph
      | receipt => simp [Inst.portHandler] at hph
    | gen _ _ => simp [Inst.portHandler] at hph
    | evt _ _ _ => simp [Inst.portHandler] at hph
    | tmrAnnounce _ _ _ => simp [Inst.portHandler] at hph
    | txts _ _ _ => simp [Inst.portHandler] at hph

/-! ### every reachable state -/

/-- no port goes from Faulty to Listening in this step (the excepted recovery) -/
def NoRecovery (t t' : TInst) : Prop :=
  ∀ (j : Nat) (p p' : Port), t.i.ports[j]? = some p → t'.i.ports[j]? = some p' → ¬ (p.st = .faulty ∧ p'.st = .listening)

/-- a host history: BMCA runs are passed every port once; no step is a recovery from a peer-delay fault -/
def GoodT : TInst → List Op → Prop
  | _, [] => True
  | t, op :: ops =>
    (∀ order, op = .bmca order → order.Nodup ∧ ∀ j, j < t.i.ports.length → j + 1 ∈ order) ∧
    ∀ t' obs, t.step op = .ok (t', obs) → NoRecovery t t' ∧ GoodT t' ops

def trun (t : TInst) : List Op → Option TInst
  | [] => some t
  | op :: ops =>
    match t.step op with
    | .error _ => none
    | .ok (t', _) => trun t' ops

theorem new_allwait (d : DefaultDS) (pt : Bool) (tp : TimeProps) : AllWait (TInst.new d pt tp) := by
  intro j p hp; simp [TInst.new, Inst.new] at hp

/-- **No reachable state leaves a port waiting on a timer that was never armed**: under a host that applies the
returned timer actions, in every state reachable from a new instance through frames, timestamps, BMCA runs, setting
changes, new ports and timer firings — a Listening port has its announce receipt timer armed, a Master its announce
and sync timers, a Slave its delay request timer. (Recovery from a peer-delay fault excepted: known finding.) -/
theorem reachable_allwait (d : DefaultDS) (pt : Bool) (tp : TimeProps) (ops : List Op) (t' : TInst)
    (hg : GoodT (TInst.new d pt tp) ops) (h : trun (TInst.new d pt tp) ops = some t') : AllWait t' := by
  have key : ∀ (ops : List Op) (t : TInst), AllWait t → C08.Inv t.i → GoodT t ops → trun t ops = some t' → AllWait t' := by
    intro ops
    induction ops with
    | nil => intro t hw _ _ hr; simp only [trun, Option.some.injEq] at hr; rw [← hr]; exact hw
    | cons op ops ih =>
      intro t hw hinv hgt hr
      simp only [trun] at hr
      cases hs : t.step op with
      | error e => rw [hs] at hr; cases hr
      | ok v =>
        obtain ⟨t2, obs⟩ := v
        rw [hs] at hr
        simp only at hr
        obtain ⟨hnr, hg2⟩ := hgt.2 t2 obs hs
        have hw2 := step_allwait t t2 op obs hw hinv (fun order ho => (hgt.1 order ho).1) hnr hs
        have hinv2 : C08.Inv t2.i := by
          unfold TInst.step at hs
          obtain ⟨r, hs', he⟩ := map_ok _ _ _ hs
          obtain ⟨i2, o2, q2⟩ := r
          simp only [Prod.mk.injEq] at he
          have : t2.i = i2 := by rw [← he.1]
          rw [this]
          exact C08.step_inv t.i i2 op o2 q2 hinv hgt.1 hs'
        exact ih t2 hw2 hinv2 hg2 hr
  exact key ops _ (new_allwait d pt tp) (C08.init_inv d pt tp) hg h

/-- **Known finding, on the model**: the call on which a Faulty port recovers touches no timer — so a port that was
Master when the fault hit comes back Listening with its announce receipt timer not armed. -/
theorem recovery_arms_nothing (p p' : Port) (outs : List Out) (h : p.timeMeasurement = .ok (p', outs)) :
    ∀ o ∈ outs, o.isReset = false :=
  (timeMeasurement_calm p p' outs h).2

/-! ### progress -/

/-- **Silence, Listening**: when the announce receipt timer of a port fires (it is armed: `reachable_allwait`) on an
instance that may be master, the port becomes Master and both its periodic timers are started at once -/
theorem receipt_timeout_makes_master (p : Port) (s : InstState) (hf : p.st ≠ .faulty) (hso : s.dflt.slaveOnly = false) :
    (p.handleReceiptTimer s).1.st = .master ∧
    Out.reset .announce (.exact 0) ∈ (p.handleReceiptTimer s).2 ∧ Out.reset .sync (.exact 0) ∈ (p.handleReceiptTimer s).2 := by
  unfold Port.handleReceiptTimer
  rw [if_neg hf, hso]
  simp only [Bool.false_eq_true, if_false]
  split
  · exact ⟨rfl, List.mem_append_right _ List.mem_cons_self, List.mem_append_right _ (List.mem_cons_of_mem _ List.mem_cons_self)⟩
  · rename_i hm
    have : p.st = .master := by
      cases hh : p.st <;> simp_all
    exact ⟨this, List.mem_cons_self, List.mem_cons_of_mem _ List.mem_cons_self⟩

/-- **Silence, Passive or Slave**: once the foreign master records have expired (C06: within the foreign master time
window) the BMCA decision for a port that is not Listening is M1 or M2 … -/
theorem silent_decision (own : DefaultDS) :
    recommend own none none false = some (.m1 own) ∨ recommend own none none false = some (.m2 own) := by
  unfold recommend
  simp only [Option.isNone_none, Bool.and_false, Bool.false_eq_true, if_false]
  split
  · left; rfl
  · right; rfl

/-- … which moves it to Master and starts both periodic timers (unless the instance is slave-only or the port is
Faulty or still multiport-disabled — that mark ages out within one announce interval) -/
theorem m_decision_makes_master (p : Port) (r : Recommended) (d : DefaultDS) (hr : (∃ x, r = .m1 x) ∨ ∃ x, r = .m2 x)
    (hso : d.slaveOnly = false) (hmp : p.multiportDisable = none) (hf : p.st ≠ .faulty) (hm : p.st ≠ .master) :
    portMove p r d = some (.master, some [.reset .announce (.exact 0), .reset .sync (.exact 0)]) := by
  rcases hr with ⟨x, rfl⟩ | ⟨x, rfl⟩ <;> cases hst : p.st <;> simp_all [portMove]

/-- **Master, indefinitely**: every firing of the announce timer emits an Announce and re-arms the timer with the
configured interval, and the port stays Master -/
theorem master_keeps_announcing (p p' : Port) (s : InstState) (q q' : List FwdTlv) (loose : Bool) (outs : List Out)
    (hm : p.st = .master) (h : p.sendAnnounce s q loose = .ok (p', outs, q')) :
    p'.st = .master ∧ ∃ m, outs = [.reset .announce (.exact (intervalNs p.cfg.announceLog)), .sendGeneral (encode m) false] ∧
      m.body.type = .announce := by
  rcases sendAnnounce_shape p p' s q q' loose outs h with ⟨_, hp, _, ho⟩ | ⟨hn, _⟩
  · exact ⟨by rw [hp]; exact hm, _, ho, rfl⟩
  · exact absurd hm hn

/-- … and every firing of the sync timer emits a Sync and re-arms it with the configured interval -/
theorem master_keeps_syncing (p p' : Port) (s : InstState) (outs : List Out) (hm : p.st = .master)
    (h : p.sendSync s = .ok (p', outs)) :
    p'.st = .master ∧ ∃ ctx m, outs = [.reset .sync (.exact (intervalNs p.cfg.syncLog)), .sendEvent ctx (encode m) false] ∧
      m.body.type = .sync := by
  rcases sendSync_shape p p' s outs h with ⟨_, hp, ho⟩ | ⟨hn, _⟩
  · exact ⟨by rw [hp]; exact hm, _, _, ho, rfl⟩
  · exact absurd hm hn

/-- **A better master announcing steadily**: decision S1 makes the port its Slave and hands it both timers a Slave
needs, the delay request timer due at once -/
theorem s1_decision_makes_slave (p : Port) (a : Ann) (d : DefaultDS) (hf : p.st ≠ .faulty)
    (hnew : ∀ r sy dl l, p.st = .slave r sy dl l → r ≠ a.hdr.src) :
    portMove p (.s1 a) d = some (.slave a.hdr.src .empty .empty none, some [.reset .receipt .rand, .reset .delay (.exact 0)]) := by
  cases hst : p.st with
  | slave r sy dl l =>
    have := hnew r sy dl l hst
    simp [portMove, hst, this]
  | faulty => exact absurd hst hf
  | listening | master | passive => simp [portMove, hst]

/-- **Slave, at the configured cadence**: every firing of the delay request timer of a Slave port emits a Delay_Req
(Pdelay_Req on a P2P port) and re-arms the timer; the port stays Slave -/
theorem slave_keeps_requesting (p p' : Port) (s : InstState) (outs : List Out) (hs : p.st.isSlave = true)
    (h : p.sendDelayRequest s = .ok (p', outs)) :
    p'.st.isSlave = true ∧ ∃ ctx m ll, outs = [.reset .delay .rand, .sendEvent ctx (encode m) ll] ∧
      (m.body.type = .delayReq ∨ m.body.type = .pdelayReq) := by
  rcases sendDelayRequest_shape p p' s outs h with ⟨_, hp, ho⟩ | ⟨_, remote, sy, dl, last, hst, hp, ho⟩ | ⟨_, hns, _⟩
  · exact ⟨by rw [hp]; exact hs, _, _, _, ho, Or.inr rfl⟩
  · exact ⟨by rw [hp]; rfl, _, _, _, ho, Or.inl rfl⟩
  · rw [hs] at hns; cases hns

end Statime.C12
